(* Proofs_Gen.v — the B-spline generator (C01): the splines produced by
   generateBSplines<p>(knots) are exactly the Cox–de Boor B-splines of the
   knot vector.

   Part A: std::unique on a sorted vector, the grid of the generator, both
           constructors.
   Part C: the generated splines: how many, their invariants, and that the
           i-th one denotes B_{i,p} on every grid interval.
   Part B (placed after C in this file): facts about the textbook recursion
           [B] of Spec_Gen.v alone (local support, non-negativity, partition
           of unity).
   Finally: evaluation of a generated spline inside a grid interval, and a
           non-vacuity example over the rationals. *)
From Coq Require Import List Arith NArith ZArith Bool Lia ZifyBool ZifyN Field Ring.
From BSpl Require Import ListAux Scalar Outcome Support Poly Spline Ops Generator
  Spec Spec_Ops Spec_Gen
  Proofs_Support Proofs_Scalar Proofs_Outcome Proofs_Poly Proofs_Eval Proofs_Spline Proofs_Ops.
Import ListNotations.

Ltac Zify.zify_post_hook ::= Z.div_mod_to_equations.

Section GenFacts.
  Context {F : Type} {K : Ops F} {L : Laws K}.
  Add Field Ffgen : (@Fth F K L).

  (* ================================================================== *)
  (* Part A: [unique] and the grid                                       *)
  (* ================================================================== *)

  Lemma unique_cons2 (a b : F) r :
    unique (a :: b :: r) = if feqb a b then unique (b :: r) else a :: unique (b :: r).
  Proof. reflexivity. Qed.

  Lemma unique_single (a : F) : unique [a] = [a].
  Proof. reflexivity. Qed.

  (* std::unique keeps the head *)
  Lemma unique_head (a : F) r : exists u, unique (a :: r) = a :: u.
  Proof.
    revert a; induction r as [|b r IH]; intros a.
    - exists []. reflexivity.
    - rewrite unique_cons2. destruct (feqb a b) eqn:E.
      + apply feqb_true in E. subst b. apply IH.
      + eauto.
  Qed.

  Lemma nondecreasing_nil : nondecreasing (@nil F).
  Proof. intros [|i] a b Ha Hb; discriminate. Qed.

  Lemma nondecreasing_single (a : F) : nondecreasing [a].
  Proof. intros [|i] x y Hx Hy; [discriminate | destruct i; discriminate]. Qed.

  Lemma nondecreasing_cons (a b : F) r :
    nondecreasing (a :: b :: r) <-> fleb a b = true /\ nondecreasing (b :: r).
  Proof.
    unfold nondecreasing. split.
    - intros H. split.
      + apply (H 0%nat a b); reflexivity.
      + intros i x y Hx Hy. apply (H (S i) x y); assumption.
    - intros [H1 H2] i x y Hx Hy. destruct i as [|i].
      + cbn [nth_error] in Hx, Hy. injection Hx as <-. injection Hy as <-. exact H1.
      + apply (H2 i x y); assumption.
  Qed.

  Lemma nondecreasing_tail (a : F) l : nondecreasing (a :: l) -> nondecreasing l.
  Proof. intros H i x y Hx Hy. apply (H (S i) x y); assumption. Qed.

  Lemma unique_increasing (ks : list F) : nondecreasing ks -> increasing (unique ks).
  Proof.
    induction ks as [|a ks IH]; intros H.
    - apply increasing_nil.
    - destruct ks as [|b r].
      + apply increasing_single.
      + apply nondecreasing_cons in H as [Hab Hr]. rewrite unique_cons2.
        destruct (feqb a b) eqn:E; [apply IH; exact Hr|].
        destruct (unique_head b r) as [u Hu]. specialize (IH Hr). rewrite Hu in *.
        apply increasing_cons. split; [|exact IH].
        apply fleb_true in Hab as [Hab|Hab]; [exact Hab|].
        apply feqb_false in E. contradiction.
  Qed.

  (* conversely: a descent of the input survives std::unique *)
  Lemma unique_increasing_inv (ks : list F) : increasing (unique ks) -> nondecreasing ks.
  Proof.
    induction ks as [|a ks IH]; intros H.
    - apply nondecreasing_nil.
    - destruct ks as [|b r].
      + apply nondecreasing_single.
      + rewrite unique_cons2 in H. apply nondecreasing_cons.
        destruct (feqb a b) eqn:E.
        * apply feqb_true in E. subst b. split; [apply fleb_refl | apply IH; exact H].
        * destruct (unique_head b r) as [u Hu]. rewrite Hu in *.
          apply increasing_cons in H as [Hab Hr].
          split; [apply fleb_true; left; exact Hab | apply IH; exact Hr].
  Qed.

  Lemma unique_In (ks : list F) a : In a ks <-> In a (unique ks).
  Proof.
    induction ks as [|c ks IH]; [reflexivity|].
    destruct ks as [|b r]; [reflexivity|].
    rewrite unique_cons2. destruct (feqb c b) eqn:E.
    - apply feqb_true in E. subst b. rewrite <- IH. cbn [In]. tauto.
    - change (In a (c :: unique (b :: r))) with (c = a \/ In a (unique (b :: r))).
      rewrite <- IH. cbn [In]. tauto.
  Qed.

  Lemma knot_in_grid (ks : list F) a : In a ks -> In a (unique ks).
  Proof. apply unique_In. Qed.

  Lemma grid_in_knots (ks : list F) a : In a (unique ks) -> In a ks.
  Proof. apply unique_In. Qed.

  Lemma unique_length_le (ks : list F) : (length (unique ks) <= length ks)%nat.
  Proof.
    induction ks as [|a ks IH]; [cbn; lia|].
    destruct ks as [|b r]; [cbn; lia|].
    rewrite unique_cons2. destruct (feqb a b); cbn [length] in *; lia.
  Qed.

  Lemma two_distinct_unique_ge2 (ks : list F) : two_distinct ks -> (2 <= length (unique ks))%nat.
  Proof.
    intros (i & j & a & b & Ha & Hb & Hab).
    apply nth_error_In, unique_In in Ha. apply nth_error_In, unique_In in Hb.
    destruct (unique ks) as [|c [|d u]]; cbn [length]; [contradiction| |lia].
    exfalso. cbn [In] in Ha, Hb. apply Hab.
    destruct Ha as [<-|[]], Hb as [<-|[]]. reflexivity.
  Qed.

  Lemma unique_length_ge2 (ks : list F) :
    nondecreasing ks -> two_distinct ks -> (2 <= length (unique ks))%nat.
  Proof. intros _. apply two_distinct_unique_ge2. Qed.

  Lemma GInv_unique (ks : list F) :
    nondecreasing ks -> two_distinct ks -> (nlen ks < 2 ^ 63)%N -> GInv (unique ks).
  Proof.
    intros Hn Hd Hl. pose proof (unique_length_ge2 ks Hn Hd) as H2.
    pose proof (unique_length_le ks) as Hle. unfold GInv, nlen in *.
    split; [lia|]. split; [lia|]. apply unique_increasing. exact Hn.
  Qed.

  Lemma grid_ctor_unique (ks : list F) :
    nondecreasing ks -> two_distinct ks -> grid_ctor (unique ks) = Ok (unique ks).
  Proof.
    intros Hn Hd.
    destruct (proj2 (grid_ctor_iff (unique ks))) as [g Hg].
    - pose proof (unique_length_ge2 ks Hn Hd). unfold nlen. split; [lia|].
      apply unique_increasing. exact Hn.
    - rewrite Hg. f_equal. apply grid_ctor_ok. exact Hg.
  Qed.

  Lemma gen_ctor1_ok (ks : list F) :
    nondecreasing ks -> two_distinct ks -> (nlen ks < 2 ^ 63)%N ->
    gen_ctor1 ks = Ok (mkGen (unique ks) ks) /\ GInv (unique ks).
  Proof.
    intros Hn Hd Hl. split; [|apply GInv_unique; assumption].
    unfold gen_ctor1. rewrite grid_ctor_unique by assumption. reflexivity.
  Qed.

  Lemma gen_ctor1_iff (ks : list F) : (nlen ks < 2 ^ 63)%N ->
    ((exists gn, gen_ctor1 ks = Ok gn) <-> nondecreasing ks /\ two_distinct ks).
  Proof.
    intros Hl. split.
    - intros [gn H]. unfold gen_ctor1 in H. apply bind_ok_inv in H as (g & Hg & _).
      destruct (proj1 (grid_ctor_iff (unique ks)) (ex_intro _ g Hg)) as [H2 Hinc].
      split; [apply unique_increasing_inv; exact Hinc|].
      unfold nlen in H2.
      destruct (unique ks) as [|c [|d u]] eqn:E; cbn [length] in H2; try lia.
      apply increasing_cons in Hinc as [Hcd _].
      assert (In c ks) as Hc by (apply unique_In; rewrite E; cbn [In]; auto).
      assert (In d ks) as Hd by (apply unique_In; rewrite E; cbn [In]; auto).
      apply In_nth_error in Hc as [i Hi]. apply In_nth_error in Hd as [j Hj].
      exists i, j, c, d. split; [exact Hi|]. split; [exact Hj|]. apply flt_neq. exact Hcd.
    - intros [Hn Hd]. eexists. apply gen_ctor1_ok; assumption.
  Qed.

  (* a constant vector is rejected with MISSING_DATA, a vector with a descent
     with INCONSISTENT_DATA *)
  Lemma gen_ctor1_constant (ks : list F) :
    ~ two_distinct ks -> gen_ctor1 ks = Throw MISSING_DATA.
  Proof.
    intros Hd. unfold gen_ctor1.
    assert (grid_ctor (unique ks) = Throw MISSING_DATA) as ->; [|reflexivity].
    apply grid_ctor_missing. unfold nlen.
    destruct (unique ks) as [|c [|d u]] eqn:E; cbn [length]; try lia.
    exfalso. apply Hd.
    assert (In c ks) as Hc by (apply unique_In; rewrite E; cbn [In]; auto).
    assert (In d ks) as Hd' by (apply unique_In; rewrite E; cbn [In]; auto).
    apply In_nth_error in Hc as [i Hi]. apply In_nth_error in Hd' as [j Hj].
    exists i, j, c, d. split; [exact Hi|]. split; [exact Hj|].
    intros ->.
    (* c :: c :: u cannot be the result of unique *)
    clear - E L. revert E. generalize ks. clear ks.
    induction ks as [|a ks IH]; [discriminate|].
    destruct ks as [|b r]; [discriminate|].
    rewrite unique_cons2. destruct (feqb a b) eqn:Eab; [exact IH|].
    destruct (unique_head b r) as [w Hw]. rewrite Hw. intros [= -> -> _].
    rewrite feqb_refl in Eab. discriminate.
  Qed.

  Lemma gen_ctor1_descent (ks : list F) :
    two_distinct ks -> ~ nondecreasing ks -> gen_ctor1 ks = Throw INCONSISTENT_DATA.
  Proof.
    intros Hd Hn. unfold gen_ctor1.
    assert (grid_ctor (unique ks) = Throw INCONSISTENT_DATA) as ->; [|reflexivity].
    apply grid_ctor_inconsistent. split.
    - pose proof (two_distinct_unique_ge2 ks Hd). unfold nlen. lia.
    - intros H. apply Hn. apply unique_increasing_inv. exact H.
  Qed.

  Lemma gen_ctor2_ok (ks g : list F) :
    nondecreasing ks -> two_distinct ks -> (nlen ks < 2 ^ 63)%N -> g = unique ks ->
    gen_ctor2 ks g = Ok (mkGen (unique ks) ks).
  Proof.
    intros Hn Hd Hl ->. unfold gen_ctor2. rewrite grid_ctor_unique by assumption. cbn [bind].
    rewrite grid_eqb_refl. reflexivity.
  Qed.

  Lemma gen_ctor2_mismatch (ks g : list F) :
    nondecreasing ks -> two_distinct ks -> (nlen ks < 2 ^ 63)%N -> g <> unique ks ->
    gen_ctor2 ks g = Throw INCONSISTENT_DATA.
  Proof.
    intros Hn Hd Hl Hg. unfold gen_ctor2. rewrite grid_ctor_unique by assumption. cbn [bind].
    destruct (grid_eqb g (unique ks)) eqn:E; [|reflexivity].
    apply grid_eqb_eq in E. contradiction.
  Qed.

  (* ================================================================== *)
  (* knots and grid points                                               *)
  (* ================================================================== *)

  Lemma knot_nth_error (ks : list F) i : (i < length ks)%nat -> nth_error ks i = Some (knot ks i).
  Proof. intros H. unfold knot. apply nth_error_nth'. exact H. Qed.

  Lemma nondecreasing_step (ks : list F) i : nondecreasing ks -> (i + 1 < length ks)%nat ->
    fleb (knot ks i) (knot ks (i + 1)) = true.
  Proof.
    intros Hn Hi. apply (Hn i); [apply knot_nth_error; lia|].
    replace (S i) with (i + 1)%nat by lia. apply knot_nth_error. exact Hi.
  Qed.

  Lemma nondecreasing_knot_le (ks : list F) i j : nondecreasing ks -> (i <= j)%nat ->
    (j < length ks)%nat -> fleb (knot ks i) (knot ks j) = true.
  Proof.
    intros Hn Hij. induction Hij as [|j Hij IH]; intros Hj.
    - apply fleb_refl.
    - apply (fle_trans _ (knot ks j)); [apply IH; lia|].
      replace (S j) with (j + 1)%nat by lia. apply nondecreasing_step; [exact Hn | lia].
  Qed.

  (* two consecutive distinct knots are consecutive grid points *)
  Lemma consecutive_grid (ks : list F) i a b :
    nth_error ks i = Some a -> nth_error ks (S i) = Some b -> a <> b ->
    exists j, nth_error (unique ks) j = Some a /\ nth_error (unique ks) (S j) = Some b.
  Proof.
    revert i; induction ks as [|c ks IH]; intros i Ha Hb Hab; [destruct i; discriminate|].
    destruct ks as [|d r]; [destruct i; discriminate|].
    rewrite unique_cons2. destruct i as [|i].
    - cbn [nth_error] in Ha, Hb. injection Ha as ->. injection Hb as ->.
      apply feqb_false in Hab. rewrite Hab.
      destruct (unique_head b r) as [u ->]. exists 0%nat. split; reflexivity.
    - cbn [nth_error] in Ha. change (nth_error (d :: r) (S i) = Some b) in Hb.
      destruct (IH i Ha Hb Hab) as (j & Hj1 & Hj2).
      destruct (feqb c d); [exists j | exists (S j)]; split; assumption.
  Qed.

  Lemma knot_grid_index (ks : list F) i : nondecreasing ks -> (i + 1 < length ks)%nat ->
    fltb (knot ks i) (knot ks (i + 1)) = true ->
    exists j, nth_error (unique ks) j = Some (knot ks i) /\
              nth_error (unique ks) (S j) = Some (knot ks (i + 1)).
  Proof.
    intros Hn Hi Hlt. apply (consecutive_grid ks i).
    - apply knot_nth_error. lia.
    - replace (S i) with (i + 1)%nat by lia. apply knot_nth_error. exact Hi.
    - apply flt_neq. exact Hlt.
  Qed.

  (* ================================================================== *)
  (* Part C: the generated splines                                       *)
  (* ================================================================== *)

  (* B_{i,p} restricted to grid interval k, as a polynomial function of all x:
     the indicator of order 0 is replaced by "[t_i, t_{i+1}) is grid interval k" *)
  Fixpoint Bk (ks : list F) (p i k : nat) (x : F) : F :=
    match p with
    | O => if fltb (knot ks i) (knot ks (i + 1)) && feqb (knot ks i) (nth k (unique ks) f0)
           then f1 else f0
    | S q =>
        ((if fltb (knot ks i) (knot ks (i + q + 1))
          then (x - knot ks i) / (knot ks (i + q + 1) - knot ks i) * Bk ks q i k x else f0)
         + (if fltb (knot ks (i + 1)) (knot ks (i + q + 2))
            then (knot ks (i + q + 2) - x) / (knot ks (i + q + 2) - knot ks (i + 1))
                 * Bk ks q (i + 1) k x
            else f0))%F
    end.

  Lemma B0_eq_Bk (ks : list F) i k x : nondecreasing ks -> (i + 1 < length ks)%nat ->
    (k + 1 < length (unique ks))%nat ->
    fleb (nth k (unique ks) f0) x = true -> fltb x (nth (k + 1) (unique ks) f0) = true ->
    B ks 0 i x = Bk ks 0 i k x.
  Proof.
    intros Hn Hi Hk Hlo Hhi. cbn [B Bk].
    pose proof (unique_increasing ks Hn) as Hinc.
    assert (nth_error (unique ks) k = Some (nth k (unique ks) f0)) as Ek
      by (apply nth_error_nth'; lia).
    assert (nth_error (unique ks) (S k) = Some (nth (k + 1) (unique ks) f0)) as Ek1
      by (replace (S k) with (k + 1)%nat by lia; apply nth_error_nth'; lia).
    set (gk := nth k (unique ks) f0) in *. set (gk1 := nth (k + 1) (unique ks) f0) in *.
    destruct (fltb (knot ks i) (knot ks (i + 1))) eqn:Elt; cbn [andb].
    - destruct (knot_grid_index ks i Hn Hi Elt) as (j & Hj & Hj1).
      destruct (feqb (knot ks i) gk) eqn:Eq.
      + apply feqb_true in Eq.
        assert (j = k) as ->
          by (apply (increasing_inj (unique ks) j k (knot ks i)); [exact Hinc | exact Hj | congruence]).
        assert (knot ks (i + 1) = gk1) as E1 by congruence.
        rewrite Eq, E1, Hlo, Hhi. reflexivity.
      + apply feqb_false in Eq.
        destruct (fleb (knot ks i) x) eqn:E1; [|reflexivity].
        destruct (fltb x (knot ks (i + 1))) eqn:E2; [|reflexivity]. exfalso.
        destruct (Nat.lt_trichotomy j k) as [Hjk|[Hjk|Hjk]].
        * (* g_{j+1} <= g_k <= x < g_{j+1} *)
          pose proof (increasing_le (unique ks) (S j) k _ _ Hinc ltac:(lia) Hj1 Ek) as H1.
          pose proof (fle_lt_trans _ _ _ (fle_trans _ _ _ H1 Hlo) E2) as H2.
          rewrite flt_irrefl in H2. discriminate.
        * subst j. apply Eq. congruence.
        * (* g_{k+1} <= g_j <= x < g_{k+1} *)
          pose proof (increasing_le (unique ks) (S k) j _ _ Hinc ltac:(lia) Ek1 Hj) as H1.
          pose proof (fle_lt_trans _ _ _ (fle_trans _ _ _ H1 E1) Hhi) as H2.
          rewrite flt_irrefl in H2. discriminate.
    - destruct (fleb (knot ks i) x) eqn:E1; [|reflexivity].
      destruct (fltb x (knot ks (i + 1))) eqn:E2; [|reflexivity].
      pose proof (fle_lt_trans _ _ _ E1 E2). congruence.
  Qed.

  Lemma B_eq_Bk (ks : list F) p k x : nondecreasing ks ->
    (k + 1 < length (unique ks))%nat ->
    fleb (nth k (unique ks) f0) x = true -> fltb x (nth (k + 1) (unique ks) f0) = true ->
    forall i, (i + p + 1 < length ks)%nat -> B ks p i x = Bk ks p i k x.
  Proof.
    intros Hn Hk Hlo Hhi. induction p as [|q IH]; intros i Hi.
    - apply B0_eq_Bk; try assumption. lia.
    - cbn [B Bk]. rewrite (IH i) by lia. rewrite (IH (i + 1)%nat) by lia. reflexivity.
  Qed.

  (* ---- the two operator expressions of applyRecursionRelation ---- *)

  Lemma apply_op1 (prefac xi : F) (s : spline F) : SplInv s ->
    exists r, apply (rec_op1 prefac xi) s = Ok r /\ SplInv r /\ ssup r = ssup s /\
              sord r = (sord s + 1)%nat /\
              forall k x, den r k x = (prefac * (x - xi) * den s k x)%F.
  Proof.
    intros Hs. unfold rec_op1.
    destruct (apply_spec (ESMulL (ScF prefac) (ESubS (EPos 1) (ScF xi))) s Hs)
      as (r & Hr & Ir & Sr & Or & Dr).
    - cbn [factors_ok]. exact I.
    - cbn [scalars_ok scalar_wf]. tauto.
    - exists r. split; [exact Hr|]. split; [exact Ir|]. split; [exact Sr|]. split.
      + rewrite Or. cbn [elab out_ord]. lia.
      + intros k x. unfold den. rewrite Sr, Dr. cbn [dsem sval ppow].
        rewrite peval_pscale_l, psub_eq, !peval_pmul, peval_pscale_l.
        unfold xpoly, sgridp. cbn [peval]. ring.
  Qed.

  Lemma apply_op2 (prefac xipk : F) (s : spline F) : SplInv s ->
    exists r, apply (rec_op2 prefac xipk) s = Ok r /\ SplInv r /\ ssup r = ssup s /\
              sord r = (sord s + 1)%nat /\
              forall k x, den r k x = (prefac * (xipk - x) * den s k x)%F.
  Proof.
    intros Hs. unfold rec_op2.
    destruct (apply_spec (ESMulL (ScF prefac) (ESSub (ScF xipk) (EPos 1))) s Hs)
      as (r & Hr & Ir & Sr & Or & Dr).
    - cbn [factors_ok]. exact I.
    - cbn [scalars_ok scalar_wf]. tauto.
    - exists r. split; [exact Hr|]. split; [exact Ir|]. split; [exact Sr|]. split.
      + rewrite Or. cbn [elab out_ord]. lia.
      + intros k x. unfold den. rewrite Sr, Dr. cbn [dsem sval ppow].
        rewrite peval_pscale_l, psub_eq, !peval_pmul, peval_pscale_l.
        unfold xpoly, sgridp. cbn [peval]. ring.
  Qed.

  Lemma at_knot (ks : list F) i : (i < length ks)%nat -> at_ ks i = Ok (knot ks i).
  Proof. intros H. apply at_nth_error. apply knot_nth_error. exact H. Qed.

  Lemma den_empty (g : list F) ord k x : den (mkSpl (mkSup g 0 0) ord []) k x = f0.
  Proof. apply den_out. unfold imem. cbn [ssup sstart sstop]. lia. Qed.

  (* the i-th generated spline of order p: valid, on the grid of the knots, and
     denoting the per-interval Cox–de Boor polynomial on every interval *)
  Definition spl_is (ks : list F) (p i : nat) (s : spline F) : Prop :=
    SplInv s /\ sgridp s = unique ks /\ sord s = p /\
    forall k x, (k + 1 < length (unique ks))%nat -> den s (N.of_nat k) x = Bk ks p i k x.

  (* the induction step: applyRecursionRelation *)
  Lemma apply_rec_spec (ks : list F) q i (a b : spline F) :
    nondecreasing ks -> two_distinct ks -> (nlen ks < 2 ^ 63)%N ->
    (i + q + 2 < length ks)%nat ->
    spl_is ks q i a -> spl_is ks q (i + 1) b ->
    exists r, apply_rec (mkGen (unique ks) ks) (S q + 1) i a b = Ok r /\ spl_is ks (S q) i r.
  Proof.
    intros Hn Hd Hl Hi (Ia & Ga & Oa & Da) (Ib & Gb & Ob & Db).
    pose proof (GInv_unique ks Hn Hd Hl) as Hg.
    unfold apply_rec. cbn [ggrid gknots].
    replace (S q + 1 - 1)%nat with (S q) by lia.
    replace (i + (S q + 1) - 1)%nat with (i + q + 1)%nat by lia.
    replace (i + (S q + 1))%nat with (i + q + 2)%nat by lia.
    rewrite spl_empty_ok by exact Hg. cbn [bind].
    rewrite !at_knot by lia. cbn [bind].
    set (r0 := mkSpl (mkSup (unique ks) 0 0) (S q) []).
    assert (exists r1,
      (if fgtb (knot ks (i + q + 1)) (knot ks i)
       then apply (rec_op1 (f1 / (knot ks (i + q + 1) - knot ks i))%F (knot ks i)) a
       else Ok r0) = Ok r1 /\ SplInv r1 /\ sgridp r1 = unique ks /\ sord r1 = S q /\
      forall k x, den r1 k x =
        (if fltb (knot ks i) (knot ks (i + q + 1))
         then (x - knot ks i) / (knot ks (i + q + 1) - knot ks i) * den a k x else f0)%F)
      as (r1 & -> & I1 & G1 & O1 & D1).
    { rewrite fgtb_def. destruct (fltb (knot ks i) (knot ks (i + q + 1))) eqn:E1.
      - destruct (apply_op1 (f1 / (knot ks (i + q + 1) - knot ks i))%F (knot ks i) a Ia)
          as (r & -> & Ir & Sr & Or & Dr).
        exists r. split; [reflexivity|]. split; [exact Ir|].
        split; [unfold sgridp in *; rewrite Sr; exact Ga|]. split; [lia|].
        intros k x. rewrite Dr. field. apply fsub_neq0. exact E1.
      - exists r0. split; [reflexivity|]. split; [apply spl_empty_inv; exact Hg|].
        split; [reflexivity|]. split; [reflexivity|]. intros k x. apply den_empty. }
    cbn [bind]. rewrite fgtb_def.
    destruct (fltb (knot ks (i + 1)) (knot ks (i + q + 2))) eqn:E2.
    - destruct (apply_op2 (f1 / (knot ks (i + q + 2) - knot ks (i + 1)))%F (knot ks (i + q + 2)) b Ib)
        as (t & -> & It & St & Ot & Dt).
      cbn [bind].
      assert (sgridp t = unique ks) as Gt by (unfold sgridp in *; rewrite St; exact Gb).
      destruct (spl_iadd_spec r1 t I1 It ltac:(congruence) ltac:(lia))
        as (u & r & Eu & -> & Ir & Sr & Or & Dr).
      exists r. split; [reflexivity|]. split; [exact Ir|]. split.
      { destruct I1 as (S1 & _). destruct It as (S2 & _).
        destruct (calc_union_spec (ssup r1) (ssup t) S1 S2 ltac:(unfold sgridp in *; congruence))
          as (u' & Eu' & _ & Gu' & _).
        rewrite Eu in Eu'. injection Eu' as <-. unfold sgridp in *. rewrite Sr, Gu'. exact G1. }
      split; [lia|].
      intros k x Hk. rewrite Dr, D1, Dt, (Da k x Hk), (Db k x Hk). cbn [Bk]. rewrite E2.
      f_equal. field. apply fsub_neq0. exact E2.
    - exists r1. split; [reflexivity|]. split; [exact I1|]. split; [exact G1|]. split; [exact O1|].
      intros k x Hk. rewrite D1, (Da k x Hk). cbn [Bk]. rewrite E2. ring.
  Qed.

  (* ---- a checked loop whose iterations all succeed ---- *)
  Lemma omapM_exists {A B} (f : A -> outcome B) (P : A -> B -> Prop) (l : list A) :
    (forall a, In a l -> exists b, f a = Ok b /\ P a b) ->
    exists r, omapM f l = Ok r /\ length r = length l /\
              forall i a, nth_error l i = Some a -> exists b, nth_error r i = Some b /\ P a b.
  Proof.
    induction l as [|a l IH]; intros H.
    - exists []. split; [reflexivity|]. split; [reflexivity|]. intros [|i] a Hi; discriminate.
    - destruct (H a (or_introl eq_refl)) as (b & Hb & Pb).
      destruct IH as (r & Hr & Lr & Nr); [intros a' Ha'; apply H; right; exact Ha'|].
      exists (b :: r). rewrite omapM_cons, Hb, bind_ok, Hr, bind_ok.
      split; [reflexivity|]. split; [cbn [length]; lia|].
      intros [|i] a' Hi; cbn [nth_error] in *.
      + injection Hi as <-. eauto.
      + apply Nr. exact Hi.
  Qed.

  Lemma omapM_seq_exists {B} (f : nat -> outcome B) (P : nat -> B -> Prop) n :
    (forall i, (i < n)%nat -> exists b, f i = Ok b /\ P i b) ->
    exists r, omapM f (seq 0 n) = Ok r /\ length r = n /\
              forall i, (i < n)%nat -> exists b, nth_error r i = Some b /\ P i b.
  Proof.
    intros H. destruct (omapM_exists f P (seq 0 n)) as (r & Hr & Lr & Nr).
    - intros i Hi. apply in_seq in Hi. apply H. lia.
    - exists r. split; [exact Hr|]. split; [rewrite Lr; apply seq_length|].
      intros i Hi. apply (Nr i i). rewrite nth_error_seq by exact Hi. reflexivity.
  Qed.

  (* ---- order 0: generateZerothOrderSplines ---- *)
  Definition gen0_body (g ks : list F) (i : nat) : outcome (spline F) :=
    do xi <- at_ ks i;
    do xip1 <- at_ ks (i + 1);
    if fgtb xi xip1 then Throw UNDETERMINED
    else if feqb xi xip1 then spl_empty 0 g
    else
      do gi <- grid_find g xi;
      do s <- sup_ctor g gi (wadd gi 2);
      spl_ctor 0 s [[f1]].

  Lemma gen0_unfold (gn : generator) :
    gen0 gn = omapM (gen0_body (ggrid gn) (gknots gn)) (seq 0 (length (gknots gn) - 1)).
  Proof. reflexivity. Qed.

  Lemma gen0_elem (ks : list F) i :
    nondecreasing ks -> two_distinct ks -> (nlen ks < 2 ^ 63)%N -> (i + 1 < length ks)%nat ->
    exists s, gen0_body (unique ks) ks i = Ok s /\ spl_is ks 0 i s.
  Proof.
    intros Hn Hd Hl Hi. pose proof (GInv_unique ks Hn Hd Hl) as Hg.
    pose proof Hg as (Hg2 & Hg63 & Hinc).
    unfold gen0_body. rewrite !at_knot by lia. cbn [bind].
    pose proof (nondecreasing_step ks i Hn Hi) as Hle.
    rewrite fgtb_def.
    assert (fltb (knot ks (i + 1)) (knot ks i) = false) as -> by (apply fltb_false; exact Hle).
    destruct (feqb (knot ks i) (knot ks (i + 1))) eqn:Eq.
    - apply feqb_true in Eq. rewrite spl_empty_ok by exact Hg.
      eexists. split; [reflexivity|]. split; [apply spl_empty_inv; exact Hg|].
      split; [reflexivity|]. split; [reflexivity|].
      intros k x Hk. rewrite den_empty. cbn [Bk]. rewrite <- Eq, flt_irrefl. reflexivity.
    - apply feqb_false in Eq.
      assert (fltb (knot ks i) (knot ks (i + 1)) = true) as Hlt.
      { apply fleb_true in Hle as [Hle|Hle]; [exact Hle | contradiction]. }
      destruct (knot_grid_index ks i Hn Hi Hlt) as (j & Hj & Hj1).
      assert (S j < length (unique ks))%nat as Hjl.
      { apply nth_error_Some. congruence. }
      assert (grid_find (unique ks) (knot ks i) = Ok (N.of_nat j)) as ->.
      { apply grid_find_spec; [exact Hinc|]. unfold nnth. rewrite Nat2N.id. exact Hj. }
      cbn [bind]. unfold nlen in *.
      rewrite wadd_small by (unfold W; lia).
      rewrite sup_ctor_ok by (unfold nlen; lia). cbn [bind].
      assert (SInv (mkSup (unique ks) (N.of_nat j) (N.of_nat j + 2))) as Hsi.
      { unfold SInv, nlen. cbn [sgrid sstart sstop]. lia. }
      assert (nintervals (mkSup (unique ks) (N.of_nat j) (N.of_nat j + 2)) = 1%N) as Hni.
      { unfold nintervals. cbn [sstart sstop].
        destruct (N.of_nat j + 2 - N.of_nat j =? 0)%N eqn:E0; lia. }
      rewrite spl_ctor_ok by (try exact Hsi; rewrite Hni; reflexivity).
      eexists. split; [reflexivity|]. split.
      { unfold SplInv. cbn [ssup sord scoefs sgrid]. split; [exact Hsi|]. split; [exact Hg|].
        split; [rewrite Hni; reflexivity|]. constructor; [reflexivity | constructor]. }
      split; [reflexivity|]. split; [reflexivity|].
      intros k x Hk. unfold den, piece. cbn [ssup sstart sstop scoefs sgrid Bk].
      rewrite Hlt. cbn [andb].
      assert (nth_error (unique ks) k = Some (nth k (unique ks) f0)) as Ek
        by (apply nth_error_nth'; lia).
      destruct ((N.of_nat j <=? N.of_nat k)%N && (N.of_nat k + 1 <? N.of_nat j + 2)%N) eqn:E.
      + assert (k = j) as -> by lia.
        replace (N.to_nat (N.of_nat j - N.of_nat j)) with 0%nat by lia.
        assert (knot ks i = nth j (unique ks) f0) as <- by congruence.
        rewrite feqb_refl. cbn [nth peval]. ring.
      + assert (k <> j) as Hkj by lia.
        destruct (feqb (knot ks i) (nth k (unique ks) f0)) eqn:E2; [|reflexivity].
        apply feqb_true in E2. exfalso. apply Hkj.
        apply (increasing_inj (unique ks) k j (knot ks i)); [exact Hinc | congruence | exact Hj].
  Qed.

  Lemma generate_unfold (gn : generator) p :
    generate gn p =
    if (length (gknots gn) <? p + 1)%nat then Throw UNDETERMINED
    else match p with
    | O => gen0 gn
    | S q =>
        do lower <- generate gn q;
        omapM (fun i =>
          do a <- at_ lower i;
          do b <- at_ lower (i + 1);
          apply_rec gn (p + 1) i a b) (seq 0 (length (gknots gn) - (p + 1)))
    end.
  Proof. destruct p; reflexivity. Qed.

  (* the main invariant, by induction on the order *)
  Lemma generate_spec (ks : list F) p :
    nondecreasing ks -> two_distinct ks -> (nlen ks < 2 ^ 63)%N -> (p + 1 <= length ks)%nat ->
    exists l, generate (mkGen (unique ks) ks) p = Ok l /\
              length l = (length ks - p - 1)%nat /\
              forall i, (i < length l)%nat -> exists s, nth_error l i = Some s /\ spl_is ks p i s.
  Proof.
    intros Hn Hd Hl. induction p as [|q IH]; intros Hp.
    - rewrite generate_unfold. cbn [gknots].
      destruct (Nat.ltb_spec (length ks) (0 + 1)) as [Hlt|_]; [lia|].
      rewrite gen0_unfold. cbn [ggrid gknots].
      destruct (omapM_seq_exists (gen0_body (unique ks) ks) (spl_is ks 0) (length ks - 1))
        as (l & Hl1 & Hl2 & Hl3).
      + intros i Hi. apply gen0_elem; try assumption. lia.
      + exists l. split; [exact Hl1|]. split; [lia|]. intros i Hi. apply Hl3. lia.
    - destruct (IH ltac:(lia)) as (lower & Hlow & Llow & Nlow).
      rewrite generate_unfold. cbn [gknots].
      destruct (Nat.ltb_spec (length ks) (S q + 1)) as [Hlt|_]; [lia|].
      rewrite Hlow. cbn [bind].
      destruct (omapM_seq_exists
                  (fun i => do a <- at_ lower i; do b <- at_ lower (i + 1);
                            apply_rec (mkGen (unique ks) ks) (S q + 1) i a b)
                  (spl_is ks (S q)) (length ks - (S q + 1))) as (l & Hl1 & Hl2 & Hl3).
      + intros i Hi.
        destruct (Nlow i ltac:(lia)) as (a & Ea & Pa).
        destruct (Nlow (i + 1)%nat ltac:(lia)) as (b & Eb & Pb).
        rewrite (at_nth_error _ _ _ Ea), (at_nth_error _ _ _ Eb). cbn [bind].
        apply apply_rec_spec; try assumption. lia.
      + exists l. split; [exact Hl1|]. split; [lia|]. intros i Hi. apply Hl3. lia.
  Qed.

  (* ---- the delivered theorems ---- *)

  Lemma generate_bsplines_eq (ks : list F) p :
    nondecreasing ks -> two_distinct ks -> (nlen ks < 2 ^ 63)%N ->
    generate_bsplines p ks = generate (mkGen (unique ks) ks) p.
  Proof.
    intros Hn Hd Hl. unfold generate_bsplines.
    rewrite (proj1 (gen_ctor1_ok ks Hn Hd Hl)). reflexivity.
  Qed.

  Theorem gen_count (ks : list F) p :
    nondecreasing ks -> two_distinct ks -> (nlen ks < 2 ^ 63)%N -> (p + 1 <= length ks)%nat ->
    exists l, generate_bsplines p ks = Ok l /\ length l = (length ks - p - 1)%nat /\
              Forall SplInv l /\ Forall (fun s => sgridp s = unique ks /\ sord s = p) l.
  Proof.
    intros Hn Hd Hl Hp. rewrite generate_bsplines_eq by assumption.
    destruct (generate_spec ks p Hn Hd Hl Hp) as (l & El & Ll & Nl).
    exists l. split; [exact El|]. split; [exact Ll|].
    split; apply Forall_forall; intros s Hs; apply In_nth_error in Hs as [i Hi];
      (assert (i < length l)%nat as Hil by (apply nth_error_Some; congruence));
      destruct (Nl i Hil) as (s' & Es' & (I' & G' & O' & _));
      rewrite Hi in Es'; injection Es' as <-; auto.
  Qed.

  Theorem gen_too_few (ks : list F) p :
    nondecreasing ks -> two_distinct ks -> (nlen ks < 2 ^ 63)%N -> (length ks < p + 1)%nat ->
    generate_bsplines p ks = Throw UNDETERMINED.
  Proof.
    intros Hn Hd Hl Hp. rewrite generate_bsplines_eq by assumption.
    rewrite generate_unfold. cbn [gknots].
    destruct (Nat.ltb_spec (length ks) (p + 1)) as [_|Hge]; [reflexivity | lia].
  Qed.

  Theorem gen_is_cox_de_boor (ks : list F) p l i k x :
    nondecreasing ks -> two_distinct ks -> (nlen ks < 2 ^ 63)%N -> (p + 1 <= length ks)%nat ->
    generate_bsplines p ks = Ok l -> (i < length l)%nat ->
    (k + 1 < length (unique ks))%nat ->
    fleb (nth k (unique ks) f0) x = true -> fltb x (nth (k + 1) (unique ks) f0) = true ->
    den (nth i l (mkSpl (mkSup [] 0 0) 0 [])) (N.of_nat k) x = B ks p i x.
  Proof.
    intros Hn Hd Hl Hp El Hi Hk Hlo Hhi. rewrite generate_bsplines_eq in El by assumption.
    destruct (generate_spec ks p Hn Hd Hl Hp) as (l' & El' & Ll & Nl).
    rewrite El in El'. injection El' as <-.
    destruct (Nl i Hi) as (s & Es & (_ & _ & _ & Ds)).
    rewrite (nth_error_nth _ _ _ Es), (Ds k x Hk).
    symmetry. apply B_eq_Bk; try assumption. lia.
  Qed.

  (* the order-0 case on its own: the i-th spline is the indicator of
     [t_i, t_{i+1}) *)
  Corollary gen0_is_cox_de_boor (ks : list F) l i k x :
    nondecreasing ks -> two_distinct ks -> (nlen ks < 2 ^ 63)%N ->
    generate_bsplines 0 ks = Ok l -> (i < length l)%nat ->
    (k + 1 < length (unique ks))%nat ->
    fleb (nth k (unique ks) f0) x = true -> fltb x (nth (k + 1) (unique ks) f0) = true ->
    den (nth i l (mkSpl (mkSup [] 0 0) 0 [])) (N.of_nat k) x =
    if fleb (knot ks i) x && fltb x (knot ks (i + 1)) then f1 else f0.
  Proof.
    intros Hn Hd Hl El Hi Hk Hlo Hhi.
    assert (2 <= length ks)%nat as H2.
    { pose proof (unique_length_ge2 ks Hn Hd). pose proof (unique_length_le ks). lia. }
    apply (gen_is_cox_de_boor ks 0 l i k x); try assumption. lia.
  Qed.

  (* the polynomial form: on EVERY grid interval k the i-th spline is the
     polynomial [Bk ks p i k], for all x *)
  Theorem gen_is_Bk (ks : list F) p l i k x :
    nondecreasing ks -> two_distinct ks -> (nlen ks < 2 ^ 63)%N -> (p + 1 <= length ks)%nat ->
    generate_bsplines p ks = Ok l -> (i < length l)%nat ->
    (k + 1 < length (unique ks))%nat ->
    den (nth i l (mkSpl (mkSup [] 0 0) 0 [])) (N.of_nat k) x = Bk ks p i k x.
  Proof.
    intros Hn Hd Hl Hp El Hi Hk. rewrite generate_bsplines_eq in El by assumption.
    destruct (generate_spec ks p Hn Hd Hl Hp) as (l' & El' & Ll & Nl).
    rewrite El in El'. injection El' as <-.
    destruct (Nl i Hi) as (s & Es & (_ & _ & _ & Ds)).
    rewrite (nth_error_nth _ _ _ Es). apply Ds. exact Hk.
  Qed.

  (* the constructor taking the grid yields the same splines *)
  Theorem gen_route2 (ks : list F) p (g : list F) :
    nondecreasing ks -> two_distinct ks -> (nlen ks < 2 ^ 63)%N -> g = unique ks ->
    (do gn <- gen_ctor2 ks g; generate gn p) = generate_bsplines p ks.
  Proof.
    intros Hn Hd Hl Hg. rewrite generate_bsplines_eq by assumption.
    rewrite (gen_ctor2_ok ks g Hn Hd Hl Hg). reflexivity.
  Qed.

  Theorem gen_route2_mismatch (ks : list F) p (g : list F) :
    nondecreasing ks -> two_distinct ks -> (nlen ks < 2 ^ 63)%N -> g <> unique ks ->
    (do gn <- gen_ctor2 ks g; generate gn p) = Throw INCONSISTENT_DATA.
  Proof.
    intros Hn Hd Hl Hg. rewrite (gen_ctor2_mismatch ks g Hn Hd Hl Hg). reflexivity.
  Qed.

  (* ================================================================== *)
  (* Part B: the Cox–de Boor recursion by itself                         *)
  (* ================================================================== *)

  (* B_{i,p} vanishes outside [t_i, t_{i+p+1}) *)
  Theorem B_local_support (ks : list F) p i x : nondecreasing ks ->
    (i + p + 1 < length ks)%nat ->
    (fltb x (knot ks i) = true \/ fleb (knot ks (i + p + 1)) x = true) ->
    B ks p i x = f0.
  Proof.
    intros Hn. revert i. induction p as [|q IH]; intros i Hi Hx.
    - cbn [B]. replace (i + 0 + 1)%nat with (i + 1)%nat in Hx by lia.
      destruct Hx as [Hx|Hx].
      + apply fleb_false in Hx. rewrite Hx. reflexivity.
      + apply fltb_false in Hx. rewrite Hx, andb_false_r. reflexivity.
    - cbn [B].
      assert (B ks q i x = f0) as ->.
      { apply IH; [lia|]. destruct Hx as [Hx|Hx]; [left; exact Hx|]. right.
        apply (fle_trans _ (knot ks (i + S q + 1))); [|exact Hx].
        apply nondecreasing_knot_le; [exact Hn | lia | lia]. }
      assert (B ks q (i + 1) x = f0) as ->.
      { apply IH; [lia|]. destruct Hx as [Hx|Hx].
        - left. apply (flt_le_trans _ (knot ks i)); [exact Hx|].
          apply nondecreasing_step; [exact Hn | lia].
        - right. replace (i + 1 + q + 1)%nat with (i + S q + 1)%nat by lia. exact Hx. }
      destruct (fltb (knot ks i) (knot ks (i + q + 1)));
        destruct (fltb (knot ks (i + 1)) (knot ks (i + q + 2))); ring.
  Qed.

  Theorem B_nonneg (ks : list F) p i x : nondecreasing ks ->
    (i + p + 1 < length ks)%nat -> fleb f0 (B ks p i x) = true.
  Proof.
    intros Hn. revert i. induction p as [|q IH]; intros i Hi.
    - cbn [B]. destruct (fleb (knot ks i) x && fltb x (knot ks (i + 1))).
      + apply fleb_true. left. apply flt_0_1.
      + apply fleb_refl.
    - (* outside the support the value is 0; inside, both weights are >= 0 *)
      destruct (fltb x (knot ks i)) eqn:E1.
      { rewrite B_local_support; [apply fleb_refl | exact Hn | exact Hi | left; exact E1]. }
      destruct (fleb (knot ks (i + S q + 1)) x) eqn:E2.
      { rewrite B_local_support; [apply fleb_refl | exact Hn | exact Hi | right; exact E2]. }
      apply fltb_false in E1. apply fleb_false in E2.
      assert (forall a b : F, fleb f0 a = true -> fleb f0 b = true -> fleb f0 (a + b)%F = true) as Hadd.
      { intros a b Ha Hb. apply fleb_true in Ha as [Ha|Ha]; apply fleb_true in Hb as [Hb|Hb].
        - apply fleb_true. left. apply flt_add_pos; assumption.
        - subst b. replace (a + f0)%F with a by ring. apply fleb_true. left. exact Ha.
        - subst a. replace (f0 + b)%F with b by ring. apply fleb_true. left. exact Hb.
        - subst a b. replace (f0 + f0)%F with (@f0 F K) by ring. apply fleb_refl. }
      assert (forall a b : F, fleb f0 a = true -> fleb f0 b = true -> fleb f0 (a * b)%F = true) as Hmul.
      { intros a b Ha Hb. apply fleb_true in Ha as [Ha|Ha]; apply fleb_true in Hb as [Hb|Hb].
        - apply fleb_true. left. apply flt_mul_pos; assumption.
        - subst b. replace (a * f0)%F with (@f0 F K) by ring. apply fleb_refl.
        - subst a. replace (f0 * b)%F with (@f0 F K) by ring. apply fleb_refl.
        - subst a b. replace (f0 * f0)%F with (@f0 F K) by ring. apply fleb_refl. }
      assert (forall a d : F, fleb f0 a = true -> fltb f0 d = true -> fleb f0 (a / d)%F = true) as Hdiv.
      { intros a d Ha Hd. pose proof (flt_pos_neq0 d Hd) as Hd0.
        replace (a / d)%F with (a * (f1 / d))%F by (field; exact Hd0).
        apply Hmul; [exact Ha|]. apply fleb_true. left. apply finv_pos. exact Hd. }
      assert (forall a b : F, fleb a b = true -> fleb f0 (b - a)%F = true) as Hsub.
      { intros a b Hab. apply fleb_true in Hab as [Hab|Hab].
        - apply fleb_true. left. apply (proj1 (flt_sub_pos a b)). exact Hab.
        - subst b. replace (a - a)%F with (@f0 F K) by ring. apply fleb_refl. }
      cbn [B]. apply Hadd.
      + destruct (fltb (knot ks i) (knot ks (i + q + 1))) eqn:E3; [|apply fleb_refl].
        apply Hmul; [|apply IH; lia].
        apply Hdiv; [apply Hsub; exact E1 | apply (proj1 (flt_sub_pos _ _)); exact E3].
      + destruct (fltb (knot ks (i + 1)) (knot ks (i + q + 2))) eqn:E3; [|apply fleb_refl].
        apply Hmul; [|apply IH; lia].
        apply Hdiv; [|apply (proj1 (flt_sub_pos _ _)); exact E3].
        apply Hsub. replace (i + q + 2)%nat with (i + S q + 1)%nat by lia.
        apply fleb_true. left. exact E2.
  Qed.

  Lemma nsum_ext n (f g : nat -> F) :
    (forall i, (i < n)%nat -> f i = g i) -> nsum n f = nsum n g.
  Proof.
    induction n as [|n IH]; intros H; [reflexivity|].
    cbn [nsum]. rewrite IH by (intros i Hi; apply H; lia). rewrite H by lia. reflexivity.
  Qed.

  Lemma nsum_telescope n (u v : nat -> F) :
    nsum n (fun i => u i + v (S i))%F = (nsum n (fun i => u i + v i) - v 0%nat + v n)%F.
  Proof.
    induction n as [|n IH]; cbn [nsum]; [ring|]. rewrite IH. ring.
  Qed.

  (* the indicators of consecutive knot intervals add up to the indicator of
     their union *)
  Lemma B0_sum (ks : list F) n x : nondecreasing ks -> (n < length ks)%nat ->
    nsum n (fun i => B ks 0 i x) =
    if fleb (knot ks 0) x && fltb x (knot ks n) then f1 else f0.
  Proof.
    intros Hn. induction n as [|n IH]; intros Hl.
    - cbn [nsum]. destruct (fleb (knot ks 0) x) eqn:E1; [|reflexivity].
      destruct (fltb x (knot ks 0)) eqn:E2; [|reflexivity].
      pose proof (fle_lt_trans _ _ _ E1 E2) as H. rewrite flt_irrefl in H. discriminate.
    - cbn [nsum]. rewrite IH by lia. cbn [B]. replace (n + 1)%nat with (S n) by lia.
      destruct (fltb x (knot ks n)) eqn:E.
      + assert (fleb (knot ks n) x = false) as -> by (apply fleb_false; exact E).
        assert (fltb x (knot ks (S n)) = true) as ->.
        { apply (flt_le_trans _ (knot ks n)); [exact E|].
          apply nondecreasing_knot_le; [exact Hn | lia | lia]. }
        cbn [andb]. ring.
      + apply fltb_false in E. rewrite E, andb_false_r. cbn [andb].
        assert (fleb (knot ks 0) x = true) as ->.
        { apply (fle_trans _ (knot ks n)); [|exact E].
          apply nondecreasing_knot_le; [exact Hn | lia | lia]. }
        cbn [andb]. ring.
  Qed.

  Lemma pou_aux (ks : list F) x : nondecreasing ks -> forall p n,
    (n + p + 1 = length ks)%nat -> (p + 1 <= n)%nat ->
    fleb (knot ks p) x = true -> fltb x (knot ks n) = true ->
    nsum n (fun i => B ks p i x) = f1.
  Proof.
    intros Hn. induction p as [|q IH]; intros n Hm Hpn Hlo Hhi.
    - rewrite B0_sum by (try exact Hn; lia). rewrite Hlo, Hhi. reflexivity.
    - set (u := fun i =>
        if fltb (knot ks i) (knot ks (i + q + 1))
        then ((x - knot ks i) / (knot ks (i + q + 1) - knot ks i) * B ks q i x)%F else f0).
      set (v := fun j =>
        if fltb (knot ks j) (knot ks (j + q + 1))
        then ((knot ks (j + q + 1) - x) / (knot ks (j + q + 1) - knot ks j) * B ks q j x)%F else f0).
      assert (forall i, B ks (S q) i x = (u i + v (S i))%F) as Hsplit.
      { intros i. cbn [B]. unfold u, v. replace (S i) with (i + 1)%nat by lia.
        replace (i + 1 + q + 1)%nat with (i + q + 2)%nat by lia. reflexivity. }
      assert (forall i, (i + q + 1 < length ks)%nat -> (u i + v i)%F = B ks q i x) as Hjoin.
      { intros i Hi. unfold u, v. destruct (fltb (knot ks i) (knot ks (i + q + 1))) eqn:E.
        - field. apply fsub_neq0. exact E.
        - apply fltb_false in E. rewrite B_local_support; [ring | exact Hn | exact Hi |].
          destruct (fltb x (knot ks i)) eqn:E2; [left; reflexivity|].
          right. apply fltb_false in E2. exact (fle_trans _ _ _ E E2). }
      assert (v 0%nat = f0) as Hv0.
      { unfold v. rewrite B_local_support;
          [| exact Hn | lia | right; replace (0 + q + 1)%nat with (S q) by lia; exact Hlo].
        destruct (fltb (knot ks 0) (knot ks (0 + q + 1))); ring. }
      assert (v n = f0) as Hvn.
      { unfold v. rewrite B_local_support; [| exact Hn | lia | left; exact Hhi].
        destruct (fltb (knot ks n) (knot ks (n + q + 1))); ring. }
      rewrite (nsum_ext n _ (fun i => u i + v (S i))%F) by (intros i _; apply Hsplit).
      rewrite nsum_telescope, Hv0, Hvn.
      rewrite (nsum_ext n _ (fun i => B ks q i x)) by (intros i Hi; apply Hjoin; lia).
      assert (nsum (S n) (fun i => B ks q i x) = f1) as HS.
      { apply IH; [lia | lia | |].
        - apply (fle_trans _ (knot ks (S q))); [|exact Hlo].
          apply nondecreasing_knot_le; [exact Hn | lia | lia].
        - apply (flt_le_trans _ (knot ks n)); [exact Hhi|].
          apply nondecreasing_knot_le; [exact Hn | lia | lia]. }
      cbn [nsum] in HS.
      rewrite (B_local_support ks q n x) in HS; [| exact Hn | lia | left; exact Hhi].
      rewrite <- HS. ring.
  Qed.

  (* on [t_p, t_{m-p-1}) the B-splines of order p sum to one *)
  Theorem B_partition_of_unity (ks : list F) p x : nondecreasing ks ->
    (2 * p + 2 <= length ks)%nat ->
    fleb (knot ks p) x = true -> fltb x (knot ks (length ks - p - 1)) = true ->
    nsum (length ks - p - 1) (fun i => B ks p i x) = f1.
  Proof.
    intros Hn Hm Hlo Hhi. apply pou_aux; try assumption; lia.
  Qed.

  (* ================================================================== *)
  (* evaluation: Spline::operator()(x) of a generated spline returns     *)
  (* B_{i,p}(x) at every point strictly inside a grid interval           *)
  (* ================================================================== *)
  Theorem gen_eval_interior (ks : list F) p l i k x :
    nondecreasing ks -> two_distinct ks -> (nlen ks < 2 ^ 63)%N -> (p + 1 <= length ks)%nat ->
    generate_bsplines p ks = Ok l -> (i < length l)%nat ->
    (k + 1 < length (unique ks))%nat ->
    fltb (nth k (unique ks) f0) x = true -> fltb x (nth (k + 1) (unique ks) f0) = true ->
    spl_eval (nth i l (mkSpl (mkSup [] 0 0) 0 [])) x = Ok (B ks p i x).
  Proof.
    intros Hn Hd Hl Hp El Hi Hk Hlo Hhi. rewrite generate_bsplines_eq in El by assumption.
    destruct (generate_spec ks p Hn Hd Hl Hp) as (l' & El' & Ll & Nl).
    rewrite El in El'. injection El' as <-.
    destruct (Nl i Hi) as (s & Es & (Is & Gs & _ & Ds)).
    rewrite (nth_error_nth _ _ _ Es).
    assert (B ks p i x = den s (N.of_nat k) x) as ->.
    { rewrite (Ds k x Hk). apply B_eq_Bk; try assumption; [|lia].
      apply fleb_true. left. exact Hlo. }
    unfold sgridp in Gs.
    assert (gnth (sgrid (ssup s)) (N.of_nat k) = nth k (unique ks) f0) as G0.
    { unfold gnth. rewrite Gs, Nat2N.id. reflexivity. }
    assert (gnth (sgrid (ssup s)) (N.of_nat k + 1) = nth (k + 1) (unique ks) f0) as G1.
    { unfold gnth. rewrite Gs. f_equal. lia. }
    destruct (inb (ssup s) (N.of_nat k)) eqn:E.
    - apply inb_imem in E. apply seval_inside; [exact Is | exact E |].
      left. rewrite G0, G1. split; [exact Hlo | apply fleb_true; left; exact Hhi].
    - apply inb_false in E. rewrite (den_out s _ x E).
      destruct (seval_cases s x Is) as [H|(k' & Hk' & H1 & H2 & _)]; [exact H|].
      exfalso. pose proof Is as (Ss & (_ & _ & Hinc) & _).
      pose proof (SInv_bounds _ Ss) as Bs. unfold imem in Hk'.
      destruct (N.lt_trichotomy k' (N.of_nat k)) as [Hlt|[Heq|Hgt]].
      + pose proof (gnth_le (sgrid (ssup s)) (k' + 1) (N.of_nat k) Hinc ltac:(lia)
                      ltac:(rewrite Gs; unfold nlen; lia)) as H3.
        rewrite G0 in H3.
        pose proof (fle_lt_trans _ _ _ (fle_trans _ _ _ H2 H3) Hlo) as H4.
        rewrite flt_irrefl in H4. discriminate.
      + subst k'. apply E. exact Hk'.
      + pose proof (gnth_le (sgrid (ssup s)) (N.of_nat k + 1) k' Hinc ltac:(lia) ltac:(lia)) as H3.
        rewrite G1 in H3.
        pose proof (flt_le_trans _ _ _ Hhi (fle_trans _ _ _ H3 H1)) as H4.
        rewrite flt_irrefl in H4. discriminate.
  Qed.

End GenFacts.

(* ---- non-vacuity: the hypotheses hold for the knot vector [0;0;1;2;2;3]
   (repeated boundary and interior knots) over the rationals ---- *)
From BSpl Require Import Instances.

Definition ks_example : list Qcanon.Qc :=
  [qc 0 1; qc 0 1; qc 1 1; qc 2 1; qc 2 1; qc 3 1].

Example gen_nonvacuous :
  nondecreasing ks_example /\ two_distinct ks_example /\ (nlen ks_example < 2 ^ 63)%N /\
  (exists l, generate_bsplines 2 ks_example = Ok l /\ length l = 3%nat) /\
  unique ks_example = [qc 0 1; qc 1 1; qc 2 1; qc 3 1].
Proof.
  split; [|split; [|split; [|split]]].
  - intros i a b Ha Hb.
    do 6 (destruct i as [|i];
          [cbn [nth_error ks_example] in Ha, Hb;
           first [discriminate Hb
                 | injection Ha as <-; injection Hb as <-; vm_compute; reflexivity]|]).
    destruct i; discriminate.
  - exists 0%nat, 2%nat, (qc 0 1), (qc 1 1).
    split; [reflexivity|]. split; [reflexivity|]. intros H. discriminate H.
  - vm_compute. reflexivity.
  - eexists. split; [vm_compute; reflexivity | reflexivity].
  - vm_compute. reflexivity.
Qed.

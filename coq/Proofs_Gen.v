(* Proofs_Gen.v — the B-spline generator (C01): the splines produced by
   generateBSplines<p>(knots) are exactly the Cox–de Boor B-splines of the
   knot vector.

   Part A: std::unique on a sorted vector, the grid of the generator, both
           constructors.
   Part B: facts about the textbook recursion [B] of Spec_Gen.v alone
           (local support, partition of unity).
   Part C: the generated splines: how many, their invariants, and that the
           i-th one denotes B_{i,p} on every grid interval. *)
From Coq Require Import List Arith NArith ZArith Bool Lia ZifyBool ZifyN Field Ring.
From BSpl Require Import ListAux Scalar Outcome Support Poly Spline Ops Generator
  Spec Spec_Ops Spec_Gen
  Proofs_Support Proofs_Scalar Proofs_Outcome Proofs_Poly Proofs_Eval Proofs_Spline Proofs_Ops.
Import ListNotations.

Ltac Zify.zify_post_hook ::= Z.div_mod_to_equations.

Section GenFacts.
  Context {F : Type} {K : Ops F} {L : Laws K}.
  Add Field Ffgen : (@Fth F K L).

  (* ================================================================== *)
  (* Part A: [unique] and the grid                                       *)
  (* ================================================================== *)

  Lemma unique_cons2 (a b : F) r :
    unique (a :: b :: r) = if feqb a b then unique (b :: r) else a :: unique (b :: r).
  Proof. reflexivity. Qed.

  Lemma unique_single (a : F) : unique [a] = [a].
  Proof. reflexivity. Qed.

  (* std::unique keeps the head *)
  Lemma unique_head (a : F) r : exists u, unique (a :: r) = a :: u.
  Proof.
    revert a; induction r as [|b r IH]; intros a.
    - exists []. reflexivity.
    - rewrite unique_cons2. destruct (feqb a b) eqn:E.
      + apply feqb_true in E. subst b. apply IH.
      + eauto.
  Qed.

  Lemma nondecreasing_nil : nondecreasing (@nil F).
  Proof. intros [|i] a b Ha Hb; discriminate. Qed.

  Lemma nondecreasing_single (a : F) : nondecreasing [a].
  Proof. intros [|i] x y Hx Hy; [discriminate | destruct i; discriminate]. Qed.

  Lemma nondecreasing_cons (a b : F) r :
    nondecreasing (a :: b :: r) <-> fleb a b = true /\ nondecreasing (b :: r).
  Proof.
    unfold nondecreasing. split.
    - intros H. split.
      + apply (H 0%nat a b); reflexivity.
      + intros i x y Hx Hy. apply (H (S i) x y); assumption.
    - intros [H1 H2] i x y Hx Hy. destruct i as [|i].
      + cbn [nth_error] in Hx, Hy. injection Hx as <-. injection Hy as <-. exact H1.
      + apply (H2 i x y); assumption.
  Qed.

  Lemma nondecreasing_tail (a : F) l : nondecreasing (a :: l) -> nondecreasing l.
  Proof. intros H i x y Hx Hy. apply (H (S i) x y); assumption. Qed.

  Lemma unique_increasing (ks : list F) : nondecreasing ks -> increasing (unique ks).
  Proof.
    induction ks as [|a ks IH]; intros H.
    - apply increasing_nil.
    - destruct ks as [|b r].
      + apply increasing_single.
      + apply nondecreasing_cons in H as [Hab Hr]. rewrite unique_cons2.
        destruct (feqb a b) eqn:E; [apply IH; exact Hr|].
        destruct (unique_head b r) as [u Hu]. specialize (IH Hr). rewrite Hu in *.
        apply increasing_cons. split; [|exact IH].
        apply fleb_true in Hab as [Hab|Hab]; [exact Hab|].
        apply feqb_false in E. contradiction.
  Qed.

  (* conversely: a descent of the input survives std::unique *)
  Lemma unique_increasing_inv (ks : list F) : increasing (unique ks) -> nondecreasing ks.
  Proof.
    induction ks as [|a ks IH]; intros H.
    - apply nondecreasing_nil.
    - destruct ks as [|b r].
      + apply nondecreasing_single.
      + rewrite unique_cons2 in H. apply nondecreasing_cons.
        destruct (feqb a b) eqn:E.
        * apply feqb_true in E. subst b. split; [apply fleb_refl | apply IH; exact H].
        * destruct (unique_head b r) as [u Hu]. rewrite Hu in *.
          apply increasing_cons in H as [Hab Hr].
          split; [apply fleb_true; left; exact Hab | apply IH; exact Hr].
  Qed.

  Lemma unique_In (ks : list F) a : In a ks <-> In a (unique ks).
  Proof.
    induction ks as [|c ks IH]; [reflexivity|].
    destruct ks as [|b r]; [reflexivity|].
    rewrite unique_cons2. destruct (feqb c b) eqn:E.
    - apply feqb_true in E. subst b. rewrite <- IH. cbn [In]. tauto.
    - change (In a (c :: unique (b :: r))) with (c = a \/ In a (unique (b :: r))).
      rewrite <- IH. cbn [In]. tauto.
  Qed.

  Lemma knot_in_grid (ks : list F) a : In a ks -> In a (unique ks).
  Proof. apply unique_In. Qed.

  Lemma grid_in_knots (ks : list F) a : In a (unique ks) -> In a ks.
  Proof. apply unique_In. Qed.

  Lemma unique_length_le (ks : list F) : (length (unique ks) <= length ks)%nat.
  Proof.
    induction ks as [|a ks IH]; [cbn; lia|].
    destruct ks as [|b r]; [cbn; lia|].
    rewrite unique_cons2. destruct (feqb a b); cbn [length] in *; lia.
  Qed.

  Lemma two_distinct_unique_ge2 (ks : list F) : two_distinct ks -> (2 <= length (unique ks))%nat.
  Proof.
    intros (i & j & a & b & Ha & Hb & Hab).
    apply nth_error_In, unique_In in Ha. apply nth_error_In, unique_In in Hb.
    destruct (unique ks) as [|c [|d u]]; cbn [length]; [contradiction| |lia].
    exfalso. cbn [In] in Ha, Hb. apply Hab.
    destruct Ha as [<-|[]], Hb as [<-|[]]. reflexivity.
  Qed.

  Lemma unique_length_ge2 (ks : list F) :
    nondecreasing ks -> two_distinct ks -> (2 <= length (unique ks))%nat.
  Proof. intros _. apply two_distinct_unique_ge2. Qed.

  Lemma GInv_unique (ks : list F) :
    nondecreasing ks -> two_distinct ks -> (nlen ks < 2 ^ 63)%N -> GInv (unique ks).
  Proof.
    intros Hn Hd Hl. pose proof (unique_length_ge2 ks Hn Hd) as H2.
    pose proof (unique_length_le ks) as Hle. unfold GInv, nlen in *.
    split; [lia|]. split; [lia|]. apply unique_increasing. exact Hn.
  Qed.

  Lemma grid_ctor_unique (ks : list F) :
    nondecreasing ks -> two_distinct ks -> grid_ctor (unique ks) = Ok (unique ks).
  Proof.
    intros Hn Hd.
    destruct (proj2 (grid_ctor_iff (unique ks))) as [g Hg].
    - pose proof (unique_length_ge2 ks Hn Hd). unfold nlen. split; [lia|].
      apply unique_increasing. exact Hn.
    - rewrite Hg. f_equal. apply grid_ctor_ok. exact Hg.
  Qed.

  Lemma gen_ctor1_ok (ks : list F) :
    nondecreasing ks -> two_distinct ks -> (nlen ks < 2 ^ 63)%N ->
    gen_ctor1 ks = Ok (mkGen (unique ks) ks) /\ GInv (unique ks).
  Proof.
    intros Hn Hd Hl. split; [|apply GInv_unique; assumption].
    unfold gen_ctor1. rewrite grid_ctor_unique by assumption. reflexivity.
  Qed.

  Lemma gen_ctor1_iff (ks : list F) : (nlen ks < 2 ^ 63)%N ->
    ((exists gn, gen_ctor1 ks = Ok gn) <-> nondecreasing ks /\ two_distinct ks).
  Proof.
    intros Hl. split.
    - intros [gn H]. unfold gen_ctor1 in H. apply bind_ok_inv in H as (g & Hg & _).
      destruct (proj1 (grid_ctor_iff (unique ks)) (ex_intro _ g Hg)) as [H2 Hinc].
      split; [apply unique_increasing_inv; exact Hinc|].
      unfold nlen in H2.
      destruct (unique ks) as [|c [|d u]] eqn:E; cbn [length] in H2; try lia.
      apply increasing_cons in Hinc as [Hcd _].
      assert (In c ks) as Hc by (apply unique_In; rewrite E; cbn [In]; auto).
      assert (In d ks) as Hd by (apply unique_In; rewrite E; cbn [In]; auto).
      apply In_nth_error in Hc as [i Hi]. apply In_nth_error in Hd as [j Hj].
      exists i, j, c, d. split; [exact Hi|]. split; [exact Hj|]. apply flt_neq. exact Hcd.
    - intros [Hn Hd]. eexists. apply gen_ctor1_ok; assumption.
  Qed.

  (* a constant vector is rejected with MISSING_DATA, a vector with a descent
     with INCONSISTENT_DATA *)
  Lemma gen_ctor1_constant (ks : list F) :
    ~ two_distinct ks -> gen_ctor1 ks = Throw MISSING_DATA.
  Proof.
    intros Hd. unfold gen_ctor1.
    assert (grid_ctor (unique ks) = Throw MISSING_DATA) as ->; [|reflexivity].
    apply grid_ctor_missing. unfold nlen.
    destruct (unique ks) as [|c [|d u]] eqn:E; cbn [length]; try lia.
    exfalso. apply Hd.
    assert (In c ks) as Hc by (apply unique_In; rewrite E; cbn [In]; auto).
    assert (In d ks) as Hd' by (apply unique_In; rewrite E; cbn [In]; auto).
    apply In_nth_error in Hc as [i Hi]. apply In_nth_error in Hd' as [j Hj].
    exists i, j, c, d. split; [exact Hi|]. split; [exact Hj|].
    intros ->.
    (* c :: c :: u cannot be the result of unique *)
    clear - E L. revert E. generalize ks. clear ks.
    induction ks as [|a ks IH]; [discriminate|].
    destruct ks as [|b r]; [discriminate|].
    rewrite unique_cons2. destruct (feqb a b) eqn:Eab; [exact IH|].
    destruct (unique_head b r) as [w Hw]. rewrite Hw. intros [= -> -> _].
    rewrite feqb_refl in Eab. discriminate.
  Qed.

  Lemma gen_ctor1_descent (ks : list F) :
    two_distinct ks -> ~ nondecreasing ks -> gen_ctor1 ks = Throw INCONSISTENT_DATA.
  Proof.
    intros Hd Hn. unfold gen_ctor1.
    assert (grid_ctor (unique ks) = Throw INCONSISTENT_DATA) as ->; [|reflexivity].
    apply grid_ctor_inconsistent. split.
    - pose proof (two_distinct_unique_ge2 ks Hd). unfold nlen. lia.
    - intros H. apply Hn. apply unique_increasing_inv. exact H.
  Qed.

  Lemma gen_ctor2_ok (ks g : list F) :
    nondecreasing ks -> two_distinct ks -> (nlen ks < 2 ^ 63)%N -> g = unique ks ->
    gen_ctor2 ks g = Ok (mkGen (unique ks) ks).
  Proof.
    intros Hn Hd Hl ->. unfold gen_ctor2. rewrite grid_ctor_unique by assumption. cbn [bind].
    rewrite grid_eqb_refl. reflexivity.
  Qed.

  Lemma gen_ctor2_mismatch (ks g : list F) :
    nondecreasing ks -> two_distinct ks -> (nlen ks < 2 ^ 63)%N -> g <> unique ks ->
    gen_ctor2 ks g = Throw INCONSISTENT_DATA.
  Proof.
    intros Hn Hd Hl Hg. unfold gen_ctor2. rewrite grid_ctor_unique by assumption. cbn [bind].
    destruct (grid_eqb g (unique ks)) eqn:E; [|reflexivity].
    apply grid_eqb_eq in E. contradiction.
  Qed.

End GenFacts.

(* Proofs_Binom.v — factorials and binomial coefficients as the library
   computes them, the binomial expansion of Position<n>::expandPower, and the
   root bound for polynomials (a polynomial of degree < n with n distinct
   roots is zero). *)
From Coq Require Import List Arith NArith Bool Lia Field Ring.
From BSpl Require Import ListAux Scalar Outcome Support Poly Spline Ops Proofs_Scalar.
Import ListNotations.
Local Open Scope F_scope.

Section BinomFacts.
  Context {F : Type} {K : Ops F} {L : Laws K}.
  Add Field Ffbin : (@Fth F K L).

  (* ------------------------------------------------------------------ *)
  (* Part A: prod_range, faculty, faculty_ratio, binomial                *)
  (* ------------------------------------------------------------------ *)

  Lemma prod_range_empty lo hi : (hi < lo)%nat -> prod_range lo hi = f1.
  Proof.
    intros H. unfold prod_range.
    replace (S hi - lo)%nat with 0%nat by lia. reflexivity.
  Qed.

  Lemma prod_range_snoc lo hi : (lo <= S hi)%nat ->
    prod_range lo (S hi) = prod_range lo hi * fofnat (S hi).
  Proof.
    intros H. unfold prod_range.
    replace (S (S hi) - lo)%nat with (S (S hi - lo)) by lia.
    rewrite seq_S, fold_left_app. cbn [fold_left].
    replace (lo + (S hi - lo))%nat with (S hi) by lia. reflexivity.
  Qed.

  Lemma fmul_neq0 a b : a <> f0 -> b <> f0 -> a * b <> f0.
  Proof.
    intros Ha Hb E. apply Hb.
    replace b with (a * b / a) by (field; exact Ha). rewrite E. field. exact Ha.
  Qed.

  Lemma fmul_eq0 a b : a * b = f0 -> a = f0 \/ b = f0.
  Proof.
    intros E. destruct (feq_dec a f0) as [Ha|Ha]; [left; exact Ha|].
    destruct (feq_dec b f0) as [Hb|Hb]; [right; exact Hb|].
    exfalso. exact (fmul_neq0 a b Ha Hb E).
  Qed.

  Lemma prod_range_neq0 lo hi : (0 < lo)%nat -> prod_range lo hi <> f0.
  Proof.
    intros Hlo. induction hi as [|hi IH].
    - rewrite prod_range_empty by lia. apply f1_neq_f0.
    - destruct (le_lt_dec lo (S hi)) as [H|H].
      + rewrite prod_range_snoc by exact H.
        apply fmul_neq0; [exact IH | apply fofnat_S_neq0].
      + rewrite prod_range_empty by exact H. apply f1_neq_f0.
  Qed.

  Lemma faculty_0 : faculty 0 = f1.
  Proof. unfold faculty. apply prod_range_empty. lia. Qed.

  Lemma faculty_1 : faculty 1 = f1.
  Proof. unfold faculty. apply prod_range_empty. lia. Qed.

  Lemma faculty_S n : faculty (S n) = faculty n * fofnat (S n).
  Proof.
    destruct n as [|n].
    - rewrite faculty_0, faculty_1, fofnat_1. ring.
    - unfold faculty. apply prod_range_snoc. lia.
  Qed.

  Lemma faculty_neq0 n : faculty n <> f0.
  Proof. unfold faculty. apply prod_range_neq0. lia. Qed.

  (* prod_{i=d+1}^{c} i * d! = c! *)
  Lemma prod_range_faculty c d : (d <= c)%nat ->
    prod_range (d + 1) c * faculty d = faculty c.
  Proof.
    intros H. induction c as [|c IH].
    - assert (d = 0%nat) as -> by lia. rewrite prod_range_empty by lia. ring.
    - destruct (Nat.eq_dec d (S c)) as [->|Hne].
      + rewrite prod_range_empty by lia. ring.
      + rewrite prod_range_snoc by lia. rewrite faculty_S, <- IH by lia. ring.
  Qed.

  Lemma faculty_ratio_ge c d : (d <= c)%nat -> faculty_ratio c d * faculty d = faculty c.
  Proof.
    intros H. unfold faculty_ratio.
    destruct (c <? d)%nat eqn:E; [apply Nat.ltb_lt in E; lia|].
    apply prod_range_faculty. exact H.
  Qed.

  Lemma faculty_ratio_lt c d : (c < d)%nat -> faculty_ratio c d * faculty d = faculty c.
  Proof.
    intros H. unfold faculty_ratio.
    destruct (c <? d)%nat eqn:E; [|apply Nat.ltb_ge in E; lia].
    rewrite <- (prod_range_faculty d c) by lia.
    field. apply prod_range_neq0. lia.
  Qed.

  Lemma faculty_ratio_spec c d : faculty_ratio c d * faculty d = faculty c.
  Proof.
    destruct (le_lt_dec d c) as [H|H]; [apply faculty_ratio_ge | apply faculty_ratio_lt]; exact H.
  Qed.

  Lemma binomial_fact n k : (k <= n)%nat ->
    binomial n k * (faculty k * faculty (n - k)) = faculty n.
  Proof.
    intros H. unfold binomial.
    destruct (n <? k)%nat eqn:E; [apply Nat.ltb_lt in E; lia|].
    rewrite <- (faculty_ratio_spec n (Nat.max k (n - k))).
    pose proof (faculty_neq0 (Nat.min k (n - k))) as Hm.
    destruct (Nat.max_spec k (n - k)) as [[H1 ->]|[H1 ->]];
      destruct (Nat.min_spec k (n - k)) as [[H2 E2]|[H2 E2]]; rewrite E2 in *;
      try lia; field; exact Hm.
  Qed.

  Lemma binomial_eq n k : (k <= n)%nat ->
    binomial n k = faculty n / (faculty k * faculty (n - k)).
  Proof.
    intros H. rewrite <- (binomial_fact n k H).
    field. split; apply faculty_neq0.
  Qed.

  Lemma binomial_gt n k : (n < k)%nat -> binomial n k = f0.
  Proof.
    intros H. unfold binomial.
    destruct (n <? k)%nat eqn:E; [reflexivity | apply Nat.ltb_ge in E; lia].
  Qed.

  Lemma binomial_n_0 n : binomial n 0 = f1.
  Proof.
    rewrite binomial_eq by lia. rewrite Nat.sub_0_r, faculty_0.
    field. repeat split; try apply faculty_neq0; try apply f1_neq_f0.
  Qed.

  Lemma binomial_n_n n : binomial n n = f1.
  Proof.
    rewrite binomial_eq by lia. rewrite Nat.sub_diag, faculty_0.
    field. repeat split; try apply faculty_neq0; try apply f1_neq_f0.
  Qed.

  Lemma binomial_pascal n k :
    binomial (S n) (S k) = binomial n k + binomial n (S k).
  Proof.
    destruct (lt_eq_lt_dec k n) as [[H|H]|H].
    - (* k < n *)
      rewrite !binomial_eq by lia.
      replace (S n - S k)%nat with (S (n - S k)) by lia.
      replace (n - k)%nat with (S (n - S k)) by lia.
      set (j := (n - S k)%nat).
      rewrite (faculty_S n), (faculty_S k), (faculty_S j).
      replace (S n) with (S k + S j)%nat by (subst j; lia).
      rewrite fofnat_add.
      pose proof (faculty_neq0 k) as Hk. pose proof (faculty_neq0 j) as Hj.
      pose proof (fofnat_S_neq0 k) as Hk'. pose proof (fofnat_S_neq0 j) as Hj'.
      field. repeat split; assumption.
    - subst k. rewrite !binomial_n_n, (binomial_gt n (S n)) by lia. ring.
    - rewrite !binomial_gt by lia. ring.
  Qed.

  (* ------------------------------------------------------------------ *)
  (* Part B: Position<n>::expandPower is the binomial expansion          *)
  (* ------------------------------------------------------------------ *)

  Lemma fpow_add x a b : fpow x (a + b) = fpow x a * fpow x b.
  Proof.
    induction a as [|a IH]; cbn [fpow Nat.add]; [ring|]. rewrite IH. ring.
  Qed.

  Lemma fpow_S x n : fpow x (S n) = x * fpow x n.
  Proof. reflexivity. Qed.

  Lemma fpow_0 x : fpow x 0 = f1.
  Proof. reflexivity. Qed.

  Lemma fpow_1 x : fpow x 1 = x.
  Proof. cbn [fpow]. ring. Qed.

  Lemma fpow_mul x y n : fpow (x * y) n = fpow x n * fpow y n.
  Proof. induction n as [|n IH]; cbn [fpow]; [ring|]. rewrite IH. ring. Qed.

  Lemma fpow_f0 n : fpow f0 (S n) = f0.
  Proof. cbn [fpow]. ring. Qed.

  Lemma fpow_f1 n : fpow f1 n = f1.
  Proof. induction n as [|n IH]; cbn [fpow]; [reflexivity|]. rewrite IH. ring. Qed.

  Lemma fpow_neq0 x n : x <> f0 -> fpow x n <> f0.
  Proof.
    intros H. induction n as [|n IH]; cbn [fpow]; [apply f1_neq_f0|].
    apply fmul_neq0; assumption.
  Qed.

  Lemma length_expand_power n xm : length (expand_power n xm) = (n + 1)%nat.
  Proof. unfold expand_power. rewrite rev_length, map_length, seq_length. reflexivity. Qed.

  Lemma nth_expand_power n xm j : (j <= n)%nat ->
    nth j (expand_power n xm) f0 = binomial n (n - j) * fpow xm (n - j).
  Proof.
    intros H. unfold expand_power.
    rewrite rev_nth by (rewrite map_length, seq_length; lia).
    rewrite map_length, seq_length.
    replace (n + 1 - S j)%nat with (n - j)%nat by lia.
    rewrite (nth_indep _ f0 ((fun i => binomial n i * fpow xm i) 0%nat))
      by (rewrite map_length, seq_length; lia).
    rewrite (map_nth (fun i => binomial n i * fpow xm i)).
    rewrite seq_nth by lia. reflexivity.
  Qed.

  Lemma nth_padd_local (p q : list F) j :
    nth j (padd p q) f0 = nth j p f0 + nth j q f0.
  Proof.
    revert q j. induction p as [|a p IH]; intros q j.
    - cbn [padd]. destruct j; cbn [nth]; ring.
    - destruct q as [|b q]; cbn [padd].
      + destruct j; cbn [nth]; ring.
      + destruct j as [|j]; cbn [nth]; [reflexivity | apply IH].
  Qed.

  Lemma length_padd_local (p q : list F) :
    length (padd p q) = Nat.max (length p) (length q).
  Proof.
    revert q. induction p as [|a p IH]; intros q.
    - reflexivity.
    - destruct q as [|b q]; cbn [padd length]; [reflexivity|]. rewrite IH. reflexivity.
  Qed.

  Lemma nth_pscale_l_local c (p : list F) j :
    nth j (pscale_l c p) f0 = c * nth j p f0.
  Proof.
    unfold pscale_l. revert j. induction p as [|a p IH]; intros j.
    - destruct j; cbn [map nth]; ring.
    - destruct j as [|j]; cbn [map nth]; [reflexivity | apply IH].
  Qed.

  Lemma peval_padd_local (p q : list F) u : peval (padd p q) u = peval p u + peval q u.
  Proof.
    revert q. induction p as [|a p IH]; intros q.
    - cbn [padd peval]. ring.
    - destruct q as [|b q]; cbn [padd peval]; [ring|]. rewrite IH. ring.
  Qed.

  Lemma peval_pscale_l_local c (p : list F) u : peval (pscale_l c p) u = c * peval p u.
  Proof.
    unfold pscale_l. induction p as [|a p IH]; cbn [map peval]; [ring|]. rewrite IH. ring.
  Qed.

  (* Pascal's rule on coefficient lists: (u+xm)^(n+1) = xm (u+xm)^n + u (u+xm)^n *)
  Lemma expand_power_S n xm :
    expand_power (S n) xm =
    padd (pscale_l xm (expand_power n xm)) (f0 :: expand_power n xm).
  Proof.
    apply (nth_ext _ _ f0 f0).
    - rewrite length_padd_local. unfold pscale_l.
      cbn [length]. rewrite map_length, !length_expand_power. lia.
    - intros j Hj. rewrite length_expand_power in Hj.
      rewrite nth_padd_local, nth_pscale_l_local, nth_expand_power by lia.
      destruct j as [|j]; cbn [nth].
      + rewrite nth_expand_power by lia.
        rewrite !Nat.sub_0_r, !binomial_n_n. cbn [fpow]. ring.
      + rewrite (nth_expand_power n xm j) by lia.
        replace (S n - S j)%nat with (n - j)%nat by lia.
        destruct (Nat.eq_dec j n) as [->|Hne].
        * rewrite nth_overflow by (rewrite length_expand_power; lia).
          rewrite Nat.sub_diag, !binomial_n_0. ring.
        * rewrite nth_expand_power by lia.
          replace (n - j)%nat with (S (n - S j)) by lia.
          rewrite binomial_pascal. cbn [fpow]. ring.
  Qed.

  (* the binomial theorem *)
  Lemma expand_power_spec n xm u : peval (expand_power n xm) u = fpow (u + xm) n.
  Proof.
    induction n as [|n IH].
    - unfold expand_power. cbn [Nat.add seq map rev app peval fpow].
      rewrite binomial_n_0. ring.
    - rewrite expand_power_S, peval_padd_local, peval_pscale_l_local.
      cbn [peval fpow]. rewrite IH. ring.
  Qed.

  (* ------------------------------------------------------------------ *)
  (* Part C: roots of polynomials                                        *)
  (* ------------------------------------------------------------------ *)

  (* synthetic division of p by (x - r): the quotient, explicitly *)
  Fixpoint sdiv (p : list F) (r : F) : list F :=
    match p with
    | [] => []
    | _ :: p' => match p' with [] => [] | _ :: _ => peval p' r :: sdiv p' r end
    end.

  Lemma length_sdiv p r : length (sdiv p r) = (length p - 1)%nat.
  Proof.
    induction p as [|a p IH]; [reflexivity|].
    destruct p as [|b p]; [reflexivity|].
    change (sdiv (a :: b :: p) r) with (peval (b :: p) r :: sdiv (b :: p) r).
    cbn [length] in *. rewrite IH. lia.
  Qed.

  Lemma sdiv_spec p r x : peval p x = peval p r + (x - r) * peval (sdiv p r) x.
  Proof.
    induction p as [|a p IH]; [cbn [sdiv peval]; ring|].
    destruct p as [|b p]; [cbn [sdiv peval]; ring|].
    change (sdiv (a :: b :: p) r) with (peval (b :: p) r :: sdiv (b :: p) r).
    set (p' := b :: p) in *.
    cbn [peval]. rewrite IH. ring.
  Qed.

  Lemma synth_div (p : list F) (r : F) :
    exists q, length q = (length p - 1)%nat /\
              forall x, peval p x = peval p r + (x - r) * peval q x.
  Proof.
    exists (sdiv p r). split; [apply length_sdiv | intros x; apply sdiv_spec].
  Qed.

  Lemma peval_zero (p : list F) u : Forall (fun a => a = f0) p -> peval p u = f0.
  Proof.
    induction 1 as [|a p Ha _ IH]; cbn [peval]; [reflexivity|]. rewrite Ha, IH. ring.
  Qed.

  Lemma sdiv_zero p r :
    Forall (fun a => a = f0) (sdiv p r) -> peval p r = f0 -> Forall (fun a => a = f0) p.
  Proof.
    induction p as [|a p IH]; intros Hq Hr; [constructor|].
    destruct p as [|b p].
    - constructor; [|constructor]. cbn [peval] in Hr. rewrite <- Hr. ring.
    - change (sdiv (a :: b :: p) r) with (peval (b :: p) r :: sdiv (b :: p) r) in Hq.
      remember (b :: p) as p' eqn:Ep'.
      inversion Hq as [|c l Hc Hl]; subst c l.
      pose proof (IH Hl Hc) as Hp'.
      constructor; [|exact Hp'].
      change (peval (a :: p') r) with (a + r * peval p' r) in Hr.
      rewrite Hc in Hr. rewrite <- Hr. ring.
  Qed.

  Lemma roots_bound (p xs : list F) :
    NoDup xs -> (length p <= length xs)%nat ->
    (forall x, In x xs -> peval p x = f0) -> Forall (fun a => a = f0) p.
  Proof.
    intros Hnd. revert p. induction Hnd as [|r xs Hnotin Hnd IH]; intros p Hlen Hroots.
    - destruct p as [|a p]; [constructor | cbn [length] in Hlen; lia].
    - assert (peval p r = f0) as Hr by (apply Hroots; left; reflexivity).
      apply (sdiv_zero p r); [|exact Hr].
      apply IH.
      + rewrite length_sdiv. cbn [length] in Hlen. lia.
      + intros x Hx.
        assert (peval p x = f0) as Hpx by (apply Hroots; right; exact Hx).
        rewrite (sdiv_spec p r x), Hr in Hpx.
        assert ((x - r) * peval (sdiv p r) x = f0) as Hprod by (rewrite <- Hpx; ring).
        apply fmul_eq0 in Hprod as [Hxr|Hq]; [|exact Hq].
        exfalso. apply Hnotin. replace r with x; [exact Hx|].
        replace x with (x - r + r) by ring. rewrite Hxr. ring.
  Qed.

  Lemma distinct_points a b n : fltb a b = true ->
    exists xs, length xs = n /\ NoDup xs /\
               forall x, In x xs -> fltb a x = true /\ fltb x b = true.
  Proof.
    revert a. induction n as [|n IH]; intros a Hab.
    - exists []. split; [reflexivity|]. split; [constructor|]. intros x [].
    - destruct (mid_between a b Hab) as [Ham Hmb].
      set (m := (a + b) / f2) in *.
      destruct (IH m Hmb) as [xs [Hlen [Hnd Hin]]].
      exists (m :: xs). split; [cbn [length]; rewrite Hlen; reflexivity|]. split.
      + constructor; [|exact Hnd].
        intros Hm. destruct (Hin m Hm) as [Hmm _]. rewrite flt_irrefl in Hmm. discriminate.
      + intros x [<-|Hx]; [split; assumption|].
        destruct (Hin x Hx) as [H1 H2]. split; [|exact H2].
        apply (flt_trans a m x); assumption.
  Qed.

End BinomFacts.

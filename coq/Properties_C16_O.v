(* Properties_C16_O.v — C16_O: rounding-error bounds for whole public operations, as compiled.
   coq/gen/OpsGen_*.v (gen/symops.py) hold, per scenario, the object a real C++ public operation
   returns on splines whose grid points g0 < g1 < g2 < g3 and coefficients are variables and whose
   windows and orders are concrete (o_<scenario>: a scalar, or a spline as order + window + list of
   coefficient lists), in the code's OWN operation order and generic over the scalar structure:
   sums, differences, products, scalar forms, in-place forms, linearCombination (arith); operator
   applications (apply); bilinear forms (bilin); linear forms (lin) - the quantities property C16
   names.  coq/gen/RoundOpsGen_*.v (gen/symroundops.py, regenerated on every run from the same run
   of cpp/symops.cpp) reify every result term and instantiate the generic forward error bound for
   expression trees (coq/Proofs_RoundTac.v, extended in coq/Proofs_RoundOpsTac.v to divisors that
   are variables, i.e. exact inputs, with the premise that they are non-zero):
       o_<scenario> evaluated with ROUNDED operations (RndOps rnd)  differs from  o_<scenario>
       evaluated with exact real operations (ExactOps)  by at most  gamma u <depth> * omag_<scenario>,
   for ANY rounding function with rnd x = x (1 + d), |d| <= u, and integers up to M exact;
   omag_<scenario> is the same expression with every variable and literal replaced by its absolute
   value, subtraction by addition and division by |divisor|.  For a spline result the statement is
   componentwise over all its coefficients (klist_bound over concat (r_coefs ...)); order and window
   are literals of o_<scenario>.  rounding_ops_<family>_bounded is the conjunction over a family's
   scenarios (258 in all, none excluded; six divide by a symbolic scalar c and carry c <> 0),
   rounding_ops_<family>_binary64 the same at IEEE binary64 round-to-nearest-even (Flocq; no
   underflow/overflow) in the form of the property: |computed - exact| <= 2^20 * 2^-52 * omag.
   The exact value o_<scenario> (ExactOps) is tied to the model by Properties_C0{3,4,6,7}_O.v.
   Statements only: every theorem is closed by [exact].  Axioms: those of Properties_C16.v. *)
From Coq Require Import List ZArith Reals.
From BSpl Require Import Scalar Proofs_OpsTac Proofs_Rounded Proofs_RoundTac Proofs_RoundOpsTac.
From BSpl.gen Require Import RoundOpsGen_arith RoundOpsGen_apply RoundOpsGen_bilin RoundOpsGen_lin.
Import ListNotations.
Local Open Scope R_scope.

(* ---- the generic theorem with variable divisors: every divisor is a non-zero integer constant or a
   ---- variable that is non-zero in env; integer literals / integer-valued sub-results within M ---- *)
Theorem C16_O_expression_rounding_bound :
  forall u : R, 0 <= u ->
  forall rnd : R -> R, (forall x : R, exists d : R, Rabs d <= u /\ rnd x = x * (1 + d)) ->
  forall M : Z, (forall z : Z, (Z.abs z <= M)%Z -> rnd (IZR z) = IZR z) ->
  forall (env : list R) (e : kexpr),
    kwfv M e = true ->
    Forall (fun i : nat => nth i env 0 <> 0) (kdivvars e) ->
    Rabs (@kdenote R (RndOps rnd) env e - @kdenote R ExactOps env e) <= gamma u (kdepth e) * kmag env e.
Proof. exact kround_bound_v. Qed.
Print Assumptions C16_O_expression_rounding_bound.

Theorem C16_O_exact_value_within_magnitude :
  forall (M : Z) (env : list R) (e : kexpr),
    kwfv M e = true -> Forall (fun i : nat => nth i env 0 <> 0) (kdivvars e) ->
    Rabs (@kdenote R ExactOps env e) <= kmag env e.
Proof. exact kexact_le_mag_v. Qed.
Print Assumptions C16_O_exact_value_within_magnitude.

Theorem C16_O_expression_rounding_bound_list :
  forall u : R, 0 <= u ->
  forall rnd : R -> R, (forall x : R, exists d : R, Rabs d <= u /\ rnd x = x * (1 + d)) ->
  forall M : Z, (forall z : Z, (Z.abs z <= M)%Z -> rnd (IZR z) = IZR z) ->
  forall (env : list R) (es : list kexpr),
    forallb (kwfv M) es = true ->
    Forall (fun i : nat => nth i env 0 <> 0) (flat_map kdivvars es) ->
    klist_bound (gamma u (kdepths es))
      (map (@kdenote R (RndOps rnd) env) es) (map (@kdenote R ExactOps env) es) (map (kmag env) es).
Proof. exact kround_bound_list_v. Qed.
Print Assumptions C16_O_expression_rounding_bound_list.

(* the theorem of Properties_C16_K.v is the special case without variable divisors *)
Theorem C16_O_constant_divisors_are_a_special_case :
  forall (M : Z) (env : list R) (e : kexpr),
    kwf M e = true -> kwfv M e = true /\ Forall (fun i : nat => nth i env 0 <> 0) (kdivvars e).
Proof. exact (fun M env e H => conj (kwf_kwfv M e H) (kwf_knz M env e H)). Qed.
Print Assumptions C16_O_constant_divisors_are_a_special_case.

Theorem C16_O_expression_rounding_bound_binary64 :
  forall (env : list R) (e : kexpr),
    kwfv M64 e = true -> Forall (fun i : nat => nth i env 0 <> 0) (kdivvars e) ->
    (Z.of_nat (kdepth e) <= 1048576)%Z ->
    Rabs (@kdenote R (RndOps rnd64) env e - @kdenote R ExactOps env e) <= tol64 * kmag env e.
Proof. exact kround_bound_binary64_tol_v. Qed.
Print Assumptions C16_O_expression_rounding_bound_binary64.

(* ---- the public operations, as compiled ---- *)
(* Spline + - * Spline for every placement of two windows, orders (1,1) (1,2) (0,2); += -=; c * a, a * c,
   a / c, -a, a *= c, a /= c; cross-order assignment; linearCombination: 73 scenarios *)
Theorem C16_O_spline_arithmetic_as_compiled : rounding_ops_arith_bounded.
Proof. exact rounding_ops_arith_bounded_ok. Qed.
Print Assumptions C16_O_spline_arithmetic_as_compiled.
Theorem C16_O_spline_arithmetic_as_compiled_binary64 : rounding_ops_arith_binary64.
Proof. exact rounding_ops_arith_binary64_ok. Qed.
Print Assumptions C16_O_spline_arithmetic_as_compiled_binary64.

(* operator * Spline: identity, Dx<1..3>, X<1..2>, products, commutator, scaled sums, integer and
   symbolic scalars in every overload, SplineOperator: 49 scenarios *)
Theorem C16_O_operator_application_as_compiled : rounding_ops_apply_bounded.
Proof. exact rounding_ops_apply_bounded_ok. Qed.
Print Assumptions C16_O_operator_application_as_compiled.
Theorem C16_O_operator_application_as_compiled_binary64 : rounding_ops_apply_binary64.
Proof. exact rounding_ops_apply_binary64_ok. Qed.
Print Assumptions C16_O_operator_application_as_compiled_binary64.

(* BilinearForm<O1,O2>::evaluate / operator() for eight operator pairs, orders (1,1) (2,1) (1,2), nested,
   staggered and disjoint windows: 105 scenarios *)
Theorem C16_O_bilinear_forms_as_compiled : rounding_ops_bilin_bounded.
Proof. exact rounding_ops_bilin_bounded_ok. Qed.
Print Assumptions C16_O_bilinear_forms_as_compiled.
Theorem C16_O_bilinear_forms_as_compiled_binary64 : rounding_ops_bilin_binary64.
Proof. exact rounding_ops_bilin_binary64_ok. Qed.
Print Assumptions C16_O_bilinear_forms_as_compiled_binary64.

(* LinearForm<O>::evaluate / operator() for six operators, orders 1 and 2: 31 scenarios *)
Theorem C16_O_linear_forms_as_compiled : rounding_ops_lin_bounded.
Proof. exact rounding_ops_lin_bounded_ok. Qed.
Print Assumptions C16_O_linear_forms_as_compiled.
Theorem C16_O_linear_forms_as_compiled_binary64 : rounding_ops_lin_binary64.
Proof. exact rounding_ops_lin_binary64_ok. Qed.
Print Assumptions C16_O_linear_forms_as_compiled_binary64.

(* ---- non-vacuity: the binary64 bound at concrete dyadic arguments with g0 < g1 < g2 < g3 ---- *)
Theorem C16_O_bilinear_form_example : rounding_ops_bilin_example.
Proof. exact rounding_ops_bilin_example_ok. Qed.
Print Assumptions C16_O_bilinear_form_example.
Theorem C16_O_linear_form_example : rounding_ops_lin_example.
Proof. exact rounding_ops_lin_example_ok. Qed.
Print Assumptions C16_O_linear_form_example.

(* Interp.v — model of interpolation/interpolation.h (generic `interpolate`).
   The linear system is a list of rows in the order the code emits them; a row
   is the list of matrix entries it writes (column, value) plus its right-hand
   side (entries not written are zero: the solver zero-initialises).  The
   solver itself is a parameter.  No proofs in this file. *)
From Coq Require Import List NArith Arith Bool.
From BSpl Require Import Scalar Outcome Support Poly Spline.
Import ListNotations.

Section Interp.
  Context {F : Type} {K : Ops F}.

  Inductive node := FIRST | LAST.
  Record boundary := mkBnd { bnode : node; bderiv : nat; bvalue : F }.
  Record row := mkRow { rentries : list (nat * F); rrhs : F }.

  (* internal::defaultBoundaries<T, order>() *)
  Definition default_boundaries (order : nat) : list boundary :=
    map (fun i => if Nat.even i then mkBnd FIRST (i / 2 + 1) f0
                  else mkBnd LAST ((i - 1) / 2 + 1) f0) (seq 0 (order - 1)).

  (* value row: columns base+0..base+order hold dx^i *)
  Definition value_row (order base : nat) (dx y : F) : row :=
    mkRow (map (fun i => (base + i, fpow dx i)) (seq 0 (order + 1))) y.

  (* derivative entries: columns base+d..base+order hold sign * i!/(i-d)! * dx^(i-d) *)
  Definition deriv_entries (order base d : nat) (dx : F) (neg : bool) : list (nat * F) :=
    map (fun i => (base + i,
                   let v := (faculty_ratio i (i - d) * fpow dx (i - d))%F in
                   if neg then (- faculty_ratio i (i - d) * fpow dx (i - d))%F else v))
        (seq d (order + 1 - d)).

  Definition node_eqb (a b : node) : bool :=
    match a, b with FIRST, FIRST | LAST, LAST => true | _, _ => false end.

  (* boundary rows for one end; FIRST also validates every derivative order,
     in sequence, as the loop in the code does *)
  Fixpoint bnd_rows_first (order : nat) (dx : F) (bs : list boundary) : outcome (list row) :=
    match bs with
    | [] => Ok []
    | bo :: r =>
        if (bderiv bo =? 0)%nat || (order <? bderiv bo)%nat then Throw UNDETERMINED
        else
          do rest <- bnd_rows_first order dx r;
          Ok (match bnode bo with
              | FIRST => mkRow (deriv_entries order 0 (bderiv bo) dx false) (bvalue bo) :: rest
              | LAST => rest
              end)
    end.

  Definition bnd_rows_last (order base : nat) (dx : F) (bs : list boundary) : list row :=
    flat_map (fun bo => match bnode bo with
                        | LAST => [mkRow (deriv_entries order base (bderiv bo) dx false) (bvalue bo)]
                        | FIRST => []
                        end) bs.

  (* rows of one interior node c (1 <= c <= n-2) *)
  Definition interior_rows (order : nat) (x : support F) (y : list F) (c : nat) : outcome (list row) :=
    let nc := (order + 1)%nat in
    do xc <- sup_sub x (N.of_nat c);
    do xl <- sup_sub x (N.of_nat (c - 1));
    do xr <- sup_sub x (N.of_nat (c + 1));
    let dx1 := ((xc - xl) / f2)%F in
    let dx2 := ((xc - xr) / f2)%F in
    do yc <- sub y c;
    Ok (value_row order (nc * (c - 1)) dx1 yc
        :: value_row order (nc * c) dx2 yc
        :: map (fun d => mkRow (deriv_entries order (nc * (c - 1)) d dx1 false
                                ++ deriv_entries order (nc * c) d dx2 true) f0)
               (seq 1 (order - 1))).

  (* the assembled system, or the exception the assembly throws *)
  Definition interp_system (order : nat) (x : support F) (y : list F) (bs : list boundary)
    : outcome (list row) :=
    let n := sup_size x in
    if negb (n =? nlen y)%N then Throw INCONSISTENT_DATA
    else if (n <? 2)%N then Throw UNDETERMINED
    else
      let nn := N.to_nat n in
      let nc := (order + 1)%nat in
      do x0 <- sup_sub x 0;
      do x1 <- sup_sub x 1;
      let dxf := ((x0 - x1) / f2)%F in
      do y0 <- match y with [] => UB OOBRead | a :: _ => Ok a end;
      do bf <- bnd_rows_first order dxf bs;
      do mid <- omapM (interior_rows order x y) (seq 1 (nn - 2));
      do xb <- sup_back x;
      do xp <- sup_sub x (wsub n 2);
      let dxl := ((xb - xp) / f2)%F in
      let rows := (value_row order 0 dxf y0 :: bf) ++ concat mid
                  ++ (value_row order (nc * (nn - 2)) dxl (last y f0)
                      :: bnd_rows_last order (nc * (nn - 2)) dxl bs) in
      if negb (length rows =? nc * (nn - 1))%nat then Throw UNDETERMINED
      else Ok rows.

  (* coefficients from the solution vector: NUM_COEFFS consecutive entries per interval *)
  Fixpoint chunks (k n : nat) (l : list F) : list (list F) :=
    match n with
    | O => []
    | S m => firstn k l :: chunks k m (skipn k l)
    end.

  Definition interp_build (order : nat) (x : support F) (sol : list F) : outcome (spline F) :=
    spl_ctor order x (chunks (order + 1) (N.to_nat (sup_size x) - 1) sol).

  (* interpolate<T, order, Solver> *)
  Definition interpolate (solver : nat -> list row -> list F) (order : nat)
             (x : support F) (y : list F) (bs : list boundary) : outcome (spline F) :=
    do sys <- interp_system order x y bs;
    interp_build order x (solver (length sys) sys).

  (* (M c)_r for a row: the sum of entry * c[col]; a column written twice
     keeps the last value, which never happens here (distinct columns). *)
  Definition row_apply (r : row) (c : list F) : F :=
    fold_left (fun acc '(j, v) => (acc + v * nth j c f0)%F) (rentries r) f0.
End Interp.

Arguments boundary F : clear implicits.
Arguments row F : clear implicits.

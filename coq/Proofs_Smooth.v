(* Proofs_Smooth.v — the smoothness clause of C01: every generated basis
   function of order p is C^{p-mu} across a knot of multiplicity mu.

   At a grid point t that occurs mu times in the knot vector, the one-sided
   derivatives of orders 0 .. p-mu of the two adjacent polynomial pieces of a
   generated spline coincide ([jump_free]); pieces outside the support are the
   zero polynomial, so the statement includes the smooth junction with zero at
   the ends of the support.

   Part 0: translation of the expansion point, linearity of [pderivn].
   Part 1: [BP], the coefficient list (about 0) of the per-interval Cox–de Boor
           polynomial [Bk]; the pieces of a generated spline are translates.
   Part 2: the block [a, b) of indices of a value in a sorted knot vector, [mult].
   Part 3: abstract families of one-sided values at a knot: continuity from the
           recursion ([V_cont]), smoothness from a derivative formula ([D_smooth]).
   Part 4: the B-spline derivative formula ([BP_deriv], [BP_deriv_peq]).
   Part 5: the main theorem [gen_smooth]; the version with the multiplicity
           local to the function ([gen_smooth_local]); the two ends of the grid
           ([gen_smooth_first], [gen_smooth_last], [gen_smooth_all]);
           [gen_continuous]; [B_derivative_formula] on the stored pieces.
   Finally: boolean checkers and examples over the rationals, including
           sharpness (a jump in the derivative of order p - mult + 1). *)
From Coq Require Import List Arith NArith ZArith Bool Lia ZifyBool ZifyN Field Ring.
From BSpl Require Import ListAux Scalar Outcome Support Poly Spline Ops Generator
  Spec Spec_Ops Spec_Gen
  Proofs_Support Proofs_Scalar Proofs_Outcome Proofs_Poly Proofs_Eval Proofs_Spline
  Proofs_Ops Proofs_Interp Proofs_Gen.
Import ListNotations.

Ltac Zify.zify_post_hook ::= Z.div_mod_to_equations.

Section SmoothFacts.
  Context {F : Type} {K : Ops F} {L : Laws K}.
  Add Field Ffsm : (@Fth F K L).
  Local Open Scope F_scope.

  (* ================================================================== *)
  (* specification vocabulary                                            *)
  (* ================================================================== *)

  (* multiplicity of the value t in the knot vector *)
  Definition mult (ks : list F) (t : F) : nat := length (filter (fun a => feqb a t) ks).

  (* the d-th derivatives of the pieces on the intervals k and k+1 agree at
     the common grid point g_{k+1} *)
  Definition jump_free (s : spline F) (k : N) (d : nat) : Prop :=
    dval (piece s k) d (gnth (sgridp s) (k + 1)) (mid (sgridp s) k)
    = dval (piece s (k + 1)) d (gnth (sgridp s) (k + 1)) (mid (sgridp s) (k + 1)).

  (* equality of coefficient lists as polynomial functions *)
  Definition peq (p q : list F) : Prop := forall u, peval p u = peval q u.

  (* ================================================================== *)
  (* Part 0: translation, linearity of the iterated derivative           *)
  (* ================================================================== *)

  Lemma fdiv_0_l (w : F) : f0 / w = f0.
  Proof. rewrite (Fdiv_def (@Fth F K L)). ring. Qed.

  (* p(X + c) *)
  Fixpoint pshift (c : F) (p : list F) : list F :=
    match p with [] => [] | a :: q => padd [a] (pmul [c; f1] (pshift c q)) end.

  Lemma peval_pshift c (p : list F) u : peval (pshift c p) u = peval p (u + c).
  Proof.
    induction p as [|a p IH]; [reflexivity|].
    cbn [pshift]. rewrite peval_padd, peval_pmul, IH. cbn [peval]. ring.
  Qed.

  Lemma peval_pderiv_pshift c (p : list F) u :
    peval (pderiv (pshift c p)) u = peval (pderiv p) (u + c).
  Proof.
    induction p as [|a p IH]; [reflexivity|].
    rewrite (peval_pderiv_cons a p).
    cbn [pshift]. rewrite peval_pderiv_padd, peval_pderiv_pmul, IH, peval_pshift. cbn [pderiv pderiv_from peval]. rewrite fofnat_1. ring.
  Qed.

  Lemma peval_pderivn_pshift n c (p : list F) u :
    peval (pderivn n (pshift c p)) u = peval (pderivn n p) (u + c).
  Proof.
    revert p u; induction n as [|n IH]; intros p u; cbn [pderivn].
    - apply peval_pshift.
    - rewrite <- IH. apply peval_pderivn_ext. intros v.
      rewrite peval_pderiv_pshift, peval_pshift. reflexivity.
  Qed.

  (* a coefficient list about m and one about 0 that denote the same function
     have the same derivatives *)
  Lemma dval_transfer (P Q : list F) m :
    (forall x, peval P (x - m) = peval Q x) ->
    forall d x, dval P d x m = peval (pderivn d Q) x.
  Proof.
    intros H d x. unfold dval.
    rewrite (peval_pderivn_ext d P (pshift m Q)).
    - rewrite peval_pderivn_pshift. f_equal. ring.
    - intros u. rewrite peval_pshift, <- H. f_equal. ring.
  Qed.

  Lemma peval_pderivn_padd n (p q : list F) u :
    peval (pderivn n (padd p q)) u = peval (pderivn n p) u + peval (pderivn n q) u.
  Proof.
    rewrite <- peval_padd. apply peval_ext_nth. intros i.
    rewrite nth_padd, !nth_pderivn, nth_padd. ring.
  Qed.

  Lemma peval_pderivn_pscale_l n c (p : list F) u :
    peval (pderivn n (pscale_l c p)) u = c * peval (pderivn n p) u.
  Proof.
    rewrite <- peval_pscale_l. apply peval_ext_nth. intros i.
    rewrite nth_pscale_l, !nth_pderivn, nth_pscale_l. ring.
  Qed.

  Lemma pderivn_nil n : pderivn n (@nil F) = [].
  Proof. induction n as [|n IH]; [reflexivity | exact IH]. Qed.

  Lemma peval_pderivn_nil n (u : F) : peval (pderivn n []) u = f0.
  Proof. rewrite pderivn_nil. reflexivity. Qed.

  (* ================================================================== *)
  (* Part 1: the per-interval polynomial as a coefficient list about 0   *)
  (* ================================================================== *)

  Fixpoint BP (ks : list F) (p i k : nat) : list F :=
    match p with
    | O => if fltb (knot ks i) (knot ks (i + 1)) && feqb (knot ks i) (nth k (unique ks) f0)
           then [f1] else []
    | S q =>
        padd (if fltb (knot ks i) (knot ks (i + q + 1))
              then pscale_l (f1 / (knot ks (i + q + 1) - knot ks i))
                     (pmul [- knot ks i; f1] (BP ks q i k))
              else [])
             (if fltb (knot ks (i + 1)) (knot ks (i + q + 2))
              then pscale_l (f1 / (knot ks (i + q + 2) - knot ks (i + 1)))
                     (pmul [knot ks (i + q + 2); - f1] (BP ks q (i + 1) k))
              else [])
    end.

  Lemma peval_BP (ks : list F) p i k x : peval (BP ks p i k) x = Bk ks p i k x.
  Proof.
    revert i; induction p as [|q IH]; intros i; cbn [BP Bk].
    - destruct (fltb (knot ks i) (knot ks (i + 1)) && feqb (knot ks i) (nth k (unique ks) f0));
        cbn [peval]; ring.
    - rewrite peval_padd.
      destruct (fltb (knot ks i) (knot ks (i + q + 1))) eqn:E1;
        destruct (fltb (knot ks (i + 1)) (knot ks (i + q + 2))) eqn:E2;
        rewrite ?peval_pscale_l, ?peval_pmul, ?IH; cbn [peval];
        field; repeat split; apply fsub_neq0; assumption.
  Qed.

  Definition dflt_spline : spline F := mkSpl (mkSup [] 0 0) 0 [].

  Lemma gen_grid (ks : list F) p l i :
    nondecreasing ks -> two_distinct ks -> (nlen ks < 2 ^ 63)%N -> (p + 1 <= length ks)%nat ->
    generate_bsplines p ks = Ok l -> (i < length l)%nat ->
    sgridp (nth i l dflt_spline) = unique ks.
  Proof.
    intros Hn Hd Hl Hp El Hi.
    destruct (gen_count ks p Hn Hd Hl Hp) as (l' & El' & _ & _ & Hg).
    rewrite El in El'. injection El' as <-.
    exact (proj1 (proj1 (Forall_nth _ l) Hg i dflt_spline Hi)).
  Qed.

  (* derivatives of a piece of a generated spline are derivatives of [BP] *)
  Lemma gen_piece_dval (ks : list F) p l i k d x :
    nondecreasing ks -> two_distinct ks -> (nlen ks < 2 ^ 63)%N -> (p + 1 <= length ks)%nat ->
    generate_bsplines p ks = Ok l -> (i < length l)%nat ->
    (k + 1 < length (unique ks))%nat ->
    dval (piece (nth i l dflt_spline) (N.of_nat k)) d x
         (mid (sgridp (nth i l dflt_spline)) (N.of_nat k))
    = peval (pderivn d (BP ks p i k)) x.
  Proof.
    intros Hn Hd Hl Hp El Hi Hk. apply dval_transfer. intros y.
    rewrite peval_BP, <- (gen_is_Bk ks p l i k y Hn Hd Hl Hp El Hi Hk). reflexivity.
  Qed.

  (* ================================================================== *)
  (* Part 2: the block of indices of a value in a sorted knot vector     *)
  (* ================================================================== *)

  (* the knots equal to t are exactly those with index in [a, b); smaller
     ones come before, larger ones after *)
  Definition blk (ks : list F) (t : F) (a b : nat) : Prop :=
    (a <= b <= length ks)%nat /\
    (forall j, (j < a)%nat -> fltb (knot ks j) t = true) /\
    (forall j, (a <= j < b)%nat -> knot ks j = t) /\
    (forall j, (b <= j < length ks)%nat -> fltb t (knot ks j) = true).

  Lemma knot_cons_0 (c : F) r : knot (c :: r) 0 = c.
  Proof. reflexivity. Qed.

  Lemma knot_cons_S (c : F) r j : knot (c :: r) (S j) = knot r j.
  Proof. reflexivity. Qed.

  Lemma mult_cons (c : F) r t :
    mult (c :: r) t = if feqb c t then S (mult r t) else mult r t.
  Proof. unfold mult. cbn [filter]. destruct (feqb c t); reflexivity. Qed.

  Lemma blk_exists (ks : list F) t : nondecreasing ks ->
    exists a b, blk ks t a b /\ (b - a)%nat = mult ks t.
  Proof.
    induction ks as [|c r IH]; intros Hn.
    - exists 0%nat, 0%nat. split; [|reflexivity].
      split; [cbn [length]; lia|]. split; [intros j Hj; lia|].
      split; intros j Hj; cbn [length] in Hj; lia.
    - destruct (IH (nondecreasing_tail c r Hn)) as (a' & b' & (Hab & Hlt & Heq & Hgt) & Hm).
      assert (forall j, (j < length r)%nat -> fleb c (knot r j) = true) as Hc.
      { intros j Hj. rewrite <- (knot_cons_0 c r), <- (knot_cons_S c r j).
        apply nondecreasing_knot_le; [exact Hn | lia | cbn [length]; lia]. }
      rewrite mult_cons.
      destruct (flt_total c t) as [Hct|[Hct|Hct]].
      + (* c < t *)
        assert (feqb c t = false) as -> by (apply feqb_false, flt_neq; exact Hct).
        exists (S a'), (S b'). split; [|lia].
        split; [cbn [length]; lia|]. split; [|split].
        * intros [|j] Hj; [exact Hct | rewrite knot_cons_S; apply Hlt; lia].
        * intros [|j] Hj; [lia | rewrite knot_cons_S; apply Heq; lia].
        * intros [|j] Hj; [lia | rewrite knot_cons_S; apply Hgt; cbn [length] in Hj; lia].
      + (* c = t *)
        subst c. rewrite feqb_refl.
        assert (a' = 0)%nat as ->.
        { destruct a' as [|a']; [reflexivity|]. exfalso.
          pose proof (Hlt 0%nat ltac:(lia)) as H1.
          pose proof (Hc 0%nat ltac:(lia)) as H2.
          pose proof (fle_lt_trans _ _ _ H2 H1) as H3. rewrite flt_irrefl in H3. discriminate. }
        exists 0%nat, (S b'). split; [|lia].
        split; [cbn [length]; lia|]. split; [intros j Hj; lia|]. split.
        * intros [|j] Hj; [reflexivity | rewrite knot_cons_S; apply Heq; lia].
        * intros [|j] Hj; [lia | rewrite knot_cons_S; apply Hgt; cbn [length] in Hj; lia].
      + (* t < c *)
        assert (feqb c t = false) as ->.
        { apply feqb_false. intros E. apply (flt_neq _ _ Hct). symmetry. exact E. }
        assert (forall j, (j < length r)%nat -> fltb t (knot r j) = true) as Hall.
        { intros j Hj. exact (flt_le_trans _ _ _ Hct (Hc j Hj)). }
        assert (a' = 0)%nat as ->.
        { destruct a' as [|a']; [reflexivity|]. exfalso.
          pose proof (Hlt 0%nat ltac:(lia)) as H1.
          pose proof (Hall 0%nat ltac:(lia)) as H2.
          pose proof (flt_trans _ _ _ H1 H2) as H3. rewrite flt_irrefl in H3. discriminate. }
        assert (b' = 0)%nat as ->.
        { destruct b' as [|b']; [reflexivity|]. exfalso.
          pose proof (Heq 0%nat ltac:(lia)) as H1.
          pose proof (Hall 0%nat ltac:(lia)) as H2.
          rewrite H1, flt_irrefl in H2. discriminate. }
        exists 0%nat, 0%nat. split; [|lia].
        split; [cbn [length]; lia|]. split; [intros j Hj; lia|]. split; [intros j Hj; lia|].
        intros [|j] Hj; [exact Hct | rewrite knot_cons_S; apply Hall; cbn [length] in Hj; lia].
  Qed.

  Lemma blk_nonempty (ks : list F) t a b : blk ks t a b -> In t ks -> (a < b)%nat.
  Proof.
    intros (Hab & Hlt & Heq & Hgt) Hin.
    destruct (In_nth ks t f0 Hin) as (j & Hj & Ej). fold (knot ks j) in Ej.
    destruct (Nat.lt_ge_cases j a) as [H1|H1].
    { pose proof (Hlt j H1) as H. rewrite Ej, flt_irrefl in H. discriminate. }
    destruct (Nat.lt_ge_cases j b) as [H2|H2]; [lia|].
    pose proof (Hgt j ltac:(lia)) as H. rewrite Ej, flt_irrefl in H. discriminate.
  Qed.

  (* position of an index relative to the block, from the value of the knot *)
  Lemma blk_lt (ks : list F) t a b j : blk ks t a b -> (j < length ks)%nat ->
    fltb (knot ks j) t = true -> (j < a)%nat.
  Proof.
    intros (Hab & Hlt & Heq & Hgt) Hj H.
    destruct (Nat.lt_ge_cases j a) as [H1|H1]; [exact H1|]. exfalso.
    destruct (Nat.lt_ge_cases j b) as [H2|H2].
    - rewrite (Heq j ltac:(lia)), flt_irrefl in H. discriminate.
    - pose proof (Hgt j ltac:(lia)) as H3. apply flt_asym in H3. congruence.
  Qed.

  Lemma blk_gt (ks : list F) t a b j : blk ks t a b -> (j < length ks)%nat ->
    fltb t (knot ks j) = true -> (b <= j)%nat.
  Proof.
    intros (Hab & Hlt & Heq & Hgt) Hj H.
    destruct (Nat.lt_ge_cases j b) as [H2|H2]; [|exact H2]. exfalso.
    destruct (Nat.lt_ge_cases j a) as [H1|H1].
    - pose proof (Hlt j H1) as H3. apply flt_asym in H3. congruence.
    - rewrite (Heq j ltac:(lia)), flt_irrefl in H. discriminate.
  Qed.

  Lemma blk_eq (ks : list F) t a b j : blk ks t a b -> (j < length ks)%nat ->
    knot ks j = t -> (a <= j < b)%nat.
  Proof.
    intros (Hab & Hlt & Heq & Hgt) Hj H.
    destruct (Nat.lt_ge_cases j a) as [H1|H1].
    { pose proof (Hlt j H1) as H3. rewrite H, flt_irrefl in H3. discriminate. }
    destruct (Nat.lt_ge_cases j b) as [H2|H2]; [lia|].
    pose proof (Hgt j ltac:(lia)) as H3. rewrite H, flt_irrefl in H3. discriminate.
  Qed.

  (* ================================================================== *)
  (* Part 3: continuity, and smoothness from a derivative formula, for   *)
  (* abstract families of one-sided values at a knot t                   *)
  (* ================================================================== *)

  (* t = g_{k+1}: which order-0 functions are 1 on the interval left of t *)
  Lemma Bk0_left (ks : list F) t a b k i x :
    nondecreasing ks -> blk ks t a b -> (a < b)%nat ->
    (k + 1 < length (unique ks))%nat -> nth (k + 1) (unique ks) f0 = t ->
    (i + 1 < length ks)%nat ->
    Bk ks 0 i k x = if (i + 1 =? a)%nat then f1 else f0.
  Proof.
    intros Hn Hb Hab Hk Ht Hi. pose proof Hb as (_ & Hlt & Heq & Hgt).
    pose proof (unique_increasing ks Hn) as Hinc.
    assert (nth_error (unique ks) (k + 1) = Some t) as Ek1
      by (rewrite <- Ht; apply nth_error_nth'; exact Hk).
    assert (nth_error (unique ks) k = Some (nth k (unique ks) f0)) as Ek
      by (apply nth_error_nth'; lia).
    pose proof (knot_nth_error ks i ltac:(lia)) as Ei.
    pose proof (knot_nth_error ks (i + 1) Hi) as Ei1.
    replace (i + 1)%nat with (S i) in Ei1 by lia.
    cbn [Bk]. destruct (Nat.eqb_spec (i + 1) a) as [Ea|Ea].
    - subst a. pose proof (Hlt i ltac:(lia)) as H1. pose proof (Heq (i + 1)%nat ltac:(lia)) as H2.
      rewrite H2, H1. cbn [andb].
      replace (i + 1)%nat with (S i) in H2 by lia. rewrite H2 in Ei1.
      destruct (consecutive_grid ks i _ _ Ei Ei1 (flt_neq _ _ H1)) as (j & Hj & Hj1).
      assert (S j = k + 1)%nat as Ej by (apply (increasing_inj (unique ks) _ _ t); assumption).
      assert (j = k) as -> by lia.
      rewrite (nth_error_nth _ _ f0 Hj), feqb_refl. reflexivity.
    - destruct (fltb (knot ks i) (knot ks (i + 1))) eqn:E1; [|reflexivity].
      destruct (feqb (knot ks i) (nth k (unique ks) f0)) eqn:E2; [|reflexivity]. exfalso.
      apply feqb_true in E2. cbn [andb].
      assert (fltb (knot ks i) t = true) as H1.
      { rewrite E2. apply (Hinc k); [exact Ek|]. replace (S k) with (k + 1)%nat by lia. exact Ek1. }
      pose proof (blk_lt ks t a b i Hb ltac:(lia) H1) as H2.
      replace (i + 1)%nat with (S i) in E1 by lia.
      destruct (consecutive_grid ks i _ _ Ei Ei1 (flt_neq _ _ E1)) as (j & Hj & Hj1).
      assert (j = k) as ->
        by (apply (increasing_inj (unique ks) _ _ (knot ks i)); [exact Hinc | exact Hj | congruence]).
      replace (S k) with (k + 1)%nat in Hj1 by lia.
      assert (knot ks (S i) = t) as H3 by congruence.
      pose proof (blk_eq ks t a b (S i) Hb ltac:(lia) H3). lia.
  Qed.

  (* t = g_k: which order-0 functions are 1 on the interval right of t *)
  Lemma Bk0_at (ks : list F) t a b k i x :
    blk ks t a b -> (a < b)%nat -> nth k (unique ks) f0 = t ->
    (i + 1 < length ks)%nat ->
    Bk ks 0 i k x = if (i + 1 =? b)%nat then f1 else f0.
  Proof.
    intros Hb Hab Ht Hi. pose proof Hb as (_ & Hlt & Heq & Hgt).
    cbn [Bk]. rewrite Ht. destruct (Nat.eqb_spec (i + 1) b) as [Ea|Ea].
    - subst b. rewrite (Heq i ltac:(lia)), (Hgt (i + 1)%nat ltac:(lia)), feqb_refl. reflexivity.
    - destruct (fltb (knot ks i) (knot ks (i + 1))) eqn:E1; [|reflexivity].
      destruct (feqb (knot ks i) t) eqn:E2; [|reflexivity]. exfalso.
      apply feqb_true in E2. rewrite E2 in E1.
      pose proof (blk_eq ks t a b i Hb ltac:(lia) E2).
      pose proof (blk_gt ks t a b (i + 1) Hb Hi E1). lia.
  Qed.

  (* a family V p i of values "B_{i,p} at t" obeying the Cox–de Boor recursion *)
  Definition vrec (ks : list F) (t : F) (V : nat -> nat -> F) : Prop :=
    forall q i, V (S q) i =
      (if fltb (knot ks i) (knot ks (i + q + 1))
       then (t - knot ks i) / (knot ks (i + q + 1) - knot ks i) * V q i else f0)
      + (if fltb (knot ks (i + 1)) (knot ks (i + q + 2))
         then (knot ks (i + q + 2) - t) / (knot ks (i + q + 2) - knot ks (i + 1)) * V q (i + 1)%nat
         else f0).

  (* the left-hand and right-hand values at the knot t with index block [a, b):
     of the order-0 functions only the one ending at t (index a-1) is 1 on the
     left, only the one starting at t (index b-1) is 1 on the right *)
  Definition adjV (ks : list F) (t : F) (a b : nat) (VL VR : nat -> nat -> F) : Prop :=
    blk ks t a b /\ vrec ks t VL /\ vrec ks t VR /\
    (forall i, (i + 1 < length ks)%nat -> VL 0%nat i = if (i + 1 =? a)%nat then f1 else f0) /\
    (forall i, (i + 1 < length ks)%nat -> VR 0%nat i = if (i + 1 =? b)%nat then f1 else f0).

  (* t_i < t_{i+1} = ... = t_{i+p+1} = t: the left piece ends with value 1 at t,
     the right piece is zero *)
  Lemma V_full_right (ks : list F) t a b VL VR : adjV ks t a b VL VR ->
    forall p i, (i + 1 = a)%nat -> (i + p + 2 <= b)%nat -> (i + p + 1 < length ks)%nat ->
    VL p i = f1 /\ VR p i = f0.
  Proof.
    intros ((_ & Hlt & Heq & Hgt) & RL & RR & H0l & H0r).
    induction p as [|q IH]; intros i Ha Hb Hi.
    - rewrite H0l, H0r by lia.
      destruct (Nat.eqb_spec (i + 1) a) as [_|E]; [|lia].
      destruct (Nat.eqb_spec (i + 1) b) as [E|_]; [lia|]. split; reflexivity.
    - destruct (IH i Ha ltac:(lia) ltac:(lia)) as [IH1 IH2].
      pose proof (Hlt i ltac:(lia)) as H1.
      rewrite (RL q i), (RR q i), IH1, IH2.
      rewrite (Heq (i + q + 1)%nat ltac:(lia)), (Heq (i + 1)%nat ltac:(lia)),
        (Heq (i + q + 2)%nat ltac:(lia)), H1, flt_irrefl.
      split; field; apply fsub_neq0; exact H1.
  Qed.

  (* t = t_i = ... = t_{i+p} < t_{i+p+1}: the left piece is zero, the right
     piece starts with value 1 at t *)
  Lemma V_full_left (ks : list F) t a b VL VR : adjV ks t a b VL VR ->
    forall p i, (a <= i)%nat -> (i + p + 1 = b)%nat -> (i + p + 1 < length ks)%nat ->
    VL p i = f0 /\ VR p i = f1.
  Proof.
    intros ((_ & Hlt & Heq & Hgt) & RL & RR & H0l & H0r).
    induction p as [|q IH]; intros i Ha Hb Hi.
    - rewrite H0l, H0r by lia.
      destruct (Nat.eqb_spec (i + 1) a) as [E|_]; [lia|].
      destruct (Nat.eqb_spec (i + 1) b) as [_|E]; [|lia]. split; reflexivity.
    - destruct (IH (i + 1)%nat ltac:(lia) ltac:(lia) ltac:(lia)) as [IH1 IH2].
      pose proof (Hgt (i + q + 2)%nat ltac:(lia)) as H1.
      rewrite (RL q i), (RR q i), IH1, IH2.
      rewrite (Heq (i + q + 1)%nat ltac:(lia)), (Heq (i + 1)%nat ltac:(lia)),
        (Heq i ltac:(lia)), H1, flt_irrefl.
      split; field; apply fsub_neq0; exact H1.
  Qed.

  (* number of knots among t_i .. t_{i+p+1} with index in [a, b) *)
  Definition lmult (a b i p : nat) : nat := (Nat.min b (i + p + 2) - Nat.max a i)%nat.

  (* continuity: if at most p of the knots of B_{i,p} equal t, the left and
     the right value at t agree *)
  Lemma V_cont (ks : list F) t a b VL VR : adjV ks t a b VL VR ->
    forall p i, (i + p + 1 < length ks)%nat -> (lmult a b i p <= p)%nat ->
    VL p i = VR p i.
  Proof.
    intros Hadj. pose proof Hadj as ((Hab & Hlt & Heq & Hgt) & RL & RR & H0l & H0r).
    unfold lmult. induction p as [|q IH]; intros i Hi Hm.
    - rewrite H0l, H0r by lia.
      destruct (Nat.eqb_spec (i + 1) a) as [E1|E1];
        destruct (Nat.eqb_spec (i + 1) b) as [E2|E2]; try reflexivity; lia.
    - rewrite (RL q i), (RR q i).
      destruct (le_lt_dec (Nat.min b (i + q + 2) - Nat.max a i) q) as [H1|H1];
        destruct (le_lt_dec (Nat.min b (i + 1 + q + 2) - Nat.max a (i + 1)) q) as [H2|H2].
      + rewrite (IH i), (IH (i + 1)%nat) by lia. reflexivity.
      + (* the second factor t_{i+q+2} - t vanishes *)
        assert (a = i + 2 /\ i + q + 3 <= b)%nat as [Ea Eb] by lia.
        rewrite (IH i) by lia. f_equal.
        rewrite (Heq (i + q + 2)%nat ltac:(lia)).
        destruct (fltb (knot ks (i + 1)) t); [|reflexivity].
        replace (t - t) with (@f0 F K) by ring. rewrite fdiv_0_l. ring.
      + (* the first factor t - t_i vanishes *)
        assert (a <= i /\ b = i + q + 1)%nat as [Ea Eb] by lia.
        rewrite (IH (i + 1)%nat) by lia. f_equal.
        rewrite (Heq i ltac:(lia)).
        destruct (fltb t (knot ks (i + q + 1))); [|reflexivity].
        replace (t - t) with (@f0 F K) by ring. rewrite fdiv_0_l. ring.
      + (* t_i < t = t_{i+1} = ... = t_{i+q+1} < t_{i+q+2}: the jumps cancel *)
        assert (a = i + 1 /\ b = i + q + 2)%nat as [Ea Eb] by lia.
        destruct (V_full_right ks t a b VL VR Hadj q i ltac:(lia) ltac:(lia) ltac:(lia)) as [R1 R2].
        destruct (V_full_left ks t a b VL VR Hadj q (i + 1)%nat ltac:(lia) ltac:(lia) ltac:(lia))
          as [L1 L2].
        rewrite R1, R2, L1, L2.
        pose proof (Hlt i ltac:(lia)) as G1. pose proof (Hgt (i + q + 2)%nat ltac:(lia)) as G2.
        rewrite (Heq (i + q + 1)%nat ltac:(lia)), (Heq (i + 1)%nat ltac:(lia)), G1, G2.
        field. split; apply fsub_neq0; assumption.
  Qed.

  (* a family D d p i of values "d-th derivative of B_{i,p} at t" obeying the
     derivative formula *)
  Definition drec (ks : list F) (D : nat -> nat -> nat -> F) : Prop :=
    forall d q i, (i + q + 2 < length ks)%nat ->
      D (S d) (S q) i =
      fofnat (S q) *
      ((if fltb (knot ks i) (knot ks (i + q + 1))
        then D d q i / (knot ks (i + q + 1) - knot ks i) else f0)
       - (if fltb (knot ks (i + 1)) (knot ks (i + q + 2))
          then D d q (i + 1)%nat / (knot ks (i + q + 2) - knot ks (i + 1)) else f0)).

  (* smoothness: each derivative lowers the order by one and keeps the knots *)
  Lemma D_smooth (ks : list F) t a b DL DR :
    adjV ks t a b (DL 0%nat) (DR 0%nat) -> drec ks DL -> drec ks DR ->
    forall d p i, (i + p + 1 < length ks)%nat -> (d + lmult a b i p <= p)%nat ->
    DL d p i = DR d p i.
  Proof.
    intros Hadj HL HR. induction d as [|d IH]; intros p i Hi Hm.
    - apply (V_cont ks t a b _ _ Hadj); [exact Hi | lia].
    - destruct p as [|q]; [lia|].
      rewrite (HL d q i), (HR d q i) by lia.
      unfold lmult in *.
      rewrite (IH q i) by lia. rewrite (IH q (i + 1)%nat) by lia. reflexivity.
  Qed.

  (* the zero family (the function outside the grid) *)
  Definition DZ : nat -> nat -> nat -> F := fun _ _ _ => f0.

  Lemma DZ_vrec (ks : list F) t : vrec ks t (DZ 0%nat).
  Proof.
    intros q i. unfold DZ.
    destruct (fltb (knot ks i) (knot ks (i + q + 1)));
      destruct (fltb (knot ks (i + 1)) (knot ks (i + q + 2))); ring.
  Qed.

  Lemma DZ_drec (ks : list F) : drec ks DZ.
  Proof.
    intros d q i _. unfold DZ.
    destruct (fltb (knot ks i) (knot ks (i + q + 1)));
      destruct (fltb (knot ks (i + 1)) (knot ks (i + q + 2)));
      rewrite ?fdiv_0_l; ring.
  Qed.

  (* ================================================================== *)
  (* Part 4: the derivative formula                                      *)
  (* ================================================================== *)

  Lemma peval_pderiv_BP0 (ks : list F) i k x : peval (pderiv (BP ks 0 i k)) x = f0.
  Proof.
    cbn [BP].
    destruct (fltb (knot ks i) (knot ks (i + 1)) && feqb (knot ks i) (nth k (unique ks) f0));
      reflexivity.
  Qed.

  (* product rule applied to the recursion *)
  Lemma peval_pderiv_BP_S (ks : list F) q i k x :
    peval (pderiv (BP ks (S q) i k)) x =
    (if fltb (knot ks i) (knot ks (i + q + 1))
     then (Bk ks q i k x + (x - knot ks i) * peval (pderiv (BP ks q i k)) x)
          / (knot ks (i + q + 1) - knot ks i)
     else f0)
    + (if fltb (knot ks (i + 1)) (knot ks (i + q + 2))
       then (- Bk ks q (i + 1) k x
             + (knot ks (i + q + 2) - x) * peval (pderiv (BP ks q (i + 1) k)) x)
            / (knot ks (i + q + 2) - knot ks (i + 1))
       else f0).
  Proof.
    cbn [BP]. rewrite peval_pderiv_padd.
    destruct (fltb (knot ks i) (knot ks (i + q + 1))) eqn:E1;
      destruct (fltb (knot ks (i + 1)) (knot ks (i + q + 2))) eqn:E2;
      rewrite ?peval_pderiv_pscale_l, ?peval_pderiv_pmul, ?peval_BP;
      cbn [pderiv pderiv_from peval]; rewrite ?fofnat_1;
      field; repeat split; apply fsub_neq0; assumption.
  Qed.

  (* B'_{i,p} = p ( B_{i,p-1}/(t_{i+p}-t_i) - B_{i+1,p-1}/(t_{i+p+1}-t_{i+1}) ),
     on every grid interval k, as polynomial functions; terms with a
     zero-width denominator are dropped *)
  Lemma BP_deriv (ks : list F) k x : nondecreasing ks ->
    forall q i, (i + q + 2 < length ks)%nat ->
    peval (pderiv (BP ks (S q) i k)) x =
    fofnat (S q) *
    ((if fltb (knot ks i) (knot ks (i + q + 1))
      then Bk ks q i k x / (knot ks (i + q + 1) - knot ks i) else f0)
     - (if fltb (knot ks (i + 1)) (knot ks (i + q + 2))
        then Bk ks q (i + 1) k x / (knot ks (i + q + 2) - knot ks (i + 1)) else f0)).
  Proof.
    intros Hn. induction q as [|r IH]; intros i Hi.
    - rewrite peval_pderiv_BP_S, !peval_pderiv_BP0, fofnat_1.
      destruct (fltb (knot ks i) (knot ks (i + 0 + 1))) eqn:E1;
        destruct (fltb (knot ks (i + 1)) (knot ks (i + 0 + 2))) eqn:E2;
        field; repeat split; apply fsub_neq0; assumption.
    - rewrite peval_pderiv_BP_S, (IH i), (IH (i + 1)%nat) by lia.
      cbn [Bk]. rewrite (fofnat_S (S r)).
      replace (i + S r + 1)%nat with (i + r + 2)%nat by lia.
      replace (i + S r + 2)%nat with (i + r + 3)%nat by lia.
      replace (i + 1 + r + 1)%nat with (i + r + 2)%nat by lia.
      replace (i + 1 + r + 2)%nat with (i + r + 3)%nat by lia.
      replace (i + 1 + 1)%nat with (i + 2)%nat by lia.
      assert (fleb (knot ks i) (knot ks (i + 1)) = true) as M1
        by (apply nondecreasing_knot_le; [exact Hn | lia | lia]).
      assert (fleb (knot ks (i + r + 2)) (knot ks (i + r + 3)) = true) as M2
        by (apply nondecreasing_knot_le; [exact Hn | lia | lia]).
      set (A := Bk ks r i k x). set (B := Bk ks r (i + 1) k x). set (C := Bk ks r (i + 2) k x).
      set (n := fofnat (S r)).
      set (t0 := knot ks i) in *. set (t1 := knot ks (i + 1)) in *. set (t2 := knot ks (i + 2)) in *.
      set (s1 := knot ks (i + r + 1)) in *. set (s2 := knot ks (i + r + 2)) in *.
      set (s3 := knot ks (i + r + 3)) in *.
      clearbody A B C n t0 t1 t2 s1 s2 s3.
      destruct (fltb t1 s2) eqn:F2.
      + assert (fltb t0 s2 = true) as F1 by exact (fle_lt_trans _ _ _ M1 F2).
        assert (fltb t1 s3 = true) as F3 by exact (flt_le_trans _ _ _ F2 M2).
        rewrite F1, F3.
        destruct (fltb t0 s1) eqn:G1; destruct (fltb t2 s3) eqn:G3;
          field; repeat split; apply fsub_neq0; assumption.
      + destruct (fltb t0 s2) eqn:F1; destruct (fltb t1 s3) eqn:F3;
          destruct (fltb t0 s1) eqn:G1; destruct (fltb t2 s3) eqn:G3;
          field; repeat split; apply fsub_neq0; assumption.
  Qed.

  (* the right-hand side of the derivative formula as a coefficient list *)
  Definition DP (ks : list F) (q i k : nat) : list F :=
    pscale_l (fofnat (S q))
      (padd (if fltb (knot ks i) (knot ks (i + q + 1))
             then pscale_l (f1 / (knot ks (i + q + 1) - knot ks i)) (BP ks q i k) else [])
            (pscale_l (- f1)
               (if fltb (knot ks (i + 1)) (knot ks (i + q + 2))
                then pscale_l (f1 / (knot ks (i + q + 2) - knot ks (i + 1))) (BP ks q (i + 1) k)
                else []))).

  Lemma peval_pderivn_DP (ks : list F) q i k d x :
    peval (pderivn d (DP ks q i k)) x =
    fofnat (S q) *
    ((if fltb (knot ks i) (knot ks (i + q + 1))
      then peval (pderivn d (BP ks q i k)) x / (knot ks (i + q + 1) - knot ks i) else f0)
     - (if fltb (knot ks (i + 1)) (knot ks (i + q + 2))
        then peval (pderivn d (BP ks q (i + 1) k)) x / (knot ks (i + q + 2) - knot ks (i + 1))
        else f0)).
  Proof.
    unfold DP. rewrite peval_pderivn_pscale_l, peval_pderivn_padd, peval_pderivn_pscale_l.
    destruct (fltb (knot ks i) (knot ks (i + q + 1))) eqn:E1;
      destruct (fltb (knot ks (i + 1)) (knot ks (i + q + 2))) eqn:E2;
      rewrite ?peval_pderivn_pscale_l, ?peval_pderivn_nil;
      field; repeat split; apply fsub_neq0; assumption.
  Qed.

  (* priority 2, list form: the derivative of the order-(q+1) polynomial on
     interval k is the combination [DP] of the two order-q polynomials *)
  Lemma BP_deriv_peq (ks : list F) q i k : nondecreasing ks -> (i + q + 2 < length ks)%nat ->
    peq (pderiv (BP ks (S q) i k)) (DP ks q i k).
  Proof.
    intros Hn Hi x. rewrite (BP_deriv ks k x Hn q i Hi).
    pose proof (peval_pderivn_DP ks q i k 0 x) as H. cbn [pderivn] in H.
    rewrite H, !peval_BP. reflexivity.
  Qed.

  (* ================================================================== *)
  (* Part 5: smoothness of the generated splines                         *)
  (* ================================================================== *)

  (* the family of the d-th derivatives at t of the polynomials on interval k *)
  Definition DB (ks : list F) (k : nat) (t : F) : nat -> nat -> nat -> F :=
    fun d p i => peval (pderivn d (BP ks p i k)) t.

  Lemma DB_vrec (ks : list F) k t : vrec ks t (DB ks k t 0%nat).
  Proof. intros q i. unfold DB. cbn [pderivn]. rewrite !peval_BP. reflexivity. Qed.

  Lemma DB_drec (ks : list F) k t : nondecreasing ks -> drec ks (DB ks k t).
  Proof.
    intros Hn d q i Hi. unfold DB. cbn [pderivn].
    rewrite (peval_pderivn_ext d _ _ (BP_deriv_peq ks q i k Hn Hi)).
    apply peval_pderivn_DP.
  Qed.

  Lemma DB_0_0 (ks : list F) k t i : DB ks k t 0%nat 0%nat i = Bk ks 0 i k t.
  Proof. unfold DB. cbn [pderivn]. apply peval_BP. Qed.

  Lemma gen_length (ks : list F) p l :
    nondecreasing ks -> two_distinct ks -> (nlen ks < 2 ^ 63)%N -> (p + 1 <= length ks)%nat ->
    generate_bsplines p ks = Ok l -> length l = (length ks - p - 1)%nat.
  Proof.
    intros Hn Hd Hl Hp El.
    destruct (gen_count ks p Hn Hd Hl Hp) as (l' & El' & Ll & _).
    rewrite El in El'. injection El' as <-. exact Ll.
  Qed.

  (* [jump_free] of a generated spline, in terms of [BP] *)
  Lemma jump_free_BP (ks : list F) p l i k d :
    nondecreasing ks -> two_distinct ks -> (nlen ks < 2 ^ 63)%N -> (p + 1 <= length ks)%nat ->
    generate_bsplines p ks = Ok l -> (i < length l)%nat ->
    (k + 2 < length (unique ks))%nat ->
    jump_free (nth i l dflt_spline) (N.of_nat k) d <->
    peval (pderivn d (BP ks p i k)) (nth (k + 1) (unique ks) f0)
    = peval (pderivn d (BP ks p i (k + 1))) (nth (k + 1) (unique ks) f0).
  Proof.
    intros Hn Hd Hl Hp El Hi Hk. unfold jump_free.
    replace (N.of_nat k + 1)%N with (N.of_nat (k + 1)) by lia.
    rewrite (gen_piece_dval ks p l i k d _ Hn Hd Hl Hp El Hi ltac:(lia)).
    rewrite (gen_piece_dval ks p l i (k + 1) d _ Hn Hd Hl Hp El Hi ltac:(lia)).
    rewrite (gen_grid ks p l i Hn Hd Hl Hp El Hi). unfold gnth. rewrite Nat2N.id. reflexivity.
  Qed.

  (* the smoothness theorem with the local multiplicity: only the knots
     t_i .. t_{i+p+1} of the function itself count *)
  Theorem gen_smooth_local (ks : list F) p l i k d a b :
    nondecreasing ks -> two_distinct ks -> (nlen ks < 2 ^ 63)%N -> (p + 1 <= length ks)%nat ->
    generate_bsplines p ks = Ok l -> (i < length l)%nat ->
    (k + 2 < length (unique ks))%nat ->
    blk ks (nth (k + 1) (unique ks) f0) a b ->
    (d + lmult a b i p <= p)%nat ->
    jump_free (nth i l dflt_spline) (N.of_nat k) d.
  Proof.
    intros Hn Hd Hl Hp El Hi Hk Hb Hm.
    apply (jump_free_BP ks p l i k d Hn Hd Hl Hp El Hi Hk).
    pose proof (gen_length ks p l Hn Hd Hl Hp El) as Ll.
    set (t := nth (k + 1) (unique ks) f0) in *.
    assert (a < b)%nat as Hab.
    { apply (blk_nonempty ks t a b Hb). apply unique_In. apply nth_In. lia. }
    apply (D_smooth ks t a b (DB ks k t) (DB ks (k + 1) t));
      [| apply DB_drec; exact Hn | apply DB_drec; exact Hn | lia | exact Hm].
    split; [exact Hb|]. split; [apply DB_vrec|]. split; [apply DB_vrec|]. split.
    - intros j Hj. rewrite DB_0_0. apply (Bk0_left ks t a b); try assumption; [lia | reflexivity].
    - intros j Hj. rewrite DB_0_0. apply (Bk0_at ks t a b); try assumption. reflexivity.
  Qed.

  (* the main theorem *)
  Theorem gen_smooth (ks : list F) p l i k d :
    nondecreasing ks -> two_distinct ks -> (nlen ks < 2 ^ 63)%N -> (p + 1 <= length ks)%nat ->
    generate_bsplines p ks = Ok l -> (i < length l)%nat ->
    (k + 2 < length (unique ks))%nat ->
    (d + mult ks (nth (k + 1) (unique ks) f0) <= p)%nat ->
    jump_free (nth i l (mkSpl (mkSup [] 0 0) 0 [])) (N.of_nat k) d.
  Proof.
    intros Hn Hd Hl Hp El Hi Hk Hm.
    destruct (blk_exists ks (nth (k + 1) (unique ks) f0) Hn) as (a & b & Hb & Hab).
    apply (gen_smooth_local ks p l i k d a b); try assumption.
    unfold lmult. lia.
  Qed.

  (* priority 1: the case d = 0 *)
  Theorem gen_continuous (ks : list F) p l i k :
    nondecreasing ks -> two_distinct ks -> (nlen ks < 2 ^ 63)%N -> (p + 1 <= length ks)%nat ->
    generate_bsplines p ks = Ok l -> (i < length l)%nat ->
    (k + 2 < length (unique ks))%nat ->
    (mult ks (nth (k + 1) (unique ks) f0) <= p)%nat ->
    jump_free (nth i l (mkSpl (mkSup [] 0 0) 0 [])) (N.of_nat k) 0.
  Proof.
    intros Hn Hd Hl Hp El Hi Hk Hm. apply (gen_smooth ks p l i k 0); assumption.
  Qed.

  (* ---- the two ends of the grid: the generated functions join the zero
     function outside the grid with the same smoothness ---- *)

  (* the first grid point is the first knot: no knot lies before its block *)
  Lemma blk_first (ks : list F) a b : blk ks (nth 0 (unique ks) f0) a b -> a = 0%nat.
  Proof.
    intros (_ & Hlt & _). destruct a as [|a]; [reflexivity|]. exfalso.
    pose proof (Hlt 0%nat ltac:(lia)) as H.
    destruct ks as [|c r].
    - cbn in H. rewrite flt_irrefl in H. discriminate.
    - destruct (unique_head c r) as [u Hu]. rewrite Hu in H. cbn [nth] in H.
      rewrite knot_cons_0, flt_irrefl in H. discriminate.
  Qed.

  (* the last grid point is the last knot: no knot lies after its block *)
  Lemma blk_last (ks : list F) k a b : nondecreasing ks ->
    (k + 1 = length (unique ks))%nat -> blk ks (nth k (unique ks) f0) a b -> b = length ks.
  Proof.
    intros Hn Hk (Hab & _ & _ & Hgt).
    destruct (Nat.eq_dec b (length ks)) as [E|E]; [exact E|]. exfalso.
    pose proof (Hgt (length ks - 1)%nat ltac:(lia)) as H.
    assert (In (knot ks (length ks - 1)) (unique ks)) as Hin.
    { apply knot_in_grid. apply nth_In. lia. }
    apply In_nth_error in Hin as [m Hm].
    assert (m < length (unique ks))%nat as Hml by (apply nth_error_Some; congruence).
    assert (nth_error (unique ks) k = Some (nth k (unique ks) f0)) as Ek
      by (apply nth_error_nth'; lia).
    pose proof (increasing_le (unique ks) m k _ _ (unique_increasing ks Hn) ltac:(lia) Hm Ek) as Hle.
    pose proof (fle_lt_trans _ _ _ Hle H) as H2. rewrite flt_irrefl in H2. discriminate.
  Qed.

  Theorem gen_smooth_first (ks : list F) p l i d :
    nondecreasing ks -> two_distinct ks -> (nlen ks < 2 ^ 63)%N -> (p + 1 <= length ks)%nat ->
    generate_bsplines p ks = Ok l -> (i < length l)%nat ->
    (d + mult ks (nth 0 (unique ks) f0) <= p)%nat ->
    let s := nth i l (mkSpl (mkSup [] 0 0) 0 []) in
    dval (piece s 0) d (gnth (sgridp s) 0) (mid (sgridp s) 0) = f0.
  Proof.
    intros Hn Hd Hl Hp El Hi Hm s. subst s. fold dflt_spline.
    pose proof (unique_length_ge2 ks Hn Hd) as H2.
    pose proof (gen_length ks p l Hn Hd Hl Hp El) as Ll.
    pose proof (gen_piece_dval ks p l i 0 d (nth 0 (unique ks) f0) Hn Hd Hl Hp El Hi ltac:(lia)) as HD.
    cbn [N.of_nat] in HD.
    rewrite (gen_grid ks p l i Hn Hd Hl Hp El Hi) in *.
    unfold gnth at 1. cbn [N.to_nat]. rewrite HD. clear HD.
    set (t := nth 0 (unique ks) f0) in *.
    destruct (blk_exists ks t Hn) as (a & b & Hb & Hab).
    pose proof (blk_first ks a b Hb) as Ha. subst a.
    assert (0 < b)%nat as Hb0.
    { apply (blk_nonempty ks t 0 b Hb). apply unique_In. apply nth_In. lia. }
    symmetry.
    apply (D_smooth ks t 0 b DZ (DB ks 0 t));
      [| apply DZ_drec | apply DB_drec; exact Hn | lia | unfold lmult; lia].
    split; [exact Hb|]. split; [apply DZ_vrec|]. split; [apply DB_vrec|]. split.
    - intros j Hj. unfold DZ. destruct (Nat.eqb_spec (j + 1) 0) as [E|_]; [lia | reflexivity].
    - intros j Hj. rewrite DB_0_0. apply (Bk0_at ks t 0 b); try assumption. reflexivity.
  Qed.

  Theorem gen_smooth_last (ks : list F) p l i k d :
    nondecreasing ks -> two_distinct ks -> (nlen ks < 2 ^ 63)%N -> (p + 1 <= length ks)%nat ->
    generate_bsplines p ks = Ok l -> (i < length l)%nat ->
    (k + 2 = length (unique ks))%nat ->
    (d + mult ks (nth (k + 1) (unique ks) f0) <= p)%nat ->
    let s := nth i l (mkSpl (mkSup [] 0 0) 0 []) in
    dval (piece s (N.of_nat k)) d (gnth (sgridp s) (N.of_nat k + 1)) (mid (sgridp s) (N.of_nat k))
    = f0.
  Proof.
    intros Hn Hd Hl Hp El Hi Hk Hm s. subst s. fold dflt_spline.
    pose proof (gen_length ks p l Hn Hd Hl Hp El) as Ll.
    rewrite (gen_piece_dval ks p l i k d _ Hn Hd Hl Hp El Hi ltac:(lia)).
    rewrite (gen_grid ks p l i Hn Hd Hl Hp El Hi).
    replace (gnth (unique ks) (N.of_nat k + 1)) with (nth (k + 1) (unique ks) f0)
      by (unfold gnth; f_equal; lia).
    set (t := nth (k + 1) (unique ks) f0) in *.
    destruct (blk_exists ks t Hn) as (a & b & Hb & Hab).
    pose proof (blk_last ks (k + 1) a b Hn ltac:(lia) Hb) as Hbl. subst b.
    assert (a < length ks)%nat as Ha.
    { apply (blk_nonempty ks t a _ Hb). apply unique_In. apply nth_In. lia. }
    apply (D_smooth ks t a (length ks) (DB ks k t) DZ);
      [| apply DB_drec; exact Hn | apply DZ_drec | lia | unfold lmult; lia].
    split; [exact Hb|]. split; [apply DB_vrec|]. split; [apply DZ_vrec|]. split.
    - intros j Hj. rewrite DB_0_0. apply (Bk0_left ks t a (length ks)); try assumption; [lia | reflexivity].
    - intros j Hj. unfold DZ.
      destruct (Nat.eqb_spec (j + 1) (length ks)) as [E|_]; [lia | reflexivity].
  Qed.

  (* [jump_free] at every grid point but the first, the last one included:
     beyond the last interval the piece is the zero polynomial *)
  Theorem gen_smooth_all (ks : list F) p l i k d :
    nondecreasing ks -> two_distinct ks -> (nlen ks < 2 ^ 63)%N -> (p + 1 <= length ks)%nat ->
    generate_bsplines p ks = Ok l -> (i < length l)%nat ->
    (k + 1 < length (unique ks))%nat ->
    (d + mult ks (nth (k + 1) (unique ks) f0) <= p)%nat ->
    jump_free (nth i l (mkSpl (mkSup [] 0 0) 0 [])) (N.of_nat k) d.
  Proof.
    intros Hn Hd Hl Hp El Hi Hk Hm.
    destruct (Nat.eq_dec (k + 2) (length (unique ks))) as [E|E].
    - unfold jump_free.
      rewrite (gen_smooth_last ks p l i k d Hn Hd Hl Hp El Hi E Hm). fold dflt_spline.
      destruct (gen_count ks p Hn Hd Hl Hp) as (l' & El' & _ & Hinv & _).
      rewrite El in El'. injection El' as <-.
      pose proof (proj1 (Forall_nth _ l) Hinv i dflt_spline Hi) as Is.
      pose proof (gen_grid ks p l i Hn Hd Hl Hp El Hi) as Gs.
      rewrite piece_out.
      + unfold dval. rewrite peval_pderivn_nil. reflexivity.
      + destruct Is as (Ss & _). apply SInv_bounds in Ss.
        unfold sgridp in Gs. unfold dflt_spline in *. rewrite Gs in Ss.
        unfold imem, nlen in *. lia.
    - apply (gen_smooth ks p l i k d); try assumption. lia.
  Qed.

  (* priority 2: the derivative formula at the level of the stored pieces of
     the generated splines of orders q+1 and q, as polynomial functions of
     the local variable u = x - mid k *)
  Theorem B_derivative_formula (ks : list F) q l l' i k u :
    nondecreasing ks -> two_distinct ks -> (nlen ks < 2 ^ 63)%N -> (q + 2 <= length ks)%nat ->
    generate_bsplines (S q) ks = Ok l -> generate_bsplines q ks = Ok l' ->
    (i < length l)%nat -> (k + 1 < length (unique ks))%nat ->
    peval (pderiv (piece (nth i l dflt_spline) (N.of_nat k))) u =
    fofnat (S q) *
    ((if fltb (knot ks i) (knot ks (i + q + 1))
      then peval (piece (nth i l' dflt_spline) (N.of_nat k)) u
           / (knot ks (i + q + 1) - knot ks i) else f0)
     - (if fltb (knot ks (i + 1)) (knot ks (i + q + 2))
        then peval (piece (nth (i + 1) l' dflt_spline) (N.of_nat k)) u
             / (knot ks (i + q + 2) - knot ks (i + 1)) else f0)).
  Proof.
    intros Hn Hd Hl Hp El El' Hi Hk.
    pose proof (gen_length ks (S q) l Hn Hd Hl ltac:(lia) El) as Ll.
    pose proof (gen_length ks q l' Hn Hd Hl ltac:(lia) El') as Ll'.
    set (m := mid (unique ks) (N.of_nat k)).
    assert (forall j, (j < length l')%nat ->
              Bk ks q j k (u + m) = peval (piece (nth j l' dflt_spline) (N.of_nat k)) u) as HB.
    { intros j Hj. rewrite <- (gen_is_Bk ks q l' j k (u + m) Hn Hd Hl ltac:(lia) El' Hj Hk).
      unfold den. f_equal.
      change (sgrid (ssup (nth j l' (mkSpl (mkSup [] 0 0) 0 []))))
        with (sgridp (nth j l' dflt_spline)).
      rewrite (gen_grid ks q l' j Hn Hd Hl ltac:(lia) El' Hj). unfold m. ring. }
    pose proof (gen_piece_dval ks (S q) l i k 1 (u + m) Hn Hd Hl ltac:(lia) El Hi Hk) as HD.
    rewrite (gen_grid ks (S q) l i Hn Hd Hl ltac:(lia) El Hi) in HD. fold m in HD.
    unfold dval in HD. cbn [pderivn] in HD.
    replace (u + m - m) with u in HD by ring. rewrite HD.
    rewrite (BP_deriv ks k (u + m) Hn q i ltac:(lia)).
    rewrite (HB i), (HB (i + 1)%nat) by lia. reflexivity.
  Qed.

  (* priority 3: a simple knot costs exactly one order of smoothness *)
  Corollary gen_smooth_simple (ks : list F) p l i k d :
    nondecreasing ks -> two_distinct ks -> (nlen ks < 2 ^ 63)%N -> (p + 1 <= length ks)%nat ->
    generate_bsplines p ks = Ok l -> (i < length l)%nat ->
    (k + 2 < length (unique ks))%nat ->
    mult ks (nth (k + 1) (unique ks) f0) = 1%nat -> (d + 1 <= p)%nat ->
    jump_free (nth i l (mkSpl (mkSup [] 0 0) 0 [])) (N.of_nat k) d.
  Proof.
    intros Hn Hd Hl Hp El Hi Hk Hm Hdp. apply (gen_smooth ks p l i k d); try assumption. lia.
  Qed.

  (* the case d = 0 at the level of the functions denoted *)
  Corollary gen_continuous_den (ks : list F) p l i k :
    nondecreasing ks -> two_distinct ks -> (nlen ks < 2 ^ 63)%N -> (p + 1 <= length ks)%nat ->
    generate_bsplines p ks = Ok l -> (i < length l)%nat ->
    (k + 2 < length (unique ks))%nat ->
    (mult ks (nth (k + 1) (unique ks) f0) <= p)%nat ->
    den (nth i l (mkSpl (mkSup [] 0 0) 0 [])) (N.of_nat k) (nth (k + 1) (unique ks) f0)
    = den (nth i l (mkSpl (mkSup [] 0 0) 0 [])) (N.of_nat k + 1) (nth (k + 1) (unique ks) f0).
  Proof.
    intros Hn Hd Hl Hp El Hi Hk Hm.
    pose proof (gen_continuous ks p l i k Hn Hd Hl Hp El Hi Hk Hm) as H.
    unfold jump_free, dval in H. cbn [pderivn] in H. fold dflt_spline in H.
    rewrite (gen_grid ks p l i Hn Hd Hl Hp El Hi) in H.
    unfold den.
    change (sgrid (ssup (nth i l (mkSpl (mkSup [] 0 0) 0 []))))
      with (sgridp (nth i l dflt_spline)).
    rewrite (gen_grid ks p l i Hn Hd Hl Hp El Hi).
    replace (nth (k + 1) (unique ks) f0) with (gnth (unique ks) (N.of_nat k + 1)); [exact H|].
    unfold gnth. f_equal. lia.
  Qed.

  (* [mult] is the standard occurrence count *)
  Lemma mult_count_occ (ks : list F) t : mult ks t = count_occ feq_dec ks t.
  Proof.
    induction ks as [|c r IH]; [reflexivity|].
    rewrite mult_cons, IH. cbn [count_occ].
    destruct (feq_dec c t) as [E|E].
    - subst c. rewrite feqb_refl. reflexivity.
    - apply feqb_false in E. rewrite E. reflexivity.
  Qed.

  (* ================================================================== *)
  (* boolean checkers (for the examples below)                           *)
  (* ================================================================== *)

  Definition jump_freeb (s : spline F) (k : N) (d : nat) : bool :=
    feqb (dval (piece s k) d (gnth (sgridp s) (k + 1)) (mid (sgridp s) k))
         (dval (piece s (k + 1)) d (gnth (sgridp s) (k + 1)) (mid (sgridp s) (k + 1))).

  Lemma jump_freeb_true (s : spline F) k d : jump_freeb s k d = true <-> jump_free s k d.
  Proof. apply feqb_true. Qed.

  Lemma jump_freeb_false (s : spline F) k d : jump_freeb s k d = false <-> ~ jump_free s k d.
  Proof. apply feqb_false. Qed.

  (* every generated function, every interior grid point, every admissible d *)
  Definition smooth_okb (ks : list F) (p : nat) : bool :=
    match generate_bsplines p ks with
    | Ok l =>
        forallb (fun i =>
          forallb (fun k =>
            forallb (fun d => jump_freeb (nth i l dflt_spline) (N.of_nat k) d)
                    (seq 0 (p + 1 - mult ks (nth (k + 1) (unique ks) f0))))
            (seq 0 (length (unique ks) - 2)))
          (seq 0 (length l))
    | _ => false
    end.

  (* at every interior grid point some generated function has a jump in the
     derivative of order p - mult + 1 *)
  Definition smooth_sharpb (ks : list F) (p : nat) : bool :=
    match generate_bsplines p ks with
    | Ok l =>
        forallb (fun k =>
          let mu := mult ks (nth (k + 1) (unique ks) f0) in
          (mu <=? p)%nat &&
          existsb (fun i => negb (jump_freeb (nth i l dflt_spline) (N.of_nat k) (p + 1 - mu)))
                  (seq 0 (length l)))
          (seq 0 (length (unique ks) - 2))
    | _ => false
    end.

  Lemma smooth_okb_spec (ks : list F) p : smooth_okb ks p = true ->
    exists l, generate_bsplines p ks = Ok l /\
      forall i k d, (i < length l)%nat -> (k + 2 < length (unique ks))%nat ->
        (d + mult ks (nth (k + 1) (unique ks) f0) <= p)%nat ->
        jump_free (nth i l dflt_spline) (N.of_nat k) d.
  Proof.
    unfold smooth_okb. destruct (generate_bsplines p ks) as [l| |]; try discriminate.
    intros H. exists l. split; [reflexivity|]. intros i k d Hi Hk Hd.
    rewrite forallb_forall in H. specialize (H i ltac:(apply in_seq; lia)).
    rewrite forallb_forall in H. specialize (H k ltac:(apply in_seq; lia)).
    rewrite forallb_forall in H. specialize (H d ltac:(apply in_seq; lia)).
    apply jump_freeb_true. exact H.
  Qed.

  Lemma smooth_sharpb_spec (ks : list F) p : smooth_sharpb ks p = true ->
    exists l, generate_bsplines p ks = Ok l /\
      forall k, (k + 2 < length (unique ks))%nat ->
        (mult ks (nth (k + 1) (unique ks) f0) <= p)%nat /\
        exists i, (i < length l)%nat /\
          ~ jump_free (nth i l dflt_spline) (N.of_nat k)
              (p + 1 - mult ks (nth (k + 1) (unique ks) f0)).
  Proof.
    unfold smooth_sharpb. destruct (generate_bsplines p ks) as [l| |]; try discriminate.
    intros H. exists l. split; [reflexivity|]. intros k Hk.
    rewrite forallb_forall in H. specialize (H k ltac:(apply in_seq; lia)). cbv zeta in H.
    apply andb_true_iff in H as [H1 H2]. split; [apply Nat.leb_le; exact H1|].
    apply existsb_exists in H2 as (i & Hi & H2). apply in_seq in Hi.
    exists i. split; [lia|]. apply jump_freeb_false. apply negb_true_iff. exact H2.
  Qed.

End SmoothFacts.

(* ---- examples over the rationals: the knot vector [0;0;0;1;2;2;3;4;4;4]
   (clamped ends, a double knot at 2, simple knots at 1 and 3), orders 2 and 3.
   Checked by computation, independently of [gen_smooth]: every generated
   function is jump-free up to order p - mult at every interior grid point,
   and at every interior grid point some function has a jump in the derivative
   of order p - mult + 1 (sharpness). ---- *)
From BSpl Require Import Instances.

Definition ks_smooth : list Qcanon.Qc :=
  [qc 0 1; qc 0 1; qc 0 1; qc 1 1; qc 2 1; qc 2 1; qc 3 1; qc 4 1; qc 4 1; qc 4 1].

Example gen_smooth_qc_grid :
  unique ks_smooth = [qc 0 1; qc 1 1; qc 2 1; qc 3 1; qc 4 1] /\
  map (mult ks_smooth) (unique ks_smooth) = [3; 1; 2; 1; 3]%nat.
Proof. split; vm_compute; reflexivity. Qed.

Example gen_smooth_qc_checks :
  smooth_okb ks_smooth 2 = true /\ smooth_okb ks_smooth 3 = true /\
  smooth_sharpb ks_smooth 2 = true /\ smooth_sharpb ks_smooth 3 = true.
Proof. repeat split; vm_compute; reflexivity. Qed.

Example gen_smooth_qc_examples : forall p, p = 2%nat \/ p = 3%nat ->
  exists l, generate_bsplines p ks_smooth = Ok l /\
    (* smooth up to order p - mult *)
    (forall i k d, (i < length l)%nat -> (k + 2 < length (unique ks_smooth))%nat ->
       (d + mult ks_smooth (nth (k + 1) (unique ks_smooth) f0) <= p)%nat ->
       jump_free (nth i l dflt_spline) (N.of_nat k) d) /\
    (* and not further *)
    (forall k, (k + 2 < length (unique ks_smooth))%nat ->
       exists i, (i < length l)%nat /\
         ~ jump_free (nth i l dflt_spline) (N.of_nat k)
             (p + 1 - mult ks_smooth (nth (k + 1) (unique ks_smooth) f0))).
Proof.
  intros p Hp.
  assert (smooth_okb ks_smooth p = true /\ smooth_sharpb ks_smooth p = true) as [H1 H2].
  { destruct gen_smooth_qc_checks as (A & B & C & D). destruct Hp as [-> | ->]; split; assumption. }
  destruct (smooth_okb_spec ks_smooth p H1) as (l & El & Hs).
  destruct (smooth_sharpb_spec ks_smooth p H2) as (l' & El' & Hsh).
  rewrite El in El'. injection El' as <-.
  exists l. split; [exact El|]. split; [exact Hs|].
  intros k Hk. exact (proj2 (Hsh k Hk)).
Qed.

(* the two ends of the grid (both of multiplicity 3): for p = 3 every generated
   function vanishes there (d = 0), and some function has a non-zero first
   derivative there *)
Example gen_smooth_qc_ends :
  match generate_bsplines 3 ks_smooth with
  | Ok l =>
      let g := unique ks_smooth in
      forallb (fun s => feqb (dval (piece s 0) 0 (gnth g 0) (mid g 0)) f0
                        && feqb (dval (piece s 3) 0 (gnth g 4) (mid g 3)) f0) l
      && existsb (fun s => negb (feqb (dval (piece s 0) 1 (gnth g 0) (mid g 0)) f0)) l
      && existsb (fun s => negb (feqb (dval (piece s 3) 1 (gnth g 4) (mid g 3)) f0)) l
  | _ => false
  end = true.
Proof. vm_compute. reflexivity. Qed.

(* non-vacuity: the hypotheses of [gen_smooth] hold for this knot vector, so the
   theorem applies, e.g. to the first derivative of the third cubic function
   across the double knot 2 *)
Lemma ks_smooth_hyps :
  nondecreasing ks_smooth /\ two_distinct ks_smooth /\ (nlen ks_smooth < 2 ^ 63)%N.
Proof.
  split; [|split].
  - intros i a b Ha Hb.
    do 10 (destruct i as [|i];
           [cbn [nth_error ks_smooth] in Ha, Hb;
            first [discriminate Hb
                  | injection Ha as <-; injection Hb as <-; vm_compute; reflexivity]|]).
    destruct i; discriminate.
  - exists 0%nat, 3%nat, (qc 0 1), (qc 1 1).
    split; [reflexivity|]. split; [reflexivity|]. intros H. discriminate H.
  - vm_compute. reflexivity.
Qed.

Example gen_smooth_nonvacuous : forall l, generate_bsplines 3 ks_smooth = Ok l ->
  jump_free (nth 2 l dflt_spline) 1 1.
Proof.
  intros l El. destruct ks_smooth_hyps as (Hn & Hd & Hl).
  assert (length l = 6%nat) as Ll.
  { rewrite (gen_length ks_smooth 3 l Hn Hd Hl ltac:(cbn; lia) El). reflexivity. }
  apply (gen_smooth ks_smooth 3 l 2 1 1 Hn Hd Hl); try exact El.
  - cbn; lia.
  - lia.
  - vm_compute. lia.
  - vm_compute. lia.
Qed.

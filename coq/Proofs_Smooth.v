(* Proofs_Smooth.v — the smoothness clause of C01: every generated basis
   function of order p is C^{p-mu} across a knot of multiplicity mu.

   At a grid point t that occurs mu times in the knot vector, the one-sided
   derivatives of orders 0 .. p-mu of the two adjacent polynomial pieces of a
   generated spline coincide ([jump_free]); pieces outside the support are the
   zero polynomial, so the statement includes the smooth junction with zero at
   the ends of the support.

   Part 0: translation of the expansion point, linearity of [pderivn].
   Part 1: [BP], the coefficient list (about 0) of the per-interval Cox–de Boor
           polynomial [Bk]; the pieces of a generated spline are translates.
   Part 2: the block of indices of a value in a sorted knot vector, [mult].
   Part 3: continuity: the values of adjacent per-interval polynomials at the
           common grid point (d = 0).
   Part 4: the B-spline derivative formula.
   Part 5: the main theorem [gen_smooth] and its corollaries.
   Finally: examples over the rationals, including sharpness. *)
From Coq Require Import List Arith NArith ZArith Bool Lia ZifyBool ZifyN Field Ring.
From BSpl Require Import ListAux Scalar Outcome Support Poly Spline Ops Generator
  Spec Spec_Ops Spec_Gen
  Proofs_Support Proofs_Scalar Proofs_Outcome Proofs_Poly Proofs_Eval Proofs_Spline
  Proofs_Ops Proofs_Interp Proofs_Gen.
Import ListNotations.

Ltac Zify.zify_post_hook ::= Z.div_mod_to_equations.

Section SmoothFacts.
  Context {F : Type} {K : Ops F} {L : Laws K}.
  Add Field Ffsm : (@Fth F K L).
  Local Open Scope F_scope.

  (* ================================================================== *)
  (* specification vocabulary                                            *)
  (* ================================================================== *)

  (* multiplicity of the value t in the knot vector *)
  Definition mult (ks : list F) (t : F) : nat := length (filter (fun a => feqb a t) ks).

  (* the d-th derivatives of the pieces on the intervals k and k+1 agree at
     the common grid point g_{k+1} *)
  Definition jump_free (s : spline F) (k : N) (d : nat) : Prop :=
    dval (piece s k) d (gnth (sgridp s) (k + 1)) (mid (sgridp s) k)
    = dval (piece s (k + 1)) d (gnth (sgridp s) (k + 1)) (mid (sgridp s) (k + 1)).

  (* equality of coefficient lists as polynomial functions *)
  Definition peq (p q : list F) : Prop := forall u, peval p u = peval q u.

  (* ================================================================== *)
  (* Part 0: translation, linearity of the iterated derivative           *)
  (* ================================================================== *)

  Lemma fdiv_0_l (w : F) : f0 / w = f0.
  Proof. rewrite (Fdiv_def (@Fth F K L)). ring. Qed.

  (* p(X + c) *)
  Fixpoint pshift (c : F) (p : list F) : list F :=
    match p with [] => [] | a :: q => padd [a] (pmul [c; f1] (pshift c q)) end.

  Lemma peval_pshift c (p : list F) u : peval (pshift c p) u = peval p (u + c).
  Proof.
    induction p as [|a p IH]; [reflexivity|].
    cbn [pshift]. rewrite peval_padd, peval_pmul, IH. cbn [peval]. ring.
  Qed.

  Lemma peval_pderiv_pshift c (p : list F) u :
    peval (pderiv (pshift c p)) u = peval (pderiv p) (u + c).
  Proof.
    induction p as [|a p IH]; [reflexivity|].
    rewrite (peval_pderiv_cons a p).
    cbn [pshift]. rewrite peval_pderiv_padd, peval_pderiv_pmul, IH, peval_pshift. cbn [pderiv pderiv_from peval]. rewrite fofnat_1. ring.
  Qed.

  Lemma peval_pderivn_pshift n c (p : list F) u :
    peval (pderivn n (pshift c p)) u = peval (pderivn n p) (u + c).
  Proof.
    revert p u; induction n as [|n IH]; intros p u; cbn [pderivn].
    - apply peval_pshift.
    - rewrite <- IH. apply peval_pderivn_ext. intros v.
      rewrite peval_pderiv_pshift, peval_pshift. reflexivity.
  Qed.

  (* a coefficient list about m and one about 0 that denote the same function
     have the same derivatives *)
  Lemma dval_transfer (P Q : list F) m :
    (forall x, peval P (x - m) = peval Q x) ->
    forall d x, dval P d x m = peval (pderivn d Q) x.
  Proof.
    intros H d x. unfold dval.
    rewrite (peval_pderivn_ext d P (pshift m Q)).
    - rewrite peval_pderivn_pshift. f_equal. ring.
    - intros u. rewrite peval_pshift, <- H. f_equal. ring.
  Qed.

  Lemma peval_pderivn_padd n (p q : list F) u :
    peval (pderivn n (padd p q)) u = peval (pderivn n p) u + peval (pderivn n q) u.
  Proof.
    rewrite <- peval_padd. apply peval_ext_nth. intros i.
    rewrite nth_padd, !nth_pderivn, nth_padd. ring.
  Qed.

  Lemma peval_pderivn_pscale_l n c (p : list F) u :
    peval (pderivn n (pscale_l c p)) u = c * peval (pderivn n p) u.
  Proof.
    rewrite <- peval_pscale_l. apply peval_ext_nth. intros i.
    rewrite nth_pscale_l, !nth_pderivn, nth_pscale_l. ring.
  Qed.

  Lemma pderivn_nil n : pderivn n (@nil F) = [].
  Proof. induction n as [|n IH]; [reflexivity | exact IH]. Qed.

  Lemma peval_pderivn_nil n (u : F) : peval (pderivn n []) u = f0.
  Proof. rewrite pderivn_nil. reflexivity. Qed.

  (* ================================================================== *)
  (* Part 1: the per-interval polynomial as a coefficient list about 0   *)
  (* ================================================================== *)

  Fixpoint BP (ks : list F) (p i k : nat) : list F :=
    match p with
    | O => if fltb (knot ks i) (knot ks (i + 1)) && feqb (knot ks i) (nth k (unique ks) f0)
           then [f1] else []
    | S q =>
        padd (if fltb (knot ks i) (knot ks (i + q + 1))
              then pscale_l (f1 / (knot ks (i + q + 1) - knot ks i))
                     (pmul [- knot ks i; f1] (BP ks q i k))
              else [])
             (if fltb (knot ks (i + 1)) (knot ks (i + q + 2))
              then pscale_l (f1 / (knot ks (i + q + 2) - knot ks (i + 1)))
                     (pmul [knot ks (i + q + 2); - f1] (BP ks q (i + 1) k))
              else [])
    end.

  Lemma peval_BP (ks : list F) p i k x : peval (BP ks p i k) x = Bk ks p i k x.
  Proof.
    revert i; induction p as [|q IH]; intros i; cbn [BP Bk].
    - destruct (fltb (knot ks i) (knot ks (i + 1)) && feqb (knot ks i) (nth k (unique ks) f0));
        cbn [peval]; ring.
    - rewrite peval_padd.
      destruct (fltb (knot ks i) (knot ks (i + q + 1))) eqn:E1;
        destruct (fltb (knot ks (i + 1)) (knot ks (i + q + 2))) eqn:E2;
        rewrite ?peval_pscale_l, ?peval_pmul, ?IH; cbn [peval];
        field; repeat split; apply fsub_neq0; assumption.
  Qed.

  Definition dflt_spline : spline F := mkSpl (mkSup [] 0 0) 0 [].

  Lemma gen_grid (ks : list F) p l i :
    nondecreasing ks -> two_distinct ks -> (nlen ks < 2 ^ 63)%N -> (p + 1 <= length ks)%nat ->
    generate_bsplines p ks = Ok l -> (i < length l)%nat ->
    sgridp (nth i l dflt_spline) = unique ks.
  Proof.
    intros Hn Hd Hl Hp El Hi.
    destruct (gen_count ks p Hn Hd Hl Hp) as (l' & El' & _ & _ & Hg).
    rewrite El in El'. injection El' as <-.
    exact (proj1 (proj1 (Forall_nth _ l) Hg i dflt_spline Hi)).
  Qed.

  (* derivatives of a piece of a generated spline are derivatives of [BP] *)
  Lemma gen_piece_dval (ks : list F) p l i k d x :
    nondecreasing ks -> two_distinct ks -> (nlen ks < 2 ^ 63)%N -> (p + 1 <= length ks)%nat ->
    generate_bsplines p ks = Ok l -> (i < length l)%nat ->
    (k + 1 < length (unique ks))%nat ->
    dval (piece (nth i l dflt_spline) (N.of_nat k)) d x
         (mid (sgridp (nth i l dflt_spline)) (N.of_nat k))
    = peval (pderivn d (BP ks p i k)) x.
  Proof.
    intros Hn Hd Hl Hp El Hi Hk. apply dval_transfer. intros y.
    rewrite peval_BP, <- (gen_is_Bk ks p l i k y Hn Hd Hl Hp El Hi Hk). reflexivity.
  Qed.

  (* ================================================================== *)
  (* Part 2: the block of indices of a value in a sorted knot vector     *)
  (* ================================================================== *)

  (* the knots equal to t are exactly those with index in [a, b); smaller
     ones come before, larger ones after *)
  Definition blk (ks : list F) (t : F) (a b : nat) : Prop :=
    (a <= b <= length ks)%nat /\
    (forall j, (j < a)%nat -> fltb (knot ks j) t = true) /\
    (forall j, (a <= j < b)%nat -> knot ks j = t) /\
    (forall j, (b <= j < length ks)%nat -> fltb t (knot ks j) = true).

  Lemma knot_cons_0 (c : F) r : knot (c :: r) 0 = c.
  Proof. reflexivity. Qed.

  Lemma knot_cons_S (c : F) r j : knot (c :: r) (S j) = knot r j.
  Proof. reflexivity. Qed.

  Lemma mult_cons (c : F) r t :
    mult (c :: r) t = if feqb c t then S (mult r t) else mult r t.
  Proof. unfold mult. cbn [filter]. destruct (feqb c t); reflexivity. Qed.

  Lemma blk_exists (ks : list F) t : nondecreasing ks ->
    exists a b, blk ks t a b /\ (b - a)%nat = mult ks t.
  Proof.
    induction ks as [|c r IH]; intros Hn.
    - exists 0%nat, 0%nat. split; [|reflexivity].
      split; [cbn [length]; lia|]. split; [intros j Hj; lia|].
      split; intros j Hj; cbn [length] in Hj; lia.
    - destruct (IH (nondecreasing_tail c r Hn)) as (a' & b' & (Hab & Hlt & Heq & Hgt) & Hm).
      assert (forall j, (j < length r)%nat -> fleb c (knot r j) = true) as Hc.
      { intros j Hj. rewrite <- (knot_cons_0 c r), <- (knot_cons_S c r j).
        apply nondecreasing_knot_le; [exact Hn | lia | cbn [length]; lia]. }
      rewrite mult_cons.
      destruct (flt_total c t) as [Hct|[Hct|Hct]].
      + (* c < t *)
        assert (feqb c t = false) as -> by (apply feqb_false, flt_neq; exact Hct).
        exists (S a'), (S b'). split; [|lia].
        split; [cbn [length]; lia|]. split; [|split].
        * intros [|j] Hj; [exact Hct | rewrite knot_cons_S; apply Hlt; lia].
        * intros [|j] Hj; [lia | rewrite knot_cons_S; apply Heq; lia].
        * intros [|j] Hj; [lia | rewrite knot_cons_S; apply Hgt; cbn [length] in Hj; lia].
      + (* c = t *)
        subst c. rewrite feqb_refl.
        assert (a' = 0)%nat as ->.
        { destruct a' as [|a']; [reflexivity|]. exfalso.
          pose proof (Hlt 0%nat ltac:(lia)) as H1.
          pose proof (Hc 0%nat ltac:(lia)) as H2.
          pose proof (fle_lt_trans _ _ _ H2 H1) as H3. rewrite flt_irrefl in H3. discriminate. }
        exists 0%nat, (S b'). split; [|lia].
        split; [cbn [length]; lia|]. split; [intros j Hj; lia|]. split.
        * intros [|j] Hj; [reflexivity | rewrite knot_cons_S; apply Heq; lia].
        * intros [|j] Hj; [lia | rewrite knot_cons_S; apply Hgt; cbn [length] in Hj; lia].
      + (* t < c *)
        assert (feqb c t = false) as ->.
        { apply feqb_false. intros E. apply (flt_neq _ _ Hct). symmetry. exact E. }
        assert (forall j, (j < length r)%nat -> fltb t (knot r j) = true) as Hall.
        { intros j Hj. exact (flt_le_trans _ _ _ Hct (Hc j Hj)). }
        assert (a' = 0)%nat as ->.
        { destruct a' as [|a']; [reflexivity|]. exfalso.
          pose proof (Hlt 0%nat ltac:(lia)) as H1.
          pose proof (Hall 0%nat ltac:(lia)) as H2.
          pose proof (flt_trans _ _ _ H1 H2) as H3. rewrite flt_irrefl in H3. discriminate. }
        assert (b' = 0)%nat as ->.
        { destruct b' as [|b']; [reflexivity|]. exfalso.
          pose proof (Heq 0%nat ltac:(lia)) as H1.
          pose proof (Hall 0%nat ltac:(lia)) as H2.
          rewrite H1, flt_irrefl in H2. discriminate. }
        exists 0%nat, 0%nat. split; [|lia].
        split; [cbn [length]; lia|]. split; [intros j Hj; lia|]. split; [intros j Hj; lia|].
        intros [|j] Hj; [exact Hct | rewrite knot_cons_S; apply Hall; cbn [length] in Hj; lia].
  Qed.

  Lemma blk_nonempty (ks : list F) t a b : blk ks t a b -> In t ks -> (a < b)%nat.
  Proof.
    intros (Hab & Hlt & Heq & Hgt) Hin.
    destruct (In_nth ks t f0 Hin) as (j & Hj & Ej). fold (knot ks j) in Ej.
    destruct (Nat.lt_ge_cases j a) as [H1|H1].
    { pose proof (Hlt j H1) as H. rewrite Ej, flt_irrefl in H. discriminate. }
    destruct (Nat.lt_ge_cases j b) as [H2|H2]; [lia|].
    pose proof (Hgt j ltac:(lia)) as H. rewrite Ej, flt_irrefl in H. discriminate.
  Qed.

  (* position of an index relative to the block, from the value of the knot *)
  Lemma blk_lt (ks : list F) t a b j : blk ks t a b -> (j < length ks)%nat ->
    fltb (knot ks j) t = true -> (j < a)%nat.
  Proof.
    intros (Hab & Hlt & Heq & Hgt) Hj H.
    destruct (Nat.lt_ge_cases j a) as [H1|H1]; [exact H1|]. exfalso.
    destruct (Nat.lt_ge_cases j b) as [H2|H2].
    - rewrite (Heq j ltac:(lia)), flt_irrefl in H. discriminate.
    - pose proof (Hgt j ltac:(lia)) as H3. apply flt_asym in H3. congruence.
  Qed.

  Lemma blk_gt (ks : list F) t a b j : blk ks t a b -> (j < length ks)%nat ->
    fltb t (knot ks j) = true -> (b <= j)%nat.
  Proof.
    intros (Hab & Hlt & Heq & Hgt) Hj H.
    destruct (Nat.lt_ge_cases j b) as [H2|H2]; [|exact H2]. exfalso.
    destruct (Nat.lt_ge_cases j a) as [H1|H1].
    - pose proof (Hlt j H1) as H3. apply flt_asym in H3. congruence.
    - rewrite (Heq j ltac:(lia)), flt_irrefl in H. discriminate.
  Qed.

  Lemma blk_eq (ks : list F) t a b j : blk ks t a b -> (j < length ks)%nat ->
    knot ks j = t -> (a <= j < b)%nat.
  Proof.
    intros (Hab & Hlt & Heq & Hgt) Hj H.
    destruct (Nat.lt_ge_cases j a) as [H1|H1].
    { pose proof (Hlt j H1) as H3. rewrite H, flt_irrefl in H3. discriminate. }
    destruct (Nat.lt_ge_cases j b) as [H2|H2]; [lia|].
    pose proof (Hgt j ltac:(lia)) as H3. rewrite H, flt_irrefl in H3. discriminate.
  Qed.

  (* ================================================================== *)
  (* Part 3: continuity                                                  *)
  (* ================================================================== *)

  (* t = g_{k+1}: which order-0 functions are 1 on the interval left of t *)
  Lemma Bk0_left (ks : list F) t a b k i x :
    nondecreasing ks -> blk ks t a b -> (a < b)%nat ->
    (k + 1 < length (unique ks))%nat -> nth (k + 1) (unique ks) f0 = t ->
    (i + 1 < length ks)%nat ->
    Bk ks 0 i k x = if (i + 1 =? a)%nat then f1 else f0.
  Proof.
    intros Hn Hb Hab Hk Ht Hi. pose proof Hb as (_ & Hlt & Heq & Hgt).
    pose proof (unique_increasing ks Hn) as Hinc.
    assert (nth_error (unique ks) (k + 1) = Some t) as Ek1
      by (rewrite <- Ht; apply nth_error_nth'; exact Hk).
    assert (nth_error (unique ks) k = Some (nth k (unique ks) f0)) as Ek
      by (apply nth_error_nth'; lia).
    pose proof (knot_nth_error ks i ltac:(lia)) as Ei.
    pose proof (knot_nth_error ks (i + 1) Hi) as Ei1.
    replace (i + 1)%nat with (S i) in Ei1 by lia.
    cbn [Bk]. destruct (Nat.eqb_spec (i + 1) a) as [Ea|Ea].
    - subst a. pose proof (Hlt i ltac:(lia)) as H1. pose proof (Heq (i + 1)%nat ltac:(lia)) as H2.
      rewrite H2, H1. cbn [andb].
      replace (i + 1)%nat with (S i) in H2 by lia. rewrite H2 in Ei1.
      destruct (consecutive_grid ks i _ _ Ei Ei1 (flt_neq _ _ H1)) as (j & Hj & Hj1).
      assert (S j = k + 1)%nat as Ej by (apply (increasing_inj (unique ks) _ _ t); assumption).
      assert (j = k) as -> by lia.
      rewrite (nth_error_nth _ _ f0 Hj), feqb_refl. reflexivity.
    - destruct (fltb (knot ks i) (knot ks (i + 1))) eqn:E1; [|reflexivity].
      destruct (feqb (knot ks i) (nth k (unique ks) f0)) eqn:E2; [|reflexivity]. exfalso.
      apply feqb_true in E2. cbn [andb].
      assert (fltb (knot ks i) t = true) as H1.
      { rewrite E2. apply (Hinc k); [exact Ek|]. replace (S k) with (k + 1)%nat by lia. exact Ek1. }
      pose proof (blk_lt ks t a b i Hb ltac:(lia) H1) as H2.
      replace (i + 1)%nat with (S i) in E1 by lia.
      destruct (consecutive_grid ks i _ _ Ei Ei1 (flt_neq _ _ E1)) as (j & Hj & Hj1).
      assert (j = k) as ->
        by (apply (increasing_inj (unique ks) _ _ (knot ks i)); [exact Hinc | exact Hj | congruence]).
      replace (S k) with (k + 1)%nat in Hj1 by lia.
      assert (knot ks (S i) = t) as H3 by congruence.
      pose proof (blk_eq ks t a b (S i) Hb ltac:(lia) H3). lia.
  Qed.

  (* ... and on the interval right of t *)
  Lemma Bk0_right (ks : list F) t a b k i x :
    blk ks t a b -> (a < b)%nat -> nth (k + 1) (unique ks) f0 = t ->
    (i + 1 < length ks)%nat ->
    Bk ks 0 i (k + 1) x = if (i + 1 =? b)%nat then f1 else f0.
  Proof.
    intros Hb Hab Ht Hi. pose proof Hb as (_ & Hlt & Heq & Hgt).
    cbn [Bk]. rewrite Ht. destruct (Nat.eqb_spec (i + 1) b) as [Ea|Ea].
    - subst b. rewrite (Heq i ltac:(lia)), (Hgt (i + 1)%nat ltac:(lia)), feqb_refl. reflexivity.
    - destruct (fltb (knot ks i) (knot ks (i + 1))) eqn:E1; [|reflexivity].
      destruct (feqb (knot ks i) t) eqn:E2; [|reflexivity]. exfalso.
      apply feqb_true in E2. rewrite E2 in E1.
      pose proof (blk_eq ks t a b i Hb ltac:(lia) E2).
      pose proof (blk_gt ks t a b (i + 1) Hb Hi E1). lia.
  Qed.

  (* the data of two adjacent intervals kl, kr meeting at the knot t *)
  Definition adj (ks : list F) (t : F) (a b kl kr : nat) : Prop :=
    blk ks t a b /\ (a < b)%nat /\
    (forall i x, (i + 1 < length ks)%nat ->
                 Bk ks 0 i kl x = if (i + 1 =? a)%nat then f1 else f0) /\
    (forall i x, (i + 1 < length ks)%nat ->
                 Bk ks 0 i kr x = if (i + 1 =? b)%nat then f1 else f0).

  Lemma adj_grid (ks : list F) k : nondecreasing ks ->
    (k + 1 < length (unique ks))%nat ->
    exists a b, adj ks (nth (k + 1) (unique ks) f0) a b k (k + 1) /\
                (b - a)%nat = mult ks (nth (k + 1) (unique ks) f0).
  Proof.
    intros Hn Hk. set (t := nth (k + 1) (unique ks) f0).
    destruct (blk_exists ks t Hn) as (a & b & Hb & Hm).
    assert (a < b)%nat as Hab.
    { apply (blk_nonempty ks t a b Hb). apply unique_In. apply nth_In. exact Hk. }
    exists a, b. split; [|exact Hm]. split; [exact Hb|]. split; [exact Hab|]. split.
    - intros i x Hi. apply (Bk0_left ks t a b); try assumption. reflexivity.
    - intros i x Hi. apply (Bk0_right ks t a b); try assumption. reflexivity.
  Qed.

  (* t_i < t_{i+1} = ... = t_{i+p+1} = t: the left piece ends with value 1 at t,
     the right piece is zero *)
  Lemma V_full_right (ks : list F) t a b kl kr : adj ks t a b kl kr ->
    forall p i, (i + 1 = a)%nat -> (i + p + 2 <= b)%nat -> (i + p + 1 < length ks)%nat ->
    Bk ks p i kl t = f1 /\ Bk ks p i kr t = f0.
  Proof.
    intros ((_ & Hlt & Heq & Hgt) & Hab & H0l & H0r).
    induction p as [|q IH]; intros i Ha Hb Hi.
    - rewrite H0l, H0r by lia.
      destruct (Nat.eqb_spec (i + 1) a) as [_|E]; [|lia].
      destruct (Nat.eqb_spec (i + 1) b) as [E|_]; [lia|]. split; reflexivity.
    - destruct (IH i Ha ltac:(lia) ltac:(lia)) as [IH1 IH2].
      pose proof (Hlt i ltac:(lia)) as H1.
      cbn [Bk]. rewrite IH1, IH2.
      rewrite (Heq (i + q + 1)%nat ltac:(lia)), (Heq (i + 1)%nat ltac:(lia)),
        (Heq (i + q + 2)%nat ltac:(lia)), H1, flt_irrefl.
      split; field; apply fsub_neq0; exact H1.
  Qed.

  (* t = t_i = ... = t_{i+p} < t_{i+p+1}: the left piece is zero, the right
     piece starts with value 1 at t *)
  Lemma V_full_left (ks : list F) t a b kl kr : adj ks t a b kl kr ->
    forall p i, (a <= i)%nat -> (i + p + 1 = b)%nat -> (i + p + 1 < length ks)%nat ->
    Bk ks p i kl t = f0 /\ Bk ks p i kr t = f1.
  Proof.
    intros ((_ & Hlt & Heq & Hgt) & Hab & H0l & H0r).
    induction p as [|q IH]; intros i Ha Hb Hi.
    - rewrite H0l, H0r by lia.
      destruct (Nat.eqb_spec (i + 1) a) as [E|_]; [lia|].
      destruct (Nat.eqb_spec (i + 1) b) as [_|E]; [|lia]. split; reflexivity.
    - destruct (IH (i + 1)%nat ltac:(lia) ltac:(lia) ltac:(lia)) as [IH1 IH2].
      pose proof (Hgt (i + q + 2)%nat ltac:(lia)) as H1.
      cbn [Bk]. rewrite IH1, IH2.
      rewrite (Heq (i + q + 1)%nat ltac:(lia)), (Heq (i + 1)%nat ltac:(lia)),
        (Heq i ltac:(lia)), H1, flt_irrefl.
      split; field; apply fsub_neq0; exact H1.
  Qed.

  (* number of knots among t_i .. t_{i+p+1} that equal t *)
  Definition lmult (a b i p : nat) : nat := (Nat.min b (i + p + 2) - Nat.max a i)%nat.

  (* continuity: if at most p of the knots of B_{i,p} equal t, the two pieces
     take the same value at t *)
  Lemma V_cont (ks : list F) t a b kl kr : adj ks t a b kl kr ->
    forall p i, (i + p + 1 < length ks)%nat -> (lmult a b i p <= p)%nat ->
    Bk ks p i kl t = Bk ks p i kr t.
  Proof.
    intros Hadj. pose proof Hadj as ((_ & Hlt & Heq & Hgt) & Hab & H0l & H0r).
    unfold lmult. induction p as [|q IH]; intros i Hi Hm.
    - rewrite H0l, H0r by lia.
      destruct (Nat.eqb_spec (i + 1) a) as [E1|E1]; [lia|].
      destruct (Nat.eqb_spec (i + 1) b) as [E2|E2]; [lia|]. reflexivity.
    - cbn [Bk].
      destruct (le_lt_dec (Nat.min b (i + q + 2) - Nat.max a i) q) as [H1|H1];
        destruct (le_lt_dec (Nat.min b (i + 1 + q + 2) - Nat.max a (i + 1)) q) as [H2|H2].
      + rewrite (IH i), (IH (i + 1)%nat) by lia. reflexivity.
      + (* the second factor t_{i+q+2} - t vanishes *)
        assert (a = i + 2 /\ i + q + 3 <= b)%nat as [Ea Eb] by lia.
        rewrite (IH i) by lia. f_equal.
        rewrite (Heq (i + q + 2)%nat ltac:(lia)).
        destruct (fltb (knot ks (i + 1)) t); [|reflexivity].
        replace (t - t) with (@f0 F K) by ring. rewrite fdiv_0_l. ring.
      + (* the first factor t - t_i vanishes *)
        assert (a <= i /\ b = i + q + 1)%nat as [Ea Eb] by lia.
        rewrite (IH (i + 1)%nat) by lia. f_equal.
        rewrite (Heq i ltac:(lia)).
        destruct (fltb t (knot ks (i + q + 1))); [|reflexivity].
        replace (t - t) with (@f0 F K) by ring. rewrite fdiv_0_l. ring.
      + (* t_i < t = t_{i+1} = ... = t_{i+q+1} < t_{i+q+2}: the jumps cancel *)
        assert (a = i + 1 /\ b = i + q + 2)%nat as [Ea Eb] by lia.
        destruct (V_full_right ks t a b kl kr Hadj q i ltac:(lia) ltac:(lia) ltac:(lia)) as [R1 R2].
        destruct (V_full_left ks t a b kl kr Hadj q (i + 1)%nat ltac:(lia) ltac:(lia) ltac:(lia))
          as [L1 L2].
        rewrite R1, R2, L1, L2.
        pose proof (Hlt i ltac:(lia)) as G1. pose proof (Hgt (i + q + 2)%nat ltac:(lia)) as G2.
        rewrite (Heq (i + q + 1)%nat ltac:(lia)), (Heq (i + 1)%nat ltac:(lia)), G1, G2.
        field. split; apply fsub_neq0; assumption.
  Qed.

  (* [jump_free] of a generated spline, in terms of [BP] *)
  Lemma jump_free_BP (ks : list F) p l i k d :
    nondecreasing ks -> two_distinct ks -> (nlen ks < 2 ^ 63)%N -> (p + 1 <= length ks)%nat ->
    generate_bsplines p ks = Ok l -> (i < length l)%nat ->
    (k + 2 < length (unique ks))%nat ->
    jump_free (nth i l dflt_spline) (N.of_nat k) d <->
    peval (pderivn d (BP ks p i k)) (nth (k + 1) (unique ks) f0)
    = peval (pderivn d (BP ks p i (k + 1))) (nth (k + 1) (unique ks) f0).
  Proof.
    intros Hn Hd Hl Hp El Hi Hk. unfold jump_free.
    replace (N.of_nat k + 1)%N with (N.of_nat (k + 1)) by lia.
    rewrite (gen_piece_dval ks p l i k d _ Hn Hd Hl Hp El Hi ltac:(lia)).
    rewrite (gen_piece_dval ks p l i (k + 1) d _ Hn Hd Hl Hp El Hi ltac:(lia)).
    rewrite (gen_grid ks p l i Hn Hd Hl Hp El Hi). unfold gnth. rewrite Nat2N.id. reflexivity.
  Qed.

  Lemma gen_length (ks : list F) p l :
    nondecreasing ks -> two_distinct ks -> (nlen ks < 2 ^ 63)%N -> (p + 1 <= length ks)%nat ->
    generate_bsplines p ks = Ok l -> length l = (length ks - p - 1)%nat.
  Proof.
    intros Hn Hd Hl Hp El.
    destruct (gen_count ks p Hn Hd Hl Hp) as (l' & El' & Ll & _).
    rewrite El in El'. injection El' as <-. exact Ll.
  Qed.

  (* priority 1: the case d = 0 *)
  Theorem gen_continuous (ks : list F) p l i k :
    nondecreasing ks -> two_distinct ks -> (nlen ks < 2 ^ 63)%N -> (p + 1 <= length ks)%nat ->
    generate_bsplines p ks = Ok l -> (i < length l)%nat ->
    (k + 2 < length (unique ks))%nat ->
    (mult ks (nth (k + 1) (unique ks) f0) <= p)%nat ->
    jump_free (nth i l dflt_spline) (N.of_nat k) 0.
  Proof.
    intros Hn Hd Hl Hp El Hi Hk Hm.
    apply (jump_free_BP ks p l i k 0 Hn Hd Hl Hp El Hi Hk). cbn [pderivn].
    rewrite !peval_BP.
    pose proof (gen_length ks p l Hn Hd Hl Hp El) as Ll.
    destruct (adj_grid ks k Hn ltac:(lia)) as (a & b & Hadj & Hab).
    apply (V_cont ks _ a b k (k + 1) Hadj); [lia|]. unfold lmult. lia.
  Qed.

End SmoothFacts.

(* Support.v — model of support/Grid.h and support/Support.h.

   A grid is the list of its points (object identity is not modelled).
   size_t values are [N] with explicit wrap-around at 2^64: every + and - the
   C++ performs on size_t in these two headers is [wadd]/[wsub].
   No proofs in this file. *)
From Coq Require Import List NArith Bool.
From BSpl Require Import Scalar Outcome.
Import ListNotations.
Local Open Scope N_scope.

Definition W : N := 18446744073709551616. (* 2^64 *)
Definition wadd (a b : N) : N := (a + b) mod W.
Definition wsub (a b : N) : N := (a + W - b mod W) mod W.

Definition nlen {A} (l : list A) : N := N.of_nat (length l).
Definition nnth {A} (l : list A) (i : N) : option A := nth_error l (N.to_nat i).
(* [0; 1; …; n-1] *)
Definition nrange (n : N) : list N := map N.of_nat (seq 0 (N.to_nat n)).

Section Grid.
  Context {F : Type} {K : Ops F}.

  Definition grid := list F.

  (* Grid::isSteadilyIncreasing *)
  Fixpoint steadily (l : list F) : bool :=
    match l with
    | a :: ((b :: _) as r) => if negb (fltb a b) then false else steadily r
    | _ => true
    end.

  (* Grid::Grid + checkValidity *)
  Definition grid_ctor (l : list F) : outcome grid :=
    if nlen l <? 2 then Throw MISSING_DATA
    else if negb (steadily l) then Throw INCONSISTENT_DATA
    else Ok l.

  (* std::vector::operator== with the element's == *)
  Fixpoint list_eqb (a b : list F) : bool :=
    match a, b with
    | [], [] => true
    | x :: a', y :: b' => feqb x y && list_eqb a' b'
    | _, _ => false
    end.

  (* Grid::operator== (the pointer fast path is an optimisation, not modelled) *)
  Definition grid_eqb (g h : grid) : bool := list_eqb g h.

  Definition grid_size (g : grid) : N := nlen g.

  (* Grid::operator[] — unchecked *)
  Definition grid_sub (g : grid) (i : N) : outcome F :=
    match nnth g i with Some x => Ok x | None => UB OOBRead end.

  (* Grid::at *)
  Definition grid_at (g : grid) (i : N) : outcome F :=
    if grid_size g <=? i then Throw INVALID_ACCESS else grid_sub g i.

  Definition grid_front (g : grid) : outcome F :=
    match g with [] => Throw INVALID_ACCESS | x :: _ => Ok x end.
  Definition grid_back (g : grid) : outcome F :=
    match g with [] => Throw INVALID_ACCESS | _ => Ok (last g f0) end.

  (* std::lower_bound on a sorted range, by its contract: the number of
     leading elements that are < x. *)
  Fixpoint lower_bound (l : list F) (x : F) : nat :=
    match l with
    | [] => O
    | a :: r => if fltb a x then S (lower_bound r x) else O
    end.

  (* Grid::findElement *)
  Definition grid_find (g : grid) (x : F) : outcome N :=
    let k := lower_bound g x in
    match nth_error g k with
    | None => Throw INCONSISTENT_DATA
    | Some e => if fneb e x then Throw INCONSISTENT_DATA else Ok (N.of_nat k)
    end.
End Grid.

Section Support.
  Context {F : Type} {K : Ops F}.

  Record support := mkSup { sgrid : list F; sstart : N; sstop : N }.

  (* Support::checkValidity *)
  Definition sup_valid (s : support) : bool :=
    ((sstart s =? 0) && (sstop s =? 0))
    || ((sstart s <? sstop s) && (sstop s <=? grid_size (sgrid s))).

  (* Support::Support(grid, start, end) *)
  Definition sup_ctor (g : grid) (a b : N) : outcome support :=
    let s := mkSup g a b in
    if sup_valid s then Ok s else Throw INCONSISTENT_DATA.

  Definition sup_empty_on (g : grid) : support := mkSup g 0 0.
  Definition create_empty (g : grid) : outcome support := sup_ctor g 0 0.
  Definition create_whole (g : grid) : outcome support := sup_ctor g 0 (grid_size g).

  Definition sup_size (s : support) : N := wsub (sstop s) (sstart s).
  Definition sup_is_empty (s : support) : bool := sstart s =? sstop s.
  Definition contains_intervals (s : support) : bool := 1 <? sup_size s.

  (* Support::relativeFromAbsolute *)
  Definition rel_from_abs (s : support) (i : N) : option N :=
    if (sstart s <=? i) && (i <? sstop s) then Some (wsub i (sstart s)) else None.

  (* Support::intervalIndexFromAbsolute (after fix D4: index < _endIndex first) *)
  Definition interval_index (s : support) (i : N) : option N :=
    if (sstart s <=? i) && (i <? sstop s) && (wadd i 1 <? sstop s)
    then Some (wsub i (sstart s)) else None.

  (* Support::absoluteFromRelative *)
  Definition abs_from_rel (s : support) (i : N) : outcome N :=
    if sup_size s <=? i then Throw UNDETERMINED else Ok (wadd i (sstart s)).

  Definition num_intervals (s : support) : N :=
    let si := sup_size s in if si =? 0 then 0 else wsub si 1.

  (* Support::operator[] — unchecked *)
  Definition sup_sub (s : support) (i : N) : outcome F :=
    grid_sub (sgrid s) (wadd (sstart s) i).

  (* Support::at (after fix D4: index >= size()) *)
  Definition sup_at (s : support) (i : N) : outcome F :=
    if sup_size s <=? i then Throw INVALID_ACCESS
    else grid_at (sgrid s) (wadd (sstart s) i).

  Definition sup_front (s : support) : outcome F :=
    if sup_is_empty s then Throw INVALID_ACCESS else grid_sub (sgrid s) (sstart s).
  Definition sup_back (s : support) : outcome F :=
    if sup_is_empty s then Throw INVALID_ACCESS else grid_sub (sgrid s) (wsub (sstop s) 1).

  (* iteration begin()..end(): the points of the view *)
  Definition sup_points (s : support) : list F :=
    firstn (N.to_nat (sstop s) - N.to_nat (sstart s)) (skipn (N.to_nat (sstart s)) (sgrid s)).

  Definition has_same_grid (s t : support) : bool := grid_eqb (sgrid s) (sgrid t).

  (* Support::operator== *)
  Definition sup_eqb (s t : support) : bool :=
    has_same_grid s t &&
    (((sstart s =? sstart t) && (sstop s =? sstop t)) || (sup_is_empty s && sup_is_empty t)).

  (* Support::calcUnion *)
  Definition calc_union (s t : support) : outcome support :=
    if negb (has_same_grid s t) then Throw DIFFERING_GRIDS
    else
      let se := sup_is_empty s in
      let te := sup_is_empty t in
      if se && te then create_empty (sgrid s)
      else if se && negb te then Ok t
      else if negb se && te then Ok s
      else sup_ctor (sgrid s) (N.min (sstart s) (sstart t)) (N.max (sstop s) (sstop t)).

  (* Support::calcIntersection *)
  Definition calc_inter (s t : support) : outcome support :=
    if negb (has_same_grid s t) then Throw DIFFERING_GRIDS
    else
      let a := N.max (sstart s) (sstart t) in
      let b := N.min (sstop s) (sstop t) in
      if b <=? a then create_empty (sgrid s) else sup_ctor (sgrid s) a b.
End Support.

Arguments support F : clear implicits.

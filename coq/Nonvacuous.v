(* Nonvacuous.v — the premises of the property theorems are satisfiable.

   Every theorem of Properties_C01 ... Properties_C20 is an implication.  This
   file instantiates the central theorem(s) of every property file on concrete,
   non-degenerate data over the exact rationals [Qc] (a non-uniform six-point
   grid, splines of order 1 and 2 on nested / overlapping / touching / separated
   windows with non-symmetric coefficients, mixed operator expressions, a knot
   vector with interior and boundary repeats, cubic interpolation on four nodes
   with non-default boundary conditions, pool histories with a move, a refused
   call and in-place updates), proves the premises for these data, applies the
   theorem, and shows by computation what the conclusion says there.

   Convention: [NV_Cxx_name] instantiates [Cxx_name] (several theorems when the
   name says so).  Equalities between rationals are decided by [qc]
   (boolean comparison, computed), because two equal [Qc] values may carry
   syntactically different canonicity proofs. *)
From Coq Require Import List NArith ZArith Arith Bool QArith Qcanon Lia.
From BSpl Require Import Scalar Outcome Support Poly Spline Ops Forms Generator Interp Spec Spec_Ops Spec_Gen Proofs_Support Proofs_Scalar Proofs_Poly Proofs_Binom Proofs_Eval Proofs_Outcome Proofs_Spline Proofs_Forms Proofs_Ops Proofs_Forms2 Proofs_Interp Proofs_Pred Proofs_Gen Instances Instances_Ext Proofs_Valid Solver Pool Quad Proofs_Pool Proofs_Quad Proofs_Sites Proofs_Threads Proofs_Updates Examples Proofs_Examples Proofs_SupportGen Proofs_Smooth.
From BSpl Require Import Properties_C01 Properties_C02 Properties_C03 Properties_C04 Properties_C05 Properties_C06 Properties_C07 Properties_C08 Properties_C09 Properties_C10 Properties_C11 Properties_C12 Properties_C13 Properties_C14 Properties_C15 Properties_C17 Properties_C18 Properties_C19 Properties_C20.
Import ListNotations.

(* ====================================================================== *)
(* 0. Helpers and the common data                                          *)
(* ====================================================================== *)

Lemma qc_eq (a b : Qc) : Qc_eqb a b = true -> a = b.
Proof. apply Qc_eqb_eq. Qed.

(* decide an equation between two closed rationals *)
Ltac qc := apply qc_eq; vm_compute; reflexivity.
(* ... a closed call returns [Ok] of a given rational *)
Lemma ok_qc_eq (m : outcome Qc) (b : Qc) :
  match m with Ok a => Qc_eqb a b | _ => false end = true -> m = Ok b.
Proof. destruct m as [a| |]; try discriminate. intros H. apply qc_eq in H. congruence. Qed.
Ltac okqc := apply ok_qc_eq; vm_compute; reflexivity.
(* a closed comparison / a closed structural equation *)
Ltac vmr := vm_compute; reflexivity.
(* closed facts about N: a < b, a <= b, a <> b, ... *)
Ltac nfact := vm_compute; first [reflexivity | discriminate | congruence].

Lemma increasing_of_steadily (l : list Qc) : steadily l = true -> increasing l.
Proof. apply (proj1 (steadily_increasing l)). Qed.

Lemma nondecreasing_of_unique (ks : list Qc) : steadily (unique ks) = true -> nondecreasing ks.
Proof. intros H. apply (unique_increasing_inv (L := Qc_laws)), increasing_of_steadily, H. Qed.

Lemma GInv_of_steadily (g : list Qc) :
  (2 <=? nlen g)%N = true -> (nlen g <? 2 ^ 63)%N = true -> steadily g = true -> GInv g.
Proof.
  intros H1 H2 H3. split; [apply N.leb_le, H1|]. split; [apply N.ltb_lt, H2|].
  apply increasing_of_steadily, H3.
Qed.

Lemma SInv_of_valid (s : support Qc) :
  (nlen (sgrid s) <? 2 ^ 63)%N = true -> sup_valid s = true -> SInv s.
Proof. intros H1 H2. split; [apply N.ltb_lt, H1 | apply sup_valid_iff, H2]. Qed.

Ltac ginv := apply GInv_of_steadily; vmr.
Ltac sinv := apply SInv_of_valid; vmr.

(* [SplInv s] for closed [s] *)
Ltac splinv :=
  split; [sinv | split; [ginv | split; [vmr | repeat constructor]]].

(* r = r' from two evaluations of the same call *)
Lemma ok_inj {A} (m : outcome A) (a b : A) : m = Ok a -> m = Ok b -> a = b.
Proof. intros H1 H2. rewrite H1 in H2. injection H2 as ->. reflexivity. Qed.

(* the grid 0, 1/2, 3/2, 2, 7/2, 5: five intervals of widths 1/2, 1, 1/2, 3/2, 3/2 *)
Definition g6 : list Qc := [qc 0 1; qc 1 2; qc 3 2; qc 2 1; qc 7 2; qc 5 1].
Definition win (a b : N) : support Qc := mkSup g6 a b.

(* sa: order 2 on the points 1..3 (intervals 1, 2)
   sb: order 1 on the points 2..5 (intervals 2, 3, 4) — overlaps sa on interval 2
   sc: order 1 on the points 0..1 (interval 0)        — touches sa at the point 1/2
   sd: order 2 on the points 4..5 (interval 4)        — separated from sa and sc by a gap
   se: order 1 on the points 3..4 (interval 3)        — nested in sb
   sw: order 1 on the whole grid
   sz: no interval at all (empty window) *)
Definition sa : spline Qc :=
  mkSpl (win 1 4) 2 [[qc 1 1; qc (-2) 1; qc 3 1]; [qc 1 2; qc 0 1; qc (-1) 3]].
Definition sb : spline Qc :=
  mkSpl (win 2 6) 1 [[qc 2 1; qc 1 3]; [qc (-1) 1; qc 5 2]; [qc 3 4; qc (-2) 1]].
Definition sc : spline Qc := mkSpl (win 0 2) 1 [[qc 1 1; qc 4 1]].
Definition sd : spline Qc := mkSpl (win 4 6) 2 [[qc (-1) 1; qc 2 1; qc 1 5]].
Definition se : spline Qc := mkSpl (win 3 5) 1 [[qc 7 1; qc (-1) 2]].
Definition sw : spline Qc :=
  mkSpl (win 0 6) 1 [[qc 1 1; qc 1 2]; [qc 2 1; qc (-1) 3]; [qc 1 3; qc 3 1];
                     [qc (-2) 1; qc 1 4]; [qc 1 2; qc 1 1]].
Definition sz : spline Qc := mkSpl (win 0 0) 1 [].

Lemma g6_inv : GInv g6. Proof. ginv. Qed.
Lemma sa_inv : SplInv sa. Proof. splinv. Qed.
Lemma sb_inv : SplInv sb. Proof. splinv. Qed.
Lemma sc_inv : SplInv sc. Proof. splinv. Qed.
Lemma sd_inv : SplInv sd. Proof. splinv. Qed.
Lemma se_inv : SplInv se. Proof. splinv. Qed.
Lemma sw_inv : SplInv sw. Proof. splinv. Qed.
Lemma sz_inv : SplInv sz. Proof. splinv. Qed.

(* a second grid (last point differs) and a spline on it *)
Definition h6 : list Qc := [qc 0 1; qc 1 2; qc 3 2; qc 2 1; qc 7 2; qc 6 1].
Definition sh : spline Qc := mkSpl (mkSup h6 2 5) 1 [[qc 1 1; qc 1 1]; [qc 2 1; qc (-1) 1]].
Lemma sh_inv : SplInv sh. Proof. splinv. Qed.
Lemma h6_neq : h6 <> g6.
Proof. intros H. apply (f_equal (fun l => this (nth 5 l (qc 0 1)))) in H. vm_compute in H. discriminate H. Qed.

(* knots with a double boundary knot at both ends and a double interior knot;
   the grid they generate is g6 *)
Definition nv_ks : list Qc :=
  [qc 0 1; qc 0 1; qc 1 2; qc 3 2; qc 3 2; qc 2 1; qc 7 2; qc 5 1; qc 5 1].

Lemma nv_ks_nondecreasing : nondecreasing nv_ks.
Proof. apply nondecreasing_of_unique. vmr. Qed.
Lemma nv_ks_two_distinct : two_distinct nv_ks.
Proof.
  exists 0%nat, 2%nat, (qc 0 1), (qc 1 2). split; [reflexivity|]. split; [reflexivity|].
  intros H. apply (f_equal this) in H. vm_compute in H. discriminate H.
Qed.
Lemma nv_ks_len : (nlen nv_ks < 2 ^ 63)%N. Proof. vmr. Qed.
Lemma nv_ks_grid : unique nv_ks = g6. Proof. vmr. Qed.

(* ====================================================================== *)
(* C01                                                                     *)
(* ====================================================================== *)

(* the quadratic basis on nv_ks, as the model computes it *)
Definition nv_basis : list (spline Qc) :=
  match generate_bsplines 2 nv_ks with Ok l => l | _ => [] end.
Lemma nv_basis_eq : generate_bsplines 2 nv_ks = Ok nv_basis.
Proof. vmr. Qed.

Example NV_C01_constructor :
  (exists gn, gen_ctor1 nv_ks = Ok gn) /\
  gen_ctor1 nv_ks = Ok (mkGen g6 nv_ks) /\ GInv (unique nv_ks).
Proof.
  split.
  - apply (C01_constructor Qc QcOps Qc_laws nv_ks nv_ks_len).
    split; [exact nv_ks_nondecreasing | exact nv_ks_two_distinct].
  - destruct (C01_grid_is_unique_knots Qc QcOps Qc_laws nv_ks nv_ks_nondecreasing
                nv_ks_two_distinct nv_ks_len) as [H1 H2].
    split; [|exact H2]. rewrite H1, nv_ks_grid. reflexivity.
Qed.

Example NV_C01_count :
  exists l, generate_bsplines 2 nv_ks = Ok l /\ length l = 6%nat /\ Forall SplInv l /\
            Forall (fun s => sgridp s = g6 /\ sord s = 2%nat) l /\
            (* the windows of the six splines: 3, 3, 3, 3, 4, 3 grid points *)
            map (fun s => (sstart (ssup s), sstop (ssup s))) l
            = [(0, 3); (0, 3); (1, 4); (2, 5); (2, 6); (3, 6)]%N.
Proof.
  destruct (C01_count Qc QcOps Qc_laws nv_ks 2 nv_ks_nondecreasing nv_ks_two_distinct nv_ks_len)
    as (l & El & Hlen & Hinv & Hg); [vm_compute; lia|].
  exists l. split; [exact El|]. split; [exact Hlen|]. split; [exact Hinv|].
  split; [rewrite <- nv_ks_grid; exact Hg|].
  rewrite (ok_inj _ _ _ El nv_basis_eq). vmr.
Qed.

Example NV_C01_too_few_knots : generate_bsplines 9 nv_ks = Throw UNDETERMINED.
Proof.
  apply (C01_too_few_knots Qc QcOps Qc_laws nv_ks 9 nv_ks_nondecreasing nv_ks_two_distinct nv_ks_len).
  vm_compute. lia.
Qed.

(* B_{2,2}, B_{3,2}, B_{4,2} at x = 9/5 in the interval [3/2, 2) (k = 2) *)
Example NV_C01_is_cox_de_boor :
  den (nth 2 nv_basis dflt_spline) 2 (qc 9 5) = B nv_ks 2 2 (qc 9 5) /\
  den (nth 3 nv_basis dflt_spline) 2 (qc 9 5) = B nv_ks 2 3 (qc 9 5) /\
  den (nth 4 nv_basis dflt_spline) 2 (qc 9 5) = B nv_ks 2 4 (qc 9 5) /\
  B nv_ks 2 2 (qc 9 5) = qc 4 25 /\ B nv_ks 2 3 (qc 9 5) = qc 3 4 /\
  B nv_ks 2 4 (qc 9 5) = qc 9 100 /\
  den (nth 2 nv_basis dflt_spline) 2 (qc 9 5) = qc 4 25.
Proof.
  assert (H : forall i, (i < 6)%nat ->
            den (nth i nv_basis dflt_spline) 2 (qc 9 5) = B nv_ks 2 i (qc 9 5)).
  { intros i Hi.
    apply (C01_is_cox_de_boor Qc QcOps Qc_laws nv_ks 2 nv_basis i 2 (qc 9 5)
             nv_ks_nondecreasing nv_ks_two_distinct nv_ks_len);
      [vm_compute; lia | exact nv_basis_eq | exact Hi | vm_compute; lia | vmr | vmr]. }
  split; [apply H; lia|]. split; [apply H; lia|]. split; [apply H; lia|].
  repeat split; qc.
Qed.

Example NV_C01_eval_interior :
  spl_eval (nth 3 nv_basis dflt_spline) (qc 9 5) = Ok (B nv_ks 2 3 (qc 9 5)) /\
  spl_eval (nth 3 nv_basis dflt_spline) (qc 9 5) = Ok (qc 3 4).
Proof.
  split.
  - apply (C01_eval_interior Qc QcOps Qc_laws nv_ks 2 nv_basis 3 2 (qc 9 5)
             nv_ks_nondecreasing nv_ks_two_distinct nv_ks_len);
      [vm_compute; lia | exact nv_basis_eq | vm_compute; lia | vm_compute; lia | vmr | vmr].
  - okqc.
Qed.

Example NV_C01_partition_of_unity :
  nsum 6 (fun i => B nv_ks 2 i (qc 9 5)) = f1 /\
  (qc 4 25 + qc 3 4 + qc 9 100)%F = f1 /\
  fleb f0 (B nv_ks 2 3 (qc 9 5)) = true /\ B nv_ks 2 0 (qc 9 5) = f0.
Proof.
  split; [|split; [qc|split]].
  - apply (C01_partition_of_unity Qc QcOps Qc_laws nv_ks 2 (qc 9 5) nv_ks_nondecreasing);
      [vm_compute; lia | vmr | vmr].
  - apply (C01_nonnegative Qc QcOps Qc_laws nv_ks 2 3 (qc 9 5) nv_ks_nondecreasing).
    vm_compute; lia.
  - apply (C01_local_support Qc QcOps Qc_laws nv_ks 2 0 (qc 9 5) nv_ks_nondecreasing);
      [vm_compute; lia | right; vmr].
Qed.

(* at the double knot 3/2 (grid point 2, between the intervals 1 and 2) a
   quadratic B-spline is continuous; at the simple knot 2 (between the intervals
   2 and 3) its first derivative is continuous as well; the first derivative
   does jump at the double knot *)
Example NV_C01_smooth_across_knots :
  jump_free (nth 2 nv_basis dflt_spline) 1 0 /\
  jump_free (nth 3 nv_basis dflt_spline) 2 1 /\
  jump_freeb (nth 2 nv_basis dflt_spline) 1 1 = false.
Proof.
  split; [|split; [|vmr]].
  - apply (C01_smooth_across_knots Qc QcOps Qc_laws nv_ks 2 nv_basis 2 1 0
             nv_ks_nondecreasing nv_ks_two_distinct nv_ks_len);
      [vm_compute; lia | exact nv_basis_eq | vm_compute; lia | vm_compute; lia | vm_compute; lia].
  - apply (C01_smooth_across_knots Qc QcOps Qc_laws nv_ks 2 nv_basis 3 2 1
             nv_ks_nondecreasing nv_ks_two_distinct nv_ks_len);
      [vm_compute; lia | exact nv_basis_eq | vm_compute; lia | vm_compute; lia | vm_compute; lia].
Qed.

(* the second constructor: the supplied grid must be the grid of the knots *)
Example NV_C01_supplied_grid :
  (do gn <- gen_ctor2 nv_ks g6; generate gn 2) = Ok nv_basis /\
  (do gn <- gen_ctor2 nv_ks h6; generate gn 2) = Throw INCONSISTENT_DATA.
Proof.
  split.
  - rewrite (C01_supplied_grid_route Qc QcOps Qc_laws nv_ks 2 g6 nv_ks_nondecreasing
               nv_ks_two_distinct nv_ks_len (eq_sym nv_ks_grid)).
    exact nv_basis_eq.
  - apply (C01_supplied_grid_mismatch Qc QcOps Qc_laws nv_ks 2 h6 nv_ks_nondecreasing
             nv_ks_two_distinct nv_ks_len).
    rewrite nv_ks_grid. exact h6_neq.
Qed.

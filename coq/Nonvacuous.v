(* Nonvacuous.v — the premises of the property theorems are satisfiable.

   Every theorem of Properties_C01 ... Properties_C20 is an implication.  This
   file instantiates the central theorem(s) of every property file on concrete,
   non-degenerate data over the exact rationals [Qc] (a non-uniform six-point
   grid, splines of order 1 and 2 on nested / overlapping / touching / separated
   windows with non-symmetric coefficients, mixed operator expressions, a knot
   vector with interior and boundary repeats, cubic interpolation on four nodes
   with non-default boundary conditions, pool histories with a move, a refused
   call and in-place updates), proves the premises for these data, applies the
   theorem, and shows by computation what the conclusion says there.

   Convention: [NV_Cxx_name] instantiates [Cxx_name] (several theorems when the
   name says so).  Equalities between rationals are decided by [qc]
   (boolean comparison, computed), because two equal [Qc] values may carry
   syntactically different canonicity proofs. *)
From Coq Require Import List NArith ZArith Arith Bool QArith Qcanon Lia.
From BSpl Require Import Scalar Outcome Support Poly Spline Ops Forms Generator Interp Spec Spec_Ops Spec_Gen Proofs_Support Proofs_Scalar Proofs_Poly Proofs_Binom Proofs_Eval Proofs_Outcome Proofs_Spline Proofs_Forms Proofs_Ops Proofs_Forms2 Proofs_Interp Proofs_Pred Proofs_Gen Instances Instances_Ext Proofs_Valid Solver Pool Quad Proofs_Pool Proofs_Quad Proofs_Sites Proofs_Threads Proofs_Updates Examples Proofs_Examples Proofs_SupportGen Proofs_Smooth.
From BSpl Require Import Properties_C01 Properties_C02 Properties_C03 Properties_C04 Properties_C05 Properties_C06 Properties_C07 Properties_C08 Properties_C09 Properties_C10 Properties_C11 Properties_C12 Properties_C13 Properties_C14 Properties_C15 Properties_C17 Properties_C18 Properties_C19 Properties_C20.
Import ListNotations.

(* ====================================================================== *)
(* 0. Helpers and the common data                                          *)
(* ====================================================================== *)

Lemma qc_eq (a b : Qc) : Qc_eqb a b = true -> a = b.
Proof. apply Qc_eqb_eq. Qed.

(* decide an equation between two closed rationals *)
Ltac qc := apply qc_eq; vm_compute; reflexivity.
(* ... a closed call returns [Ok] of a given rational *)
Lemma ok_qc_eq (m : outcome Qc) (b : Qc) :
  match m with Ok a => Qc_eqb a b | _ => false end = true -> m = Ok b.
Proof. destruct m as [a| |]; try discriminate. intros H. apply qc_eq in H. congruence. Qed.
Ltac okqc := apply ok_qc_eq; vm_compute; reflexivity.
(* a closed comparison / a closed structural equation *)
Ltac vmr := vm_compute; reflexivity.
(* closed facts about N: a < b, a <= b, a <> b, ... *)
Ltac nfact := vm_compute; first [reflexivity | discriminate | congruence].

Lemma increasing_of_steadily (l : list Qc) : steadily l = true -> increasing l.
Proof. apply (proj1 (steadily_increasing l)). Qed.

Lemma nondecreasing_of_unique (ks : list Qc) : steadily (unique ks) = true -> nondecreasing ks.
Proof. intros H. apply (unique_increasing_inv (L := Qc_laws)), increasing_of_steadily, H. Qed.

Lemma GInv_of_steadily (g : list Qc) :
  (2 <=? nlen g)%N = true -> (nlen g <? 2 ^ 63)%N = true -> steadily g = true -> GInv g.
Proof.
  intros H1 H2 H3. split; [apply N.leb_le, H1|]. split; [apply N.ltb_lt, H2|].
  apply increasing_of_steadily, H3.
Qed.

Lemma SInv_of_valid (s : support Qc) :
  (nlen (sgrid s) <? 2 ^ 63)%N = true -> sup_valid s = true -> SInv s.
Proof. intros H1 H2. split; [apply N.ltb_lt, H1 | apply sup_valid_iff, H2]. Qed.

Ltac ginv := apply GInv_of_steadily; vmr.
Ltac sinv := apply SInv_of_valid; vmr.

(* [SplInv s] for closed [s] *)
Ltac splinv :=
  split; [sinv | split; [ginv | split; [vmr | repeat constructor]]].

(* r = r' from two evaluations of the same call *)
Lemma ok_inj {A} (m : outcome A) (a b : A) : m = Ok a -> m = Ok b -> a = b.
Proof. intros H1 H2. rewrite H1 in H2. injection H2 as ->. reflexivity. Qed.

(* the grid 0, 1/2, 3/2, 2, 7/2, 5: five intervals of widths 1/2, 1, 1/2, 3/2, 3/2 *)
Definition g6 : list Qc := [qc 0 1; qc 1 2; qc 3 2; qc 2 1; qc 7 2; qc 5 1].
Definition win (a b : N) : support Qc := mkSup g6 a b.

(* sa: order 2 on the points 1..3 (intervals 1, 2)
   sb: order 1 on the points 2..5 (intervals 2, 3, 4) — overlaps sa on interval 2
   sc: order 1 on the points 0..1 (interval 0)        — touches sa at the point 1/2
   sd: order 2 on the points 4..5 (interval 4)        — separated from sa and sc by a gap
   se: order 1 on the points 3..4 (interval 3)        — nested in sb
   sw: order 1 on the whole grid
   sz: no interval at all (empty window) *)
Definition sa : spline Qc :=
  mkSpl (win 1 4) 2 [[qc 1 1; qc (-2) 1; qc 3 1]; [qc 1 2; qc 0 1; qc (-1) 3]].
Definition sb : spline Qc :=
  mkSpl (win 2 6) 1 [[qc 2 1; qc 1 3]; [qc (-1) 1; qc 5 2]; [qc 3 4; qc (-2) 1]].
Definition sc : spline Qc := mkSpl (win 0 2) 1 [[qc 1 1; qc 4 1]].
Definition sd : spline Qc := mkSpl (win 4 6) 2 [[qc (-1) 1; qc 2 1; qc 1 5]].
Definition se : spline Qc := mkSpl (win 3 5) 1 [[qc 7 1; qc (-1) 2]].
Definition sw : spline Qc :=
  mkSpl (win 0 6) 1 [[qc 1 1; qc 1 2]; [qc 2 1; qc (-1) 3]; [qc 1 3; qc 3 1];
                     [qc (-2) 1; qc 1 4]; [qc 1 2; qc 1 1]].
Definition sz : spline Qc := mkSpl (win 0 0) 1 [].

Lemma g6_inv : GInv g6. Proof. ginv. Qed.
Lemma sa_inv : SplInv sa. Proof. splinv. Qed.
Lemma sb_inv : SplInv sb. Proof. splinv. Qed.
Lemma sc_inv : SplInv sc. Proof. splinv. Qed.
Lemma sd_inv : SplInv sd. Proof. splinv. Qed.
Lemma se_inv : SplInv se. Proof. splinv. Qed.
Lemma sw_inv : SplInv sw. Proof. splinv. Qed.
Lemma sz_inv : SplInv sz. Proof. splinv. Qed.

(* a second grid (last point differs) and a spline on it *)
Definition h6 : list Qc := [qc 0 1; qc 1 2; qc 3 2; qc 2 1; qc 7 2; qc 6 1].
Definition sh : spline Qc := mkSpl (mkSup h6 2 5) 1 [[qc 1 1; qc 1 1]; [qc 2 1; qc (-1) 1]].
Lemma sh_inv : SplInv sh. Proof. splinv. Qed.
Lemma h6_neq : h6 <> g6.
Proof. intros H. apply (f_equal (fun l => this (nth 5 l (qc 0 1)))) in H. vm_compute in H. discriminate H. Qed.

(* knots with a double boundary knot at both ends and a double interior knot;
   the grid they generate is g6 *)
Definition nv_ks : list Qc :=
  [qc 0 1; qc 0 1; qc 1 2; qc 3 2; qc 3 2; qc 2 1; qc 7 2; qc 5 1; qc 5 1].

Lemma nv_ks_nondecreasing : nondecreasing nv_ks.
Proof. apply nondecreasing_of_unique. vmr. Qed.
Lemma nv_ks_two_distinct : two_distinct nv_ks.
Proof.
  exists 0%nat, 2%nat, (qc 0 1), (qc 1 2). split; [reflexivity|]. split; [reflexivity|].
  intros H. apply (f_equal this) in H. vm_compute in H. discriminate H.
Qed.
Lemma nv_ks_len : (nlen nv_ks < 2 ^ 63)%N. Proof. vmr. Qed.
Lemma nv_ks_grid : unique nv_ks = g6. Proof. vmr. Qed.

(* ====================================================================== *)
(* C01                                                                     *)
(* ====================================================================== *)

(* the quadratic basis on nv_ks, as the model computes it *)
Definition nv_basis : list (spline Qc) :=
  match generate_bsplines 2 nv_ks with Ok l => l | _ => [] end.
Lemma nv_basis_eq : generate_bsplines 2 nv_ks = Ok nv_basis.
Proof. vmr. Qed.

Example NV_C01_constructor :
  (exists gn, gen_ctor1 nv_ks = Ok gn) /\
  gen_ctor1 nv_ks = Ok (mkGen g6 nv_ks) /\ GInv (unique nv_ks).
Proof.
  split.
  - apply (C01_constructor Qc QcOps Qc_laws nv_ks nv_ks_len).
    split; [exact nv_ks_nondecreasing | exact nv_ks_two_distinct].
  - destruct (C01_grid_is_unique_knots Qc QcOps Qc_laws nv_ks nv_ks_nondecreasing
                nv_ks_two_distinct nv_ks_len) as [H1 H2].
    split; [|exact H2]. rewrite H1, nv_ks_grid. reflexivity.
Qed.

Example NV_C01_count :
  exists l, generate_bsplines 2 nv_ks = Ok l /\ length l = 6%nat /\ Forall SplInv l /\
            Forall (fun s => sgridp s = g6 /\ sord s = 2%nat) l /\
            (* the windows of the six splines: 3, 3, 3, 3, 4, 3 grid points *)
            map (fun s => (sstart (ssup s), sstop (ssup s))) l
            = [(0, 3); (0, 3); (1, 4); (2, 5); (2, 6); (3, 6)]%N.
Proof.
  destruct (C01_count Qc QcOps Qc_laws nv_ks 2 nv_ks_nondecreasing nv_ks_two_distinct nv_ks_len)
    as (l & El & Hlen & Hinv & Hg); [vm_compute; lia|].
  exists l. split; [exact El|]. split; [exact Hlen|]. split; [exact Hinv|].
  split; [rewrite <- nv_ks_grid; exact Hg|].
  rewrite (ok_inj _ _ _ El nv_basis_eq). vmr.
Qed.

Example NV_C01_too_few_knots : generate_bsplines 9 nv_ks = Throw UNDETERMINED.
Proof.
  apply (C01_too_few_knots Qc QcOps Qc_laws nv_ks 9 nv_ks_nondecreasing nv_ks_two_distinct nv_ks_len).
  vm_compute. lia.
Qed.

(* B_{2,2}, B_{3,2}, B_{4,2} at x = 9/5 in the interval [3/2, 2) (k = 2) *)
Example NV_C01_is_cox_de_boor :
  den (nth 2 nv_basis dflt_spline) 2 (qc 9 5) = B nv_ks 2 2 (qc 9 5) /\
  den (nth 3 nv_basis dflt_spline) 2 (qc 9 5) = B nv_ks 2 3 (qc 9 5) /\
  den (nth 4 nv_basis dflt_spline) 2 (qc 9 5) = B nv_ks 2 4 (qc 9 5) /\
  B nv_ks 2 2 (qc 9 5) = qc 4 25 /\ B nv_ks 2 3 (qc 9 5) = qc 3 4 /\
  B nv_ks 2 4 (qc 9 5) = qc 9 100 /\
  den (nth 2 nv_basis dflt_spline) 2 (qc 9 5) = qc 4 25.
Proof.
  assert (H : forall i, (i < 6)%nat ->
            den (nth i nv_basis dflt_spline) 2 (qc 9 5) = B nv_ks 2 i (qc 9 5)).
  { intros i Hi.
    apply (C01_is_cox_de_boor Qc QcOps Qc_laws nv_ks 2 nv_basis i 2 (qc 9 5)
             nv_ks_nondecreasing nv_ks_two_distinct nv_ks_len);
      [vm_compute; lia | exact nv_basis_eq | exact Hi | vm_compute; lia | vmr | vmr]. }
  split; [apply H; lia|]. split; [apply H; lia|]. split; [apply H; lia|].
  repeat split; qc.
Qed.

Example NV_C01_eval_interior :
  spl_eval (nth 3 nv_basis dflt_spline) (qc 9 5) = Ok (B nv_ks 2 3 (qc 9 5)) /\
  spl_eval (nth 3 nv_basis dflt_spline) (qc 9 5) = Ok (qc 3 4).
Proof.
  split.
  - apply (C01_eval_interior Qc QcOps Qc_laws nv_ks 2 nv_basis 3 2 (qc 9 5)
             nv_ks_nondecreasing nv_ks_two_distinct nv_ks_len);
      [vm_compute; lia | exact nv_basis_eq | vm_compute; lia | vm_compute; lia | vmr | vmr].
  - okqc.
Qed.

Example NV_C01_partition_of_unity :
  nsum 6 (fun i => B nv_ks 2 i (qc 9 5)) = f1 /\
  (qc 4 25 + qc 3 4 + qc 9 100)%F = f1 /\
  fleb f0 (B nv_ks 2 3 (qc 9 5)) = true /\ B nv_ks 2 0 (qc 9 5) = f0.
Proof.
  split; [|split; [qc|split]].
  - apply (C01_partition_of_unity Qc QcOps Qc_laws nv_ks 2 (qc 9 5) nv_ks_nondecreasing);
      [vm_compute; lia | vmr | vmr].
  - apply (C01_nonnegative Qc QcOps Qc_laws nv_ks 2 3 (qc 9 5) nv_ks_nondecreasing).
    vm_compute; lia.
  - apply (C01_local_support Qc QcOps Qc_laws nv_ks 2 0 (qc 9 5) nv_ks_nondecreasing);
      [vm_compute; lia | right; vmr].
Qed.

(* at the double knot 3/2 (grid point 2, between the intervals 1 and 2) a
   quadratic B-spline is continuous; at the simple knot 2 (between the intervals
   2 and 3) its first derivative is continuous as well; the first derivative
   does jump at the double knot *)
Example NV_C01_smooth_across_knots :
  jump_free (nth 2 nv_basis dflt_spline) 1 0 /\
  jump_free (nth 3 nv_basis dflt_spline) 2 1 /\
  jump_freeb (nth 2 nv_basis dflt_spline) 1 1 = false.
Proof.
  split; [|split; [|vmr]].
  - apply (C01_smooth_across_knots Qc QcOps Qc_laws nv_ks 2 nv_basis 2 1 0
             nv_ks_nondecreasing nv_ks_two_distinct nv_ks_len);
      [vm_compute; lia | exact nv_basis_eq | vm_compute; lia | vm_compute; lia | vm_compute; lia].
  - apply (C01_smooth_across_knots Qc QcOps Qc_laws nv_ks 2 nv_basis 3 2 1
             nv_ks_nondecreasing nv_ks_two_distinct nv_ks_len);
      [vm_compute; lia | exact nv_basis_eq | vm_compute; lia | vm_compute; lia | vm_compute; lia].
Qed.

(* the second constructor: the supplied grid must be the grid of the knots *)
Example NV_C01_supplied_grid :
  (do gn <- gen_ctor2 nv_ks g6; generate gn 2) = Ok nv_basis /\
  (do gn <- gen_ctor2 nv_ks h6; generate gn 2) = Throw INCONSISTENT_DATA.
Proof.
  split.
  - rewrite (C01_supplied_grid_route Qc QcOps Qc_laws nv_ks 2 g6 nv_ks_nondecreasing
               nv_ks_two_distinct nv_ks_len (eq_sym nv_ks_grid)).
    exact nv_basis_eq.
  - apply (C01_supplied_grid_mismatch Qc QcOps Qc_laws nv_ks 2 h6 nv_ks_nondecreasing
             nv_ks_two_distinct nv_ks_len).
    rewrite nv_ks_grid. exact h6_neq.
Qed.

(* ====================================================================== *)
(* C02                                                                     *)
(* ====================================================================== *)

(* replace the variable r of a hypothesis [m = Ok r] (m closed) by the value
   the model computes *)
Ltac subst_ok H :=
  match type of H with
  | ?m = Ok ?r =>
      let v := eval vm_compute in m in
      match v with
      | Ok ?r0 =>
          let E := fresh "E" in
          assert (E : r = r0) by (apply (ok_inj m); [exact H | vm_compute; reflexivity]);
          subst r
      end
  end.

(* the coefficients of a spline as plain fractions *)
Definition coefsQ (s : spline Qc) : list (list Q) := map (map this) (scoefs s).

(* sa at 9/5 (inside interval 2), at the interior grid point 3/2 (the LEFT piece
   decides: 3/4, the right piece would give 23/48) and at its first point 1/2 *)
Example NV_C02_inside :
  spl_eval sa (qc 9 5) = Ok (den sa 2 (qc 9 5)) /\ den sa 2 (qc 9 5) = qc 599 1200 /\
  spl_eval sa (qc 3 2) = Ok (den sa 1 (qc 3 2)) /\ den sa 1 (qc 3 2) = qc 3 4 /\
  den sa 2 (qc 3 2) = qc 23 48 /\
  spl_eval sa (qc 1 2) = Ok (den sa 1 (qc 1 2)) /\ den sa 1 (qc 1 2) = qc 11 4 /\
  spl_eval sa (qc 9 5) = Ok (qc 599 1200).
Proof.
  split; [|split; [qc|split; [|split; [qc|split; [qc|split; [|split; [qc|okqc]]]]]]].
  - apply (C02_inside Qc QcOps Qc_laws sa (qc 9 5) 2 sa_inv); [split; nfact|].
    left. split; vmr.
  - apply (C02_inside Qc QcOps Qc_laws sa (qc 3 2) 1 sa_inv); [split; nfact|].
    left. split; vmr.
  - apply (C02_inside Qc QcOps Qc_laws sa (qc 1 2) 1 sa_inv); [split; nfact|].
    right. split; [reflexivity | qc].
Qed.

Example NV_C02_outside :
  spl_eval sa (qc 1 4) = Ok f0 /\ spl_eval sa (qc 3 1) = Ok f0 /\
  spl_eval sz (qc 1 1) = Ok f0 /\ den sa 3 (qc 3 1) = f0.
Proof.
  split; [|split; [|split]].
  - apply (C02_outside Qc QcOps Qc_laws sa (qc 1 4) sa_inv); [nfact | left; vmr].
  - apply (C02_outside Qc QcOps Qc_laws sa (qc 3 1) sa_inv); [nfact | right; vmr].
  - apply (C02_no_interval Qc QcOps sz (qc 1 1) sz_inv). nfact.
  - apply (C02_den_outside Qc QcOps sa 3 (qc 3 1)). intros [_ H]. revert H. nfact.
Qed.

Example NV_C02_front_back :
  spl_front sa = Ok (qc 1 2) /\ spl_back sa = Ok (qc 2 1) /\
  spl_front sz = Throw INVALID_ACCESS /\ (exists v, spl_eval sw (qc 17 5) = Ok v).
Proof.
  split; [|split; [|split]].
  - rewrite (C02_front Qc QcOps sa sa_inv). vmr.
  - rewrite (C02_back Qc QcOps sa sa_inv). vmr.
  - rewrite (C02_front Qc QcOps sz sz_inv). vmr.
  - exact (C02_total Qc QcOps Qc_laws sw (qc 17 5) sw_inv).
Qed.

Example NV_C02_lower_bound_contract :
  lower_bound g6 (qc 9 5) = 3%nat /\
  (forall i a, (i < 3)%nat -> nth_error g6 i = Some a -> fltb a (qc 9 5) = true) /\
  (forall i a, (3 <= i)%nat -> nth_error g6 i = Some a -> fltb a (qc 9 5) = false).
Proof.
  destruct (C02_lower_bound_contract Qc QcOps Qc_laws g6 (qc 9 5) (proj2 (proj2 g6_inv)))
    as (H1 & H2 & _).
  split; [vmr|]. split; [exact H1 | exact H2].
Qed.

(* ====================================================================== *)
(* C03                                                                     *)
(* ====================================================================== *)

(* partially overlapping windows: the sum lives on the hull 1..5, has order 2,
   and is the pointwise sum on the common interval 2, sb alone on interval 3 *)
Example NV_C03_add :
  exists u r, calc_union (ssup sa) (ssup sb) = Ok u /\ spl_add sa sb = Ok r /\ SplInv r /\
    u = win 1 6 /\ ssup r = win 1 6 /\ sord r = 2%nat /\
    coefsQ r = [[1; -2; 3]; [5 # 2; 1 # 3; -1 # 3]; [-1; 5 # 2; 0]; [3 # 4; -2; 0]]%Q /\
    den r 2 (qc 9 5) = (den sa 2 (qc 9 5) + den sb 2 (qc 9 5))%F /\
    den sa 2 (qc 9 5) = qc 599 1200 /\ den sb 2 (qc 9 5) = qc 121 60 /\
    den r 2 (qc 9 5) = qc 3019 1200 /\
    den r 3 (qc 3 1) = (f0 + den sb 3 (qc 3 1))%F /\ den r 0 (qc 1 4) = (f0 + f0)%F.
Proof.
  destruct (C03_add Qc QcOps Qc_laws sa sb sa_inv sb_inv eq_refl)
    as (u & r & Hu & Hr & Hi & Hs & Ho & Hd).
  exists u, r. split; [exact Hu|]. split; [exact Hr|]. split; [exact Hi|].
  pose proof (Hd 2%N (qc 9 5)) as H2. pose proof (Hd 3%N (qc 3 1)) as H3.
  pose proof (Hd 0%N (qc 1 4)) as H0.
  rewrite (C02_den_outside Qc QcOps sa 3 (qc 3 1)) in H3 by (intros [_ H]; revert H; nfact).
  rewrite (C02_den_outside Qc QcOps sa 0 (qc 1 4)) in H0 by (intros [H _]; revert H; nfact).
  rewrite (C02_den_outside Qc QcOps sb 0 (qc 1 4)) in H0 by (intros [H _]; revert H; nfact).
  subst_ok Hu. subst_ok Hr.
  split; [vmr|]. split; [vmr|]. split; [vmr|]. split; [vmr|].
  split; [exact H2|]. split; [qc|]. split; [qc|]. split; [qc|]. split; [exact H3 | exact H0].
Qed.

(* windows separated by a gap: the hull is the whole grid and the intervals in
   between carry zero arrays *)
Example NV_C03_add_gap :
  exists r, spl_add sc sd = Ok r /\ SplInv r /\ ssup r = win 0 6 /\ sord r = 2%nat /\
    coefsQ r = [[1; 4; 0]; [0; 0; 0]; [0; 0; 0]; [0; 0; 0]; [-1; 2; 1 # 5]]%Q /\
    (forall x, den r 2 x = (f0 + f0)%F).
Proof.
  destruct (C03_add Qc QcOps Qc_laws sc sd sc_inv sd_inv eq_refl)
    as (u & r & Hu & Hr & Hi & Hs & Ho & Hd).
  exists r. split; [exact Hr|]. split; [exact Hi|].
  assert (H2 : forall x, den r 2 x = (f0 + f0)%F).
  { intros x. rewrite (Hd 2%N x).
    rewrite (C02_den_outside Qc QcOps sc 2 x) by (intros [_ H]; revert H; nfact).
    rewrite (C02_den_outside Qc QcOps sd 2 x) by (intros [H _]; revert H; nfact).
    reflexivity. }
  subst_ok Hr. split; [vmr|]. split; [vmr|]. split; [vmr | exact H2].
Qed.

Example NV_C03_sub :
  exists r, spl_sub sa sb = Ok r /\ SplInv r /\ ssup r = win 1 6 /\
    coefsQ r = [[1; -2; 3]; [-3 # 2; -1 # 3; -1 # 3]; [1; -5 # 2; 0]; [-3 # 4; 2; 0]]%Q /\
    den r 2 (qc 9 5) = (den sa 2 (qc 9 5) - den sb 2 (qc 9 5))%F /\
    den r 2 (qc 9 5) = qc (-607) 400.
Proof.
  destruct (C03_sub Qc QcOps Qc_laws sa sb sa_inv sb_inv eq_refl)
    as (u & r & Hu & Hr & Hi & Hs & Ho & Hd).
  exists r. split; [exact Hr|]. split; [exact Hi|]. pose proof (Hd 2%N (qc 9 5)) as H2.
  subst_ok Hr. split; [vmr|]. split; [vmr|]. split; [exact H2 | qc].
Qed.

(* the product lives on the common interval 2 and has order 2 + 1; windows
   that merely touch or are separated give the interval-free spline *)
Example NV_C03_mul :
  (exists u r, calc_inter (ssup sa) (ssup sb) = Ok u /\ spl_mul sa sb = Ok r /\ SplInv r /\
     u = win 2 4 /\ ssup r = win 2 4 /\ sord r = 3%nat /\
     coefsQ r = [[1; 1 # 6; -2 # 3; -1 # 9]]%Q /\
     den r 2 (qc 9 5) = (den sa 2 (qc 9 5) * den sb 2 (qc 9 5))%F /\
     den r 2 (qc 9 5) = qc 72479 72000) /\
  (exists r, spl_mul sa sc = Ok r /\ SplInv r /\ nintervals (ssup r) = 0%N /\ scoefs r = []) /\
  (exists r, spl_mul sc sd = Ok r /\ SplInv r /\ nintervals (ssup r) = 0%N /\
             forall k x, (den sc k x * den sd k x)%F = den r k x).
Proof.
  split; [|split].
  - destruct (C03_mul Qc QcOps Qc_laws sa sb sa_inv sb_inv eq_refl)
      as (u & r & Hu & Hr & Hi & Hs & Ho & Hd).
    exists u, r. split; [exact Hu|]. split; [exact Hr|]. split; [exact Hi|].
    pose proof (Hd 2%N (qc 9 5)) as H2. subst_ok Hu. subst_ok Hr.
    split; [vmr|]. split; [vmr|]. split; [vmr|]. split; [vmr|]. split; [exact H2 | qc].
  - destruct (C03_mul Qc QcOps Qc_laws sa sc sa_inv sc_inv eq_refl)
      as (u & r & Hu & Hr & Hi & Hs & Ho & Hd).
    exists r. split; [exact Hr|]. split; [exact Hi|]. subst_ok Hr. split; vmr.
  - destruct (C03_mul Qc QcOps Qc_laws sc sd sc_inv sd_inv eq_refl)
      as (u & r & Hu & Hr & Hi & Hs & Ho & Hd).
    exists r. split; [exact Hr|]. split; [exact Hi|].
    split; [subst_ok Hr; vmr | intros k x; symmetry; apply Hd].
Qed.

Example NV_C03_scale_div_neg :
  den (spl_scale sa (qc 2 3)) 2 (qc 9 5) = (den sa 2 (qc 9 5) * qc 2 3)%F /\
  den (spl_neg sa) 2 (qc 9 5) = (- den sa 2 (qc 9 5))%F /\
  SplInv (spl_scale sa (qc 2 3)) /\
  (exists r, spl_div sa (qc 2 3) = Ok r /\ SplInv r /\ ssup r = ssup sa /\
     coefsQ r = [[3 # 2; -3; 9 # 2]; [3 # 4; 0; -1 # 2]]%Q /\
     den r 2 (qc 9 5) = (den sa 2 (qc 9 5) / qc 2 3)%F /\ den r 2 (qc 9 5) = qc 599 800).
Proof.
  split; [apply (C03_scale Qc QcOps Qc_laws)|]. split; [apply (C03_neg Qc QcOps Qc_laws)|].
  split; [apply (C03_scale_inv Qc QcOps sa (qc 2 3) sa_inv)|].
  destruct (C03_div Qc QcOps Qc_laws sa (qc 2 3) sa_inv) as (r & Hr & Hi & Hs & Ho & Hd).
  { intros H. apply (f_equal this) in H. vm_compute in H. discriminate H. }
  exists r. split; [exact Hr|]. split; [exact Hi|]. split; [exact Hs|].
  pose proof (Hd 2%N (qc 9 5)) as H2. subst_ok Hr. split; [vmr|]. split; [exact H2 | qc].
Qed.

Example NV_C03_assign_up :
  exists r, spl_assign_up 3 sa = Ok r /\ SplInv r /\ sord r = 3%nat /\ ssup r = ssup sa /\
    coefsQ r = [[1; -2; 3; 0]; [1 # 2; 0; -1 # 3; 0]]%Q /\
    (forall k x, den r k x = den sa k x).
Proof.
  destruct (C03_assign_up Qc QcOps Qc_laws 3 sa sa_inv) as (r & Hr & Hi & Ho & Hs & Hd);
    [vm_compute; lia|].
  exists r. split; [exact Hr|]. split; [exact Hi|]. split; [exact Ho|]. split; [exact Hs|].
  split; [subst_ok Hr; vmr | exact Hd].
Qed.

(* sa += sb is allowed (order 1 into order 2); sb += sa is not a C++ program *)
Example NV_C03_iadd :
  (exists r, spl_iadd sa sb = Ok r /\ SplInv r /\ sord r = 2%nat /\ spl_iadd sa sb = spl_add sa sb /\
     forall k x, den r k x = (den sa k x + den sb k x)%F) /\
  (exists r, spl_isub sa sb = Ok r /\ spl_isub sa sb = spl_sub sa sb /\
     den r 2 (qc 9 5) = (den sa 2 (qc 9 5) - den sb 2 (qc 9 5))%F) /\
  spl_iadd sb sa = UB IllTyped.
Proof.
  split; [|split; [|vmr]].
  - destruct (C03_iadd Qc QcOps Qc_laws sa sb sa_inv sb_inv eq_refl) as (u & r & _ & Hr & Hi & _ & Ho & Hd);
      [vm_compute; lia|].
    exists r. split; [exact Hr|]. split; [exact Hi|]. split; [exact Ho|]. split; [|exact Hd].
    apply (C03_iadd_is_add Qc QcOps). vm_compute; lia.
  - destruct (C03_isub Qc QcOps Qc_laws sa sb sa_inv sb_inv eq_refl) as (u & r & _ & Hr & _ & _ & _ & Hd);
      [vm_compute; lia|].
    exists r. split; [exact Hr|]. split; [|apply Hd].
    apply (C03_isub_is_sub Qc QcOps). vm_compute; lia.
Qed.

(* 2 sb - se + sc/3: three splines of order 1 on nested / disjoint windows *)
Example NV_C03_lin_comb :
  exists r, lin_comb [qc 2 1; qc (-1) 1; qc 1 3] [sb; se; sc] = Ok r /\ SplInv r /\
    sord r = 1%nat /\ sgridp r = g6 /\ ssup r = win 0 6 /\
    coefsQ r = [[1 # 3; 4 # 3]; [0; 0]; [4; 2 # 3]; [-9; 11 # 2]; [3 # 2; -4]]%Q /\
    den r 3 (qc 3 1) = (qc 2 1 * den sb 3 (qc 3 1) + (qc (-1) 1 * den se 3 (qc 3 1)
                          + (qc 1 3 * den sc 3 (qc 3 1) + f0)))%F /\
    den r 3 (qc 3 1) = qc (-61) 8.
Proof.
  destruct (C03_lin_comb Qc QcOps Qc_laws [qc 2 1; qc (-1) 1; qc 1 3] sb [se; sc] eq_refl)
    as (r & Hr & Hi & Ho & Hg & Hm & Hd).
  { apply Forall_cons; [exact sb_inv|]. apply Forall_cons; [exact se_inv|].
    apply Forall_cons; [exact sc_inv | apply Forall_nil]. }
  { intros s [<- | [<- | [<- | []]]]; split; reflexivity. }
  exists r. split; [exact Hr|]. split; [exact Hi|]. split; [exact Ho|]. split; [exact Hg|].
  pose proof (Hd 3%N (qc 3 1)) as H3. cbn [map lincomb_val] in H3.
  subst_ok Hr. split; [vmr|]. split; [vmr|]. split; [exact H3 | qc].
Qed.

(* sa += sb; sa *= 3; sa -= sc; sa /= 1/2 *)
Example NV_C03_update_sequences :
  exists r, apply_upds sa [UAdd sb; UMul (qc 3 1); USub sc; UDiv (qc 1 2)] = Ok r /\ SplInv r /\
    sgridp r = g6 /\ sord r = 2%nat /\ ssup r = win 0 6 /\
    coefsQ r = [[-2; -8; 0]; [6; -12; 18]; [15; 2; -2]; [-6; 15; 0]; [9 # 2; -12; 0]]%Q /\
    (forall k x, den r k x = (((den sa k x + den sb k x) * qc 3 1 - den sc k x) / qc 1 2)%F) /\
    den r 2 (qc 9 5) = qc 3019 200.
Proof.
  destruct (C03_update_sequences Qc QcOps Qc_laws [UAdd sb; UMul (qc 3 1); USub sc; UDiv (qc 1 2)]
              sa sa_inv) as (r & Hr & Hi & Hg & Ho & Hd).
  { apply Forall_cons; [split; [exact sb_inv | split; [reflexivity | vm_compute; lia]]|].
    apply Forall_cons; [exact I|].
    apply Forall_cons; [split; [exact sc_inv | split; [reflexivity | vm_compute; lia]]|].
    apply Forall_cons; [|apply Forall_nil].
    intros H. apply (f_equal this) in H. vm_compute in H. discriminate H. }
  exists r. split; [exact Hr|]. split; [exact Hi|]. split; [exact Hg|]. split; [exact Ho|].
  assert (Hd' : forall k x, den r k x = (((den sa k x + den sb k x) * qc 3 1 - den sc k x) / qc 1 2)%F)
    by (intros k x; exact (Hd k x)).
  subst_ok Hr. split; [vmr|]. split; [vmr|]. split; [exact Hd' | qc].
Qed.

(* ====================================================================== *)
(* C04                                                                     *)
(* ====================================================================== *)

Lemma qc_neq (a b : Qc) : Qc_eqb a b = false -> a <> b.
Proof. intros H E. apply Qc_eqb_eq in E. congruence. Qed.
Ltac qcneq := apply qc_neq; vm_compute; reflexivity.

(* x d/dx + (3 sb) / (2/3): position, derivative, a spline factor, an integer
   scalar, a T scalar and a division *)
Definition e4 : expr Qc :=
  EAdd (EMul (EPos 1) (EDer 1)) (EDivS (ESMulL (ScI 3) (ESpl sb)) (ScF (qc 2 3))).

Lemma e4_factors : factors_ok e4 g6.
Proof. split; [split; exact I|]. split; [exact sb_inv | reflexivity]. Qed.
Lemma e4_scalars : scalars_ok e4.
Proof.
  split; [split; exact I|]. split; [exact I|]. split; [cbn [sval]; qcneq|].
  split; exact I.
Qed.

Example NV_C04_apply :
  exists r, apply (elab e4) sa = Ok r /\ SplInv r /\ ssup r = ssup sa /\ sord r = 3%nat /\
    coefsQ r = [[-2; 4; 6; 0]; [9 # 2; -5 # 12; -11 # 3; -1 # 2]]%Q /\
    (* on interval 2 (x = u + 7/4): x p'(x) + (9/2) sb(x) p(x) *)
    (forall u, peval (piece r 2) u = peval (dsem e4 g6 2 (piece sa 2)) u) /\
    peval (dsem e4 g6 2 (piece sa 2)) (qc 1 20)
    = (qc 9 5 * peval (pderiv (piece sa 2)) (qc 1 20)
       + qc 9 2 * (peval (piece sb 2) (qc 1 20) * peval (piece sa 2) (qc 1 20)))%F /\
    peval (piece r 2) (qc 1 20) = qc 71519 16000 /\
    (* on interval 1 sb is not supported: only x p'(x) remains (x = u + 1) *)
    peval (piece r 1) (qc 1 4) = (qc 5 4 * peval (pderiv (piece sa 1)) (qc 1 4))%F.
Proof.
  destruct (C04_apply Qc QcOps Qc_laws e4 sa sa_inv e4_factors e4_scalars)
    as (r & Hr & Hi & Hs & Ho & Hd).
  exists r. split; [exact Hr|]. split; [exact Hi|]. split; [exact Hs|]. split; [exact Ho|].
  assert (H2 : forall u, peval (piece r 2) u = peval (dsem e4 g6 2 (piece sa 2)) u)
    by (intros u; exact (Hd 2%N u)).
  subst_ok Hr. split; [vmr|]. split; [exact H2|]. split; [qc|]. split; qc.
Qed.

Example NV_C04_derivative_transform :
  transform (ODer 1) [qc 1 1; qc (-2) 1; qc 3 1] g6 2 = Ok (pderivn 1 [qc 1 1; qc (-2) 1; qc 3 1]) /\
  map this (pderivn 1 [qc 1 1; qc (-2) 1; qc 3 1]) = [-2; 6]%Q /\
  transform (ODer 3) [qc 1 1; qc (-2) 1; qc 3 1] g6 2 = Ok [f0] /\
  peval [f0] (qc 1 20) = peval (pderivn 3 [qc 1 1; qc (-2) 1; qc 3 1]) (qc 1 20) /\
  nth 1 (pderivn 1 [qc 1 1; qc (-2) 1; qc 3 1]) f0 = (faculty_ratio 2 1 * qc 3 1)%F.
Proof.
  assert (Hc : [qc 1 1; qc (-2) 1; qc 3 1] <> []) by discriminate.
  split; [exact (C04_derivative_transform Qc QcOps Qc_laws 1 _ g6 2 Hc)|]. split; [vmr|].
  split; [exact (C04_derivative_transform Qc QcOps Qc_laws 3 _ g6 2 Hc)|].
  split; [exact (C04_derivative_value Qc QcOps Qc_laws 3 _ (qc 1 20) Hc)|].
  exact (C04_derivative_coefficients Qc QcOps Qc_laws 1 _ 1).
Qed.

(* multiplication by x^2 on interval 2 (midpoint 7/4) *)
Example NV_C04_position_transform :
  transform (OPos 2) [qc 1 1; qc (-2) 1; qc 3 1] g6 2
  = Ok (pmul [qc 1 1; qc (-2) 1; qc 3 1] (expand_power 2 (mid g6 2))) /\
  map this (pmul [qc 1 1; qc (-2) 1; qc 3 1] (expand_power 2 (mid g6 2)))
  = [49 # 16; -21 # 8; 51 # 16; 17 # 2; 3]%Q /\
  peval (pmul [qc 1 1; qc (-2) 1; qc 3 1] (expand_power 2 (mid g6 2))) (qc 9 5 - mid g6 2)%F
  = (fpow (qc 9 5) 2 * peval [qc 1 1; qc (-2) 1; qc 3 1] (qc 9 5 - mid g6 2))%F /\
  peval (expand_power 2 (qc 7 4)) (qc 1 20) = fpow (qc 1 20 + qc 7 4)%F 2 /\
  @binomial Qc QcOps 5 3 = (binomial 4 2 + binomial 4 3)%F /\ @binomial Qc QcOps 5 3 = qc 10 1.
Proof.
  split; [apply (C04_position_transform Qc QcOps 2 _ g6 2); vmr|]. split; [vmr|].
  split; [apply (C04_position_value Qc QcOps Qc_laws)|].
  split; [apply (C04_binomial_expansion Qc QcOps Qc_laws)|].
  split; [exact (C04_binomial_pascal Qc QcOps Qc_laws 4 2) | qc].
Qed.

(* ====================================================================== *)
(* C05                                                                     *)
(* ====================================================================== *)

(* (2 - se d^2/dx^2) - (-(x^2 * (1/4) + 1/3)): both scalar kinds, a reciprocal
   integer, scalar +/- operator in both orders, unary minus *)
Definition e5 : expr Qc :=
  ESub (ESSub (ScI 2) (EMul (ESpl se) (EDer 2)))
       (ENeg (EAddS (ESMulR (EPos 2) (ScRecI 4)) (ScF (qc 1 3)))).
Definition c5 : list Qc := [qc 1 1; qc 2 1; qc (-1) 1; qc 1 2].
(* order 2 on the points 2..5 (intervals 2, 3, 4); se is supported on interval 3 *)
Definition sq : spline Qc :=
  mkSpl (win 2 6) 2 [[qc 1 1; qc (-1) 1; qc 2 1]; [qc 0 1; qc 3 1; qc (-1) 2]; [qc 2 1; qc 1 1; qc 1 1]].
Lemma sq_inv : SplInv sq. Proof. splinv. Qed.

Lemma e5_factors : factors_ok e5 g6.
Proof. split; [split; [split; [exact se_inv | reflexivity] | exact I] | exact I]. Qed.
Lemma e5_scalars : scalars_ok e5.
Proof.
  split; [split; [exact I | split; exact I]|].
  split; [exact I|]. split; [discriminate | exact I].
Qed.

Example NV_C05_expr_sound :
  exists t, transform (elab e5) c5 g6 3 = Ok t /\ length t = 6%nat /\
    map this t = [3499 # 192; -1169 # 96; 53 # 192; 475 # 384; 7 # 16; 1 # 8]%Q /\
    (forall u, peval t u = peval (dsem e5 g6 3 c5) u) /\
    (* the meaning, spelled out at u = 1/4, i.e. x = 3 (interval 3 has midpoint 11/4) *)
    peval (dsem e5 g6 3 c5) (qc 1 4)
    = ((qc 2 1 * peval c5 (qc 1 4)
        - peval (piece se 3) (qc 1 4) * peval (pderiv (pderiv c5)) (qc 1 4))
       + (qc 3 1 * qc 3 1 * qc 1 4 * peval c5 (qc 1 4) + qc 1 3 * peval c5 (qc 1 4)))%F.
Proof.
  destruct (C05_expr_sound Qc QcOps Qc_laws e5 c5 g6 3 g6_inv) as (t & Ht & Hl & Hd);
    [vmr | exact e5_factors | exact e5_scalars | discriminate|].
  exists t. split; [exact Ht|]. split; [exact Hl|].
  assert (Hd' : forall u, peval t u = peval (dsem e5 g6 3 c5) u) by exact Hd.
  subst_ok Ht. split; [vmr|]. split; [exact Hd' | qc].
Qed.

Example NV_C05_apply :
  exists r, apply (elab e5) sq = Ok r /\ SplInv r /\ ssup r = ssup sq /\ sord r = 4%nat /\
    nth 1 (coefsQ r) [] = [7; 779 # 64; 773 # 384; 1 # 16; -1 # 8]%Q /\
    (forall k u, peval (piece r k) u = peval (dsem e5 g6 k (piece sq k)) u) /\
    (* outside the window of sq the result denotes zero *)
    (forall u, peval (dsem e5 g6 0 (piece sq 0)) u = f0).
Proof.
  destruct (C05_apply Qc QcOps Qc_laws e5 sq sq_inv e5_factors e5_scalars)
    as (r & Hr & Hi & Hs & Ho & Hd).
  exists r. split; [exact Hr|]. split; [exact Hi|]. split; [exact Hs|]. split; [exact Ho|].
  assert (Hd' : forall k u, peval (piece r k) u = peval (dsem e5 g6 k (piece sq k)) u) by exact Hd.
  subst_ok Hr. split; [vmr|]. split; [exact Hd'|].
  intros u. change (piece sq 0) with (@nil Qc). apply (C05_zero_outside Qc QcOps Qc_laws).
Qed.

Example NV_C05_commutator_and_scalars :
  peval (dsem (ESub (EMul (EDer 1) (EPos 1)) (EMul (EPos 1) (EDer 1))) g6 3 c5) (qc 1 4)
  = peval c5 (qc 1 4) /\ peval c5 (qc 1 4) = qc 185 128 /\
  cast (recip (@ScI Qc 4)) = (f1 / sval (@ScI Qc 4))%F /\ cast (recip (@ScI Qc 4)) = qc 1 4 /\
  cast (recip (ScRecF (qc 2 3))) = qc 2 3.
Proof.
  split; [apply (C05_commutator Qc QcOps Qc_laws); discriminate|]. split; [qc|].
  split; [apply (C05_reciprocal Qc QcOps (ScI 4)); [exact I | cbn [sval]; qcneq]|].
  split; qc.
Qed.

(* a spline factor on another grid is refused *)
Example NV_C05_factor_on_other_grid : apply (OSpl sh) sa = Throw DIFFERING_GRIDS.
Proof.
  apply (C05_factor_on_other_grid Qc QcOps Qc_laws sh sa sa_inv sh_inv); [exact h6_neq | nfact].
Qed.

(* ====================================================================== *)
(* C06                                                                     *)
(* ====================================================================== *)

(* the form of the diffusion example: < d/dx . , -(1/2) sb d/dx . > *)
Definition e61 : expr Qc := EDer 1.
Definition e62 : expr Qc := EDivS (EMul (ESpl sb) (EDer 1)) (ScI (-2)).

Lemma e61_factors : factors_ok e61 g6. Proof. exact I. Qed.
Lemma e61_scalars : scalars_ok e61. Proof. exact I. Qed.
Lemma e62_factors : factors_ok e62 g6.
Proof. split; [split; [exact sb_inv | reflexivity] | exact I]. Qed.
Lemma e62_scalars : scalars_ok e62.
Proof. split; [exact I|]. split; [cbn [sval]; qcneq | split; exact I]. Qed.

(* sq (points 2..5) against sw (whole grid): three common intervals *)
Example NV_C06_exact :
  calc_inter (ssup sq) (ssup sw) = Ok (win 2 6) /\ interval_list (win 2 6) = [2; 3; 4]%N /\
  bilinear (elab e61) (elab e62) sq sw
  = Ok (fsum (fun k => defint (pmul (dsem e61 g6 k (piece sq k)) (dsem e62 g6 k (piece sw k)))
                              (halfwidth g6 k)) (interval_list (win 2 6))) /\
  bilinear (elab e61) (elab e62) sq sw = Ok (qc 3271 1536) /\
  (exists v, bilinear (elab e61) (elab e62) sq sw = Ok v).
Proof.
  assert (Hu : calc_inter (ssup sq) (ssup sw) = Ok (win 2 6)) by vmr.
  split; [exact Hu|]. split; [vmr|]. split; [|split; [okqc|]].
  - exact (C06_exact Qc QcOps Qc_laws e61 e62 sq sw (win 2 6) sq_inv sw_inv eq_refl
             e61_factors e62_factors e61_scalars e62_scalars Hu).
  - exact (C06_total Qc QcOps Qc_laws e61 e62 sq sw sq_inv sw_inv eq_refl
             e61_factors e62_factors e61_scalars e62_scalars).
Qed.

Example NV_C06_swap :
  bilinear (elab e61) (elab e62) sq sw = bilinear (elab e62) (elab e61) sw sq /\
  bilinear (elab e62) (elab e61) sw sq = Ok (qc 3271 1536).
Proof.
  split; [|okqc].
  exact (C06_swap Qc QcOps Qc_laws e61 e62 sq sw sq_inv sw_inv eq_refl
           e61_factors e62_factors e61_scalars e62_scalars).
Qed.

Example NV_C06_add_l :
  exists r v1 v2 v, spl_add sa sq = Ok r /\
    bilinear (elab e61) (elab e62) sa sw = Ok v1 /\ bilinear (elab e61) (elab e62) sq sw = Ok v2 /\
    bilinear (elab e61) (elab e62) r sw = Ok v /\ v = (v1 + v2)%F /\
    v1 = qc 1 288 /\ v2 = qc 3271 1536 /\ v = qc 9829 4608.
Proof.
  destruct (C03_add Qc QcOps Qc_laws sa sq sa_inv sq_inv eq_refl) as (u & r & _ & Hr & _).
  destruct (C06_add_l Qc QcOps Qc_laws e61 e62 sa sq sw r sa_inv sq_inv sw_inv eq_refl eq_refl
              e61_factors e62_factors e61_scalars e62_scalars Hr) as (v1 & v2 & v & H1 & H2 & H3 & H4).
  exists r, v1, v2, v. split; [exact Hr|]. split; [exact H1|]. split; [exact H2|].
  split; [exact H3|]. split; [exact H4|].
  assert (E1 : bilinear (elab e61) (elab e62) sa sw = Ok (qc 1 288)) by okqc.
  assert (E2 : bilinear (elab e61) (elab e62) sq sw = Ok (qc 3271 1536)) by okqc.
  pose proof (ok_inj _ _ _ H1 E1) as ->. pose proof (ok_inj _ _ _ H2 E2) as ->.
  split; [reflexivity|]. split; [reflexivity|]. rewrite H4. qc.
Qed.

Example NV_C06_scale_l :
  exists v v', bilinear (elab e61) (elab e62) sq sw = Ok v /\
    bilinear (elab e61) (elab e62) (spl_scale_l (qc 3 7) sq) sw = Ok v' /\
    v' = (qc 3 7 * v)%F /\ v' = qc 3271 3584.
Proof.
  destruct (C06_scale_l Qc QcOps Qc_laws e61 e62 sq sw (qc 3 7) sq_inv sw_inv eq_refl
              e61_factors e62_factors e61_scalars e62_scalars) as (v & v' & H1 & H2 & H3).
  exists v, v'. split; [exact H1|]. split; [exact H2|]. split; [exact H3|].
  assert (E : bilinear (elab e61) (elab e62) (spl_scale_l (qc 3 7) sq) sw = Ok (qc 3271 3584)) by okqc.
  exact (ok_inj _ _ _ H2 E).
Qed.

(* the plain scalar product on the single common interval of sa and sb; windows
   that touch (sa, sc: the intersection is the one-point window 1..1) or are
   separated (sc, sd: the empty window) give zero; another grid is refused *)
Example NV_C06_scalar_product :
  bilinear OId OId sa sb
  = Ok (fsum (fun k => defint (pmul (piece sa k) (piece sb k)) (halfwidth g6 k)) [2%N]) /\
  bilinear OId OId sa sb = Ok (qc 71 144) /\
  bilinear (elab e61) (elab e62) sa sc = Ok f0 /\ bilinear (elab e61) (elab e62) sc sd = Ok f0 /\
  bilinear (elab e61) (elab e62) sa sh = Throw DIFFERING_GRIDS.
Proof.
  split; [|split; [okqc|split; [|split]]].
  - exact (C06_scalar_product Qc QcOps Qc_laws sa sb (win 2 4) sa_inv sb_inv eq_refl ltac:(vmr)).
  - apply (C06_no_common_interval Qc QcOps Qc_laws e61 e62 sa sc (win 1 2) sa_inv sc_inv eq_refl);
      vmr.
  - apply (C06_no_common_interval Qc QcOps Qc_laws e61 e62 sc sd (win 0 0) sc_inv sd_inv eq_refl);
      vmr.
  - apply (C06_differing Qc QcOps Qc_laws). intros H. symmetry in H. exact (h6_neq H).
Qed.

(* the interval kernel: int_{-1/2}^{1/2} (1 + 2u + 3u^2) du = 5/4 *)
Example NV_C06_kernel :
  bi_kernel [qc 1 1; qc 2 1] [qc 1 1; qc 0 1; qc 3 1; qc 0 1] (qc 1 2)
  = Ok (defint (pmul [qc 1 1; qc 2 1] [qc 1 1; qc 0 1; qc 3 1; qc 0 1]) (qc 1 2)) /\
  (exists P, pderiv P = [qc 1 1; qc 2 1; qc 3 1] /\
             defint [qc 1 1; qc 2 1; qc 3 1] (qc 1 2) = (peval P (qc 1 2) - peval P (- qc 1 2))%F) /\
  defint [qc 1 1; qc 2 1; qc 3 1] (qc 1 2) = qc 5 4.
Proof.
  split; [apply (C06_kernel Qc QcOps Qc_laws); discriminate|].
  split; [apply (C06_defint_is_integral Qc QcOps Qc_laws) | qc].
Qed.

(* ====================================================================== *)
(* C07                                                                     *)
(* ====================================================================== *)

Example NV_C07_exact :
  linear (elab e4) sa
  = Ok (fsum (fun k => defint (dsem e4 g6 k (piece sa k)) (halfwidth g6 k)) (interval_list (ssup sa))) /\
  interval_list (ssup sa) = [1; 2]%N /\ linear (elab e4) sa = Ok (qc 205 288) /\
  (* the integral of sw over the whole grid, interval by interval *)
  linear (elab EId) sw = Ok (qc 5 12) /\
  map (fun k => this (defint (piece sw k) (halfwidth g6 k))) [0; 1; 2; 3; 4]%N
  = [1 # 2; 2; 1 # 6; -3; 3 # 4]%Q /\
  linear (elab e4) sz = Ok f0.
Proof.
  split; [exact (C07_exact Qc QcOps Qc_laws e4 sa sa_inv e4_factors e4_scalars)|].
  split; [vmr|]. split; [okqc|]. split; [okqc|]. split; [vmr|].
  apply (C07_no_interval Qc QcOps e4 sz sz_inv). vmr.
Qed.

Example NV_C07_add_scale :
  (exists r v1 v2 v, spl_add sa sq = Ok r /\ linear (elab (EPos 1)) sa = Ok v1 /\
     linear (elab (EPos 1)) sq = Ok v2 /\ linear (elab (EPos 1)) r = Ok v /\ v = (v1 + v2)%F /\
     v1 = qc 1745 1152 /\ v2 = qc 11969 768 /\ v = qc 39397 2304) /\
  (exists v v', linear (elab e4) sa = Ok v /\ linear (elab e4) (spl_scale_l (qc 3 7) sa) = Ok v' /\
     v' = (qc 3 7 * v)%F /\ v = qc 205 288).
Proof.
  split.
  - destruct (C03_add Qc QcOps Qc_laws sa sq sa_inv sq_inv eq_refl) as (u & r & _ & Hr & _).
    destruct (C07_add Qc QcOps Qc_laws (EPos 1) sa sq r sa_inv sq_inv eq_refl I I Hr)
      as (v1 & v2 & v & H1 & H2 & H3 & H4).
    exists r, v1, v2, v. split; [exact Hr|]. split; [exact H1|]. split; [exact H2|].
    split; [exact H3|]. split; [exact H4|].
    assert (E1 : linear (elab (EPos 1)) sa = Ok (qc 1745 1152)) by okqc.
    assert (E2 : linear (elab (EPos 1)) sq = Ok (qc 11969 768)) by okqc.
    pose proof (ok_inj _ _ _ H1 E1) as ->. pose proof (ok_inj _ _ _ H2 E2) as ->.
    split; [reflexivity|]. split; [reflexivity|]. rewrite H4. qc.
  - destruct (C07_scale Qc QcOps Qc_laws e4 sa (qc 3 7) sa_inv e4_factors e4_scalars)
      as (v & v' & H1 & H2 & H3).
    exists v, v'. split; [exact H1|]. split; [exact H2|]. split; [exact H3|].
    assert (E : linear (elab e4) sa = Ok (qc 205 288)) by okqc.
    exact (ok_inj _ _ _ H1 E).
Qed.

Example NV_C07_bilinear_is_linear_of_product :
  exists ra rb p v, apply (elab e61) sq = Ok ra /\ apply (elab e62) sw = Ok rb /\
    spl_mul ra rb = Ok p /\ bilinear (elab e61) (elab e62) sq sw = Ok v /\ linear OId p = Ok v /\
    v = qc 3271 1536 /\ ssup p = win 2 6 /\ sord p = 2%nat.
Proof.
  destruct (C07_bilinear_is_linear_of_product Qc QcOps Qc_laws e61 e62 sq sw sq_inv sw_inv eq_refl
              e61_factors e62_factors e61_scalars e62_scalars)
    as (ra & rb & p & v & H1 & H2 & H3 & H4 & H5).
  exists ra, rb, p, v. split; [exact H1|]. split; [exact H2|]. split; [exact H3|].
  split; [exact H4|]. split; [exact H5|].
  assert (E : bilinear (elab e61) (elab e62) sq sw = Ok (qc 3271 1536)) by okqc.
  split; [exact (ok_inj _ _ _ H4 E)|].
  subst_ok H1. subst_ok H2. subst_ok H3. split; vmr.
Qed.

Example NV_C07_kernel :
  lin_kernel [qc 1 1; qc 2 1; qc 3 1] (qc 1 2) = Ok (defint [qc 1 1; qc 2 1; qc 3 1] (qc 1 2)) /\
  lin_kernel [qc 1 1; qc 2 1; qc 3 1] (qc 1 2) = Ok (qc 5 4).
Proof. split; [apply (C07_kernel Qc QcOps Qc_laws); discriminate | okqc]. Qed.

(* ====================================================================== *)
(* C08                                                                     *)
(* ====================================================================== *)

Lemma sh_grid_neq (s : spline Qc) : sgridp s = g6 -> sgridp s <> sgridp sh.
Proof. intros -> H. symmetry in H. exact (h6_neq H). Qed.

(* sh lives on the grid h6, which differs from g6 in its last point only *)
Example NV_C08_functions :
  spl_add sb sh = Throw DIFFERING_GRIDS /\ spl_sub sb sh = Throw DIFFERING_GRIDS /\
  spl_mul sb sh = Throw DIFFERING_GRIDS /\ spl_iadd sb sh = Throw DIFFERING_GRIDS /\
  lin_comb [qc 1 1; qc 2 1; qc 3 1] [sb; sh; se] = Throw DIFFERING_GRIDS /\
  bilinear (elab e61) (elab e62) sb sh = Throw DIFFERING_GRIDS /\
  integrate (fun _ f a b => ((b - a) * f a)%F) 2 (fun x => x) sb sh = Throw DIFFERING_GRIDS /\
  apply (OSpl sh) sb = Throw DIFFERING_GRIDS /\
  calc_union (ssup sb) (ssup sh) = Throw DIFFERING_GRIDS /\
  calc_inter (ssup sb) (ssup sh) = Throw DIFFERING_GRIDS /\
  gen_ctor2 nv_ks h6 = Throw INCONSISTENT_DATA.
Proof.
  pose proof (sh_grid_neq sb eq_refl) as Hn.
  split; [exact (C08_add Qc QcOps Qc_laws sb sh Hn)|].
  split; [exact (C08_sub Qc QcOps Qc_laws sb sh Hn)|].
  split; [exact (C08_mul Qc QcOps Qc_laws sb sh Hn)|].
  split; [apply (C08_iadd Qc QcOps Qc_laws sb sh); [vm_compute; lia | exact Hn]|].
  split; [apply (C08_lin_comb Qc QcOps Qc_laws [qc 1 1; qc 2 1; qc 3 1] sb [sh; se] eq_refl);
          exists sh; split; [right; left; reflexivity | exact h6_neq]|].
  split; [exact (C08_bilinear Qc QcOps Qc_laws _ _ sb sh Hn)|].
  split; [exact (C08_integrate Qc QcOps Qc_laws _ 2 _ sb sh Hn)|].
  split; [apply (C08_spline_factor Qc QcOps Qc_laws sh sb sb_inv sh_inv); [exact h6_neq | nfact]|].
  split; [exact (C08_union Qc QcOps Qc_laws (ssup sb) (ssup sh) Hn)|].
  split; [exact (C08_intersection Qc QcOps Qc_laws (ssup sb) (ssup sh) Hn)|].
  apply (C08_generator Qc QcOps Qc_laws nv_ks h6 nv_ks_nondecreasing nv_ks_two_distinct nv_ks_len).
  rewrite nv_ks_grid. exact h6_neq.
Qed.

(* the same at the level of the pool: two grids, a window and a spline on each;
   the refused calls leave the state as it was *)
Definition st8 : state Qc :=
  fst (run gauss_solve []
         [GridNew 0 g6; GridNew 1 h6; SupNew 2 0 2 6; SupNew 3 1 2 5;
          SplNew 4 1 2 (scoefs sb); SplNew 5 1 3 (scoefs sh)]).

Example NV_C08_steps :
  lookup st8 4 = Some (VSpl sb) /\ lookup st8 5 = Some (VSpl sh) /\
  step gauss_solve st8 (SplAdd 9 4 5) = (st8, Throw DIFFERING_GRIDS) /\
  step gauss_solve st8 (SplMul 9 4 5) = (st8, Throw DIFFERING_GRIDS) /\
  step gauss_solve st8 (SplISub 4 5) = (st8, Throw DIFFERING_GRIDS) /\
  step gauss_solve st8 (SupUnion 9 2 3) = (st8, Throw DIFFERING_GRIDS) /\
  step gauss_solve st8 (Bilin (PDer 1) (PSpl 4) 4 5) = (st8, Throw DIFFERING_GRIDS) /\
  step gauss_solve st8 (Gen2 10 2 nv_ks 1) = (st8, Throw INCONSISTENT_DATA) /\
  (* equal grids: the same call succeeds *)
  snd (step gauss_solve st8 (SplAdd 9 4 4)) = Ok [TT Tvoid].
Proof.
  assert (H4 : lookup st8 4 = Some (VSpl sb)) by vmr.
  assert (H5 : lookup st8 5 = Some (VSpl sh)) by vmr.
  pose proof (sh_grid_neq sb eq_refl) as Hn.
  split; [exact H4|]. split; [exact H5|].
  split; [exact (C08_step_add Qc QcOps Qc_laws gauss_solve st8 9 4 5 sb sh H4 H5 Hn)|].
  split; [exact (C08_step_mul Qc QcOps Qc_laws gauss_solve st8 9 4 5 sb sh H4 H5 Hn)|].
  split; [apply (C08_step_isub Qc QcOps Qc_laws gauss_solve st8 4 5 sb sh H4 H5);
          [vm_compute; lia | exact Hn]|].
  split; [apply (C08_step_union Qc QcOps Qc_laws gauss_solve st8 9 2 3 (ssup sb) (ssup sh));
          [vmr | vmr | exact Hn]|].
  split; [apply (C08_step_bilin Qc QcOps Qc_laws gauss_solve st8 (PDer 1) (PSpl 4) 4 5 sb sh);
          [split; [exact I | reflexivity] | split; [exists sb; exact H4 | reflexivity]
          | exact H4 | exact H5 | exact Hn]|].
  split; [apply (C08_step_gen2 Qc QcOps Qc_laws gauss_solve st8 10 2 nv_ks 1 h6);
          [vmr | exact nv_ks_nondecreasing | exact nv_ks_two_distinct | exact nv_ks_len
          | rewrite nv_ks_grid; exact h6_neq]|].
  vmr.
Qed.

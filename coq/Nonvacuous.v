(* Nonvacuous.v — the premises of the property theorems are satisfiable.

   Every theorem of Properties_C01 ... Properties_C20 is an implication.  This
   file instantiates the central theorem(s) of every property file on concrete,
   non-degenerate data over the exact rationals [Qc] (a non-uniform six-point
   grid, splines of order 1 and 2 on nested / overlapping / touching / separated
   windows with non-symmetric coefficients, mixed operator expressions, a knot
   vector with interior and boundary repeats, cubic interpolation on four nodes
   with non-default boundary conditions, pool histories with a move, a refused
   call and in-place updates), proves the premises for these data, applies the
   theorem, and shows by computation what the conclusion says there.

   Convention: [NV_Cxx_name] instantiates [Cxx_name] (several theorems when the
   name says so).  Equalities between rationals are decided by [qc]
   (boolean comparison, computed), because two equal [Qc] values may carry
   syntactically different canonicity proofs.  Every example is closed under
   the global context (see the Print Assumptions at the end), except the four
   of the last section, which instantiate the real-number theorems (C16,
   C04_R, C06_R, C07_R) and inherit the axioms of the real numbers.
   Not witnessed: the exactness hypothesis of C17_spec (see the comment at
   C17). *)
From Coq Require Import List NArith ZArith Arith Bool QArith Qcanon Lia.
From BSpl Require Import Scalar Outcome Support Poly Spline Ops Forms Generator Interp Spec Spec_Ops Spec_Gen Proofs_Support Proofs_Scalar Proofs_Poly Proofs_Binom Proofs_Eval Proofs_Outcome Proofs_Spline Proofs_Forms Proofs_Ops Proofs_Forms2 Proofs_Interp Proofs_Pred Proofs_Gen Instances Instances_Ext Proofs_Valid Solver Pool Quad Proofs_Pool Proofs_Quad Proofs_Sites Proofs_Threads Proofs_Updates Examples Proofs_Examples Proofs_SupportGen Proofs_Smooth.
From BSpl Require Import Properties_C01 Properties_C02 Properties_C03 Properties_C04 Properties_C05 Properties_C06 Properties_C07 Properties_C08 Properties_C09 Properties_C10 Properties_C11 Properties_C12 Properties_C13 Properties_C14 Properties_C15 Properties_C17 Properties_C18 Properties_C19 Properties_C20.
Import ListNotations.

(* ====================================================================== *)
(* 0. Helpers and the common data                                          *)
(* ====================================================================== *)

Lemma qc_eq (a b : Qc) : Qc_eqb a b = true -> a = b.
Proof. apply Qc_eqb_eq. Qed.

(* decide an equation between two closed rationals *)
Ltac qc := apply qc_eq; vm_compute; reflexivity.
(* ... a closed call returns [Ok] of a given rational *)
Lemma ok_qc_eq (m : outcome Qc) (b : Qc) :
  match m with Ok a => Qc_eqb a b | _ => false end = true -> m = Ok b.
Proof. destruct m as [a| |]; try discriminate. intros H. apply qc_eq in H. congruence. Qed.
Ltac okqc := apply ok_qc_eq; vm_compute; reflexivity.
(* a closed comparison / a closed structural equation *)
Ltac vmr := vm_compute; reflexivity.
(* closed facts about N: a < b, a <= b, a <> b, ... *)
Ltac nfact := vm_compute; first [reflexivity | discriminate | congruence].

Lemma increasing_of_steadily (l : list Qc) : steadily l = true -> increasing l.
Proof. apply (proj1 (steadily_increasing l)). Qed.

Lemma nondecreasing_of_unique (ks : list Qc) : steadily (unique ks) = true -> nondecreasing ks.
Proof. intros H. apply (unique_increasing_inv (L := Qc_laws)), increasing_of_steadily, H. Qed.

Lemma GInv_of_steadily (g : list Qc) :
  (2 <=? nlen g)%N = true -> (nlen g <? 2 ^ 63)%N = true -> steadily g = true -> GInv g.
Proof.
  intros H1 H2 H3. split; [apply N.leb_le, H1|]. split; [apply N.ltb_lt, H2|].
  apply increasing_of_steadily, H3.
Qed.

Lemma SInv_of_valid (s : support Qc) :
  (nlen (sgrid s) <? 2 ^ 63)%N = true -> sup_valid s = true -> SInv s.
Proof. intros H1 H2. split; [apply N.ltb_lt, H1 | apply sup_valid_iff, H2]. Qed.

Ltac ginv := apply GInv_of_steadily; vmr.
Ltac sinv := apply SInv_of_valid; vmr.

(* [SplInv s] for closed [s] *)
Ltac splinv :=
  split; [sinv | split; [ginv | split; [vmr | repeat constructor]]].

(* r = r' from two evaluations of the same call *)
Lemma ok_inj {A} (m : outcome A) (a b : A) : m = Ok a -> m = Ok b -> a = b.
Proof. intros H1 H2. rewrite H1 in H2. injection H2 as ->. reflexivity. Qed.

(* the grid 0, 1/2, 3/2, 2, 7/2, 5: five intervals of widths 1/2, 1, 1/2, 3/2, 3/2 *)
Definition g6 : list Qc := [qc 0 1; qc 1 2; qc 3 2; qc 2 1; qc 7 2; qc 5 1].
Definition win (a b : N) : support Qc := mkSup g6 a b.

(* sa: order 2 on the points 1..3 (intervals 1, 2)
   sb: order 1 on the points 2..5 (intervals 2, 3, 4) — overlaps sa on interval 2
   sc: order 1 on the points 0..1 (interval 0)        — touches sa at the point 1/2
   sd: order 2 on the points 4..5 (interval 4)        — separated from sa and sc by a gap
   se: order 1 on the points 3..4 (interval 3)        — nested in sb
   sw: order 1 on the whole grid
   sz: no interval at all (empty window) *)
Definition sa : spline Qc :=
  mkSpl (win 1 4) 2 [[qc 1 1; qc (-2) 1; qc 3 1]; [qc 1 2; qc 0 1; qc (-1) 3]].
Definition sb : spline Qc :=
  mkSpl (win 2 6) 1 [[qc 2 1; qc 1 3]; [qc (-1) 1; qc 5 2]; [qc 3 4; qc (-2) 1]].
Definition sc : spline Qc := mkSpl (win 0 2) 1 [[qc 1 1; qc 4 1]].
Definition sd : spline Qc := mkSpl (win 4 6) 2 [[qc (-1) 1; qc 2 1; qc 1 5]].
Definition se : spline Qc := mkSpl (win 3 5) 1 [[qc 7 1; qc (-1) 2]].
Definition sw : spline Qc :=
  mkSpl (win 0 6) 1 [[qc 1 1; qc 1 2]; [qc 2 1; qc (-1) 3]; [qc 1 3; qc 3 1];
                     [qc (-2) 1; qc 1 4]; [qc 1 2; qc 1 1]].
Definition sz : spline Qc := mkSpl (win 0 0) 1 [].

Lemma g6_inv : GInv g6. Proof. ginv. Qed.
Lemma sa_inv : SplInv sa. Proof. splinv. Qed.
Lemma sb_inv : SplInv sb. Proof. splinv. Qed.
Lemma sc_inv : SplInv sc. Proof. splinv. Qed.
Lemma sd_inv : SplInv sd. Proof. splinv. Qed.
Lemma se_inv : SplInv se. Proof. splinv. Qed.
Lemma sw_inv : SplInv sw. Proof. splinv. Qed.
Lemma sz_inv : SplInv sz. Proof. splinv. Qed.

(* a second grid (last point differs) and a spline on it *)
Definition h6 : list Qc := [qc 0 1; qc 1 2; qc 3 2; qc 2 1; qc 7 2; qc 6 1].
Definition sh : spline Qc := mkSpl (mkSup h6 2 5) 1 [[qc 1 1; qc 1 1]; [qc 2 1; qc (-1) 1]].
Lemma sh_inv : SplInv sh. Proof. splinv. Qed.
Lemma h6_neq : h6 <> g6.
Proof. intros H. apply (f_equal (fun l => this (nth 5 l (qc 0 1)))) in H. vm_compute in H. discriminate H. Qed.

(* knots with a double boundary knot at both ends and a double interior knot;
   the grid they generate is g6 *)
Definition nv_ks : list Qc :=
  [qc 0 1; qc 0 1; qc 1 2; qc 3 2; qc 3 2; qc 2 1; qc 7 2; qc 5 1; qc 5 1].

Lemma nv_ks_nondecreasing : nondecreasing nv_ks.
Proof. apply nondecreasing_of_unique. vmr. Qed.
Lemma nv_ks_two_distinct : two_distinct nv_ks.
Proof.
  exists 0%nat, 2%nat, (qc 0 1), (qc 1 2). split; [reflexivity|]. split; [reflexivity|].
  intros H. apply (f_equal this) in H. vm_compute in H. discriminate H.
Qed.
Lemma nv_ks_len : (nlen nv_ks < 2 ^ 63)%N. Proof. vmr. Qed.
Lemma nv_ks_grid : unique nv_ks = g6. Proof. vmr. Qed.

(* ====================================================================== *)
(* C01                                                                     *)
(* ====================================================================== *)

(* the quadratic basis on nv_ks, as the model computes it *)
Definition nv_basis : list (spline Qc) :=
  match generate_bsplines 2 nv_ks with Ok l => l | _ => [] end.
Lemma nv_basis_eq : generate_bsplines 2 nv_ks = Ok nv_basis.
Proof. vmr. Qed.

Example NV_C01_constructor :
  (exists gn, gen_ctor1 nv_ks = Ok gn) /\
  gen_ctor1 nv_ks = Ok (mkGen g6 nv_ks) /\ GInv (unique nv_ks).
Proof.
  split.
  - apply (C01_constructor Qc QcOps Qc_laws nv_ks nv_ks_len).
    split; [exact nv_ks_nondecreasing | exact nv_ks_two_distinct].
  - destruct (C01_grid_is_unique_knots Qc QcOps Qc_laws nv_ks nv_ks_nondecreasing
                nv_ks_two_distinct nv_ks_len) as [H1 H2].
    split; [|exact H2]. rewrite H1, nv_ks_grid. reflexivity.
Qed.

Example NV_C01_count :
  exists l, generate_bsplines 2 nv_ks = Ok l /\ length l = 6%nat /\ Forall SplInv l /\
            Forall (fun s => sgridp s = g6 /\ sord s = 2%nat) l /\
            (* the windows of the six splines: 3, 3, 3, 3, 4, 3 grid points *)
            map (fun s => (sstart (ssup s), sstop (ssup s))) l
            = [(0, 3); (0, 3); (1, 4); (2, 5); (2, 6); (3, 6)]%N.
Proof.
  destruct (C01_count Qc QcOps Qc_laws nv_ks 2 nv_ks_nondecreasing nv_ks_two_distinct nv_ks_len)
    as (l & El & Hlen & Hinv & Hg); [vm_compute; lia|].
  exists l. split; [exact El|]. split; [exact Hlen|]. split; [exact Hinv|].
  split; [rewrite <- nv_ks_grid; exact Hg|].
  rewrite (ok_inj _ _ _ El nv_basis_eq). vmr.
Qed.

Example NV_C01_too_few_knots : generate_bsplines 9 nv_ks = Throw UNDETERMINED.
Proof.
  apply (C01_too_few_knots Qc QcOps Qc_laws nv_ks 9 nv_ks_nondecreasing nv_ks_two_distinct nv_ks_len).
  vm_compute. lia.
Qed.

(* B_{2,2}, B_{3,2}, B_{4,2} at x = 9/5 in the interval [3/2, 2) (k = 2) *)
Example NV_C01_is_cox_de_boor :
  den (nth 2 nv_basis dflt_spline) 2 (qc 9 5) = B nv_ks 2 2 (qc 9 5) /\
  den (nth 3 nv_basis dflt_spline) 2 (qc 9 5) = B nv_ks 2 3 (qc 9 5) /\
  den (nth 4 nv_basis dflt_spline) 2 (qc 9 5) = B nv_ks 2 4 (qc 9 5) /\
  B nv_ks 2 2 (qc 9 5) = qc 4 25 /\ B nv_ks 2 3 (qc 9 5) = qc 3 4 /\
  B nv_ks 2 4 (qc 9 5) = qc 9 100 /\
  den (nth 2 nv_basis dflt_spline) 2 (qc 9 5) = qc 4 25.
Proof.
  assert (H : forall i, (i < 6)%nat ->
            den (nth i nv_basis dflt_spline) 2 (qc 9 5) = B nv_ks 2 i (qc 9 5)).
  { intros i Hi.
    apply (C01_is_cox_de_boor Qc QcOps Qc_laws nv_ks 2 nv_basis i 2 (qc 9 5)
             nv_ks_nondecreasing nv_ks_two_distinct nv_ks_len);
      [vm_compute; lia | exact nv_basis_eq | exact Hi | vm_compute; lia | vmr | vmr]. }
  split; [apply H; lia|]. split; [apply H; lia|]. split; [apply H; lia|].
  repeat split; qc.
Qed.

Example NV_C01_eval_interior :
  spl_eval (nth 3 nv_basis dflt_spline) (qc 9 5) = Ok (B nv_ks 2 3 (qc 9 5)) /\
  spl_eval (nth 3 nv_basis dflt_spline) (qc 9 5) = Ok (qc 3 4).
Proof.
  split.
  - apply (C01_eval_interior Qc QcOps Qc_laws nv_ks 2 nv_basis 3 2 (qc 9 5)
             nv_ks_nondecreasing nv_ks_two_distinct nv_ks_len);
      [vm_compute; lia | exact nv_basis_eq | vm_compute; lia | vm_compute; lia | vmr | vmr].
  - okqc.
Qed.

Example NV_C01_partition_of_unity :
  nsum 6 (fun i => B nv_ks 2 i (qc 9 5)) = f1 /\
  (qc 4 25 + qc 3 4 + qc 9 100)%F = f1 /\
  fleb f0 (B nv_ks 2 3 (qc 9 5)) = true /\ B nv_ks 2 0 (qc 9 5) = f0.
Proof.
  split; [|split; [qc|split]].
  - apply (C01_partition_of_unity Qc QcOps Qc_laws nv_ks 2 (qc 9 5) nv_ks_nondecreasing);
      [vm_compute; lia | vmr | vmr].
  - apply (C01_nonnegative Qc QcOps Qc_laws nv_ks 2 3 (qc 9 5) nv_ks_nondecreasing).
    vm_compute; lia.
  - apply (C01_local_support Qc QcOps Qc_laws nv_ks 2 0 (qc 9 5) nv_ks_nondecreasing);
      [vm_compute; lia | right; vmr].
Qed.

(* at the double knot 3/2 (grid point 2, between the intervals 1 and 2) a
   quadratic B-spline is continuous; at the simple knot 2 (between the intervals
   2 and 3) its first derivative is continuous as well; the first derivative
   does jump at the double knot *)
Example NV_C01_smooth_across_knots :
  jump_free (nth 2 nv_basis dflt_spline) 1 0 /\
  jump_free (nth 3 nv_basis dflt_spline) 2 1 /\
  jump_freeb (nth 2 nv_basis dflt_spline) 1 1 = false.
Proof.
  split; [|split; [|vmr]].
  - apply (C01_smooth_across_knots Qc QcOps Qc_laws nv_ks 2 nv_basis 2 1 0
             nv_ks_nondecreasing nv_ks_two_distinct nv_ks_len);
      [vm_compute; lia | exact nv_basis_eq | vm_compute; lia | vm_compute; lia | vm_compute; lia].
  - apply (C01_smooth_across_knots Qc QcOps Qc_laws nv_ks 2 nv_basis 3 2 1
             nv_ks_nondecreasing nv_ks_two_distinct nv_ks_len);
      [vm_compute; lia | exact nv_basis_eq | vm_compute; lia | vm_compute; lia | vm_compute; lia].
Qed.

(* order 0: the indicator functions of the knot intervals (the empty ones of
   the repeated knots vanish identically); the derivative of a quadratic
   B-spline from the linear ones *)
Definition nv_basis0 : list (spline Qc) :=
  match generate_bsplines 0 nv_ks with Ok l => l | _ => [] end.
Definition nv_basis1 : list (spline Qc) :=
  match generate_bsplines 1 nv_ks with Ok l => l | _ => [] end.

Example NV_C01_order0_and_derivative_formula :
  generate_bsplines 0 nv_ks = Ok nv_basis0 /\ length nv_basis0 = 8%nat /\
  den (nth 2 nv_basis0 dflt_spline) 1 (qc 1 1) = f1 /\     (* [1/2, 3/2) contains 1 *)
  den (nth 3 nv_basis0 dflt_spline) 1 (qc 1 1) = f0 /\     (* [3/2, 3/2) is empty *)
  peval (pderiv (piece (nth 2 nv_basis dflt_spline) 2)) (qc 1 20)
  = (fofnat 2 * (peval (piece (nth 2 nv_basis1 dflt_spline) 2) (qc 1 20) / (knot nv_ks 4 - knot nv_ks 2)
                 - peval (piece (nth 3 nv_basis1 dflt_spline) 2) (qc 1 20) / (knot nv_ks 5 - knot nv_ks 3)))%F /\
  peval (pderiv (piece (nth 2 nv_basis dflt_spline) 2)) (qc 1 20) = qc (-8) 5.
Proof.
  assert (E0 : generate_bsplines 0 nv_ks = Ok nv_basis0) by vmr.
  assert (E1 : generate_bsplines 1 nv_ks = Ok nv_basis1) by vmr.
  split; [exact E0|]. split; [vmr|].
  assert (H : forall i, (i < 8)%nat ->
            den (nth i nv_basis0 dflt_spline) 1 (qc 1 1)
            = if fleb (knot nv_ks i) (qc 1 1) && fltb (qc 1 1) (knot nv_ks (i + 1)) then f1 else f0).
  { intros i Hi.
    apply (C01_order0 Qc QcOps Qc_laws nv_ks nv_basis0 i 1 (qc 1 1) nv_ks_nondecreasing
             nv_ks_two_distinct nv_ks_len E0); [exact Hi | vm_compute; lia | vmr | vmr]. }
  split; [rewrite (H 2%nat) by lia; vmr|]. split; [rewrite (H 3%nat) by lia; vmr|].
  split; [|qc].
  pose proof (C01_derivative_formula Qc QcOps Qc_laws nv_ks 1 nv_basis nv_basis1 2 2 (qc 1 20)
                nv_ks_nondecreasing nv_ks_two_distinct nv_ks_len ltac:(vm_compute; lia)
                nv_basis_eq E1 ltac:(vm_compute; lia) ltac:(vm_compute; lia)) as D.
  cbn [Nat.add] in D.
  replace (fltb (knot nv_ks 2) (knot nv_ks 4)) with true in D by vmr.
  replace (fltb (knot nv_ks 3) (knot nv_ks 5)) with true in D by vmr.
  exact D.
Qed.

(* the second constructor: the supplied grid must be the grid of the knots *)
Example NV_C01_supplied_grid :
  (do gn <- gen_ctor2 nv_ks g6; generate gn 2) = Ok nv_basis /\
  (do gn <- gen_ctor2 nv_ks h6; generate gn 2) = Throw INCONSISTENT_DATA.
Proof.
  split.
  - rewrite (C01_supplied_grid_route Qc QcOps Qc_laws nv_ks 2 g6 nv_ks_nondecreasing
               nv_ks_two_distinct nv_ks_len (eq_sym nv_ks_grid)).
    exact nv_basis_eq.
  - apply (C01_supplied_grid_mismatch Qc QcOps Qc_laws nv_ks 2 h6 nv_ks_nondecreasing
             nv_ks_two_distinct nv_ks_len).
    rewrite nv_ks_grid. exact h6_neq.
Qed.

(* ====================================================================== *)
(* C02                                                                     *)
(* ====================================================================== *)

(* replace the variable r of a hypothesis [m = Ok r] (m closed) by the value
   the model computes *)
Ltac subst_ok H :=
  match type of H with
  | ?m = Ok ?r =>
      let v := eval vm_compute in m in
      match v with
      | Ok ?r0 =>
          let E := fresh "E" in
          assert (E : r = r0) by (apply (ok_inj m); [exact H | vm_compute; reflexivity]);
          subst r
      end
  end.

(* the coefficients of a spline as plain fractions *)
Definition coefsQ (s : spline Qc) : list (list Q) := map (map this) (scoefs s).

(* sa at 9/5 (inside interval 2), at the interior grid point 3/2 (the LEFT piece
   decides: 3/4, the right piece would give 23/48) and at its first point 1/2 *)
Example NV_C02_inside :
  spl_eval sa (qc 9 5) = Ok (den sa 2 (qc 9 5)) /\ den sa 2 (qc 9 5) = qc 599 1200 /\
  spl_eval sa (qc 3 2) = Ok (den sa 1 (qc 3 2)) /\ den sa 1 (qc 3 2) = qc 3 4 /\
  den sa 2 (qc 3 2) = qc 23 48 /\
  spl_eval sa (qc 1 2) = Ok (den sa 1 (qc 1 2)) /\ den sa 1 (qc 1 2) = qc 11 4 /\
  spl_eval sa (qc 9 5) = Ok (qc 599 1200).
Proof.
  split; [|split; [qc|split; [|split; [qc|split; [qc|split; [|split; [qc|okqc]]]]]]].
  - apply (C02_inside Qc QcOps Qc_laws sa (qc 9 5) 2 sa_inv); [split; nfact|].
    left. split; vmr.
  - apply (C02_inside Qc QcOps Qc_laws sa (qc 3 2) 1 sa_inv); [split; nfact|].
    left. split; vmr.
  - apply (C02_inside Qc QcOps Qc_laws sa (qc 1 2) 1 sa_inv); [split; nfact|].
    right. split; [reflexivity | qc].
Qed.

Example NV_C02_outside :
  spl_eval sa (qc 1 4) = Ok f0 /\ spl_eval sa (qc 3 1) = Ok f0 /\
  spl_eval sz (qc 1 1) = Ok f0 /\ den sa 3 (qc 3 1) = f0.
Proof.
  split; [|split; [|split]].
  - apply (C02_outside Qc QcOps Qc_laws sa (qc 1 4) sa_inv); [nfact | left; vmr].
  - apply (C02_outside Qc QcOps Qc_laws sa (qc 3 1) sa_inv); [nfact | right; vmr].
  - apply (C02_no_interval Qc QcOps sz (qc 1 1) sz_inv). nfact.
  - apply (C02_den_outside Qc QcOps sa 3 (qc 3 1)). intros [_ H]. revert H. nfact.
Qed.

Example NV_C02_front_back :
  spl_front sa = Ok (qc 1 2) /\ spl_back sa = Ok (qc 2 1) /\
  spl_front sz = Throw INVALID_ACCESS /\ (exists v, spl_eval sw (qc 17 5) = Ok v).
Proof.
  split; [|split; [|split]].
  - rewrite (C02_front Qc QcOps sa sa_inv). vmr.
  - rewrite (C02_back Qc QcOps sa sa_inv). vmr.
  - rewrite (C02_front Qc QcOps sz sz_inv). vmr.
  - exact (C02_total Qc QcOps Qc_laws sw (qc 17 5) sw_inv).
Qed.

Example NV_C02_lower_bound_contract :
  lower_bound g6 (qc 9 5) = 3%nat /\
  (forall i a, (i < 3)%nat -> nth_error g6 i = Some a -> fltb a (qc 9 5) = true) /\
  (forall i a, (3 <= i)%nat -> nth_error g6 i = Some a -> fltb a (qc 9 5) = false).
Proof.
  destruct (C02_lower_bound_contract Qc QcOps Qc_laws g6 (qc 9 5) (proj2 (proj2 g6_inv)))
    as (H1 & H2 & _).
  split; [vmr|]. split; [exact H1 | exact H2].
Qed.

(* ====================================================================== *)
(* C03                                                                     *)
(* ====================================================================== *)

(* partially overlapping windows: the sum lives on the hull 1..5, has order 2,
   and is the pointwise sum on the common interval 2, sb alone on interval 3 *)
Example NV_C03_add :
  exists u r, calc_union (ssup sa) (ssup sb) = Ok u /\ spl_add sa sb = Ok r /\ SplInv r /\
    u = win 1 6 /\ ssup r = win 1 6 /\ sord r = 2%nat /\
    coefsQ r = [[1; -2; 3]; [5 # 2; 1 # 3; -1 # 3]; [-1; 5 # 2; 0]; [3 # 4; -2; 0]]%Q /\
    den r 2 (qc 9 5) = (den sa 2 (qc 9 5) + den sb 2 (qc 9 5))%F /\
    den sa 2 (qc 9 5) = qc 599 1200 /\ den sb 2 (qc 9 5) = qc 121 60 /\
    den r 2 (qc 9 5) = qc 3019 1200 /\
    den r 3 (qc 3 1) = (f0 + den sb 3 (qc 3 1))%F /\ den r 0 (qc 1 4) = (f0 + f0)%F.
Proof.
  destruct (C03_add Qc QcOps Qc_laws sa sb sa_inv sb_inv eq_refl)
    as (u & r & Hu & Hr & Hi & Hs & Ho & Hd).
  exists u, r. split; [exact Hu|]. split; [exact Hr|]. split; [exact Hi|].
  pose proof (Hd 2%N (qc 9 5)) as H2. pose proof (Hd 3%N (qc 3 1)) as H3.
  pose proof (Hd 0%N (qc 1 4)) as H0.
  rewrite (C02_den_outside Qc QcOps sa 3 (qc 3 1)) in H3 by (intros [_ H]; revert H; nfact).
  rewrite (C02_den_outside Qc QcOps sa 0 (qc 1 4)) in H0 by (intros [H _]; revert H; nfact).
  rewrite (C02_den_outside Qc QcOps sb 0 (qc 1 4)) in H0 by (intros [H _]; revert H; nfact).
  subst_ok Hu. subst_ok Hr.
  split; [vmr|]. split; [vmr|]. split; [vmr|]. split; [vmr|].
  split; [exact H2|]. split; [qc|]. split; [qc|]. split; [qc|]. split; [exact H3 | exact H0].
Qed.

(* windows separated by a gap: the hull is the whole grid and the intervals in
   between carry zero arrays *)
Example NV_C03_add_gap :
  exists r, spl_add sc sd = Ok r /\ SplInv r /\ ssup r = win 0 6 /\ sord r = 2%nat /\
    coefsQ r = [[1; 4; 0]; [0; 0; 0]; [0; 0; 0]; [0; 0; 0]; [-1; 2; 1 # 5]]%Q /\
    (forall x, den r 2 x = (f0 + f0)%F).
Proof.
  destruct (C03_add Qc QcOps Qc_laws sc sd sc_inv sd_inv eq_refl)
    as (u & r & Hu & Hr & Hi & Hs & Ho & Hd).
  exists r. split; [exact Hr|]. split; [exact Hi|].
  assert (H2 : forall x, den r 2 x = (f0 + f0)%F).
  { intros x. rewrite (Hd 2%N x).
    rewrite (C02_den_outside Qc QcOps sc 2 x) by (intros [_ H]; revert H; nfact).
    rewrite (C02_den_outside Qc QcOps sd 2 x) by (intros [H _]; revert H; nfact).
    reflexivity. }
  subst_ok Hr. split; [vmr|]. split; [vmr|]. split; [vmr | exact H2].
Qed.

Example NV_C03_sub :
  exists r, spl_sub sa sb = Ok r /\ SplInv r /\ ssup r = win 1 6 /\
    coefsQ r = [[1; -2; 3]; [-3 # 2; -1 # 3; -1 # 3]; [1; -5 # 2; 0]; [-3 # 4; 2; 0]]%Q /\
    den r 2 (qc 9 5) = (den sa 2 (qc 9 5) - den sb 2 (qc 9 5))%F /\
    den r 2 (qc 9 5) = qc (-607) 400.
Proof.
  destruct (C03_sub Qc QcOps Qc_laws sa sb sa_inv sb_inv eq_refl)
    as (u & r & Hu & Hr & Hi & Hs & Ho & Hd).
  exists r. split; [exact Hr|]. split; [exact Hi|]. pose proof (Hd 2%N (qc 9 5)) as H2.
  subst_ok Hr. split; [vmr|]. split; [vmr|]. split; [exact H2 | qc].
Qed.

(* the product lives on the common interval 2 and has order 2 + 1; windows
   that merely touch or are separated give the interval-free spline *)
Example NV_C03_mul :
  (exists u r, calc_inter (ssup sa) (ssup sb) = Ok u /\ spl_mul sa sb = Ok r /\ SplInv r /\
     u = win 2 4 /\ ssup r = win 2 4 /\ sord r = 3%nat /\
     coefsQ r = [[1; 1 # 6; -2 # 3; -1 # 9]]%Q /\
     den r 2 (qc 9 5) = (den sa 2 (qc 9 5) * den sb 2 (qc 9 5))%F /\
     den r 2 (qc 9 5) = qc 72479 72000) /\
  (exists r, spl_mul sa sc = Ok r /\ SplInv r /\ nintervals (ssup r) = 0%N /\ scoefs r = []) /\
  (exists r, spl_mul sc sd = Ok r /\ SplInv r /\ nintervals (ssup r) = 0%N /\
             forall k x, (den sc k x * den sd k x)%F = den r k x).
Proof.
  split; [|split].
  - destruct (C03_mul Qc QcOps Qc_laws sa sb sa_inv sb_inv eq_refl)
      as (u & r & Hu & Hr & Hi & Hs & Ho & Hd).
    exists u, r. split; [exact Hu|]. split; [exact Hr|]. split; [exact Hi|].
    pose proof (Hd 2%N (qc 9 5)) as H2. subst_ok Hu. subst_ok Hr.
    split; [vmr|]. split; [vmr|]. split; [vmr|]. split; [vmr|]. split; [exact H2 | qc].
  - destruct (C03_mul Qc QcOps Qc_laws sa sc sa_inv sc_inv eq_refl)
      as (u & r & Hu & Hr & Hi & Hs & Ho & Hd).
    exists r. split; [exact Hr|]. split; [exact Hi|]. subst_ok Hr. split; vmr.
  - destruct (C03_mul Qc QcOps Qc_laws sc sd sc_inv sd_inv eq_refl)
      as (u & r & Hu & Hr & Hi & Hs & Ho & Hd).
    exists r. split; [exact Hr|]. split; [exact Hi|].
    split; [subst_ok Hr; vmr | intros k x; symmetry; apply Hd].
Qed.

Example NV_C03_scale_div_neg :
  den (spl_scale sa (qc 2 3)) 2 (qc 9 5) = (den sa 2 (qc 9 5) * qc 2 3)%F /\
  den (spl_neg sa) 2 (qc 9 5) = (- den sa 2 (qc 9 5))%F /\
  SplInv (spl_scale sa (qc 2 3)) /\
  (exists r, spl_div sa (qc 2 3) = Ok r /\ SplInv r /\ ssup r = ssup sa /\
     coefsQ r = [[3 # 2; -3; 9 # 2]; [3 # 4; 0; -1 # 2]]%Q /\
     den r 2 (qc 9 5) = (den sa 2 (qc 9 5) / qc 2 3)%F /\ den r 2 (qc 9 5) = qc 599 800).
Proof.
  split; [apply (C03_scale Qc QcOps Qc_laws)|]. split; [apply (C03_neg Qc QcOps Qc_laws)|].
  split; [apply (C03_scale_inv Qc QcOps sa (qc 2 3) sa_inv)|].
  destruct (C03_div Qc QcOps Qc_laws sa (qc 2 3) sa_inv) as (r & Hr & Hi & Hs & Ho & Hd).
  { intros H. apply (f_equal this) in H. vm_compute in H. discriminate H. }
  exists r. split; [exact Hr|]. split; [exact Hi|]. split; [exact Hs|].
  pose proof (Hd 2%N (qc 9 5)) as H2. subst_ok Hr. split; [vmr|]. split; [exact H2 | qc].
Qed.

Example NV_C03_assign_up :
  exists r, spl_assign_up 3 sa = Ok r /\ SplInv r /\ sord r = 3%nat /\ ssup r = ssup sa /\
    coefsQ r = [[1; -2; 3; 0]; [1 # 2; 0; -1 # 3; 0]]%Q /\
    (forall k x, den r k x = den sa k x).
Proof.
  destruct (C03_assign_up Qc QcOps Qc_laws 3 sa sa_inv) as (r & Hr & Hi & Ho & Hs & Hd);
    [vm_compute; lia|].
  exists r. split; [exact Hr|]. split; [exact Hi|]. split; [exact Ho|]. split; [exact Hs|].
  split; [subst_ok Hr; vmr | exact Hd].
Qed.

(* sa += sb is allowed (order 1 into order 2); sb += sa is not a C++ program *)
Example NV_C03_iadd :
  (exists r, spl_iadd sa sb = Ok r /\ SplInv r /\ sord r = 2%nat /\ spl_iadd sa sb = spl_add sa sb /\
     forall k x, den r k x = (den sa k x + den sb k x)%F) /\
  (exists r, spl_isub sa sb = Ok r /\ spl_isub sa sb = spl_sub sa sb /\
     den r 2 (qc 9 5) = (den sa 2 (qc 9 5) - den sb 2 (qc 9 5))%F) /\
  spl_iadd sb sa = UB IllTyped.
Proof.
  split; [|split; [|vmr]].
  - destruct (C03_iadd Qc QcOps Qc_laws sa sb sa_inv sb_inv eq_refl) as (u & r & _ & Hr & Hi & _ & Ho & Hd);
      [vm_compute; lia|].
    exists r. split; [exact Hr|]. split; [exact Hi|]. split; [exact Ho|]. split; [|exact Hd].
    apply (C03_iadd_is_add Qc QcOps). vm_compute; lia.
  - destruct (C03_isub Qc QcOps Qc_laws sa sb sa_inv sb_inv eq_refl) as (u & r & _ & Hr & _ & _ & _ & Hd);
      [vm_compute; lia|].
    exists r. split; [exact Hr|]. split; [|apply Hd].
    apply (C03_isub_is_sub Qc QcOps). vm_compute; lia.
Qed.

(* 2 sb - se + sc/3: three splines of order 1 on nested / disjoint windows *)
Example NV_C03_lin_comb :
  exists r, lin_comb [qc 2 1; qc (-1) 1; qc 1 3] [sb; se; sc] = Ok r /\ SplInv r /\
    sord r = 1%nat /\ sgridp r = g6 /\ ssup r = win 0 6 /\
    coefsQ r = [[1 # 3; 4 # 3]; [0; 0]; [4; 2 # 3]; [-9; 11 # 2]; [3 # 2; -4]]%Q /\
    den r 3 (qc 3 1) = (qc 2 1 * den sb 3 (qc 3 1) + (qc (-1) 1 * den se 3 (qc 3 1)
                          + (qc 1 3 * den sc 3 (qc 3 1) + f0)))%F /\
    den r 3 (qc 3 1) = qc (-61) 8.
Proof.
  destruct (C03_lin_comb Qc QcOps Qc_laws [qc 2 1; qc (-1) 1; qc 1 3] sb [se; sc] eq_refl)
    as (r & Hr & Hi & Ho & Hg & Hm & Hd).
  { apply Forall_cons; [exact sb_inv|]. apply Forall_cons; [exact se_inv|].
    apply Forall_cons; [exact sc_inv | apply Forall_nil]. }
  { intros s [<- | [<- | [<- | []]]]; split; reflexivity. }
  exists r. split; [exact Hr|]. split; [exact Hi|]. split; [exact Ho|]. split; [exact Hg|].
  pose proof (Hd 3%N (qc 3 1)) as H3. cbn [map lincomb_val] in H3.
  subst_ok Hr. split; [vmr|]. split; [vmr|]. split; [exact H3 | qc].
Qed.

(* sa += sb; sa *= 3; sa -= sc; sa /= 1/2 *)
Example NV_C03_update_sequences :
  exists r, apply_upds sa [UAdd sb; UMul (qc 3 1); USub sc; UDiv (qc 1 2)] = Ok r /\ SplInv r /\
    sgridp r = g6 /\ sord r = 2%nat /\ ssup r = win 0 6 /\
    coefsQ r = [[-2; -8; 0]; [6; -12; 18]; [15; 2; -2]; [-6; 15; 0]; [9 # 2; -12; 0]]%Q /\
    (forall k x, den r k x = (((den sa k x + den sb k x) * qc 3 1 - den sc k x) / qc 1 2)%F) /\
    den r 2 (qc 9 5) = qc 3019 200.
Proof.
  destruct (C03_update_sequences Qc QcOps Qc_laws [UAdd sb; UMul (qc 3 1); USub sc; UDiv (qc 1 2)]
              sa sa_inv) as (r & Hr & Hi & Hg & Ho & Hd).
  { apply Forall_cons; [split; [exact sb_inv | split; [reflexivity | vm_compute; lia]]|].
    apply Forall_cons; [exact I|].
    apply Forall_cons; [split; [exact sc_inv | split; [reflexivity | vm_compute; lia]]|].
    apply Forall_cons; [|apply Forall_nil].
    intros H. apply (f_equal this) in H. vm_compute in H. discriminate H. }
  exists r. split; [exact Hr|]. split; [exact Hi|]. split; [exact Hg|]. split; [exact Ho|].
  assert (Hd' : forall k x, den r k x = (((den sa k x + den sb k x) * qc 3 1 - den sc k x) / qc 1 2)%F)
    by (intros k x; exact (Hd k x)).
  subst_ok Hr. split; [vmr|]. split; [vmr|]. split; [exact Hd' | qc].
Qed.

(* ====================================================================== *)
(* C04                                                                     *)
(* ====================================================================== *)

Lemma qc_neq (a b : Qc) : Qc_eqb a b = false -> a <> b.
Proof. intros H E. apply Qc_eqb_eq in E. congruence. Qed.
Ltac qcneq := apply qc_neq; vm_compute; reflexivity.

(* x d/dx + (3 sb) / (2/3): position, derivative, a spline factor, an integer
   scalar, a T scalar and a division *)
Definition e4 : expr Qc :=
  EAdd (EMul (EPos 1) (EDer 1)) (EDivS (ESMulL (ScI 3) (ESpl sb)) (ScF (qc 2 3))).

Lemma e4_factors : factors_ok e4 g6.
Proof. split; [split; exact I|]. split; [exact sb_inv | reflexivity]. Qed.
Lemma e4_scalars : scalars_ok e4.
Proof.
  split; [split; exact I|]. split; [exact I|]. split; [cbn [sval]; qcneq|].
  split; exact I.
Qed.

Example NV_C04_apply :
  exists r, apply (elab e4) sa = Ok r /\ SplInv r /\ ssup r = ssup sa /\ sord r = 3%nat /\
    coefsQ r = [[-2; 4; 6; 0]; [9 # 2; -5 # 12; -11 # 3; -1 # 2]]%Q /\
    (* on interval 2 (x = u + 7/4): x p'(x) + (9/2) sb(x) p(x) *)
    (forall u, peval (piece r 2) u = peval (dsem e4 g6 2 (piece sa 2)) u) /\
    peval (dsem e4 g6 2 (piece sa 2)) (qc 1 20)
    = (qc 9 5 * peval (pderiv (piece sa 2)) (qc 1 20)
       + qc 9 2 * (peval (piece sb 2) (qc 1 20) * peval (piece sa 2) (qc 1 20)))%F /\
    peval (piece r 2) (qc 1 20) = qc 71519 16000 /\
    (* on interval 1 sb is not supported: only x p'(x) remains (x = u + 1) *)
    peval (piece r 1) (qc 1 4) = (qc 5 4 * peval (pderiv (piece sa 1)) (qc 1 4))%F.
Proof.
  destruct (C04_apply Qc QcOps Qc_laws e4 sa sa_inv e4_factors e4_scalars)
    as (r & Hr & Hi & Hs & Ho & Hd).
  exists r. split; [exact Hr|]. split; [exact Hi|]. split; [exact Hs|]. split; [exact Ho|].
  assert (H2 : forall u, peval (piece r 2) u = peval (dsem e4 g6 2 (piece sa 2)) u)
    by (intros u; exact (Hd 2%N u)).
  subst_ok Hr. split; [vmr|]. split; [exact H2|]. split; [qc|]. split; qc.
Qed.

Example NV_C04_derivative_transform :
  transform (ODer 1) [qc 1 1; qc (-2) 1; qc 3 1] g6 2 = Ok (pderivn 1 [qc 1 1; qc (-2) 1; qc 3 1]) /\
  map this (pderivn 1 [qc 1 1; qc (-2) 1; qc 3 1]) = [-2; 6]%Q /\
  transform (ODer 3) [qc 1 1; qc (-2) 1; qc 3 1] g6 2 = Ok [f0] /\
  peval [f0] (qc 1 20) = peval (pderivn 3 [qc 1 1; qc (-2) 1; qc 3 1]) (qc 1 20) /\
  nth 1 (pderivn 1 [qc 1 1; qc (-2) 1; qc 3 1]) f0 = (faculty_ratio 2 1 * qc 3 1)%F.
Proof.
  assert (Hc : [qc 1 1; qc (-2) 1; qc 3 1] <> []) by discriminate.
  split; [exact (C04_derivative_transform Qc QcOps Qc_laws 1 _ g6 2 Hc)|]. split; [vmr|].
  split; [exact (C04_derivative_transform Qc QcOps Qc_laws 3 _ g6 2 Hc)|].
  split; [exact (C04_derivative_value Qc QcOps Qc_laws 3 _ (qc 1 20) Hc)|].
  exact (C04_derivative_coefficients Qc QcOps Qc_laws 1 _ 1).
Qed.

(* multiplication by x^2 on interval 2 (midpoint 7/4) *)
Example NV_C04_position_transform :
  transform (OPos 2) [qc 1 1; qc (-2) 1; qc 3 1] g6 2
  = Ok (pmul [qc 1 1; qc (-2) 1; qc 3 1] (expand_power 2 (mid g6 2))) /\
  map this (pmul [qc 1 1; qc (-2) 1; qc 3 1] (expand_power 2 (mid g6 2)))
  = [49 # 16; -21 # 8; 51 # 16; 17 # 2; 3]%Q /\
  peval (pmul [qc 1 1; qc (-2) 1; qc 3 1] (expand_power 2 (mid g6 2))) (qc 9 5 - mid g6 2)%F
  = (fpow (qc 9 5) 2 * peval [qc 1 1; qc (-2) 1; qc 3 1] (qc 9 5 - mid g6 2))%F /\
  peval (expand_power 2 (qc 7 4)) (qc 1 20) = fpow (qc 1 20 + qc 7 4)%F 2 /\
  @binomial Qc QcOps 5 3 = (binomial 4 2 + binomial 4 3)%F /\ @binomial Qc QcOps 5 3 = qc 10 1.
Proof.
  split; [apply (C04_position_transform Qc QcOps 2 _ g6 2); vmr|]. split; [vmr|].
  split; [apply (C04_position_value Qc QcOps Qc_laws)|].
  split; [apply (C04_binomial_expansion Qc QcOps Qc_laws)|].
  split; [exact (C04_binomial_pascal Qc QcOps Qc_laws 4 2) | qc].
Qed.

(* ====================================================================== *)
(* C05                                                                     *)
(* ====================================================================== *)

(* (2 - se d^2/dx^2) - (-(x^2 * (1/4) + 1/3)): both scalar kinds, a reciprocal
   integer, scalar +/- operator in both orders, unary minus *)
Definition e5 : expr Qc :=
  ESub (ESSub (ScI 2) (EMul (ESpl se) (EDer 2)))
       (ENeg (EAddS (ESMulR (EPos 2) (ScRecI 4)) (ScF (qc 1 3)))).
Definition c5 : list Qc := [qc 1 1; qc 2 1; qc (-1) 1; qc 1 2].
(* order 2 on the points 2..5 (intervals 2, 3, 4); se is supported on interval 3 *)
Definition sq : spline Qc :=
  mkSpl (win 2 6) 2 [[qc 1 1; qc (-1) 1; qc 2 1]; [qc 0 1; qc 3 1; qc (-1) 2]; [qc 2 1; qc 1 1; qc 1 1]].
Lemma sq_inv : SplInv sq. Proof. splinv. Qed.

Lemma e5_factors : factors_ok e5 g6.
Proof. split; [split; [split; [exact se_inv | reflexivity] | exact I] | exact I]. Qed.
Lemma e5_scalars : scalars_ok e5.
Proof.
  split; [split; [exact I | split; exact I]|].
  split; [exact I|]. split; [discriminate | exact I].
Qed.

Example NV_C05_expr_sound :
  exists t, transform (elab e5) c5 g6 3 = Ok t /\ length t = 6%nat /\
    map this t = [3499 # 192; -1169 # 96; 53 # 192; 475 # 384; 7 # 16; 1 # 8]%Q /\
    (forall u, peval t u = peval (dsem e5 g6 3 c5) u) /\
    (* the meaning, spelled out at u = 1/4, i.e. x = 3 (interval 3 has midpoint 11/4) *)
    peval (dsem e5 g6 3 c5) (qc 1 4)
    = ((qc 2 1 * peval c5 (qc 1 4)
        - peval (piece se 3) (qc 1 4) * peval (pderiv (pderiv c5)) (qc 1 4))
       + (qc 3 1 * qc 3 1 * qc 1 4 * peval c5 (qc 1 4) + qc 1 3 * peval c5 (qc 1 4)))%F.
Proof.
  destruct (C05_expr_sound Qc QcOps Qc_laws e5 c5 g6 3 g6_inv) as (t & Ht & Hl & Hd);
    [vmr | exact e5_factors | exact e5_scalars | discriminate|].
  exists t. split; [exact Ht|]. split; [exact Hl|].
  assert (Hd' : forall u, peval t u = peval (dsem e5 g6 3 c5) u) by exact Hd.
  subst_ok Ht. split; [vmr|]. split; [exact Hd' | qc].
Qed.

Example NV_C05_apply :
  exists r, apply (elab e5) sq = Ok r /\ SplInv r /\ ssup r = ssup sq /\ sord r = 4%nat /\
    nth 1 (coefsQ r) [] = [7; 779 # 64; 773 # 384; 1 # 16; -1 # 8]%Q /\
    (forall k u, peval (piece r k) u = peval (dsem e5 g6 k (piece sq k)) u) /\
    (* outside the window of sq the result denotes zero *)
    (forall u, peval (dsem e5 g6 0 (piece sq 0)) u = f0).
Proof.
  destruct (C05_apply Qc QcOps Qc_laws e5 sq sq_inv e5_factors e5_scalars)
    as (r & Hr & Hi & Hs & Ho & Hd).
  exists r. split; [exact Hr|]. split; [exact Hi|]. split; [exact Hs|]. split; [exact Ho|].
  assert (Hd' : forall k u, peval (piece r k) u = peval (dsem e5 g6 k (piece sq k)) u) by exact Hd.
  subst_ok Hr. split; [vmr|]. split; [exact Hd'|].
  intros u. change (piece sq 0) with (@nil Qc). apply (C05_zero_outside Qc QcOps Qc_laws).
Qed.

Example NV_C05_commutator_and_scalars :
  peval (dsem (ESub (EMul (EDer 1) (EPos 1)) (EMul (EPos 1) (EDer 1))) g6 3 c5) (qc 1 4)
  = peval c5 (qc 1 4) /\ peval c5 (qc 1 4) = qc 185 128 /\
  cast (recip (@ScI Qc 4)) = (f1 / sval (@ScI Qc 4))%F /\ cast (recip (@ScI Qc 4)) = qc 1 4 /\
  cast (recip (ScRecF (qc 2 3))) = qc 2 3.
Proof.
  split; [apply (C05_commutator Qc QcOps Qc_laws); discriminate|]. split; [qc|].
  split; [apply (C05_reciprocal Qc QcOps (ScI 4)); [exact I | cbn [sval]; qcneq]|].
  split; qc.
Qed.

(* a spline factor on another grid is refused *)
Example NV_C05_factor_on_other_grid : apply (OSpl sh) sa = Throw DIFFERING_GRIDS.
Proof.
  apply (C05_factor_on_other_grid Qc QcOps Qc_laws sh sa sa_inv sh_inv); [exact h6_neq | nfact].
Qed.

(* ====================================================================== *)
(* C06                                                                     *)
(* ====================================================================== *)

(* the form of the diffusion example: < d/dx . , -(1/2) sb d/dx . > *)
Definition e61 : expr Qc := EDer 1.
Definition e62 : expr Qc := EDivS (EMul (ESpl sb) (EDer 1)) (ScI (-2)).

Lemma e61_factors : factors_ok e61 g6. Proof. exact I. Qed.
Lemma e61_scalars : scalars_ok e61. Proof. exact I. Qed.
Lemma e62_factors : factors_ok e62 g6.
Proof. split; [split; [exact sb_inv | reflexivity] | exact I]. Qed.
Lemma e62_scalars : scalars_ok e62.
Proof. split; [exact I|]. split; [cbn [sval]; qcneq | split; exact I]. Qed.

(* sq (points 2..5) against sw (whole grid): three common intervals *)
Example NV_C06_exact :
  calc_inter (ssup sq) (ssup sw) = Ok (win 2 6) /\ interval_list (win 2 6) = [2; 3; 4]%N /\
  bilinear (elab e61) (elab e62) sq sw
  = Ok (fsum (fun k => defint (pmul (dsem e61 g6 k (piece sq k)) (dsem e62 g6 k (piece sw k)))
                              (halfwidth g6 k)) (interval_list (win 2 6))) /\
  bilinear (elab e61) (elab e62) sq sw = Ok (qc 3271 1536) /\
  (exists v, bilinear (elab e61) (elab e62) sq sw = Ok v).
Proof.
  assert (Hu : calc_inter (ssup sq) (ssup sw) = Ok (win 2 6)) by vmr.
  split; [exact Hu|]. split; [vmr|]. split; [|split; [okqc|]].
  - exact (C06_exact Qc QcOps Qc_laws e61 e62 sq sw (win 2 6) sq_inv sw_inv eq_refl
             e61_factors e62_factors e61_scalars e62_scalars Hu).
  - exact (C06_total Qc QcOps Qc_laws e61 e62 sq sw sq_inv sw_inv eq_refl
             e61_factors e62_factors e61_scalars e62_scalars).
Qed.

Example NV_C06_swap :
  bilinear (elab e61) (elab e62) sq sw = bilinear (elab e62) (elab e61) sw sq /\
  bilinear (elab e62) (elab e61) sw sq = Ok (qc 3271 1536).
Proof.
  split; [|okqc].
  exact (C06_swap Qc QcOps Qc_laws e61 e62 sq sw sq_inv sw_inv eq_refl
           e61_factors e62_factors e61_scalars e62_scalars).
Qed.

Example NV_C06_add_l :
  exists r v1 v2 v, spl_add sa sq = Ok r /\
    bilinear (elab e61) (elab e62) sa sw = Ok v1 /\ bilinear (elab e61) (elab e62) sq sw = Ok v2 /\
    bilinear (elab e61) (elab e62) r sw = Ok v /\ v = (v1 + v2)%F /\
    v1 = qc 1 288 /\ v2 = qc 3271 1536 /\ v = qc 9829 4608.
Proof.
  destruct (C03_add Qc QcOps Qc_laws sa sq sa_inv sq_inv eq_refl) as (u & r & _ & Hr & _).
  destruct (C06_add_l Qc QcOps Qc_laws e61 e62 sa sq sw r sa_inv sq_inv sw_inv eq_refl eq_refl
              e61_factors e62_factors e61_scalars e62_scalars Hr) as (v1 & v2 & v & H1 & H2 & H3 & H4).
  exists r, v1, v2, v. split; [exact Hr|]. split; [exact H1|]. split; [exact H2|].
  split; [exact H3|]. split; [exact H4|].
  assert (E1 : bilinear (elab e61) (elab e62) sa sw = Ok (qc 1 288)) by okqc.
  assert (E2 : bilinear (elab e61) (elab e62) sq sw = Ok (qc 3271 1536)) by okqc.
  pose proof (ok_inj _ _ _ H1 E1) as ->. pose proof (ok_inj _ _ _ H2 E2) as ->.
  split; [reflexivity|]. split; [reflexivity|]. rewrite H4. qc.
Qed.

Example NV_C06_scale_l :
  exists v v', bilinear (elab e61) (elab e62) sq sw = Ok v /\
    bilinear (elab e61) (elab e62) (spl_scale_l (qc 3 7) sq) sw = Ok v' /\
    v' = (qc 3 7 * v)%F /\ v' = qc 3271 3584.
Proof.
  destruct (C06_scale_l Qc QcOps Qc_laws e61 e62 sq sw (qc 3 7) sq_inv sw_inv eq_refl
              e61_factors e62_factors e61_scalars e62_scalars) as (v & v' & H1 & H2 & H3).
  exists v, v'. split; [exact H1|]. split; [exact H2|]. split; [exact H3|].
  assert (E : bilinear (elab e61) (elab e62) (spl_scale_l (qc 3 7) sq) sw = Ok (qc 3271 3584)) by okqc.
  exact (ok_inj _ _ _ H2 E).
Qed.

(* the plain scalar product on the single common interval of sa and sb; windows
   that touch (sa, sc: the intersection is the one-point window 1..1) or are
   separated (sc, sd: the empty window) give zero; another grid is refused *)
Example NV_C06_scalar_product :
  bilinear OId OId sa sb
  = Ok (fsum (fun k => defint (pmul (piece sa k) (piece sb k)) (halfwidth g6 k)) [2%N]) /\
  bilinear OId OId sa sb = Ok (qc 71 144) /\
  bilinear (elab e61) (elab e62) sa sc = Ok f0 /\ bilinear (elab e61) (elab e62) sc sd = Ok f0 /\
  bilinear (elab e61) (elab e62) sa sh = Throw DIFFERING_GRIDS.
Proof.
  split; [|split; [okqc|split; [|split]]].
  - exact (C06_scalar_product Qc QcOps Qc_laws sa sb (win 2 4) sa_inv sb_inv eq_refl ltac:(vmr)).
  - apply (C06_no_common_interval Qc QcOps Qc_laws e61 e62 sa sc (win 1 2) sa_inv sc_inv eq_refl);
      vmr.
  - apply (C06_no_common_interval Qc QcOps Qc_laws e61 e62 sc sd (win 0 0) sc_inv sd_inv eq_refl);
      vmr.
  - apply (C06_differing Qc QcOps Qc_laws). intros H. symmetry in H. exact (h6_neq H).
Qed.

(* the interval kernel: int_{-1/2}^{1/2} (1 + 2u + 3u^2) du = 5/4 *)
Example NV_C06_kernel :
  bi_kernel [qc 1 1; qc 2 1] [qc 1 1; qc 0 1; qc 3 1; qc 0 1] (qc 1 2)
  = Ok (defint (pmul [qc 1 1; qc 2 1] [qc 1 1; qc 0 1; qc 3 1; qc 0 1]) (qc 1 2)) /\
  (exists P, pderiv P = [qc 1 1; qc 2 1; qc 3 1] /\
             defint [qc 1 1; qc 2 1; qc 3 1] (qc 1 2) = (peval P (qc 1 2) - peval P (- qc 1 2))%F) /\
  defint [qc 1 1; qc 2 1; qc 3 1] (qc 1 2) = qc 5 4.
Proof.
  split; [apply (C06_kernel Qc QcOps Qc_laws); discriminate|].
  split; [apply (C06_defint_is_integral Qc QcOps Qc_laws) | qc].
Qed.

(* ====================================================================== *)
(* C07                                                                     *)
(* ====================================================================== *)

Example NV_C07_exact :
  linear (elab e4) sa
  = Ok (fsum (fun k => defint (dsem e4 g6 k (piece sa k)) (halfwidth g6 k)) (interval_list (ssup sa))) /\
  interval_list (ssup sa) = [1; 2]%N /\ linear (elab e4) sa = Ok (qc 205 288) /\
  (* the integral of sw over the whole grid, interval by interval *)
  linear (elab EId) sw = Ok (qc 5 12) /\
  map (fun k => this (defint (piece sw k) (halfwidth g6 k))) [0; 1; 2; 3; 4]%N
  = [1 # 2; 2; 1 # 6; -3; 3 # 4]%Q /\
  linear (elab e4) sz = Ok f0.
Proof.
  split; [exact (C07_exact Qc QcOps Qc_laws e4 sa sa_inv e4_factors e4_scalars)|].
  split; [vmr|]. split; [okqc|]. split; [okqc|]. split; [vmr|].
  apply (C07_no_interval Qc QcOps e4 sz sz_inv). vmr.
Qed.

Example NV_C07_add_scale :
  (exists r v1 v2 v, spl_add sa sq = Ok r /\ linear (elab (EPos 1)) sa = Ok v1 /\
     linear (elab (EPos 1)) sq = Ok v2 /\ linear (elab (EPos 1)) r = Ok v /\ v = (v1 + v2)%F /\
     v1 = qc 1745 1152 /\ v2 = qc 11969 768 /\ v = qc 39397 2304) /\
  (exists v v', linear (elab e4) sa = Ok v /\ linear (elab e4) (spl_scale_l (qc 3 7) sa) = Ok v' /\
     v' = (qc 3 7 * v)%F /\ v = qc 205 288).
Proof.
  split.
  - destruct (C03_add Qc QcOps Qc_laws sa sq sa_inv sq_inv eq_refl) as (u & r & _ & Hr & _).
    destruct (C07_add Qc QcOps Qc_laws (EPos 1) sa sq r sa_inv sq_inv eq_refl I I Hr)
      as (v1 & v2 & v & H1 & H2 & H3 & H4).
    exists r, v1, v2, v. split; [exact Hr|]. split; [exact H1|]. split; [exact H2|].
    split; [exact H3|]. split; [exact H4|].
    assert (E1 : linear (elab (EPos 1)) sa = Ok (qc 1745 1152)) by okqc.
    assert (E2 : linear (elab (EPos 1)) sq = Ok (qc 11969 768)) by okqc.
    pose proof (ok_inj _ _ _ H1 E1) as ->. pose proof (ok_inj _ _ _ H2 E2) as ->.
    split; [reflexivity|]. split; [reflexivity|]. rewrite H4. qc.
  - destruct (C07_scale Qc QcOps Qc_laws e4 sa (qc 3 7) sa_inv e4_factors e4_scalars)
      as (v & v' & H1 & H2 & H3).
    exists v, v'. split; [exact H1|]. split; [exact H2|]. split; [exact H3|].
    assert (E : linear (elab e4) sa = Ok (qc 205 288)) by okqc.
    exact (ok_inj _ _ _ H1 E).
Qed.

Example NV_C07_bilinear_is_linear_of_product :
  exists ra rb p v, apply (elab e61) sq = Ok ra /\ apply (elab e62) sw = Ok rb /\
    spl_mul ra rb = Ok p /\ bilinear (elab e61) (elab e62) sq sw = Ok v /\ linear OId p = Ok v /\
    v = qc 3271 1536 /\ ssup p = win 2 6 /\ sord p = 2%nat.
Proof.
  destruct (C07_bilinear_is_linear_of_product Qc QcOps Qc_laws e61 e62 sq sw sq_inv sw_inv eq_refl
              e61_factors e62_factors e61_scalars e62_scalars)
    as (ra & rb & p & v & H1 & H2 & H3 & H4 & H5).
  exists ra, rb, p, v. split; [exact H1|]. split; [exact H2|]. split; [exact H3|].
  split; [exact H4|]. split; [exact H5|].
  assert (E : bilinear (elab e61) (elab e62) sq sw = Ok (qc 3271 1536)) by okqc.
  split; [exact (ok_inj _ _ _ H4 E)|].
  subst_ok H1. subst_ok H2. subst_ok H3. split; vmr.
Qed.

Example NV_C07_kernel :
  lin_kernel [qc 1 1; qc 2 1; qc 3 1] (qc 1 2) = Ok (defint [qc 1 1; qc 2 1; qc 3 1] (qc 1 2)) /\
  lin_kernel [qc 1 1; qc 2 1; qc 3 1] (qc 1 2) = Ok (qc 5 4).
Proof. split; [apply (C07_kernel Qc QcOps Qc_laws); discriminate | okqc]. Qed.

(* ====================================================================== *)
(* C08                                                                     *)
(* ====================================================================== *)

Lemma sh_grid_neq (s : spline Qc) : sgridp s = g6 -> sgridp s <> sgridp sh.
Proof. intros -> H. symmetry in H. exact (h6_neq H). Qed.

(* sh lives on the grid h6, which differs from g6 in its last point only *)
Example NV_C08_functions :
  spl_add sb sh = Throw DIFFERING_GRIDS /\ spl_sub sb sh = Throw DIFFERING_GRIDS /\
  spl_mul sb sh = Throw DIFFERING_GRIDS /\ spl_iadd sb sh = Throw DIFFERING_GRIDS /\
  lin_comb [qc 1 1; qc 2 1; qc 3 1] [sb; sh; se] = Throw DIFFERING_GRIDS /\
  bilinear (elab e61) (elab e62) sb sh = Throw DIFFERING_GRIDS /\
  integrate (fun _ f a b => ((b - a) * f a)%F) 2 (fun x => x) sb sh = Throw DIFFERING_GRIDS /\
  apply (OSpl sh) sb = Throw DIFFERING_GRIDS /\
  calc_union (ssup sb) (ssup sh) = Throw DIFFERING_GRIDS /\
  calc_inter (ssup sb) (ssup sh) = Throw DIFFERING_GRIDS /\
  gen_ctor2 nv_ks h6 = Throw INCONSISTENT_DATA.
Proof.
  pose proof (sh_grid_neq sb eq_refl) as Hn.
  split; [exact (C08_add Qc QcOps Qc_laws sb sh Hn)|].
  split; [exact (C08_sub Qc QcOps Qc_laws sb sh Hn)|].
  split; [exact (C08_mul Qc QcOps Qc_laws sb sh Hn)|].
  split; [apply (C08_iadd Qc QcOps Qc_laws sb sh); [vm_compute; lia | exact Hn]|].
  split; [apply (C08_lin_comb Qc QcOps Qc_laws [qc 1 1; qc 2 1; qc 3 1] sb [sh; se] eq_refl);
          exists sh; split; [right; left; reflexivity | exact h6_neq]|].
  split; [exact (C08_bilinear Qc QcOps Qc_laws _ _ sb sh Hn)|].
  split; [exact (C08_integrate Qc QcOps Qc_laws _ 2 _ sb sh Hn)|].
  split; [apply (C08_spline_factor Qc QcOps Qc_laws sh sb sb_inv sh_inv); [exact h6_neq | nfact]|].
  split; [exact (C08_union Qc QcOps Qc_laws (ssup sb) (ssup sh) Hn)|].
  split; [exact (C08_intersection Qc QcOps Qc_laws (ssup sb) (ssup sh) Hn)|].
  apply (C08_generator Qc QcOps Qc_laws nv_ks h6 nv_ks_nondecreasing nv_ks_two_distinct nv_ks_len).
  rewrite nv_ks_grid. exact h6_neq.
Qed.

(* the same at the level of the pool: two grids, a window and a spline on each;
   the refused calls leave the state as it was *)
Definition st8 : state Qc :=
  fst (run gauss_solve []
         [GridNew 0 g6; GridNew 1 h6; SupNew 2 0 2 6; SupNew 3 1 2 5;
          SplNew 4 1 2 (scoefs sb); SplNew 5 1 3 (scoefs sh)]).

Example NV_C08_steps :
  lookup st8 4 = Some (VSpl sb) /\ lookup st8 5 = Some (VSpl sh) /\
  step gauss_solve st8 (SplAdd 9 4 5) = (st8, Throw DIFFERING_GRIDS) /\
  step gauss_solve st8 (SplMul 9 4 5) = (st8, Throw DIFFERING_GRIDS) /\
  step gauss_solve st8 (SplISub 4 5) = (st8, Throw DIFFERING_GRIDS) /\
  step gauss_solve st8 (SupUnion 9 2 3) = (st8, Throw DIFFERING_GRIDS) /\
  step gauss_solve st8 (Bilin (PDer 1) (PSpl 4) 4 5) = (st8, Throw DIFFERING_GRIDS) /\
  step gauss_solve st8 (Gen2 10 2 nv_ks 1) = (st8, Throw INCONSISTENT_DATA) /\
  (* equal grids: the same call succeeds *)
  snd (step gauss_solve st8 (SplAdd 9 4 4)) = Ok [TT Tvoid].
Proof.
  assert (H4 : lookup st8 4 = Some (VSpl sb)) by vmr.
  assert (H5 : lookup st8 5 = Some (VSpl sh)) by vmr.
  pose proof (sh_grid_neq sb eq_refl) as Hn.
  split; [exact H4|]. split; [exact H5|].
  split; [exact (C08_step_add Qc QcOps Qc_laws gauss_solve st8 9 4 5 sb sh H4 H5 Hn)|].
  split; [exact (C08_step_mul Qc QcOps Qc_laws gauss_solve st8 9 4 5 sb sh H4 H5 Hn)|].
  split; [apply (C08_step_isub Qc QcOps Qc_laws gauss_solve st8 4 5 sb sh H4 H5);
          [vm_compute; lia | exact Hn]|].
  split; [apply (C08_step_union Qc QcOps Qc_laws gauss_solve st8 9 2 3 (ssup sb) (ssup sh));
          [vmr | vmr | exact Hn]|].
  split; [apply (C08_step_bilin Qc QcOps Qc_laws gauss_solve st8 (PDer 1) (PSpl 4) 4 5 sb sh);
          [split; [exact I | reflexivity] | split; [exists sb; exact H4 | reflexivity]
          | exact H4 | exact H5 | exact Hn]|].
  split; [apply (C08_step_gen2 Qc QcOps Qc_laws gauss_solve st8 10 2 nv_ks 1 h6);
          [vmr | exact nv_ks_nondecreasing | exact nv_ks_two_distinct | exact nv_ks_len
          | rewrite nv_ks_grid; exact h6_neq]|].
  vmr.
Qed.

(* ====================================================================== *)
(* C09, C10, C14: one pool history                                         *)
(* ====================================================================== *)

Definition nv_y : list Qc := [qc 1 1; qc (-2) 1; qc 1 2; qc 3 1].
Definition nv_bs : list (boundary Qc) := [mkBnd FIRST 2 (qc 1 3); mkBnd LAST 1 (qc (-1) 1)].

(* two grids; windows; sa (slot 6), sb (7), sh (8) built through the public
   constructors; a sum; a call refused for differing grids and one refused for
   an invalid window; the in-place updates sa += sb, sa *= 3; sb moved to slot
   12 and the moved-from object shown and evaluated; sa /= 1/2; an operator
   applied; forms; checked accesses at the indices 2^64-1 and 7; the generator;
   cubic interpolation; a self move-assignment; copy, linear combination,
   comparison, in-place subtraction *)
Definition nv_hist : list (op Qc) :=
  [GridNew 0 g6; GridNew 1 h6;
   SupNew 2 0 1 4; SupNew 3 0 2 6; SupNew 4 1 2 5; SupNew 5 0 1 5;
   SplNew 6 2 2 (scoefs sa); SplNew 7 1 3 (scoefs sb); SplNew 8 1 4 (scoefs sh);
   SplAdd 9 6 7;
   SplAdd 10 6 8;
   SupNew 11 0 4 2;
   SplIAdd 6 7; SplIMul 6 (qc 3 1);
   SplMove 12 7; Show 7; SplEval 7 (qc 9 5);
   SplIDiv 6 (qc 1 2);
   Apply 13 (PDivS (PMul (PSpl 12) (PDer 1)) (ScI (-2))) 6;
   Bilin (PDer 1) (PSpl 12) 6 9; Lin (PPos 1) 6;
   SupAt 2 18446744073709551615; SupIvl 3 18446744073709551615; GridAt 0 7;
   Gen1 20 2 nv_ks;
   Interp 30 3 5 nv_y nv_bs; SplEval 30 (qc 1 1);
   SupMoveAssign 3 3; SplCopy 14 9; SplLinComb 15 [qc 2 1; qc (-1) 1] [12; 7]%nat;
   SplEq 9 14; SplISub 9 12].

Definition kind {A} (x : outcome A) : option (err + ub) :=
  match x with Ok _ => None | Throw e => Some (inl e) | UB k => Some (inr k) end.

Ltac typed_fin :=
  first [ reflexivity | exact I | discriminate | nfact | qcneq | (vm_compute; lia)
        | (repeat constructor; fail) ].
Ltac typed_tac :=
  cbn [op_typed]; unfold is_grid, is_sup, is_spl, pexpr_typed; cbn [slots_ok divisors_ok];
  unfold is_spl;
  repeat first [split | eexists]; try typed_fin.
(* one step of [typed_history]: the operation is well-typed in the current
   state (solved by [tac]); the next state is computed *)
Ltac th_step_with tac :=
  match goal with
  | |- typed_history ?solver ?st (?o :: ?r) =>
      change (op_typed st o /\ typed_history solver (fst (step solver st o)) r);
      split; [ tac |
        let st' := eval vm_compute in (fst (step solver st o)) in
        replace (fst (step solver st o)) with st' by (vm_compute; reflexivity) ]
  end.
Ltac th_step := th_step_with typed_tac.

Lemma nv_hist_typed : typed_history gauss_solve [] nv_hist.
Proof.
  unfold nv_hist. do 29 th_step.
  (* SplLinComb: both operands are splines of order 1 *)
  th_step_with ltac:(cbn [op_typed]; split; [|split; vmr];
                     eexists; split; [repeat constructor|];
                     intros s s' [<-|[<-|[]]] [<-|[<-|[]]]; reflexivity).
  do 2 th_step. exact I.
Qed.

Example NV_C09_no_ub_history :
  typed_history gauss_solve [] nv_hist /\
  Forall clean (snd (run gauss_solve [] nv_hist)) /\ StInv (fst (run gauss_solve [] nv_hist)) /\
  (* what the calls returned: three library exceptions, everything else succeeded *)
  map kind (snd (run gauss_solve [] nv_hist))
  = [None; None; None; None; None; None; None; None; None; None;
     Some (inl DIFFERING_GRIDS); Some (inl INCONSISTENT_DATA); None; None;
     None; None; None; None; None; None; None;
     Some (inl INVALID_ACCESS); None; Some (inl INVALID_ACCESS); None;
     None; None; None; None; None; None; None] /\
  (* slot 6 after sa += sb; sa *= 3; sa /= 1/2 *)
  (exists r, lookup (fst (run gauss_solve [] nv_hist)) 6 = Some (VSpl r) /\
     coefsQ r = [[6; -12; 18]; [15; 2; -2]; [-6; 15; 0]; [9 # 2; -12; 0]]%Q).
Proof.
  split; [exact nv_hist_typed|].
  destruct (C09_no_ub_history Qc QcOps Qc_laws gauss_solve (@gauss_solve_len Qc QcOps) nv_hist []
              (C10_init Qc QcOps) nv_hist_typed) as [H1 H2].
  split; [exact H1|]. split; [exact H2|]. split; [vmr|].
  eexists. split; vmr.
Qed.

(* one step, with the model's solver, in the state reached after 14 operations:
   the state invariant holds there (C10) and the call is well-typed *)
Definition st14 : state Qc := fst (run gauss_solve [] (firstn 14 nv_hist)).

Lemma st14_inv : StInv st14.
Proof.
  apply (C10_history_with_model_solver (firstn 14 nv_hist)).
  cbn [firstn nv_hist].
  repeat (apply Forall_cons; [first [exact I | vmr]|]). apply Forall_nil.
Qed.

Example NV_C09_no_ub :
  match snd (step gauss_solve st14 (Bilin (PDer 1) (PSpl 7) 6 9)) with
  | Throw BadOptionalAccess | Throw StdOutOfRange | UB _ => False
  | _ => True
  end /\
  snd (step gauss_solve st14 (Bilin (PDer 1) (PSpl 7) 6 9)) = Ok [TF (qc 130327 8640)].
Proof.
  split.
  - apply (C09_no_ub_with_model_solver st14 _ st14_inv).
    split; [split; [exact I | reflexivity]|].
    split; [split; [eexists; vmr | reflexivity]|]. split; eexists; vmr.
  - vm_compute. apply (f_equal (@Ok (obs Qc))). f_equal. f_equal. qc.
Qed.

(* index conversions and checked access at the largest index value *)
Example NV_C09_index :
  interval_index (win 1 4) 18446744073709551615 = None /\
  rel_from_abs (win 1 4) 18446744073709551615 = None /\
  abs_from_rel (win 1 4) 18446744073709551615 = Throw UNDETERMINED /\
  sup_at (win 1 4) 18446744073709551615 = Throw INVALID_ACCESS /\
  sup_at (win 1 4) 2 = Ok (qc 2 1) /\ abs_from_rel (win 1 4) 2 = Ok 3%N /\
  interval_index (win 1 4) 3 = None /\ interval_index (win 1 4) 2 = Some 1%N.
Proof.
  assert (Hs : SInv (win 1 4)) by sinv.
  split; [rewrite (C09_interval_index Qc (win 1 4) _ Hs) by vmr; vmr|].
  split; [rewrite (C09_relative_index Qc (win 1 4) _ Hs) by vmr; vmr|].
  split; [rewrite (C09_absolute_index Qc (win 1 4) _ Hs) by vmr; vmr|].
  (* the right-hand side of C09_support_at at 2^64-1 must not be evaluated (it
     converts the index to a unary number): it is None because the index is
     beyond the length of the view *)
  split; [rewrite (C09_support_at Qc (win 1 4) _ Hs) by vmr;
          rewrite nnth_none by nfact; reflexivity|].
  split; [rewrite (C09_support_at Qc (win 1 4) _ Hs) by vmr; vmr|].
  split; [rewrite (C09_absolute_index Qc (win 1 4) _ Hs) by vmr; vmr|].
  split; [rewrite (C09_interval_index Qc (win 1 4) _ Hs) by vmr; vmr|].
  rewrite (C09_interval_index Qc (win 1 4) _ Hs) by vmr; vmr.
Qed.

Example NV_C09_transform_total :
  (exists t, transform (elab e5) c5 g6 3 = Ok t /\ t <> [] /\ length t = 6%nat) /\
  transform (elab (EMul (ESpl sh) (EDer 1))) c5 g6 3 = Throw DIFFERING_GRIDS.
Proof.
  split.
  - destruct (C09_transform_total Qc QcOps Qc_laws e5 c5 g6 3) as [(t & H1 & H2 & H3) | H];
      [split; [split; [exact se_inv | exact I] | exact I] | exact g6_inv | vmr | discriminate | |].
    + exists t. auto.
    + exfalso. revert H. vm_compute. discriminate.
  - vmr.
Qed.

Lemma nv_hist_sized : Forall op_sized nv_hist.
Proof.
  unfold nv_hist. repeat (apply Forall_cons; [first [exact I | vmr]|]). apply Forall_nil.
Qed.

Example NV_C10_history :
  Forall op_sized nv_hist /\ StInv (fst (run gauss_solve [] nv_hist)) /\
  (* in particular the moved-from slot 7 and the interpolant in slot 30 are valid *)
  (exists m, lookup (fst (run gauss_solve [] nv_hist)) 7 = Some (VSpl m) /\ SplInv m /\
             m = mkSpl (sup_empty_on g6) 1 []) /\
  (exists s, lookup (fst (run gauss_solve [] nv_hist)) 30 = Some (VSpl s) /\ SplInv s /\
             sord s = 3%nat /\ ssup s = win 1 5).
Proof.
  pose proof (C10_history Qc QcOps Qc_laws gauss_solve (@gauss_solve_len Qc QcOps) nv_hist
                nv_hist_sized) as H.
  split; [exact nv_hist_sized|]. split; [exact H|]. split.
  - eexists. split; [vmr|]. split; [|vmr].
    exact (H 7%nat _ ltac:(vmr)).
  - eexists. split; [vmr|]. split; [|split; vmr].
    exact (H 30%nat _ ltac:(vmr)).
Qed.

(* the move of sb from slot 7 to slot 12 (operation 14 of the history) *)
Example NV_C10_moved_from_spline :
  lookup st14 7 = Some (VSpl sb) /\
  lookup (fst (step gauss_solve st14 (SplMove 12 7))) 7
  = Some (VSpl (mkSpl (sup_empty_on g6) 1 [])) /\
  lookup (fst (step gauss_solve st14 (SplMove 12 7))) 12 = Some (VSpl sb) /\
  SplInv (mkSpl (sup_empty_on g6) 1 []) /\
  StInv (fst (step gauss_solve st14 (SplMove 12 7))) /\
  spl_eval (mkSpl (sup_empty_on g6) 1 []) (qc 9 5) = Ok f0.
Proof.
  assert (H7 : lookup st14 7 = Some (VSpl sb)) by vmr.
  destruct (C10_moved_from_spline Qc QcOps gauss_solve st14 12 7 sb ltac:(discriminate) H7)
    as [H1 H2].
  destruct (C10_moved_from_spline_valid Qc QcOps sb sb_inv) as (H3 & _).
  split; [exact H7|]. split; [exact H1|]. split; [exact H2|]. split; [exact H3|].
  split; [|apply (C02_no_interval Qc QcOps _ _ H3); vmr].
  apply (C10_step Qc QcOps Qc_laws gauss_solve (@gauss_solve_len Qc QcOps) st14 _ st14_inv). exact I.
Qed.

(* C14 *)
Lemma not_targeted (i : nat) (ops : list (op Qc)) :
  forallb (fun o => negb (existsb (Nat.eqb i) (targets o))) ops = true ->
  forall o, In o ops -> ~ In i (targets o).
Proof.
  intros H o Ho Hi. rewrite forallb_forall in H. specialize (H o Ho).
  apply negb_true_iff in H. assert (E : existsb (Nat.eqb i) (targets o) = true).
  { apply existsb_exists. exists i. split; [exact Hi | apply Nat.eqb_refl]. }
  congruence.
Qed.

(* slot 8 (sh) is written by operation 8 and by nothing after it *)
Definition st9 : state Qc := fst (run gauss_solve [] (firstn 9 nv_hist)).

Example NV_C14_frame_history :
  lookup (fst (run gauss_solve st9 (skipn 9 nv_hist))) 8 = lookup st9 8 /\
  lookup st9 8 = Some (VSpl sh) /\
  fst (run gauss_solve st9 (skipn 9 nv_hist)) = fst (run gauss_solve [] nv_hist).
Proof.
  split; [|split; vmr].
  apply (C14_frame_history Qc QcOps gauss_solve). apply not_targeted. vmr.
Qed.

Example NV_C14_frame :
  (* sa += sb writes slot 6 only *)
  lookup (fst (step gauss_solve st14 (SplIAdd 6 7))) 7 = lookup st14 7 /\
  lookup (fst (step gauss_solve st14 (SplIAdd 6 7))) 6 <> lookup st14 6 /\
  (* a refused call changes nothing at all *)
  snd (step gauss_solve st14 (SplAdd 10 6 8)) = Throw DIFFERING_GRIDS /\
  fst (step gauss_solve st14 (SplAdd 10 6 8)) = st14 /\
  (* an observer changes nothing *)
  (forall i, lookup (fst (step gauss_solve st14 (SplEval 6 (qc 9 5)))) i = lookup st14 i) /\
  (* a copy is independent of its source *)
  lookup (fst (step gauss_solve (fst (step gauss_solve st14 (SplCopy 14 9))) (SplIMul 14 (qc 2 1)))) 9
  = lookup st14 9 /\
  lookup (fst (step gauss_solve st14 (SplCopy 14 9))) 14 = lookup st14 9.
Proof.
  split; [apply (C14_frame Qc QcOps gauss_solve); cbn [targets In]; intros [H|[]]; discriminate H|].
  split; [vm_compute; discriminate|].
  assert (Ht : snd (step gauss_solve st14 (SplAdd 10 6 8)) = Throw DIFFERING_GRIDS) by vmr.
  split; [exact Ht|].
  split; [exact (C14_throw_changes_nothing Qc QcOps gauss_solve st14 _ _ Ht)|].
  split; [exact (C14_observers_change_nothing Qc QcOps gauss_solve st14 (SplEval 6 (qc 9 5)) eq_refl)|].
  split.
  - apply (C14_copy_independent Qc QcOps gauss_solve st14 14 9); [discriminate|].
    cbn [targets In]. intros [H|[]]; discriminate H.
  - destruct (lookup st14 9) as [[g|s|s]|] eqn:E; try (revert E; vm_compute; discriminate).
    apply (C14_copy_value Qc QcOps gauss_solve st14 14 9 s E).
    intros t Ht'. revert Ht'. vm_compute. discriminate.
Qed.

Example NV_C14_writes_are_targets :
  exists ws r, eval_op gauss_solve st14 (SplMove 12 7) = Ok (ws, r) /\ map fst ws = [7; 12]%nat /\
    forall w, In w ws -> In (fst w) (targets (SplMove (F:=Qc) 12 7)).
Proof.
  destruct (eval_op gauss_solve st14 (SplMove 12 7)) as [[ws r]| |] eqn:E;
    try (revert E; vm_compute; discriminate).
  exists ws, r. split; [reflexivity|]. split.
  - revert E. vm_compute. intros [= <- _]. reflexivity.
  - exact (C14_writes_are_targets Qc QcOps gauss_solve st14 _ ws r E).
Qed.

(* ====================================================================== *)
(* C11                                                                     *)
(* ====================================================================== *)

Example NV_C11_grid :
  (exists g, grid_ctor g6 = Ok g) /\ grid_ctor g6 = Ok g6 /\
  grid_ctor [qc 0 1; qc 1 2; qc 1 2; qc 2 1] = Throw INCONSISTENT_DATA /\
  grid_ctor [qc 3 1] = Throw MISSING_DATA /\
  grid_ctor [Fin (qc 0 1); NaN; Fin (qc 2 1)] = Throw INCONSISTENT_DATA.
Proof.
  split; [apply (C11_grid_iff Qc QcOps g6); split; [nfact | exact (proj2 (proj2 g6_inv))]|].
  split; [vmr|]. split; [|split].
  - apply (C11_grid_not_increasing Qc QcOps). split; [nfact|].
    intros H. apply steadily_increasing in H. revert H. vm_compute. discriminate.
  - apply (C11_grid_too_short Qc QcOps). vmr.
  - apply C11_grid_nan_inconsistent; [vm_compute; lia | right; left; reflexivity].
Qed.

Example NV_C11_support :
  sup_ctor g6 1 4 = Ok (win 1 4) /\ sup_ctor g6 0 0 = Ok (win 0 0) /\
  sup_ctor g6 4 2 = Throw INCONSISTENT_DATA /\ sup_ctor g6 3 7 = Throw INCONSISTENT_DATA /\
  sup_ctor g6 2 2 = Throw INCONSISTENT_DATA.
Proof.
  split; [apply (C11_support_accepted Qc g6); right; split; nfact|].
  split; [apply (C11_support_accepted Qc g6); left; split; reflexivity|].
  split; [|split]; apply (C11_support_refused Qc g6); intros [[H _]|[H1 H2]];
    first [discriminate H | revert H1; nfact | revert H2; nfact].
Qed.

Example NV_C11_spline :
  spl_ctor 2 (win 1 4) (scoefs sa) = Ok sa /\
  spl_ctor 2 (win 1 4) [[qc 1 1; qc 2 1; qc 3 1]] = Throw INCONSISTENT_DATA /\
  spl_ctor 1 (win 0 0) [] = Ok sz /\
  spl_ctor 1 (win 2 3) [] = Ok (mkSpl (win 2 3) 1 []).
Proof.
  split; [apply (C11_spline_accepted Qc 2 (win 1 4)); [sinv | vmr]|].
  split; [apply (C11_spline_refused Qc 2 (win 1 4)); [sinv | nfact]|].
  split; [apply (C11_spline_accepted Qc 1 (win 0 0)); [sinv | vmr]|].
  apply (C11_spline_accepted Qc 1 (win 2 3)); [sinv | vmr].
Qed.

Example NV_C11_generator :
  (exists gn, gen_ctor1 nv_ks = Ok gn) /\
  gen_ctor1 [qc 1 1; qc 1 1; qc 1 1] = Throw MISSING_DATA /\
  gen_ctor1 [qc 0 1; qc 2 1; qc 1 1] = Throw INCONSISTENT_DATA /\
  gen_ctor2 nv_ks g6 = Ok (mkGen g6 nv_ks) /\ gen_ctor2 nv_ks h6 = Throw INCONSISTENT_DATA /\
  generate_bsplines 9 nv_ks = Throw UNDETERMINED /\
  (exists l, generate_bsplines 1 nv_ks = Ok l /\ length l = 7%nat /\ Forall SplInv l).
Proof.
  split; [apply (C11_generator_iff Qc QcOps Qc_laws nv_ks nv_ks_len);
          split; [exact nv_ks_nondecreasing | exact nv_ks_two_distinct]|].
  split; [apply (C11_generator_constant Qc QcOps Qc_laws)|].
  { intros (i & j & a & b & Ha & Hb & Hab). apply Hab.
    assert (E : forall i a, nth_error [qc 1 1; qc 1 1; qc 1 1] i = Some a -> a = qc 1 1).
    { intros [|[|[|[|k]]]] c Hc; cbn [nth_error] in Hc; try discriminate Hc; congruence. }
    rewrite (E _ _ Ha), (E _ _ Hb). reflexivity. }
  split; [apply (C11_generator_descent Qc QcOps Qc_laws)|].
  { exists 0%nat, 1%nat, (qc 0 1), (qc 2 1). split; [reflexivity|]. split; [reflexivity|]. qcneq. }
  { intros H. specialize (H 1%nat (qc 2 1) (qc 1 1) eq_refl eq_refl). revert H. vm_compute. discriminate. }
  split; [rewrite (C11_generator_grid_match Qc QcOps Qc_laws nv_ks g6 nv_ks_nondecreasing
                     nv_ks_two_distinct nv_ks_len (eq_sym nv_ks_grid)), nv_ks_grid; reflexivity|].
  split; [apply (C11_generator_grid_mismatch Qc QcOps Qc_laws nv_ks h6 nv_ks_nondecreasing
                   nv_ks_two_distinct nv_ks_len); rewrite nv_ks_grid; exact h6_neq|].
  split; [apply (C11_generate_too_few Qc QcOps Qc_laws nv_ks 9 nv_ks_nondecreasing
                   nv_ks_two_distinct nv_ks_len); vm_compute; lia|].
  destruct (C11_generate_valid Qc QcOps Qc_laws nv_ks 1 nv_ks_nondecreasing nv_ks_two_distinct
              nv_ks_len) as (l & H1 & H2 & H3 & _); [vm_compute; lia|].
  exists l. auto.
Qed.

Example NV_C11_lincomb :
  lin_comb [qc 1 1; qc 2 1] [sb; se; sc] = Throw INCONSISTENT_DATA /\
  @lin_comb Qc QcOps [] [] = Throw MISSING_DATA /\
  lin_comb [qc 1 1; qc 2 1; qc 3 1] [sb; sh; se] = Throw DIFFERING_GRIDS /\
  (exists r, lin_comb [qc 2 1; qc (-1) 1; qc 1 3] [sb; se; sc] = Ok r /\ SplInv r /\ sord r = 1%nat).
Proof.
  split; [apply (C11_lincomb_count Qc QcOps); discriminate|].
  split; [apply (C11_lincomb_empty Qc QcOps)|].
  split; [apply (C11_lincomb_differing Qc QcOps Qc_laws [qc 1 1; qc 2 1; qc 3 1] sb [sh; se] eq_refl);
          exists sh; split; [right; left; reflexivity | exact h6_neq]|].
  destruct (C11_lincomb_valid Qc QcOps Qc_laws [qc 2 1; qc (-1) 1; qc 1 3] sb [se; sc] eq_refl)
    as (r & H1 & H2 & H3 & _).
  { apply Forall_cons; [exact sb_inv|]. apply Forall_cons; [exact se_inv|].
    apply Forall_cons; [exact sc_inv | apply Forall_nil]. }
  { intros s [<- | [<- | [<- | []]]]; split; reflexivity. }
  exists r. auto.
Qed.

Lemma nv_bs_ok : bnd_ok 3 nv_bs.
Proof. apply Forall_cons; [cbn; lia|]. apply Forall_cons; [cbn; lia | apply Forall_nil]. Qed.

Example NV_C11_interp :
  interp_system 3 (win 1 5) [qc 1 1; qc 2 1; qc 3 1] nv_bs = Throw INCONSISTENT_DATA /\
  interp_system 3 (win 2 3) [qc 1 1] nv_bs = Throw UNDETERMINED /\
  interp_system 3 (win 1 5) nv_y [mkBnd FIRST 4 (qc 1 3); mkBnd LAST 1 (qc (-1) 1)] = Throw UNDETERMINED /\
  interp_system 3 (win 1 5) nv_y [mkBnd FIRST 2 (qc 1 3); mkBnd LAST 0 (qc (-1) 1)] = Throw UNDETERMINED /\
  (exists rows, interp_system 3 (win 1 5) nv_y nv_bs = Ok rows /\ length rows = 12%nat).
Proof.
  assert (Hs : SInv (win 1 5)) by sinv.
  split; [apply (C11_interp_count Qc QcOps 3 (win 1 5) _ nv_bs Hs); nfact|].
  split; [apply (C11_interp_few Qc QcOps 3 (win 2 3)); [sinv | vmr | vmr]|].
  split; [apply (C11_interp_bad_derivative Qc QcOps 3 (win 1 5) nv_y _ Hs g6_inv); [vmr | nfact|];
          intros H; apply Forall_inv in H; cbn in H; lia|].
  split; [apply (C11_interp_bad_derivative Qc QcOps 3 (win 1 5) nv_y _ Hs g6_inv); [vmr | nfact|];
          intros H; apply Forall_inv_tail, Forall_inv in H; cbn in H; lia|].
  exact (C11_interp_valid Qc QcOps 3 (win 1 5) nv_y nv_bs Hs g6_inv ltac:(lia) ltac:(vmr)
           ltac:(nfact) nv_bs_ok eq_refl).
Qed.

(* ====================================================================== *)
(* C12: cubic interpolation of four nodes, s''(first) = 1/3, s'(last) = -1   *)
(* ====================================================================== *)

Definition nv_rows : list (row Qc) :=
  match interp_system 3 (win 1 5) nv_y nv_bs with Ok r => r | _ => [] end.
Lemma nv_rows_eq : interp_system 3 (win 1 5) nv_y nv_bs = Ok nv_rows.
Proof. vmr. Qed.
(* the solution vector produced by the model's Gauss solver *)
Definition nv_c : list Qc := gauss_solve 12 nv_rows.

Lemma solves_of_check (rows : list (row Qc)) (c : list Qc) :
  forallb (fun r => Qc_eqb (row_apply r c) (rrhs r)) rows = true -> solves rows c.
Proof. intros H r Hr. rewrite forallb_forall in H. apply qc_eq, H, Hr. Qed.

Lemma nv_c_solves : solves nv_rows nv_c.
Proof. apply solves_of_check. vmr. Qed.
Lemma nv_c_solves' : solves nv_rows (gauss_solve 12 nv_rows).
Proof. apply solves_of_check. vmr. Qed.

Example NV_C12_system_ok :
  exists rows, interp_system 3 (win 1 5) nv_y nv_bs = Ok rows /\ length rows = 12%nat.
Proof.
  exact (C12_system_ok Qc QcOps 3 (win 1 5) nv_y nv_bs ltac:(sinv) g6_inv ltac:(lia) ltac:(vmr)
           ltac:(nfact) nv_bs_ok eq_refl).
Qed.

Example NV_C12_spec :
  exists s, interp_build 3 (win 1 5) nv_c = Ok s /\ SplInv s /\ ssup s = win 1 5 /\ sord s = 3%nat /\
    coefsQ s = [[-2881 # 1824; -3367 # 912; 1969 # 456; 631 # 228];
                [-6685 # 7296; 10003 # 1824; 1213 # 456; -883 # 114];
                [7157 # 2432; 857 # 608; -967 # 456; 469 # 1026]]%Q /\
    (* the nodes 1/2, 3/2, 2, 7/2 are interpolated, from both sides *)
    peval (piece s 1) (qc 1 2 - mid g6 1)%F = qc 1 1 /\
    peval (piece s 1) (qc 3 2 - mid g6 1)%F = qc (-2) 1 /\
    peval (piece s 2) (qc 3 2 - mid g6 2)%F = qc (-2) 1 /\
    peval (piece s 2) (qc 2 1 - mid g6 2)%F = qc 1 2 /\
    peval (piece s 3) (qc 2 1 - mid g6 3)%F = qc 1 2 /\
    peval (piece s 3) (qc 7 2 - mid g6 3)%F = qc 3 1 /\
    (* first and second derivatives are continuous at the interior nodes *)
    dval (piece s 1) 1 (qc 3 2) (mid g6 1) = dval (piece s 2) 1 (qc 3 2) (mid g6 2) /\
    dval (piece s 1) 2 (qc 3 2) (mid g6 1) = dval (piece s 2) 2 (qc 3 2) (mid g6 2) /\
    dval (piece s 2) 1 (qc 2 1) (mid g6 2) = dval (piece s 3) 1 (qc 2 1) (mid g6 3) /\
    dval (piece s 2) 2 (qc 2 1) (mid g6 2) = dval (piece s 3) 2 (qc 2 1) (mid g6 3) /\
    (* the boundary conditions *)
    dval (piece s 1) 2 (qc 1 2) (mid g6 1) = qc 1 3 /\
    dval (piece s 3) 1 (qc 7 2) (mid g6 3) = qc (-1) 1.
Proof.
  destruct (C12_spec Qc QcOps Qc_laws 3 (win 1 5) nv_y nv_bs nv_rows nv_c ltac:(sinv) g6_inv
              ltac:(lia) ltac:(vmr) ltac:(nfact) nv_bs_ok eq_refl nv_rows_eq ltac:(vmr) nv_c_solves)
    as (s & Hs & Hi & Hw & Ho & Hv & Hc & Hf & Hl).
  exists s. split; [exact Hs|]. split; [exact Hi|]. split; [exact Hw|]. split; [exact Ho|].
  assert (I1 : imem 1 (win 1 5)) by (split; nfact).
  assert (I2 : imem 2 (win 1 5)) by (split; nfact).
  assert (I3 : imem 3 (win 1 5)) by (split; nfact).
  destruct (Hv 1%N I1) as [V1 V1']. destruct (Hv 2%N I2) as [V2 V2']. destruct (Hv 3%N I3) as [V3 V3'].
  pose proof (Hc 1%N 1%nat I1 I2 ltac:(lia)) as C11. pose proof (Hc 1%N 2%nat I1 I2 ltac:(lia)) as C12.
  pose proof (Hc 2%N 1%nat I2 I3 ltac:(lia)) as C21. pose proof (Hc 2%N 2%nat I2 I3 ltac:(lia)) as C22.
  pose proof (Hf (mkBnd FIRST 2 (qc 1 3)) (or_introl eq_refl) eq_refl) as B1.
  pose proof (Hl (mkBnd LAST 1 (qc (-1) 1)) (or_intror (or_introl eq_refl)) eq_refl) as B2.
  split; [subst_ok Hs; vmr|].
  split; [exact V1|]. split; [exact V1'|]. split; [exact V2|]. split; [exact V2'|].
  split; [exact V3|]. split; [exact V3'|]. split; [exact C11|]. split; [exact C12|].
  split; [exact C21|]. split; [exact C22|]. split; [exact B1 | exact B2].
Qed.

(* the same through [interpolate] with the model's solver *)
Example NV_C12_interpolate :
  exists s, interpolate gauss_solve 3 (win 1 5) nv_y nv_bs = Ok s /\ SplInv s /\ ssup s = win 1 5 /\
    sord s = 3%nat /\ spl_eval s (qc 3 2) = Ok (qc (-2) 1) /\ spl_eval s (qc 1 1) = Ok (qc (-2881) 1824).
Proof.
  destruct (C12_interpolate Qc QcOps Qc_laws gauss_solve 3 (win 1 5) nv_y nv_bs ltac:(sinv) g6_inv
              ltac:(lia) ltac:(vmr) ltac:(nfact) nv_bs_ok eq_refl)
    as (s & Hs & Hi & Hw & Ho & _).
  { intros rows Hr. rewrite (ok_inj _ _ _ Hr nv_rows_eq).
    assert (E : length nv_rows = 12%nat) by vmr. rewrite E.
    split; [vmr | exact nv_c_solves']. }
  exists s. split; [exact Hs|]. split; [exact Hi|]. split; [exact Hw|]. split; [exact Ho|].
  subst_ok Hs. split; okqc.
Qed.

Example NV_C12_default_boundaries :
  bnd_ok 3 (@default_boundaries Qc QcOps 3) /\ length (@default_boundaries Qc QcOps 3) = 2%nat /\
  @default_boundaries Qc QcOps 3 = [mkBnd FIRST 1 f0; mkBnd LAST 1 f0] /\
  (exists s, interpolate gauss_solve 3 (win 1 5) nv_y (default_boundaries 3) = Ok s /\ SplInv s).
Proof.
  destruct (C12_default_boundaries_ok Qc QcOps 3 ltac:(lia)) as [H1 H2].
  split; [exact H1|]. split; [exact H2|]. split; [vmr|].
  destruct (C12_system_ok Qc QcOps 3 (win 1 5) nv_y (default_boundaries 3) ltac:(sinv) g6_inv
              ltac:(lia) ltac:(vmr) ltac:(nfact) H1 H2) as (rows & Hr & _).
  destruct (C12_interpolate Qc QcOps Qc_laws gauss_solve 3 (win 1 5) nv_y (default_boundaries 3)
              ltac:(sinv) g6_inv ltac:(lia) ltac:(vmr) ltac:(nfact) H1 H2)
    as (s & Hs & Hi & _).
  { intros rows' Hr'. subst_ok Hr'. split; [vmr | apply solves_of_check; vmr]. }
  exists s. auto.
Qed.

Example NV_C12_refusals :
  interp_system 3 (win 1 5) [qc 1 1; qc 2 1; qc 3 1] nv_bs = Throw INCONSISTENT_DATA /\
  interp_system 3 (win 2 3) [qc 1 1] nv_bs = Throw UNDETERMINED.
Proof.
  split; [apply (C12_count_mismatch Qc QcOps 3 (win 1 5)); [sinv | nfact]|].
  apply (C12_too_few Qc QcOps 3 (win 2 3)); [sinv | vmr | vmr].
Qed.

(* ====================================================================== *)
(* C13                                                                     *)
(* ====================================================================== *)

(* overlapping windows 1..3 and 2..5; touching windows; windows separated by a
   gap, whose hull contains the points 2 and 3 that belong to neither *)
Example NV_C13_union_hull :
  (exists u, calc_union (win 1 4) (win 2 6) = Ok u /\ SInv u /\ u = win 1 6 /\
             forall i, mem i u <-> hull_mem i (win 1 4) (win 2 6)) /\
  (exists u, calc_union (win 0 2) (win 4 6) = Ok u /\ u = win 0 6 /\
             (mem 3 u <-> hull_mem 3 (win 0 2) (win 4 6)) /\ mem 3 u /\
             ~ mem 3 (win 0 2) /\ ~ mem 3 (win 4 6)) /\
  calc_union (win 0 2) (win 1 4) = Ok (win 0 4) /\
  calc_union (win 0 0) (win 2 6) = Ok (win 2 6) /\
  calc_union (win 1 4) (win 2 6) = calc_union (win 2 6) (win 1 4) /\
  calc_union (win 1 4) (win 1 4) = Ok (win 1 4).
Proof.
  split; [|split; [|split; [vmr|split; [vmr|split]]]].
  - destruct (C13_union_hull (L := Qc_laws) (win 1 4) (win 2 6) ltac:(sinv)
                ltac:(sinv) eq_refl) as (u & H1 & H2 & _ & H4).
    exists u. split; [exact H1|]. split; [exact H2|]. split; [|exact H4].
    exact (ok_inj _ _ _ H1 ltac:(vmr)).
  - destruct (C13_union_hull (L := Qc_laws) (win 0 2) (win 4 6) ltac:(sinv)
                ltac:(sinv) eq_refl) as (u & H1 & _ & _ & H4).
    exists u. split; [exact H1|].
    assert (E : u = win 0 6) by exact (ok_inj _ _ _ H1 ltac:(vmr)).
    split; [exact E|]. split; [exact (H4 3%N)|]. subst u.
    split; [split; nfact|]. split; intros [H H']; revert H H'; nfact.
  - exact (C13_union_comm (L := Qc_laws) (win 1 4) (win 2 6) ltac:(sinv)
             ltac:(sinv) eq_refl).
  - exact (C13_union_idem (L := Qc_laws) (win 1 4) ltac:(sinv)).
Qed.

Example NV_C13_inter_mem :
  (exists u, calc_inter (win 1 4) (win 2 6) = Ok u /\ SInv u /\ u = win 2 4 /\
             forall i, mem i u <-> mem i (win 1 4) /\ mem i (win 2 6)) /\
  calc_inter (win 2 6) (win 3 5) = Ok (win 3 5) /\      (* nested *)
  calc_inter (win 0 2) (win 1 4) = Ok (win 1 2) /\      (* touching: one common point *)
  calc_inter (win 0 2) (win 4 6) = Ok (win 0 0) /\      (* separated: empty *)
  calc_inter (win 1 4) (win 2 6) = calc_inter (win 2 6) (win 1 4) /\
  calc_inter (win 1 4) (win 1 4) = Ok (win 1 4) /\
  calc_inter (win 1 4) (mkSup h6 2 5) = Throw DIFFERING_GRIDS /\
  calc_union (win 1 4) (mkSup h6 2 5) = Throw DIFFERING_GRIDS.
Proof.
  split; [|split; [vmr|split; [vmr|split; [vmr|split; [|split; [|split]]]]]].
  - destruct (C13_inter_mem (L := Qc_laws) (win 1 4) (win 2 6) ltac:(sinv)
                ltac:(sinv) eq_refl) as (u & H1 & H2 & _ & H4).
    exists u. split; [exact H1|]. split; [exact H2|]. split; [|exact H4].
    exact (ok_inj _ _ _ H1 ltac:(vmr)).
  - exact (C13_inter_comm (L := Qc_laws) (win 1 4) (win 2 6) ltac:(sinv)
             ltac:(sinv) eq_refl).
  - exact (C13_inter_idem (L := Qc_laws) (win 1 4) ltac:(sinv)).
  - apply (C13_inter_differing (L := Qc_laws)). intros H. symmetry in H. exact (h6_neq H).
  - apply (C13_union_differing (L := Qc_laws)). intros H. symmetry in H. exact (h6_neq H).
Qed.

Example NV_C13_assoc :
  (do a <- calc_union (win 0 2) (win 1 4); calc_union a (win 4 6))
  = (do b <- calc_union (win 1 4) (win 4 6); calc_union (win 0 2) b) /\
  (do a <- calc_union (win 0 2) (win 1 4); calc_union a (win 4 6)) = Ok (win 0 6) /\
  (do a <- calc_inter (win 0 5) (win 1 6); calc_inter a (win 2 4))
  = (do b <- calc_inter (win 1 6) (win 2 4); calc_inter (win 0 5) b) /\
  (do a <- calc_inter (win 0 5) (win 1 6); calc_inter a (win 2 4)) = Ok (win 2 4).
Proof.
  split; [|split; [vmr|split; [|vmr]]].
  - exact (C13_union_assoc (L := Qc_laws) (win 0 2) (win 1 4) (win 4 6) ltac:(sinv)
             ltac:(sinv) ltac:(sinv) eq_refl eq_refl).
  - exact (C13_inter_assoc (L := Qc_laws) (win 0 5) (win 1 6) (win 2 4) ltac:(sinv)
             ltac:(sinv) ltac:(sinv) eq_refl eq_refl).
Qed.

(* the index conversions at the largest value of the index type and around the
   window 1..3 *)
Example NV_C13_conversions :
  rel_from_abs (win 1 4) 18446744073709551615 = None /\
  ~ mem 18446744073709551615 (win 1 4) /\
  interval_index (win 1 4) 18446744073709551615 = None /\
  abs_from_rel (win 1 4) 18446744073709551615 = Throw UNDETERMINED /\
  rel_from_abs (win 1 4) 3 = Some 2%N /\ abs_from_rel (win 1 4) 2 = Ok 3%N /\
  interval_index (win 1 4) 3 = None /\ interval_index (win 1 4) 2 = Some 1%N /\
  rel_from_abs (win 1 4) 0 = None /\ abs_from_rel (win 1 4) 3 = Throw UNDETERMINED.
Proof.
  assert (Hs : SInv (win 1 4)) by sinv.
  assert (Hr : rel_from_abs (win 1 4) 18446744073709551615 = None)
    by (rewrite (C13_rel_from_abs (win 1 4) _ Hs) by vmr; vmr).
  split; [exact Hr|].
  split; [apply (C13_not_contained (win 1 4) _ Hs); [vmr | exact Hr]|].
  split; [rewrite (C13_interval_index (win 1 4) _ Hs) by vmr; vmr|].
  split; [rewrite (C13_abs_from_rel (win 1 4) _ Hs) by vmr; vmr|].
  assert (H3 : rel_from_abs (win 1 4) 3 = Some 2%N)
    by (rewrite (C13_rel_from_abs (win 1 4) _ Hs) by vmr; vmr).
  split; [exact H3|].
  split; [exact (C13_rel_abs_inverse (win 1 4) 3 2 Hs ltac:(vmr) H3)|].
  split; [rewrite (C13_interval_index (win 1 4) _ Hs) by vmr; vmr|].
  split; [rewrite (C13_interval_index (win 1 4) _ Hs) by vmr; vmr|].
  split; [rewrite (C13_rel_from_abs (win 1 4) _ Hs) by vmr; vmr|].
  rewrite (C13_abs_from_rel (win 1 4) _ Hs) by vmr; vmr.
Qed.

Example NV_C13_view :
  sup_size (win 1 4) = 3%N /\ sup_points (win 1 4) = [qc 1 2; qc 3 2; qc 2 1] /\
  num_intervals (win 1 4) = 2%N /\ num_intervals (win 2 3) = 0%N /\ num_intervals (win 0 0) = 0%N /\
  sup_at (win 1 4) 2 = Ok (qc 2 1) /\ sup_at (win 1 4) 3 = Throw INVALID_ACCESS /\
  sup_at (win 1 4) 18446744073709551615 = Throw INVALID_ACCESS /\
  sup_front (win 1 4) = Ok (qc 1 2) /\ sup_back (win 1 4) = Ok (qc 2 1) /\
  sup_front (win 0 0) = Throw INVALID_ACCESS /\
  sup_eqb (win 1 4) (win 1 4) = true /\ sup_eqb (win 1 4) (win 1 5) = false.
Proof.
  assert (Hs : SInv (win 1 4)) by sinv.
  destruct (C13_view_size (win 1 4) Hs) as [V1 V2].
  split; [rewrite V2; vmr|]. split; [vmr|].
  split; [rewrite (C13_view_intervals (win 1 4) Hs); vmr|].
  split; [rewrite (C13_view_intervals (win 2 3) ltac:(sinv)); vmr|].
  split; [rewrite (C13_view_intervals (win 0 0) ltac:(sinv)); vmr|].
  split; [rewrite (C13_view_at (win 1 4) _ Hs) by vmr; vmr|].
  split; [rewrite (C13_view_at (win 1 4) _ Hs) by vmr; vmr|].
  split; [rewrite (C13_view_at (win 1 4) _ Hs) by vmr;
          rewrite nnth_none by nfact; reflexivity|].
  split; [rewrite (C13_view_front (win 1 4) Hs); vmr|].
  split; [rewrite (C13_view_back (win 1 4) Hs); vmr|].
  split; [rewrite (C13_view_front (win 0 0) ltac:(sinv)); vmr|].
  split.
  - apply (C13_eq_spec (L := Qc_laws)). split; [reflexivity|]. left. split; reflexivity.
  - apply not_true_is_false. intros H. apply (C13_eq_spec (L := Qc_laws)) in H.
    destruct H as [_ [[_ H]|[H _]]]; revert H; nfact.
Qed.

Example NV_C13_generated_definitions_agree :
  SupportGen.G.size 6 1 4 = sup_size (win 1 4) /\ SupportGen.G.size 6 1 4 = 3%N /\
  SupportGen.G.intervalIndexFromAbsolute 6 1 4 18446744073709551615
  = interval_index (win 1 4) 18446744073709551615 /\
  SupportGen.G.intervalIndexFromAbsolute 6 1 4 18446744073709551615 = None /\
  SupportGen.G.valid 6 1 4 = true /\ SupportGen.G.numberOfIntervals 6 1 4 = 2%N.
Proof.
  destruct (C13_generated_definitions_agree Qc (win 1 4) ltac:(sinv))
    as (H1 & _ & _ & _ & H5 & _ & H7 & H8 & _).
  split; [exact H1|]. split; [vmr|]. split; [exact (H5 18446744073709551615%N ltac:(vmr))|]. split; [vmr|].
  split; [exact H8 | transitivity (num_intervals (win 1 4)); [exact H7 | vmr]].
Qed.

(* ====================================================================== *)
(* C15                                                                     *)
(* ====================================================================== *)

(* a spline with intervals whose coefficients all vanish *)
Definition s0 : spline Qc := mkSpl (win 1 4) 1 [[qc 0 1; qc 0 1]; [qc 0 1; qc 0 1]].
Lemma s0_inv : SplInv s0. Proof. splinv. Qed.

Example NV_C15_is_zero :
  is_zero s0 = true /\ (forall x, spl_eval s0 x = Ok f0) /\
  is_zero sz = true /\ (forall x, spl_eval sz x = Ok f0) /\
  is_zero sa = false /\ ~ (forall x, spl_eval sa x = Ok f0) /\ spl_eval sa (qc 9 5) = Ok (qc 599 1200).
Proof.
  assert (H0 : is_zero s0 = true) by vmr. assert (Hz : is_zero sz = true) by vmr.
  split; [exact H0|]. split; [exact (proj1 (C15_is_zero Qc QcOps Qc_laws s0 s0_inv) H0)|].
  split; [exact Hz|]. split; [exact (proj1 (C15_is_zero Qc QcOps Qc_laws sz sz_inv) Hz)|].
  assert (Ha : is_zero sa = false) by vmr.
  split; [exact Ha|]. split; [|okqc].
  intros H. apply (C15_is_zero Qc QcOps Qc_laws sa sa_inv) in H. congruence.
Qed.

Example NV_C15_overlap :
  check_overlap sa sb = Ok true /\ (exists k, imem k (ssup sa) /\ imem k (ssup sb)) /\
  (exists r, spl_mul sa sb = Ok r /\ nintervals (ssup r) <> 0%N) /\
  check_overlap sa sc = Ok false /\        (* touching at the point 1/2 *)
  ~ (exists k, imem k (ssup sa) /\ imem k (ssup sc)) /\
  check_overlap sc sd = Ok false /\        (* separated *)
  check_overlap sb se = Ok true /\         (* nested *)
  check_overlap sa sz = Ok false /\        (* no interval at all *)
  check_overlap sa sb = check_overlap sb sa /\
  (exists b, check_overlap sa sh = Ok b).  (* total even across grids *)
Proof.
  assert (H1 : check_overlap sa sb = Ok true) by vmr.
  assert (H2 : check_overlap sa sc = Ok false) by vmr.
  split; [exact H1|].
  split; [exact (proj1 (C15_overlap Qc QcOps Qc_laws sa sb sa_inv sb_inv eq_refl) H1)|].
  split; [exact (proj1 (C15_overlap_product Qc QcOps Qc_laws sa sb sa_inv sb_inv eq_refl) H1)|].
  split; [exact H2|].
  split; [intros H; apply (C15_overlap Qc QcOps Qc_laws sa sc sa_inv sc_inv eq_refl) in H; congruence|].
  split; [vmr|]. split; [vmr|]. split; [vmr|].
  split; [exact (C15_overlap_sym Qc QcOps Qc_laws sa sb sa_inv sb_inv eq_refl)|].
  exact (C15_overlap_total Qc QcOps sa sh sa_inv sh_inv).
Qed.

Example NV_C15_eq :
  spl_eqb sa sa = true /\ spl_eqb sa sq = false /\
  spl_eqb sa (mkSpl (win 1 4) 2 (scoefs sa)) = true /\
  (forall x, spl_eval sa x = spl_eval (mkSpl (win 1 4) 2 (scoefs sa)) x) /\
  (* two interval-free splines with different (empty / one-point) windows *)
  spl_eqb sz (mkSpl (win 2 3) 1 []) = false /\
  spl_eqb sa sq = spl_eqb sq sa.
Proof.
  split; [apply (C15_eq_refl Qc QcOps Qc_laws)|]. split; [vmr|].
  assert (E : spl_eqb sa (mkSpl (win 1 4) 2 (scoefs sa)) = true)
    by (apply (C15_eq_copy Qc QcOps Qc_laws); reflexivity).
  split; [exact E|].
  split; [exact (C15_eq_eval Qc QcOps Qc_laws sa _ sa_inv sa_inv E)|].
  split; [|apply (C15_eq_sym Qc QcOps Qc_laws)].
  apply not_true_is_false. intros H. apply (C15_eq Qc QcOps Qc_laws) in H.
  destruct H as (_ & [[_ H]|[_ H]] & _); revert H; nfact.
Qed.

(* ====================================================================== *)
(* C17                                                                     *)
(* ====================================================================== *)

(* The hypotheses of C17_spec describe an n-point Gauss-Legendre rule: for
   EVERY n it must integrate all polynomials of degree <= 2n-1 exactly.  The
   Gauss-Legendre nodes are irrational for n >= 2, so Boost's rule itself has
   no counterpart over Qc, and no such family of rules is constructed here;
   that hypothesis (rule_exact) is therefore NOT witnessed in this file.  The
   other hypothesis (the rule depends on the values of the integrand only) is
   witnessed by the midpoint rule, for which C17_sum_over_common_intervals is
   instantiated; the remaining C17 theorems have no rule hypothesis. *)
Definition mid_rule : nat -> (Qc -> Qc) -> Qc -> Qc -> Qc :=
  fun _ f a b => ((b - a) * f ((a + b) / f2))%F.

Lemma mid_rule_ext : forall n (g h : Qc -> Qc) a b,
  (forall x, g x = h x) -> mid_rule n g a b = mid_rule n h a b.
Proof. intros n g h a b H. unfold mid_rule. rewrite H. reflexivity. Qed.

Example NV_C17_sum_over_common_intervals :
  integrate mid_rule 2 (fun x => peval [qc 1 1; qc 2 1] x) sq sw
  = Ok (fsum (fun k => mid_rule 2
                 (fun x => (peval [qc 1 1; qc 2 1] x * peval (piece sq k) (x - mid g6 k)
                            * peval (piece sw k) (x - mid g6 k))%F)
                 (gnth g6 k) (gnth g6 (k + 1))) (interval_list (win 2 6))) /\
  integrate mid_rule 2 (fun x => peval [qc 1 1; qc 2 1] x) sq sw = Ok (qc 15 1) /\
  integrate mid_rule 2 (fun x => peval [qc 1 1; qc 2 1] x) sc sd = Ok f0 /\
  integrate mid_rule 2 (fun x => peval [qc 1 1; qc 2 1] x) sq sh = Throw DIFFERING_GRIDS.
Proof.
  split; [|split; [okqc|split]].
  - exact (C17_sum_over_common_intervals Qc QcOps Qc_laws mid_rule mid_rule_ext 2 _ sq sw (win 2 6)
             sq_inv sw_inv eq_refl ltac:(vmr)).
  - apply (C17_no_common_interval Qc QcOps Qc_laws mid_rule 2 _ sc sd (win 0 0) sc_inv sd_inv eq_refl);
      vmr.
  - apply (C17_differing_grids Qc QcOps Qc_laws). exact (sh_grid_neq sq eq_refl).
Qed.

(* the analytic side of C17_spec: the weight 1 + 2x as an operator expression *)
Example NV_C17_weight :
  bilinear OId (elab (weight_expr [qc 1 1; qc 2 1])) sq sw = Ok (qc 1875941 92160) /\
  peval (dsem (weight_expr [qc 1 1; qc 2 1]) g6 2 (piece sw 2)) (qc 1 20)
  = (peval [qc 1 1; qc 2 1] (qc 1 20 + mid g6 2) * peval (piece sw 2) (qc 1 20))%F /\
  out_ord (elab (weight_expr [qc 1 1; qc 2 1])) 1 = 2%nat /\
  horner (qc 9 5) [qc 1 1; qc 2 1; qc 3 1] (qc 7 4)
  = peval [qc 1 1; qc 2 1; qc 3 1] (qc 9 5 - qc 7 4)%F.
Proof.
  split; [okqc|].
  split; [apply (C17_weight_is_multiplication Qc QcOps Qc_laws); discriminate|].
  split; [exact (C17_weight_order Qc QcOps [qc 1 1; qc 2 1] 1)|].
  apply (C17_horner Qc QcOps Qc_laws). discriminate.
Qed.

(* ====================================================================== *)
(* C18 (the examples of Proofs_Threads.v, through the property theorems)    *)
(* ====================================================================== *)

Example NV_C18_interleave_deterministic (t : tid) :
  sched_ok thr_own thr_s1 /\ sched_ok thr_own thr_s2 /\
  outs t (snd (run_sched gauss_solve thr_init thr_s1)) = snd (run gauss_solve thr_init (proj t thr_s1)) /\
  (forall i, thr_own i = Some t ->
     lookup (fst (run_sched gauss_solve thr_init thr_s1)) i
     = lookup (fst (run gauss_solve thr_init (proj t thr_s1))) i) /\
  (* nothing is vacuously equal because everything failed *)
  forallb (fun x => is_ok (snd x)) (snd (run_sched gauss_solve thr_init thr_s1)) = true /\
  proj 1%nat thr_s1 = thr_a /\ proj 2%nat thr_s1 = thr_b.
Proof.
  split; [exact thr_s1_ok|]. split; [exact thr_s2_ok|].
  destruct (C18_interleave_deterministic Qc QcOps gauss_solve thr_own thr_s1 thr_init t thr_s1_ok)
    as [H1 H2].
  split; [exact H1|]. split; [exact H2|]. split; [exact (proj1 thr_all_ok)|].
  destruct thr_proj as (P1 & P2 & _). split; [exact P1 | exact P2].
Qed.

Example NV_C18_schedule_independent (t : tid) : (t = 1 \/ t = 2)%nat ->
  outs t (snd (run_sched gauss_solve thr_init thr_s1))
  = outs t (snd (run_sched gauss_solve thr_init thr_s2)) /\
  (forall i, (i < 10)%nat ->
     lookup (fst (run_sched gauss_solve thr_init thr_s1)) i = lookup thr_init i) /\
  lookup (fst (run_sched gauss_solve thr_init thr_s1)) 20 <> lookup thr_init 2.
Proof.
  intros Ht. split; [|split].
  - apply (C18_schedule_independent Qc QcOps gauss_solve thr_own thr_s1 thr_s2 thr_init t
             thr_s1_ok thr_s2_ok).
    destruct thr_proj as (H1 & H2 & H3 & H4). destruct Ht as [-> | ->]; congruence.
  - intros i Hi. apply (C18_shared_never_change Qc QcOps gauss_solve thr_own thr_s1 thr_init i thr_s1_ok).
    unfold thr_own. apply Nat.ltb_lt in Hi. rewrite Hi. reflexivity.
  - exact (proj1 thr_owned_changed).
Qed.

Example NV_C18_discipline_needed :
  proj 1%nat thr_bad1 = proj 1%nat thr_bad2 /\ proj 2%nat thr_bad1 = proj 2%nat thr_bad2 /\
  outs 1%nat (snd (run_sched gauss_solve thr_init thr_bad1))
  <> outs 1%nat (snd (run_sched gauss_solve thr_init thr_bad2)) /\ ~ sched_ok thr_own thr_bad1.
Proof. exact C18_discipline_needed. Qed.

(* ====================================================================== *)
(* C19                                                                     *)
(* ====================================================================== *)

Example NV_C19_laws_satisfiable : Laws QcOps.
Proof. exact C19_laws_satisfiable. Qed.

Example NV_C19_exact_at_Qc :
  (exists u r, calc_inter (ssup sa) (ssup sb) = Ok u /\ spl_mul sa sb = Ok r /\ SplInv r /\
     forall k x, den r k x = (den sa k x * den sb k x)%F) /\
  (exists r, apply (elab e4) sa = Ok r /\ SplInv r /\
     forall k u, peval (piece r k) u = peval (dsem e4 (sgridp sa) k (piece sa k)) u) /\
  den (nth 3 nv_basis dflt_spline) 2 (qc 9 5) = B nv_ks 2 3 (qc 9 5) /\
  bilinear (elab e61) (elab e62) sq sw
  = Ok (fsum (fun k => defint (pmul (dsem e61 (sgridp sq) k (piece sq k))
                                     (dsem e62 (sgridp sq) k (piece sw k)))
                              (halfwidth (sgridp sq) k)) (interval_list (win 2 6))).
Proof.
  split; [|split; [|split]].
  - destruct (C19_arithmetic_exact_at_Qc sa sb sa_inv sb_inv eq_refl)
      as (u & r & H1 & H2 & H3 & _ & _ & H6).
    exists u, r. auto.
  - destruct (C19_operators_exact_at_Qc e4 sa sa_inv e4_factors e4_scalars)
      as (r & H1 & H2 & _ & _ & H5).
    exists r. auto.
  - apply (C19_generator_exact_at_Qc nv_ks 2 nv_basis 3 2 (qc 9 5) nv_ks_nondecreasing
             nv_ks_two_distinct nv_ks_len);
      [vm_compute; lia | exact nv_basis_eq | vm_compute; lia | vm_compute; lia | vmr | vmr].
  - exact (C19_forms_exact_at_Qc e61 e62 sq sw (win 2 6) sq_inv sw_inv eq_refl
             e61_factors e62_factors e61_scalars e62_scalars ltac:(vmr)).
Qed.

(* ====================================================================== *)
(* C20                                                                     *)
(* ====================================================================== *)

Lemma qc_list_eq (a b : list Qc) : list_eqb a b = true -> a = b.
Proof. apply (list_eqb_eq (L := Qc_laws)). Qed.

(* a dense solver for the example skeletons: Gauss elimination of Solver.v; the
   guard makes the result size equal to the size of the right-hand side for
   EVERY input, which is all the theorems ask of Eigen's solver *)
Definition nv_solve (m : list (list Qc)) (r : list Qc) : list Qc :=
  let sys := map (fun '(row, b) => mkRow (combine (seq 0 (length row)) row) b) (combine m r) in
  let x := gauss_solve (length r) sys in
  if (length x =? length r)%nat then x else map (fun _ => f0) r.

Lemma nv_solve_len : forall m r, length (nv_solve m r) = length r.
Proof.
  intros m r. unfold nv_solve. cbv zeta.
  match goal with |- length (if ?c then _ else _) = _ => destruct c eqn:E end;
    [apply Nat.eqb_eq, E | apply map_length].
Qed.

(* steady-state diffusion with the piecewise linear coefficient sw on the whole
   grid g6, quadratic basis, boundary values 5 and 7 *)
Example NV_C20_diffusion :
  exists r, diffusion 2 nv_solve sw (qc 5 1) (qc 7 1) = Ok r /\ SplInv r /\ sgridp r = g6 /\
    sord r = 2%nat /\ spl_eval r (qc 0 1) = Ok (qc 5 1) /\ spl_eval r (qc 5 1) = Ok (qc 7 1) /\
    (exists basis sys, diff_basis 2 (ssup sw) = Ok basis /\ length basis = 7%nat /\
       diffusion_system 2 sw (qc 5 1) (qc 7 1) = Ok sys /\ length (ds_inner sys) = 5%nat /\
       (* the solver did solve the 5 x 5 Galerkin system *)
       mat_apply (ds_mat sys) (nv_solve (ds_mat sys) (ds_rhs sys)) = ds_rhs sys) /\
    diff_basis 2 (win 1 4) = Throw INCONSISTENT_DATA.
Proof.
  assert (Hn : nintervals (ssup sw) <> 0%N) by nfact.
  assert (Hw : sstart (ssup sw) = 0%N /\ sstop (ssup sw) = nlen (sgridp sw)) by (split; reflexivity).
  destruct (C20_diffusion_no_ub Qc QcOps Qc_laws 2 nv_solve sw (qc 5 1) (qc 7 1) sw_inv Hn
              ltac:(lia) Hw nv_solve_len) as (r & Er & Ir & Gr & Or); [vm_compute; lia|].
  exists r. split; [exact Er|]. split; [exact Ir|]. split; [exact Gr|]. split; [exact Or|].
  destruct (C20_diffusion_end_values Qc QcOps Qc_laws 2 nv_solve sw (qc 5 1) (qc 7 1) r sw_inv Hn
              ltac:(lia) Hw nv_solve_len Er) as [E0 E5].
  split; [exact E0|]. split; [exact E5|]. split.
  - destruct (C20_diffusion_system_shape Qc QcOps Qc_laws 2 sw (qc 5 1) (qc 7 1) sw_inv Hn
                ltac:(lia) Hw) as (basis & sys & H1 & H2 & H3 & H4 & _).
    destruct (C20_diffusion_basis Qc QcOps Qc_laws 2 sw sw_inv Hn ltac:(lia) Hw)
      as (basis' & H1' & H5 & _).
    exists basis, sys. split; [exact H1|].
    split; [rewrite (ok_inj _ _ _ H1 H1'); exact H5|]. split; [exact H2|].
    split; [exact H4|]. subst_ok H2. apply qc_list_eq. vmr.
  - apply (C20_diffusion_subwindow_refused Qc QcOps Qc_laws 2 (win 1 4) ltac:(sinv) g6_inv);
      [nfact | intros [H _]; discriminate H].
Qed.

(* the example of Proofs_Examples.v, re-exported *)
Example NV_C20_diffusion_reexport :
  (exists r, diffusion 2 ex_solve ex_d (qc 5 1) (qc 7 1) = Ok r /\ SplInv r) /\
  (forall r, diffusion 2 ex_solve ex_d (qc 5 1) (qc 7 1) = Ok r ->
             spl_eval r (qc 0 1) = Ok (qc 5 1) /\ spl_eval r (qc 3 1) = Ok (qc 7 1)).
Proof. destruct diffusion_nonvacuous as (H1 & H2 & _). split; [exact H1 | exact H2]. Qed.

(* the Schroedinger example: the potential sw shifted by the constant 5/3 *)
Definition nv_pot : list (spline Qc) * list (list Qc) * list (list Qc) :=
  match pot_matrices 2 sw with Ok x => x | _ => ([], [], []) end.
Lemma nv_pot_eq : pot_matrices 2 sw = Ok (fst (fst nv_pot), snd (fst nv_pot), snd nv_pot).
Proof. vmr. Qed.

Definition nv_pot' : list (spline Qc) * list (list Qc) * list (list Qc) :=
  match pot_matrices 2 (spl_shift sw (qc 5 3)) with Ok x => x | _ => ([], [], []) end.

Example NV_C20_potential_shift :
  exists h', pot_matrices 2 (spl_shift sw (qc 5 3)) = Ok (fst (fst nv_pot), h', snd nv_pot) /\
    length (fst (fst nv_pot)) = 3%nat /\ length h' = 3%nat /\
    (forall i j, nth j (nth i h' []) f0
                 = (nth j (nth i (snd (fst nv_pot)) []) f0 + qc 5 3 * nth j (nth i (snd nv_pot) []) f0)%F) /\
    map (map this) (snd (fst nv_pot))
    = [[1339 # 1080; -43 # 3240; -119 # 2160]; [-43 # 3240; 61433 # 103680; -9671 # 17280];
       [-119 # 2160; -9671 # 17280; -1513 # 2304]]%Q /\
    map (map this) (snd nv_pot)
    = [[46 # 135; 349 # 2160; 1 # 720]; [349 # 2160; 7 # 12; 319 # 1440]; [1 # 720; 319 # 1440; 49 # 80]]%Q /\
    map (map this) h'
    = [[5857 # 3240; 553 # 2160; -19 # 360]; [553 # 2160; 162233 # 103680; -1097 # 5760];
       [-19 # 360; -1097 # 5760; 839 # 2304]]%Q.
Proof.
  destruct (C20_potential_shift Qc QcOps Qc_laws 2 sw (spl_shift sw (qc 5 3)) (qc 5 3)
              (fst (fst nv_pot)) (snd (fst nv_pot)) (snd nv_pot) sw_inv
              (spl_shift_inv sw (qc 5 3) sw_inv) eq_refl
              (conj eq_refl eq_refl)
              (fun k u Hk => piece_spl_shift (L := Qc_laws) sw (qc 5 3) k u sw_inv Hk) nv_pot_eq)
    as (h' & H1 & H2 & _ & H4).
  exists h'. split; [exact H1|]. split; [vmr|]. split; [rewrite H2; vmr|]. split; [exact H4|].
  split; [vmr|]. split; [vmr|].
  assert (E : pot_matrices 2 (spl_shift sw (qc 5 3))
              = Ok (fst (fst nv_pot), snd (fst nv_pot'), snd nv_pot)) by vmr.
  pose proof (f_equal (fun x => snd (fst x)) (ok_inj _ _ _ H1 E)) as E'.
  cbn [fst snd] in E'. rewrite E'. vmr.
Qed.

(* an "eigen solver" that only respects the result sizes *)
Definition nv_eigs (h s : list (list Qc)) : list (Qc * list Qc) :=
  map (fun _ => (qc 1 1, map (fun _ => qc 1 1) h)) h.
Lemma nv_eigs_sized : eigs_sized nv_eigs.
Proof.
  intros h s. split; [apply map_length|]. apply Forall_forall. intros e He.
  apply in_map_iff in He as (x & <- & _). apply map_length.
Qed.

Example NV_C20_potential_count :
  (exists l, potential_solve 2 nv_eigs sw = Ok l /\ length l = 3%nat /\
     Forall (fun p => SplInv (snd p) /\ sgridp (snd p) = g6 /\ sord (snd p) = 2%nat) l) /\
  potential_solve 6 nv_eigs sw = Throw UNDETERMINED /\
  potential_solve_old 2 nv_eigs sw = UB OOBRead.
Proof.
  split; [|split].
  - destruct (C20_potential_count Qc QcOps Qc_laws 2 nv_eigs sw sw_inv nv_eigs_sized ltac:(nfact))
      as (l & H1 & H2 & H3).
    exists l. split; [exact H1|]. split; [exact H2 | exact H3].
  - apply (C20_potential_few_grid_points Qc QcOps Qc_laws 6 nv_eigs sw sw_inv). vmr.
  - apply (C20_old_loop_reads_out_of_range Qc QcOps Qc_laws 2 nv_eigs sw sw_inv nv_eigs_sized);
      [nfact | vm_compute; lia].
Qed.

(* ====================================================================== *)
(* C16, C04_R, C06_R, C07_R: statements over the real numbers               *)
(* ====================================================================== *)
(* No computation here.  The examples only show that the hypotheses of the
   real-number theorems are consistent: the rounding hypotheses of C16 by the
   binary64 instance proved in Proofs_Rounded.v (rnd64, u64, M64), the spline
   hypotheses of the _R files by a concrete valid spline over R.  These
   examples depend on the axioms of the standard library's real numbers (and
   of Flocq / Coquelicot), as the theorems they instantiate do. *)
From Coq Require Import Reals Lra.
From BSpl Require Import Proofs_Rounded Proofs_Analysis Properties_C16 Properties_C04_R
  Properties_C06_R Properties_C07_R.

Example NV_C16_rounding_hypotheses :
  (0 <= u64)%R /\
  (forall x : R, exists d : R, (Rabs d <= u64)%R /\ rnd64 x = (x * (1 + d))%R) /\
  (forall z : Z, (Z.abs z <= M64)%Z -> rnd64 (IZR z) = IZR z) /\
  (* hence the bounds hold for binary64 *)
  (forall (x : R) (c : list R) (xm v : R),
     eval_interval (K := RndOps rnd64) x c xm = Ok v ->
     (Rabs (v - peval (K := ExactOps) c (x - xm)) <= gamma u64 (3 * length c) * pabs c (x - xm))%R) /\
  (forall (a b : list R) (h v : R),
     (Z.of_nat (length a + length b) <= M64)%Z ->
     bi_kernel (K := RndOps rnd64) a b h = Ok v ->
     (Rabs (v - defint (K := ExactOps) (pmul (K := ExactOps) a b) h)
      <= gamma u64 (3 * length a + 2 * length b + 2) * bi_abs a b h)%R).
Proof.
  split; [exact u64_pos|]. split; [exact C16_binary64_rounding_model|].
  split; [exact C16_binary64_small_integers_exact|]. split.
  - intros x c xm v H.
    exact (C16_horner u64 u64_pos rnd64 C16_binary64_rounding_model x c xm v H).
  - intros a b h v Hm H.
    exact (C16_bilinear_kernel u64 u64_pos rnd64 C16_binary64_rounding_model M64
             C16_binary64_small_integers_exact a b h v Hm H).
Qed.

(* the exact reference of C16 is the model at Qc: the instances of C01 / C06 above *)
Example NV_C16_exact_reference :
  den (nth 3 nv_basis dflt_spline) 2 (qc 9 5) = B nv_ks 2 3 (qc 9 5) /\
  bilinear (elab e61) (elab e62) sq sw
  = Ok (fsum (fun k => defint (pmul (dsem e61 (sgridp sq) k (piece sq k))
                                     (dsem e62 (sgridp sq) k (piece sw k)))
                              (halfwidth (sgridp sq) k)) (interval_list (win 2 6))).
Proof.
  split.
  - apply (C16_exact_reference_generator nv_ks 2 nv_basis 3 2 (qc 9 5) nv_ks_nondecreasing
             nv_ks_two_distinct nv_ks_len);
      [vm_compute; lia | exact nv_basis_eq | vm_compute; lia | vm_compute; lia | vmr | vmr].
  - exact (C16_exact_reference_forms e61 e62 sq sw (win 2 6) sq_inv sw_inv eq_refl
             e61_factors e62_factors e61_scalars e62_scalars ltac:(vmr)).
Qed.

(* a valid spline over R: order 1 on the grid 0, 1, 3 *)
Definition gR : list R := [0; 1; 3]%R.
Definition sR : spline R := mkSpl (mkSup gR 0 3) 1 [[1; 2]; [-1; 1 / 2]]%R.

Lemma gR_inv : GInv (K := ExactOps) gR.
Proof.
  split; [cbv; discriminate|]. split; [reflexivity|].
  intros i a b Ha Hb. destruct i as [|[|i]]; cbn in Ha, Hb.
  - injection Ha as <-. injection Hb as <-. apply Rltb_lt. lra.
  - injection Ha as <-. injection Hb as <-. apply Rltb_lt. lra.
  - destruct i; discriminate Hb.
Qed.

Lemma sR_inv : SplInv (K := ExactOps) sR.
Proof.
  split; [split; [reflexivity | right; split; [reflexivity | cbv; discriminate]]|].
  split; [exact gR_inv|]. split; [reflexivity | repeat constructor].
Qed.

Example NV_C04_R_derivative_operator_is_derivative :
  exists r, apply (K := ExactOps) (ODer 1) sR = Ok r /\
    forall x, Derive.is_derive_n (fun x0 => den (K := ExactOps) sR 1 x0) 1 x (den (K := ExactOps) r 1 x).
Proof.
  destruct (C04_apply R ExactOps ExactLaws (EDer 1) sR sR_inv I I) as (r & Hr & _).
  exists r. split; [exact Hr|]. intros x.
  apply (C04_R_derivative_operator_is_derivative sR r 1 sR_inv Hr 1%N x).
  split; [cbv; discriminate | reflexivity].
Qed.

Example NV_C06_R_scalar_product_is_integral :
  exists v, bilinear (K := ExactOps) OId OId sR sR = Ok v /\
    @RInt.is_RInt Hierarchy.R_NormedModule (fun x : R => (sfun sR x * sfun sR x)%R) 0%R 3%R v.
Proof.
  assert (Hu : calc_inter (K := ExactOps) (ssup sR) (ssup sR) = Ok (mkSup gR 0 3)).
  { apply (C13_inter_idem (L := ExactLaws) (ssup sR)). exact (proj1 sR_inv). }
  destruct (C06_R_scalar_product_is_integral sR sR (mkSup gR 0 3) sR_inv sR_inv eq_refl Hu)
    as (v & H1 & H2).
  exists v. split; [exact H1 | exact H2].
Qed.

Example NV_C07_R_linear_form_is_integral :
  exists v, @Forms.linear R ExactOps OId sR = Ok v /\ @RInt.is_RInt Hierarchy.R_NormedModule (sfun sR) 0%R 3%R v.
Proof.
  destruct (C07_R_linear_form_is_integral sR sR_inv) as (v & H1 & H2).
  exists v. split; [exact H1 | exact H2].
Qed.

(* ====================================================================== *)
(* every example above is closed under the global context, except the      *)
(* last section (real numbers)                                            *)
(* ====================================================================== *)
Print Assumptions NV_C01_constructor.
Print Assumptions NV_C01_count.
Print Assumptions NV_C01_too_few_knots.
Print Assumptions NV_C01_is_cox_de_boor.
Print Assumptions NV_C01_eval_interior.
Print Assumptions NV_C01_partition_of_unity.
Print Assumptions NV_C01_smooth_across_knots.
Print Assumptions NV_C01_order0_and_derivative_formula.
Print Assumptions NV_C01_supplied_grid.
Print Assumptions NV_C02_inside.
Print Assumptions NV_C02_outside.
Print Assumptions NV_C02_front_back.
Print Assumptions NV_C02_lower_bound_contract.
Print Assumptions NV_C03_add.
Print Assumptions NV_C03_add_gap.
Print Assumptions NV_C03_sub.
Print Assumptions NV_C03_mul.
Print Assumptions NV_C03_scale_div_neg.
Print Assumptions NV_C03_assign_up.
Print Assumptions NV_C03_iadd.
Print Assumptions NV_C03_lin_comb.
Print Assumptions NV_C03_update_sequences.
Print Assumptions NV_C04_apply.
Print Assumptions NV_C04_derivative_transform.
Print Assumptions NV_C04_position_transform.
Print Assumptions NV_C05_expr_sound.
Print Assumptions NV_C05_apply.
Print Assumptions NV_C05_commutator_and_scalars.
Print Assumptions NV_C05_factor_on_other_grid.
Print Assumptions NV_C06_exact.
Print Assumptions NV_C06_swap.
Print Assumptions NV_C06_add_l.
Print Assumptions NV_C06_scale_l.
Print Assumptions NV_C06_scalar_product.
Print Assumptions NV_C06_kernel.
Print Assumptions NV_C07_exact.
Print Assumptions NV_C07_add_scale.
Print Assumptions NV_C07_bilinear_is_linear_of_product.
Print Assumptions NV_C07_kernel.
Print Assumptions NV_C08_functions.
Print Assumptions NV_C08_steps.
Print Assumptions NV_C09_no_ub_history.
Print Assumptions NV_C09_no_ub.
Print Assumptions NV_C09_index.
Print Assumptions NV_C09_transform_total.
Print Assumptions NV_C10_history.
Print Assumptions NV_C10_moved_from_spline.
Print Assumptions NV_C14_frame_history.
Print Assumptions NV_C14_frame.
Print Assumptions NV_C14_writes_are_targets.
Print Assumptions NV_C11_grid.
Print Assumptions NV_C11_support.
Print Assumptions NV_C11_spline.
Print Assumptions NV_C11_generator.
Print Assumptions NV_C11_lincomb.
Print Assumptions NV_C11_interp.
Print Assumptions NV_C12_system_ok.
Print Assumptions NV_C12_spec.
Print Assumptions NV_C12_interpolate.
Print Assumptions NV_C12_default_boundaries.
Print Assumptions NV_C12_refusals.
Print Assumptions NV_C13_union_hull.
Print Assumptions NV_C13_inter_mem.
Print Assumptions NV_C13_assoc.
Print Assumptions NV_C13_conversions.
Print Assumptions NV_C13_view.
Print Assumptions NV_C13_generated_definitions_agree.
Print Assumptions NV_C15_is_zero.
Print Assumptions NV_C15_overlap.
Print Assumptions NV_C15_eq.
Print Assumptions NV_C17_sum_over_common_intervals.
Print Assumptions NV_C17_weight.
Print Assumptions NV_C18_interleave_deterministic.
Print Assumptions NV_C18_schedule_independent.
Print Assumptions NV_C18_discipline_needed.
Print Assumptions NV_C19_laws_satisfiable.
Print Assumptions NV_C19_exact_at_Qc.
Print Assumptions NV_C20_diffusion.
Print Assumptions NV_C20_diffusion_reexport.
Print Assumptions NV_C20_potential_shift.
Print Assumptions NV_C20_potential_count.
Print Assumptions NV_C16_rounding_hypotheses.
Print Assumptions NV_C16_exact_reference.
Print Assumptions NV_C04_R_derivative_operator_is_derivative.
Print Assumptions NV_C06_R_scalar_product_is_integral.
Print Assumptions NV_C07_R_linear_form_is_integral.

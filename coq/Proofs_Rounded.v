(* Proofs_Rounded.v — rounding-error bounds for the numerical kernels of the
   model in the STANDARD MODEL of floating-point arithmetic.

   The model is generic over [Ops F]; instantiating the operations with the
   ROUNDED real operations [RndOps rnd] (every + - * / followed by one
   application of [rnd]) describes the floating-point computation, and
   [ExactOps] describes the mathematical value.  All bounds are proved for an
   arbitrary [rnd] with  rnd x = x (1 + d), |d| <= u  (section hypotheses,
   never axioms).  This file works over Coq's real numbers, hence depends on
   the axioms of the standard library's [Reals]. *)
From Coq Require Import List Arith ZArith Bool Reals Lra Lia Psatz Field Ring.
From BSpl Require Import Scalar Outcome Poly Forms Proofs_Poly Proofs_Forms.
Import ListNotations.
Local Open Scope R_scope.

(* ------------------------------------------------------------------ *)
(** * The two instances over R *)

Definition Reqb (a b : R) : bool := if Req_EM_T a b then true else false.
Definition Rltb (a b : R) : bool := if Rlt_dec a b then true else false.

Definition RndOps (rnd : R -> R) : Ops R := {|
  f0 := 0; f1 := 1;
  fadd := fun a b => rnd (a + b); fmul := fun a b => rnd (a * b);
  fsub := fun a b => rnd (a - b); fopp := fun a => - a;
  fdiv := fun a b => rnd (a / b);
  feqb := Reqb; fneb := fun a b => negb (Reqb a b);
  fltb := Rltb; fleb := fun a b => Rltb a b || Reqb a b;
  fgtb := fun a b => Rltb b a; fgeb := fun a b => Rltb b a || Reqb b a |}.

Definition ExactOps : Ops R := {|
  f0 := 0; f1 := 1;
  fadd := Rplus; fmul := Rmult; fsub := Rminus; fopp := Ropp; fdiv := Rdiv;
  feqb := Reqb; fneb := fun a b => negb (Reqb a b);
  fltb := Rltb; fleb := fun a b => Rltb a b || Reqb a b;
  fgtb := fun a b => Rltb b a; fgeb := fun a b => Rltb b a || Reqb b a |}.

(* the exact instance is the rounded one with the identity rounding *)
Lemma RndOps_id : RndOps (fun x => x) = ExactOps.
Proof. reflexivity. Qed.

Lemma Reqb_eq a b : Reqb a b = true <-> a = b.
Proof. unfold Reqb. destruct (Req_EM_T a b); split; congruence. Qed.

Lemma Rltb_lt a b : Rltb a b = true <-> a < b.
Proof. unfold Rltb. destruct (Rlt_dec a b); split; intros; congruence. Qed.

Ltac ex_unfold :=
  change (@fdiv R ExactOps) with Rdiv in *; change (@f1 R ExactOps) with 1 in *;
  change (@f0 R ExactOps) with 0 in *; change (@fadd R ExactOps) with Rplus in *;
  change (@fmul R ExactOps) with Rmult in *; change (@fsub R ExactOps) with Rminus in *;
  change (@fopp R ExactOps) with Ropp in *; change (@fltb R ExactOps) with Rltb in *;
  change (@feqb R ExactOps) with Reqb in *.

Lemma Exact_field_theory :
  field_theory 0 1 Rplus Rmult Rminus Ropp Rdiv (@finv R ExactOps) (@eq R).
Proof.
  constructor.
  - exact RTheory.
  - exact R1_neq_R0.
  - intros p q. unfold finv. ex_unfold. unfold Rdiv. ring.
  - intros p Hp. unfold finv. ex_unfold. field. exact Hp.
Qed.

Global Instance ExactLaws : Laws ExactOps.
Proof.
  constructor.
  - exact Exact_field_theory.
  - exact Reqb_eq.
  - reflexivity.
  - reflexivity.
  - reflexivity.
  - reflexivity.
  - intros a. ex_unfold. destruct (Rltb a a) eqn:E; [|reflexivity].
    apply Rltb_lt in E. lra.
  - intros a b c. ex_unfold. rewrite !Rltb_lt. lra.
  - intros a b. ex_unfold. rewrite !Rltb_lt.
    destruct (Rtotal_order a b) as [H|[H|H]]; auto.
  - intros a b c. ex_unfold. rewrite !Rltb_lt. lra.
  - intros a b c. ex_unfold. rewrite !Rltb_lt. intros Hc H.
    apply Rmult_lt_compat_r; assumption.
Qed.

(* unfolding lemmas for the exact instance *)
Lemma peval_exact_nil t : peval (K := ExactOps) [] t = 0.
Proof. reflexivity. Qed.
Lemma peval_exact_cons a q t :
  peval (K := ExactOps) (a :: q) t = a + t * peval (K := ExactOps) q t.
Proof. reflexivity. Qed.

(* sum_i |c_i| |t|^i *)
Definition pabs (c : list R) (t : R) : R := peval (K := ExactOps) (map Rabs c) (Rabs t).

Lemma pabs_nil t : pabs [] t = 0.
Proof. reflexivity. Qed.
Lemma pabs_cons a q t : pabs (a :: q) t = Rabs a + Rabs t * pabs q t.
Proof. reflexivity. Qed.

Lemma pabs_nonneg c t : 0 <= pabs c t.
Proof.
  induction c as [|a c IH]; [rewrite pabs_nil; lra|].
  rewrite pabs_cons. pose proof (Rabs_pos a). pose proof (Rabs_pos t).
  pose proof (Rmult_le_pos _ _ H0 IH). lra.
Qed.

Lemma peval_abs_le c t : Rabs (peval (K := ExactOps) c t) <= pabs c t.
Proof.
  induction c as [|a c IH].
  - rewrite peval_exact_nil, pabs_nil, Rabs_R0. lra.
  - rewrite peval_exact_cons, pabs_cons.
    eapply Rle_trans; [apply Rabs_triang|]. rewrite Rabs_mult.
    apply Rplus_le_compat_l. apply Rmult_le_compat_l; [apply Rabs_pos|exact IH].
Qed.

(* exact integer constants *)
Lemma fof_pos_exact_id p : fof_pos (K := ExactOps) p = IZR (Zpos p).
Proof.
  induction p as [q IH|q IH|]; cbn [fof_pos]; ex_unfold.
  - rewrite IH. rewrite (Pos2Z.inj_xI q), plus_IZR, mult_IZR. lra.
  - rewrite IH. rewrite (Pos2Z.inj_xO q), mult_IZR. lra.
  - reflexivity.
Qed.

Lemma fofZ_exact_id z : fofZ (K := ExactOps) z = IZR z.
Proof.
  destruct z as [|p|p]; cbn [fofZ]; ex_unfold; [reflexivity|apply fof_pos_exact_id|].
  rewrite fof_pos_exact_id. rewrite <- opp_IZR. reflexivity.
Qed.

Lemma fofnat_exact_id n : fofnat (K := ExactOps) n = INR n.
Proof. unfold fofnat. rewrite fofZ_exact_id, <- INR_IZR_INZ. reflexivity. Qed.

(* ------------------------------------------------------------------ *)
(** * The standard model *)

Section Rounded.
  Variable u : R.
  Hypothesis u_pos : 0 <= u.

  Definition gamma (k : nat) : R := (1 + u) ^ k - 1.

  Lemma pow1u_ge1 k : 1 <= (1 + u) ^ k.
  Proof. apply pow_R1_Rle. lra. Qed.

  Lemma gamma_0 : gamma 0 = 0.
  Proof. unfold gamma. simpl. lra. Qed.

  Lemma gamma_1 : gamma 1 = u.
  Proof. unfold gamma. simpl. lra. Qed.

  Lemma gamma_nonneg k : 0 <= gamma k.
  Proof. unfold gamma. pose proof (pow1u_ge1 k). lra. Qed.

  Lemma gamma_S k : gamma (S k) = gamma k * (1 + u) + u.
  Proof. unfold gamma. simpl. ring. Qed.

  Lemma gamma_mul j k : gamma j + gamma k + gamma j * gamma k = gamma (j + k).
  Proof. unfold gamma. rewrite pow_add. ring. Qed.

  Lemma gamma_mono j k : (j <= k)%nat -> gamma j <= gamma k.
  Proof.
    intros H. unfold gamma.
    assert ((1 + u) ^ j <= (1 + u) ^ k) by (apply Rle_pow; [lra|exact H]). lra.
  Qed.

  (* (1+d1)...(1+dk) = 1 + theta_k with |theta_k| <= gamma k *)
  Lemma prod_theta (ds : list R) :
    Forall (fun d => Rabs d <= u) ds ->
    exists theta, Rabs theta <= gamma (length ds) /\
                  fold_right (fun d acc => (1 + d) * acc) 1 ds = 1 + theta.
  Proof.
    induction ds as [|d ds IH]; intros H.
    - exists 0. cbn [fold_right length]. rewrite gamma_0, Rabs_R0. split; lra.
    - inversion H as [|d' ds' Hd Hds]; subst.
      destruct (IH Hds) as [th [Hth Eth]].
      exists (d + th + d * th). cbn [fold_right length]. rewrite Eth. split; [|ring].
      rewrite gamma_S.
      eapply Rle_trans; [apply Rabs_triang|].
      eapply Rle_trans; [apply Rplus_le_compat_r, Rabs_triang|].
      rewrite Rabs_mult.
      assert (Rabs d * Rabs th <= u * gamma (length ds)).
      { apply Rmult_le_compat; try apply Rabs_pos; assumption. }
      lra.
  Qed.

  (* gamma n <= n u / (1 - n u) and the usual simplification *)
  Lemma pow1u_frac n : INR n * u <= 1 -> (1 + u) ^ n * (1 - INR n * u) <= 1.
  Proof.
    induction n as [|n IH]; intros H.
    - simpl. lra.
    - rewrite S_INR in *. 
      assert (Hn : 0 <= INR n) by apply pos_INR.
      assert (Hnu : 0 <= INR n * u) by (apply Rmult_le_pos; assumption).
      assert (H1 : INR n * u <= 1) by lra.
      specialize (IH H1).
      assert (Hp : 0 <= (1 + u) ^ n) by (pose proof (pow1u_ge1 n); lra).
      assert (Huu : 0 <= (INR n + 1) * (u * u)).
      { apply Rmult_le_pos; [lra|apply Rmult_le_pos; assumption]. }
      replace ((1 + u) ^ S n * (1 - (INR n + 1) * u))
        with ((1 + u) ^ n * ((1 - INR n * u) - (INR n + 1) * (u * u))) by (simpl; ring).
      assert (Hq : (1 + u) ^ n * ((INR n + 1) * (u * u)) >= 0).
      { apply Rle_ge, Rmult_le_pos; assumption. }
      rewrite Rmult_minus_distr_l. lra.
  Qed.

  Lemma gamma_le_frac n : INR n * u < 1 -> gamma n <= INR n * u / (1 - INR n * u).
  Proof.
    intros H. pose proof (pow1u_frac n (Rlt_le _ _ H)) as Hf.
    unfold gamma.
    assert (Hd : 0 < 1 - INR n * u) by lra.
    apply Rmult_le_reg_r with (1 - INR n * u); [exact Hd|].
    unfold Rdiv. rewrite Rmult_assoc, Rinv_l by lra. lra.
  Qed.

  Lemma gamma_small n : INR n * u <= 1 / 2 -> gamma n <= 2 * INR n * u.
  Proof.
    intros H.
    assert (H1 : INR n * u <= 1) by lra.
    pose proof (pow1u_frac n H1) as Hf.
    assert (Hn : 0 <= INR n * u) by (apply Rmult_le_pos; [apply pos_INR|exact u_pos]).
    unfold gamma. set (p := (1 + u) ^ n) in *. set (x := INR n * u) in *.
    (* p (1-x) <= 1, 0 <= x <= 1/2  |-  p - 1 <= 2 x ; since (1+2x)(1-x) >= 1 *)
    assert (Hk : 1 <= (1 + 2 * x) * (1 - x)) by nra.
    assert (Hle : p * (1 - x) <= (1 + 2 * x) * (1 - x)) by lra.
    assert (p <= 1 + 2 * x).
    { apply Rmult_le_reg_r with (1 - x); [lra|exact Hle]. }
    replace (2 * INR n * u) with (2 * x) by (unfold x; ring). lra.
  Qed.

  (* ---------------------------------------------------------------- *)
  (** ** A small calculus of relative-error judgements

      [E k v e S]: the computed value [v] approximates the exact value [e]
      with at most [k] accumulated rounding factors, relative to the
      magnitude bound [S] of [e]:  |v - e| <= gamma k * S  and  |e| <= S. *)

  Definition E (k : nat) (v e S : R) : Prop :=
    Rabs (v - e) <= gamma k * S /\ Rabs e <= S.

  Lemma E_S_nonneg k v e S : E k v e S -> 0 <= S.
  Proof. intros [_ H]. pose proof (Rabs_pos e). lra. Qed.

  Lemma E_eq k k' v e e' S S' :
    E k v e S -> k = k' -> e = e' -> S = S' -> E k' v e' S'.
  Proof. intros H -> -> ->. exact H. Qed.

  Lemma E_exact e : E 0 e e (Rabs e).
  Proof.
    split; [|lra]. rewrite gamma_0. replace (e - e) with 0 by ring.
    rewrite Rabs_R0. lra.
  Qed.

  Lemma E_exact_le e S : Rabs e <= S -> E 0 e e S.
  Proof.
    intros H. split; [|exact H]. rewrite gamma_0. replace (e - e) with 0 by ring.
    rewrite Rabs_R0. lra.
  Qed.

  Lemma E_mono j k v e S : (j <= k)%nat -> E j v e S -> E k v e S.
  Proof.
    intros Hjk [H1 H2]. split; [|exact H2].
    eapply Rle_trans; [exact H1|].
    apply Rmult_le_compat_r; [pose proof (Rabs_pos e); lra|apply gamma_mono, Hjk].
  Qed.

  Lemma E_weaken k v e S S' : S <= S' -> E k v e S -> E k v e S'.
  Proof.
    intros HS [H1 H2]. split; [|lra].
    eapply Rle_trans; [exact H1|].
    apply Rmult_le_compat_l; [apply gamma_nonneg|exact HS].
  Qed.

  Lemma abs_mul_bound a b A B : Rabs a <= A -> Rabs b <= B -> Rabs (a * b) <= A * B.
  Proof.
    intros Ha Hb. rewrite Rabs_mult.
    apply Rmult_le_compat; try apply Rabs_pos; assumption.
  Qed.

  Lemma E_add j k v1 e1 S1 v2 e2 S2 :
    E j v1 e1 S1 -> E k v2 e2 S2 -> E (Nat.max j k) (v1 + v2) (e1 + e2) (S1 + S2).
  Proof.
    intros [A1 B1] [A2 B2].
    assert (HS1 : 0 <= S1) by (pose proof (Rabs_pos e1); lra).
    assert (HS2 : 0 <= S2) by (pose proof (Rabs_pos e2); lra).
    split.
    - replace (v1 + v2 - (e1 + e2)) with ((v1 - e1) + (v2 - e2)) by ring.
      eapply Rle_trans; [apply Rabs_triang|].
      assert (gamma j * S1 <= gamma (Nat.max j k) * S1).
      { apply Rmult_le_compat_r; [exact HS1|apply gamma_mono, Nat.le_max_l]. }
      assert (gamma k * S2 <= gamma (Nat.max j k) * S2).
      { apply Rmult_le_compat_r; [exact HS2|apply gamma_mono, Nat.le_max_r]. }
      lra.
    - eapply Rle_trans; [apply Rabs_triang|]. lra.
  Qed.

  Lemma E_mul j k v1 e1 S1 v2 e2 S2 :
    E j v1 e1 S1 -> E k v2 e2 S2 -> E (j + k) (v1 * v2) (e1 * e2) (S1 * S2).
  Proof.
    intros [A1 B1] [A2 B2]. split; [|apply abs_mul_bound; assumption].
    replace (v1 * v2 - e1 * e2)
      with ((v1 - e1) * (v2 - e2) + e1 * (v2 - e2) + (v1 - e1) * e2) by ring.
    eapply Rle_trans; [apply Rabs_triang|].
    eapply Rle_trans; [apply Rplus_le_compat_r, Rabs_triang|].
    pose proof (abs_mul_bound _ _ _ _ A1 A2) as P1.
    pose proof (abs_mul_bound _ _ _ _ B1 A2) as P2.
    pose proof (abs_mul_bound _ _ _ _ A1 B2) as P3.
    rewrite <- gamma_mul.
    replace ((gamma j + gamma k + gamma j * gamma k) * (S1 * S2))
      with (gamma j * S1 * (gamma k * S2) + S1 * (gamma k * S2) + gamma j * S1 * S2) by ring.
    lra.
  Qed.

  Lemma E_opp k v e S : E k v e S -> E k (- v) (- e) S.
  Proof.
    intros [A B]. split; [|rewrite Rabs_Ropp; exact B].
    replace (- v - - e) with (- (v - e)) by ring. rewrite Rabs_Ropp. exact A.
  Qed.

  (* division by an exactly known positive constant *)
  Lemma E_div_const k v e S n : 0 < n -> E k v e S -> E k (v / n) (e / n) (S / n).
  Proof.
    intros Hn H.
    assert (Hi : E 0 (/ n) (/ n) (/ n)).
    { apply E_exact_le. rewrite Rabs_pos_eq; [lra|]. apply Rlt_le, Rinv_0_lt_compat, Hn. }
    pose proof (E_mul _ _ _ _ _ _ _ _ H Hi) as Hm.
    rewrite Nat.add_0_r in Hm. exact Hm.
  Qed.

  (* ---------------------------------------------------------------- *)
  (** ** The rounding function *)

  Variable rnd : R -> R.
  Hypothesis rnd_spec : forall x, exists d, Rabs d <= u /\ rnd x = x * (1 + d).

  Lemma E_rnd k v e S : E k v e S -> E (k + 1) (rnd v) e S.
  Proof.
    intros H. destruct (rnd_spec v) as [d [Hd ->]].
    assert (H1 : E 1 (1 + d) 1 1).
    { split; [|rewrite Rabs_R1; lra]. rewrite gamma_1.
      replace (1 + d - 1) with d by ring. lra. }
    pose proof (E_mul _ _ _ _ _ _ _ _ H H1) as Hm.
    eapply E_eq; [exact Hm|reflexivity|ring|ring].
  Qed.

  Lemma rnd_0 : rnd 0 = 0.
  Proof. destruct (rnd_spec 0) as [d [_ ->]]. ring. Qed.

  (* unfolding lemmas for the rounded instance *)
  Lemma fadd_rnd a b : fadd (Ops := RndOps rnd) a b = rnd (a + b).
  Proof. reflexivity. Qed.
  Lemma fmul_rnd a b : fmul (Ops := RndOps rnd) a b = rnd (a * b).
  Proof. reflexivity. Qed.
  Lemma fsub_rnd a b : fsub (Ops := RndOps rnd) a b = rnd (a - b).
  Proof. reflexivity. Qed.
  Lemma fdiv_rnd a b : fdiv (Ops := RndOps rnd) a b = rnd (a / b).
  Proof. reflexivity. Qed.

  (* ---------------------------------------------------------------- *)
  (** ** Horner's scheme: internal::evaluateInterval *)

  Section Horner.
    (* [dx] is the computed and [t] the intended evaluation point; they
       differ by [jd] rounding factors (jd = 1 for dx = rnd (x - xm) against
       t = x - xm, jd = 0 when the computed dx itself is the reference). *)
    Variables (jd : nat) (dx t : R).
    Hypothesis E_dx : E jd dx t (Rabs t).
    Let stepR := fun res it : R => rnd (rnd (dx * res) + it).

    Lemma horner_fold l : forall acc,
      E ((jd + 2) * length l) (fold_left stepR (rev l) acc)
        (peval (K := ExactOps) (l ++ [acc]) t) (pabs (l ++ [acc]) t).
    Proof.
      induction l as [|a l IH]; intros acc.
      - cbn [rev fold_left app length]. rewrite Nat.mul_0_r.
        rewrite peval_exact_cons, peval_exact_nil, pabs_cons, pabs_nil.
        eapply E_eq; [apply E_exact|reflexivity|ring|ring].
      - cbn [rev app]. rewrite fold_left_app. cbn [fold_left].
        rewrite peval_exact_cons, pabs_cons.
        specialize (IH acc). unfold stepR at 1.
        eapply E_eq.
        + apply E_rnd, E_add; [apply E_rnd, E_mul; [exact E_dx|exact IH]|apply (E_exact a)].
        + cbn [length]. lia.
        + ring.
        + ring.
    Qed.
  End Horner.

  Lemma eval_interval_rnd_ok x c xm :
    c <> [] -> exists v, eval_interval (K := RndOps rnd) x c xm = Ok v.
  Proof.
    intros Hc. unfold eval_interval. destruct (rev c) as [|cl r] eqn:Er.
    - exfalso. apply Hc. rewrite <- (rev_involutive c), Er. reflexivity.
    - eexists. reflexivity.
  Qed.

  Lemma horner_rounded_E_gen jd x c xm t v :
    E jd (rnd (x - xm)) t (Rabs t) ->
    eval_interval (K := RndOps rnd) x c xm = Ok v ->
    E ((jd + 2) * (length c - 1)) v (peval (K := ExactOps) c t) (pabs c t).
  Proof.
    intros Hdx.
    unfold eval_interval. destruct (rev c) as [|cl r] eqn:Er; [discriminate|].
    intros Hv. injection Hv as <-.
    assert (Hc : c = rev r ++ [cl]).
    { rewrite <- (rev_involutive c), Er. reflexivity. }
    pose proof (horner_fold jd _ t Hdx (rev r) cl) as H.
    rewrite rev_involutive in H. rewrite <- Hc in H.
    eapply E_eq; [exact H| |reflexivity|reflexivity].
    rewrite Hc, app_length. cbn [length].
    replace (length (rev r) + 1 - 1)%nat with (length (rev r)) by lia. reflexivity.
  Qed.

  Lemma horner_rounded_E x c xm v :
    eval_interval (K := RndOps rnd) x c xm = Ok v ->
    E (3 * (length c - 1)) v (peval (K := ExactOps) c (x - xm)) (pabs c (x - xm)).
  Proof.
    apply (horner_rounded_E_gen 1). apply (E_rnd 0). apply E_exact.
  Qed.

  (* Running-error bound for Horner's scheme, including the rounding of
     dx = x - xm (which contributes one factor per power of dx, hence 3 and not
     2 rounding factors per coefficient). *)
  Theorem horner_rounded_bound_tight x c xm v :
    eval_interval (K := RndOps rnd) x c xm = Ok v ->
    Rabs (v - peval (K := ExactOps) c (x - xm))
      <= gamma (3 * (length c - 1)) * pabs c (x - xm).
  Proof. intros H. exact (proj1 (horner_rounded_E _ _ _ _ H)). Qed.

  Theorem horner_rounded_bound x c xm v :
    eval_interval (K := RndOps rnd) x c xm = Ok v ->
    Rabs (v - peval (K := ExactOps) c (x - xm))
      <= gamma (3 * length c) * pabs c (x - xm).
  Proof.
    intros H. apply horner_rounded_E in H.
    apply (E_mono _ (3 * length c)) in H; [exact (proj1 H)|lia].
  Qed.

  (* The same computation measured against the polynomial at the COMPUTED
     abscissa dx = rnd (x - xm): the classical 2 n bound (Higham, 5.1). *)
  Theorem horner_rounded_bound_dx x c xm v :
    eval_interval (K := RndOps rnd) x c xm = Ok v ->
    Rabs (v - peval (K := ExactOps) c (rnd (x - xm)))
      <= gamma (2 * length c) * pabs c (rnd (x - xm)).
  Proof.
    intros H. apply (horner_rounded_E_gen 0 _ _ _ (rnd (x - xm))) in H; [|apply E_exact].
    apply (E_mono _ (2 * length c)) in H; [exact (proj1 H)|lia].
  Qed.

  (* ---------------------------------------------------------------- *)
  (** ** Integer constants: static_cast<T>(n) is exact for |n| <= M *)

  Variable M : Z.
  Hypothesis rnd_int : forall z : Z, (Z.abs z <= M)%Z -> rnd (IZR z) = IZR z.

  Lemma f0_rnd : f0 (Ops := RndOps rnd) = 0.
  Proof. reflexivity. Qed.
  Lemma f1_rnd : f1 (Ops := RndOps rnd) = 1.
  Proof. reflexivity. Qed.
  Lemma fopp_rnd a : fopp (Ops := RndOps rnd) a = - a.
  Proof. reflexivity. Qed.

  Lemma fof_pos_exact p : (Zpos p <= M)%Z -> fof_pos (K := RndOps rnd) p = IZR (Zpos p).
  Proof.
    induction p as [q IH|q IH|]; intros Hp; cbn [fof_pos];
      rewrite ?fadd_rnd, ?fmul_rnd, ?f1_rnd.
    - rewrite IH by lia.
      replace (1 + 1) with (IZR 2) by lra. rewrite (rnd_int 2) by lia.
      rewrite <- mult_IZR. rewrite rnd_int by lia.
      replace (1 + IZR (2 * Z.pos q)) with (IZR (1 + 2 * Z.pos q))
        by (rewrite plus_IZR; reflexivity).
      rewrite rnd_int by lia. f_equal; lia.
    - rewrite IH by lia.
      replace (1 + 1) with (IZR 2) by lra. rewrite (rnd_int 2) by lia.
      rewrite <- mult_IZR. rewrite rnd_int by lia. f_equal; lia.
    - reflexivity.
  Qed.

  Lemma fofZ_exact z : (Z.abs z <= M)%Z -> fofZ (K := RndOps rnd) z = IZR z.
  Proof.
    destruct z as [|p|p]; intros Hz; cbn [fofZ].
    - reflexivity.
    - apply fof_pos_exact. lia.
    - rewrite fopp_rnd, fof_pos_exact by lia. rewrite <- opp_IZR. reflexivity.
  Qed.

  Lemma fofnat_exact n : (Z.of_nat n <= M)%Z -> fofnat (K := RndOps rnd) n = INR n.
  Proof.
    intros Hn. unfold fofnat. rewrite fofZ_exact by lia.
    rewrite <- INR_IZR_INZ. reflexivity.
  Qed.

  (* ---------------------------------------------------------------- *)
  (** ** Lists of judgements *)

  Inductive EL (k : nat) : list R -> list R -> list R -> Prop :=
  | EL_nil : EL k [] [] []
  | EL_cons v e S vs es Ss :
      E k v e S -> EL k vs es Ss -> EL k (v :: vs) (e :: es) (S :: Ss).

  Lemma EL_exact cs : EL 0 cs cs (map Rabs cs).
  Proof.
    induction cs as [|c cs IH]; cbn [map]; constructor; [apply E_exact|exact IH].
  Qed.

  Lemma EL_mono j k vs es Ss : (j <= k)%nat -> EL j vs es Ss -> EL k vs es Ss.
  Proof.
    intros Hjk H. induction H as [|v e S vs es Ss Hv _ IH]; constructor;
      [apply (E_mono j); assumption|exact IH].
  Qed.

  Lemma EL_length k vs es Ss : EL k vs es Ss -> length vs = length es /\ length vs = length Ss.
  Proof.
    intros H. induction H as [|v e S vs es Ss _ _ [IH1 IH2]]; cbn [length]; split; congruence.
  Qed.

  Lemma evens_cons (a : R) r : evens (a :: r) = a :: evens (tl r).
  Proof. destruct r; reflexivity. Qed.

  Lemma EL_evens k vs es Ss : EL k vs es Ss -> EL k (evens vs) (evens es) (evens Ss).
  Proof.
    intros H.
    assert (P : EL k (evens vs) (evens es) (evens Ss)
                /\ EL k (evens (tl vs)) (evens (tl es)) (evens (tl Ss))).
    { induction H as [|v e S vs es Ss Hv _ [IH1 IH2]].
      - split; constructor.
      - rewrite !evens_cons. cbn [tl]. split; [constructor; assumption|exact IH1]. }
    exact (proj1 P).
  Qed.

  Lemma length_evens (l : list R) : (2 * length (evens l) <= length l + 1)%nat.
  Proof.
    assert (P : (2 * length (evens l) <= length l + 1
                 /\ 2 * length (evens (tl l)) <= length l)%nat).
    { induction l as [|a l [IH1 IH2]].
      - cbn. lia.
      - rewrite evens_cons. cbn [tl length]. lia. }
    exact (proj1 P).
  Qed.

  (* ---------------------------------------------------------------- *)
  (** ** even_horner: sum_m cs[m] / (2(i+m)+1) * h2^m *)

  Lemma even_horner_rnd_nil i h2 : even_horner (K := RndOps rnd) i [] h2 = 0.
  Proof. reflexivity. Qed.
  Lemma even_horner_rnd_cons i c r h2 :
    even_horner (K := RndOps rnd) i (c :: r) h2
    = rnd (rnd (c / fofnat (K := RndOps rnd) (2 * i + 1))
           + rnd (h2 * even_horner (K := RndOps rnd) (S i) r h2)).
  Proof. reflexivity. Qed.
  Lemma even_horner_exact_nil i h2 : even_horner (K := ExactOps) i [] h2 = 0.
  Proof. reflexivity. Qed.
  Lemma even_horner_exact_cons i c r h2 :
    even_horner (K := ExactOps) i (c :: r) h2
    = c / INR (2 * i + 1) + h2 * even_horner (K := ExactOps) (S i) r h2.
  Proof. rewrite <- fofnat_exact_id. reflexivity. Qed.

  (* general form: coefficients carrying [kc] rounding factors, abscissa
     carrying [j] *)
  Lemma even_horner_E kc j h2r h2e H2 :
    E j h2r h2e H2 ->
    forall cs ce cS, EL kc cs ce cS ->
    forall i, (Z.of_nat (2 * (i + length cs)) <= M)%Z ->
    E (kc + (j + 2) * length cs)
      (even_horner (K := RndOps rnd) i cs h2r)
      (even_horner (K := ExactOps) i ce h2e)
      (even_horner (K := ExactOps) i cS H2).
  Proof.
    intros Hh cs ce cS H.
    induction H as [|v e Sv vs es Ss Hv _ IH]; intros i Hi.
    - rewrite even_horner_rnd_nil, !even_horner_exact_nil.
      apply (E_mono 0); [lia|]. apply E_exact_le. rewrite Rabs_R0. lra.
    - cbn [length] in Hi.
      rewrite even_horner_rnd_cons, !even_horner_exact_cons.
      rewrite fofnat_exact by lia.
      assert (Hpos : 0 < INR (2 * i + 1)) by (apply lt_0_INR; lia).
      specialize (IH (S i)). 
      assert (Hi' : (Z.of_nat (2 * (S i + length vs)) <= M)%Z) by lia.
      specialize (IH Hi').
      eapply E_eq.
      + apply E_rnd, E_add.
        * apply E_rnd, E_div_const; [exact Hpos|exact Hv].
        * apply E_rnd, E_mul; [exact Hh|exact IH].
      + cbn [length]. rewrite Nat.mul_succ_r. lia.
      + reflexivity.
      + reflexivity.
  Qed.

  Definition eh_abs (i : nat) (cs : list R) (h2 : R) : R :=
    even_horner (K := ExactOps) i (map Rabs cs) (Rabs h2).

  Theorem even_horner_rounded_bound i cs h2 :
    (Z.of_nat (2 * (i + length cs)) <= M)%Z ->
    Rabs (even_horner (K := RndOps rnd) i cs h2 - even_horner (K := ExactOps) i cs h2)
      <= gamma (2 * length cs) * eh_abs i cs h2.
  Proof.
    intros Hi.
    pose proof (even_horner_E 0 0 h2 h2 (Rabs h2) (E_exact h2) cs cs (map Rabs cs)
                  (EL_exact cs) i Hi) as H.
    exact (proj1 H).
  Qed.

  (* ---------------------------------------------------------------- *)
  (** ** LinearForm::evaluateInterval *)

  Lemma f2_exact_id : f2 (K := ExactOps) = 2.
  Proof. unfold f2. rewrite fofZ_exact_id. reflexivity. Qed.

  Lemma f2_exact : (2 <= M)%Z -> f2 (K := RndOps rnd) = 2.
  Proof. intros H. unfold f2. rewrite fofZ_exact by lia. reflexivity. Qed.

  (* the final 2 * h * (...) of both kernels *)
  Lemma kernel_tail_E k h ehr ehe ehS :
    (2 <= M)%Z -> E k ehr ehe ehS ->
    E (k + 2) (rnd (rnd (2 * h) * ehr)) (2 * h * ehe) (2 * Rabs h * ehS).
  Proof.
    intros HM H.
    assert (H2 : E 1 (rnd (2 * h)) (2 * h) (2 * Rabs h)).
    { apply (E_rnd 0). eapply E_eq; [apply E_mul; [apply (E_exact 2)|apply (E_exact h)]
                                    |reflexivity|reflexivity|].
      rewrite (Rabs_pos_eq 2) by lra. reflexivity. }
    eapply E_eq; [apply E_rnd, E_mul; [exact H2|exact H]|lia|reflexivity|reflexivity].
  Qed.

  Lemma lin_kernel_rounded_E a h v :
    (Z.of_nat (length a) + 1 <= M)%Z ->
    lin_kernel (K := RndOps rnd) a h = Ok v ->
    E (3 * length (evens a) + 2) v (defint (K := ExactOps) a h)
      (2 * Rabs h * eh_abs 0 (evens a) (h * h)).
  Proof.
    intros HM Hv. destruct a as [|a0 a]; [discriminate|].
    set (a' := a0 :: a) in *.
    assert (Hl : (1 <= length a')%nat) by (unfold a'; cbn [length]; lia).
    pose proof (length_evens a') as Hle.
    rewrite (defint_even_horner (L := ExactLaws)).
    unfold lin_kernel in Hv. unfold a' at 1 in Hv. injection Hv as <-.
    rewrite !fmul_rnd. rewrite f2_exact by lia.
    change (@fmul R ExactOps) with Rmult. rewrite f2_exact_id.
    assert (Hh2 : E 1 (rnd (h * h)) (h * h) (Rabs (h * h))).
    { apply (E_rnd 0), E_exact. }
    assert (Hi : (Z.of_nat (2 * (0 + length (evens a'))) <= M)%Z) by lia.
    pose proof (even_horner_E 0 1 _ _ _ Hh2 _ _ _ (EL_exact (evens a')) 0%nat Hi) as He.
    pose proof (kernel_tail_E _ h _ _ _ ltac:(lia) He) as Ht.
    eapply E_eq; [exact Ht| |reflexivity|].
    - cbn [Nat.add]. lia.
    - unfold eh_abs. reflexivity.
  Qed.

  Theorem lin_kernel_rounded_bound_tight a h v :
    (Z.of_nat (length a) + 1 <= M)%Z ->
    lin_kernel (K := RndOps rnd) a h = Ok v ->
    Rabs (v - defint (K := ExactOps) a h)
      <= gamma (3 * length (evens a) + 2) * (2 * Rabs h * eh_abs 0 (evens a) (h * h)).
  Proof. intros HM Hv. exact (proj1 (lin_kernel_rounded_E a h v HM Hv)). Qed.

  Theorem lin_kernel_rounded_bound a h v :
    (Z.of_nat (length a) + 1 <= M)%Z ->
    lin_kernel (K := RndOps rnd) a h = Ok v ->
    Rabs (v - defint (K := ExactOps) a h)
      <= gamma (2 * length a + 3) * (2 * Rabs h * eh_abs 0 (evens a) (h * h)).
  Proof.
    intros HM Hv. pose proof (lin_kernel_rounded_E a h v HM Hv) as H.
    assert (Hl : (1 <= length a)%nat).
    { destruct a; [discriminate|cbn [length]; lia]. }
    pose proof (length_evens a) as Hle.
    apply (E_mono _ (2 * length a + 3)) in H; [exact (proj1 H)|lia].
  Qed.

  (* ---------------------------------------------------------------- *)
  (** ** BilinearForm::evaluateInterval: the product coefficients are
         themselves computed with rounding *)

  Lemma pscale_l_rnd a q : pscale_l (K := RndOps rnd) a q = map (fun b => rnd (a * b)) q.
  Proof. reflexivity. Qed.
  Lemma pscale_l_exact a q : pscale_l (K := ExactOps) a q = map (fun b => a * b) q.
  Proof. reflexivity. Qed.

  Lemma EL_pscale_l ka kb a ae aS q qe qS :
    E ka a ae aS -> EL kb q qe qS ->
    EL (ka + kb + 1) (pscale_l (K := RndOps rnd) a q)
       (pscale_l (K := ExactOps) ae qe) (pscale_l (K := ExactOps) aS qS).
  Proof.
    intros Ha H. rewrite pscale_l_rnd, !pscale_l_exact.
    induction H as [|v e Sv vs es Ss Hv _ IH]; cbn [map]; constructor; [|exact IH].
    apply E_rnd, E_mul; assumption.
  Qed.

  Lemma EL_padd j k p pe pS : EL j p pe pS -> forall q qe qS, EL k q qe qS ->
    EL (Nat.max j k + 1) (padd (K := RndOps rnd) p q)
       (padd (K := ExactOps) pe qe) (padd (K := ExactOps) pS qS).
  Proof.
    intros Hp. induction Hp as [|v e Sv vs es Ss Hv Hvs IH]; intros q qe qS Hq.
    - cbn [padd]. apply (EL_mono k); [lia|exact Hq].
    - destruct Hq as [|w f Sw ws fs Ts Hw Hws].
      + cbn [padd]. apply (EL_mono j); [lia|]. constructor; assumption.
      + cbn [padd]. constructor; [|apply IH; exact Hws].
        rewrite fadd_rnd. apply E_rnd.
        change (@fadd R ExactOps) with Rplus. apply E_add; assumption.
  Qed.

  Lemma EL_pmul p q :
    EL (length p) (pmul (K := RndOps rnd) p q) (pmul (K := ExactOps) p q)
       (pmul (K := ExactOps) (map Rabs p) (map Rabs q)).
  Proof.
    induction p as [|a p IH].
    - cbn [pmul map length]. constructor.
    - destruct p as [|b p].
      + cbn [pmul map length].
        apply (EL_pscale_l 0 0); [apply E_exact|apply EL_exact].
      + cbn [map] in *. rewrite !pmul_cons2.
        rewrite f0_rnd. change (@f0 R ExactOps) with 0.
        eapply EL_mono; [|apply EL_padd].
        2:{ apply (EL_pscale_l 0 0); [apply E_exact|apply EL_exact]. }
        2:{ constructor; [|exact IH]. apply (E_mono 0); [lia|].
            apply E_exact_le. rewrite Rabs_R0. lra. }
        cbn [length]. lia.
  Qed.

  Lemma length_pmul_rnd a b :
    length (pmul (K := RndOps rnd) a b) = length (pmul (K := ExactOps) a b).
  Proof. exact (proj1 (EL_length _ _ _ _ (EL_pmul a b))). Qed.

  (* magnitude: 2 |h| sum_{m} (sum_{i+j=2m} |a_i||b_j|) / (2m+1) |h|^(2m) *)
  Definition bi_abs (a b : list R) (h : R) : R :=
    2 * Rabs h * even_horner (K := ExactOps) 0
                   (evens (pmul (K := ExactOps) (map Rabs a) (map Rabs b))) (Rabs (h * h)).

  Lemma bi_kernel_rounded_E a b h v :
    (Z.of_nat (length a + length b) <= M)%Z ->
    bi_kernel (K := RndOps rnd) a b h = Ok v ->
    E (length a + 3 * length (evens (pmul (K := ExactOps) a b)) + 2)
      v (defint (K := ExactOps) (pmul (K := ExactOps) a b) h) (bi_abs a b h).
  Proof.
    intros HM Hv. destruct a as [|a0 a]; [discriminate|]. destruct b as [|b0 b]; [discriminate|].
    set (a' := a0 :: a) in *. set (b' := b0 :: b) in *.
    assert (Hla : (1 <= length a')%nat) by (unfold a'; cbn [length]; lia).
    assert (Hlb : (1 <= length b')%nat) by (unfold b'; cbn [length]; lia).
    assert (Hlen : length (pmul (K := ExactOps) a' b') = (length a' + length b' - 1)%nat).
    { apply length_pmul; unfold a', b'; discriminate. }
    pose proof (length_evens (pmul (K := ExactOps) a' b')) as Hle.
    rewrite (defint_even_horner (L := ExactLaws)).
    unfold bi_kernel in Hv. unfold a' at 1, b' at 1 in Hv. injection Hv as <-.
    rewrite !fmul_rnd. rewrite f2_exact by lia.
    change (@fmul R ExactOps) with Rmult. rewrite f2_exact_id.
    assert (Hh2 : E 1 (rnd (h * h)) (h * h) (Rabs (h * h))).
    { apply (E_rnd 0), E_exact. }
    pose proof (EL_evens _ _ _ _ (EL_pmul a' b')) as Hev.
    destruct (EL_length _ _ _ _ Hev) as [Hl1 _].
    assert (Hi : (Z.of_nat (2 * (0 + length (evens (pmul (K := RndOps rnd) a' b')))) <= M)%Z).
    { rewrite Hl1. lia. }
    pose proof (even_horner_E _ 1 _ _ _ Hh2 _ _ _ Hev 0%nat Hi) as He.
    pose proof (kernel_tail_E _ h _ _ _ ltac:(lia) He) as Ht.
    eapply E_eq; [exact Ht| |reflexivity|reflexivity].
    rewrite Hl1. cbn [Nat.add]. lia.
  Qed.

  Theorem bi_kernel_rounded_bound_tight a b h v :
    (Z.of_nat (length a + length b) <= M)%Z ->
    bi_kernel (K := RndOps rnd) a b h = Ok v ->
    Rabs (v - defint (K := ExactOps) (pmul (K := ExactOps) a b) h)
      <= gamma (length a + 3 * length (evens (pmul (K := ExactOps) a b)) + 2) * bi_abs a b h.
  Proof. intros HM Hv. exact (proj1 (bi_kernel_rounded_E a b h v HM Hv)). Qed.

  Theorem bi_kernel_rounded_bound a b h v :
    (Z.of_nat (length a + length b) <= M)%Z ->
    bi_kernel (K := RndOps rnd) a b h = Ok v ->
    Rabs (v - defint (K := ExactOps) (pmul (K := ExactOps) a b) h)
      <= gamma (3 * length a + 2 * length b + 2) * bi_abs a b h.
  Proof.
    intros HM Hv. pose proof (bi_kernel_rounded_E a b h v HM Hv) as H.
    destruct a as [|a0 a]; [discriminate|]. destruct b as [|b0 b]; [discriminate|].
    set (a' := a0 :: a) in *. set (b' := b0 :: b) in *.
    assert (Hla : (1 <= length a')%nat) by (unfold a'; cbn [length]; lia).
    assert (Hlb : (1 <= length b')%nat) by (unfold b'; cbn [length]; lia).
    assert (Hlen : length (pmul (K := ExactOps) a' b') = (length a' + length b' - 1)%nat).
    { apply length_pmul; unfold a', b'; discriminate. }
    pose proof (length_evens (pmul (K := ExactOps) a' b')) as Hle.
    apply (E_mono _ (3 * length a' + 2 * length b' + 2)) in H; [exact (proj1 H)|lia].
  Qed.
End Rounded.

(* ------------------------------------------------------------------ *)
(** * Why the exponent for [horner_rounded_bound] is 3 n and not 2 n

    Measured against the polynomial at the exact abscissa x - xm, the rounding
    of dx = x - xm is amplified once per power of dx, so the top coefficient of
    a polynomial with n coefficients carries 3 (n - 1) rounding factors.  In
    the abstract standard model the bound gamma (2 n) is false already for
    n = 4 (rnd x = x (1 + u), c = [0;0;0;1], x = 1, xm = 0: v = (1+u)^9). *)

Lemma horner_2n_bound_fails u : 0 < u ->
  exists rnd, (forall x, exists d, Rabs d <= u /\ rnd x = x * (1 + d)) /\
  exists x c xm v, eval_interval (K := RndOps rnd) x c xm = Ok v /\
    ~ Rabs (v - peval (K := ExactOps) c (x - xm)) <= gamma u (2 * length c) * pabs c (x - xm).
Proof.
  intros Hu. exists (fun x => x * (1 + u)). split.
  { intros x. exists u. split; [rewrite Rabs_pos_eq; lra|reflexivity]. }
  exists 1, [0; 0; 0; 1], 0. eexists. split; [reflexivity|].
  cbv [rev app fold_left pabs peval map length Nat.mul Nat.add].
  change (@fadd R ExactOps) with Rplus. change (@fmul R ExactOps) with Rmult.
  change (@f0 R ExactOps) with 0.
  rewrite !fadd_rnd, !fmul_rnd, !fsub_rnd.
  replace (1 - 0) with 1 by ring. rewrite Rabs_R0, Rabs_R1.
  match goal with |- ~ Rabs (?a - ?b) <= _ => replace (a - b) with ((1 + u) ^ 9 - 1) by ring end.
  unfold gamma.
  assert (H8 : 1 <= (1 + u) ^ 8) by (apply pow_R1_Rle; lra).
  assert (H9 : (1 + u) ^ 9 = (1 + u) * (1 + u) ^ 8) by ring.
  rewrite Rabs_pos_eq by nra. nra.
Qed.

(* ------------------------------------------------------------------ *)
(** * The hypotheses are satisfied by IEEE round-to-nearest-even

    binary64 without underflow/overflow: 53 bits of precision, unbounded
    exponent range (Flocq's FLX format). *)

From Flocq Require Import Core Relative.

Definition rnd64 : R -> R := round radix2 (FLX_exp 53) ZnearestE.
Definition u64 : R := bpow radix2 (-53).
Definition M64 : Z := (2 ^ 53 - 1)%Z.

Lemma u64_pos : 0 <= u64.
Proof. apply bpow_ge_0. Qed.

Lemma prec53_gt_0 : Prec_gt_0 53.
Proof. reflexivity. Qed.

Lemma flx_rnd_spec : forall x, exists d, Rabs d <= u64 /\ rnd64 x = x * (1 + d).
Proof.
  intros x.
  destruct (@relative_error_N_FLX_ex radix2 53 prec53_gt_0 (fun z => negb (Z.even z)) x)
    as [d [Hd Hr]].
  exists d. split; [|exact Hr].
  eapply Rle_trans; [exact Hd|]. unfold u64.
  change (- (53) + 1)%Z with (-52)%Z.
  change (-53)%Z with (-1 + -52)%Z.
  rewrite bpow_plus. change (bpow radix2 (-1)) with (/ 2). lra.
Qed.

Lemma flx_rnd_int : forall z : Z, (Z.abs z <= M64)%Z -> rnd64 (IZR z) = IZR z.
Proof.
  intros z Hz. unfold rnd64. apply round_generic; [typeclasses eauto|].
  apply generic_format_FLX. apply (FLX_spec radix2 53 (IZR z) (Float radix2 z 0)).
  - unfold F2R. simpl. ring.
  - simpl Fnum. unfold M64 in Hz. change (Zpower radix2 53) with (2 ^ 53)%Z. lia.
Qed.

(* the main theorems instantiated at binary64 rounding *)
Corollary horner_rounded_bound_binary64 x c xm v :
  eval_interval (K := RndOps rnd64) x c xm = Ok v ->
  Rabs (v - peval (K := ExactOps) c (x - xm))
    <= gamma u64 (3 * length c) * pabs c (x - xm).
Proof. exact (horner_rounded_bound u64 u64_pos rnd64 flx_rnd_spec x c xm v). Qed.

Corollary horner_rounded_bound_binary64_eps x c xm v :
  INR (3 * length c) * u64 <= 1 / 2 ->
  eval_interval (K := RndOps rnd64) x c xm = Ok v ->
  Rabs (v - peval (K := ExactOps) c (x - xm))
    <= 2 * INR (3 * length c) * u64 * pabs c (x - xm).
Proof.
  intros Hn Hv. eapply Rle_trans; [apply horner_rounded_bound_binary64, Hv|].
  apply Rmult_le_compat_r; [apply pabs_nonneg|].
  apply gamma_small; [exact u64_pos|exact Hn].
Qed.

Corollary even_horner_rounded_bound_binary64 i cs h2 :
  (Z.of_nat (2 * (i + length cs)) <= M64)%Z ->
  Rabs (even_horner (K := RndOps rnd64) i cs h2 - even_horner (K := ExactOps) i cs h2)
    <= gamma u64 (2 * length cs) * eh_abs i cs h2.
Proof.
  exact (even_horner_rounded_bound u64 u64_pos rnd64 flx_rnd_spec M64 flx_rnd_int i cs h2).
Qed.

Corollary lin_kernel_rounded_bound_binary64 a h v :
  (Z.of_nat (length a) + 1 <= M64)%Z ->
  lin_kernel (K := RndOps rnd64) a h = Ok v ->
  Rabs (v - defint (K := ExactOps) a h)
    <= gamma u64 (2 * length a + 3) * (2 * Rabs h * eh_abs 0 (evens a) (h * h)).
Proof.
  exact (lin_kernel_rounded_bound u64 u64_pos rnd64 flx_rnd_spec M64 flx_rnd_int a h v).
Qed.

Corollary bi_kernel_rounded_bound_binary64 a b h v :
  (Z.of_nat (length a + length b) <= M64)%Z ->
  bi_kernel (K := RndOps rnd64) a b h = Ok v ->
  Rabs (v - defint (K := ExactOps) (pmul (K := ExactOps) a b) h)
    <= gamma u64 (3 * length a + 2 * length b + 2) * bi_abs a b h.
Proof.
  exact (bi_kernel_rounded_bound u64 u64_pos rnd64 flx_rnd_spec M64 flx_rnd_int a b h v).
Qed.

(* Proofs_Shared.v — the syntactic tie of C18 (split from Proofs_Sites.v so that a change of the access
   inventory of C09 cannot break C18's file and vice versa): the tables regenerated from /repo's headers on
   every run (coq/gen/Sites.v, coq/gen/Shared.v, written by gen/scan_sites.py) must be covered by the
   hand-maintained tables below.  A new unchecked access, a changed index expression, a new static /
   mutable / const_cast / shared_ptr or pointer member makes the vm_compute obligation fail.
   Each entry names where the access lives in the model and which theorems prove it in range
   (C09), respectively why the construct cannot be raced on (C18). *)
From Coq Require Import List String Bool.
From BSpl.gen Require Import Shared.
Import ListNotations.
Local Open Scope string_scope.

Definition pair_eqb (a b : string * string) : bool := String.eqb (fst a) (fst b) && String.eqb (snd a) (snd b).

Inductive share_class := Immutable | ConstInitOnce | AtomicRC | PureFunction.

(* Immutable: constexpr constant.  ConstInitOnce: function-local static const, initialised once under the
   C++11 thread-safe-statics rule and never written again.  AtomicRC: shared_ptr to a const vector - the only
   shared mutable word is the atomic reference count.  PureFunction: a static member FUNCTION (no state). *)
Definition shared_table : list (string * string * share_class) :=
  [
    ("bspline/BSplineGenerator.h", "static constexpr size_t k = order + 1;", Immutable);
    ("bspline/Spline.h", "static const T ZERO = static_cast<T>(0);", ConstInitOnce);
    ("bspline/Spline.h", "static constexpr size_t ARRAY_SIZE = order + 1;", Immutable);
    ("bspline/Spline.h", "static constexpr size_t NEW_ARRAY_SIZE = NEW_ORDER + 1;", Immutable);
    ("bspline/Spline.h", "static constexpr size_t NEW_ORDER = order + ordera;", Immutable);
    ("bspline/Spline.h", "static constexpr size_t NEW_ORDER = std::max(order, ordera);", Immutable);
    ("bspline/Spline.h", "static constexpr size_t spline_order = order;", Immutable);
    ("bspline/integration/BilinearForm.h", "static T evaluateInterval(", PureFunction);
    ("bspline/integration/LinearForm.h", "static T evaluateInterval(", PureFunction);
    ("bspline/operators/CompoundOperators.h", "static constexpr size_t outputOrder(", Immutable);
    ("bspline/operators/CompoundOperators.h", "static std::array<T, std::max(", PureFunction);
    ("bspline/operators/Derivative.h", "static constexpr size_t outputOrder(", Immutable);
    ("bspline/operators/GenericOperators.h", "static constexpr size_t outputOrder(", Immutable);
    ("bspline/operators/Position.h", "static constexpr size_t outputOrder(", Immutable);
    ("bspline/operators/Position.h", "static std::array<T, n + 1> expandPower(", PureFunction);
    ("bspline/operators/ScalarOperators.h", "static constexpr size_t outputOrder(", Immutable);
    ("bspline/operators/SplineOperator.h", "static constexpr size_t outputOrder(", Immutable);
    ("bspline/support/Grid.h", "explicit Grid(std::shared_ptr<const std::vector<T>> data)", AtomicRC);
    ("bspline/support/Grid.h", "std::shared_ptr<const std::vector<T>> _data;", AtomicRC);
    ("bspline/support/Grid.h", "std::shared_ptr<const std::vector<T>> getData() const {", AtomicRC);
    ("bspline/support/Support.h", "static Support<T> createEmpty(", PureFunction);
    ("bspline/support/Support.h", "static Support<T> createWholeGrid(", PureFunction)
  ].

Definition shared_covered (s : string * string) : bool := existsb (fun e => pair_eqb (fst e) s) shared_table.


Theorem shared_inventory_safe : forallb shared_covered shared_sites = true.
Proof. vm_compute. reflexivity. Qed.

(* which generated entries are not covered (evaluated by the check to name them in a violation report) *)
Definition uncovered_shared := filter (fun s => negb (shared_covered s)) shared_sites.

(* Properties_C05.v — C05: operator expressions act as the differential expression they spell.
   Statements only: every theorem is closed by [exact <lemma>] and followed by
   Print Assumptions.  The statements quantify over every scalar structure
   (F, K : Ops F) that satisfies the ordered-field laws (Laws K), and over all
   grids, windows, orders, coefficient values, expressions etc. named in them.
   dsem (Spec_Ops.v) is the compositional meaning of the surface syntax; elab mirrors the
   class each overload constructs. *)
From Coq Require Import List NArith ZArith Arith Bool.
From BSpl Require Import Scalar Outcome Support Poly Spline Ops Forms Generator Interp Spec Spec_Ops Spec_Gen Proofs_Support Proofs_Scalar Proofs_Poly Proofs_Binom Proofs_Eval Proofs_Outcome Proofs_Spline Proofs_Forms Proofs_Ops Proofs_Forms2 Proofs_Interp Proofs_Pred Proofs_Gen.
Import ListNotations.


Theorem C05_scalar_value :
    forall (F : Type) (K : Ops F) (s : scalar F), cast s = sval s.
Proof. exact (@Proofs_Ops.cast_sval). Qed.

Theorem C05_reciprocal :
    forall (F : Type) (K : Ops F) (s : scalar F),
           scalar_wf s -> sval s <> f0 -> cast (recip s) = (f1 / sval s)%F.
Proof. exact (@Proofs_Ops.cast_recip). Qed.

Theorem C05_expr_sound :
    forall (F : Type) (K : Ops F),
           Laws K ->
           forall (e : expr F) (c g : list F) (k : N),
           GInv g ->
           (k + 1 < nlen g)%N ->
           factors_ok e g ->
           scalars_ok e ->
           c <> [] ->
           exists t : list F,
             transform (elab e) c g k = Ok t /\
             length t = out_ord (elab e) (length c - 1) + 1 /\ (forall u : F, peval t u = peval (dsem e g k c) u).
Proof. exact (@Proofs_Ops.expr_sound). Qed.

Theorem C05_apply :
    forall (F : Type) (K : Ops F),
           Laws K ->
           forall (e : expr F) (s : spline F),
           SplInv s ->
           factors_ok e (sgridp s) ->
           scalars_ok e ->
           exists r : spline F,
             apply (elab e) s = Ok r /\
             SplInv r /\
             ssup r = ssup s /\
             sord r = out_ord (elab e) (sord s) /\
             (forall (k : N) (u : F), peval (piece r k) u = peval (dsem e (sgridp s) k (piece s k)) u).
Proof. exact (@Proofs_Ops.apply_spec). Qed.

Theorem C05_zero_outside :
    forall (F : Type) (K : Ops F),
           Laws K -> forall (e : expr F) (g : list F) (k : N) (u : F), peval (dsem e g k []) u = f0.
Proof. exact (@Proofs_Ops.peval_dsem_nil). Qed.

Theorem C05_commutator :
    forall (F : Type) (K : Ops F),
           Laws K ->
           forall (c g : list F) (k : N) (u : F),
           c <> [] -> peval (dsem (ESub (EMul (EDer 1) (EPos 1)) (EMul (EPos 1) (EDer 1))) g k c) u = peval c u.
Proof. exact (@Proofs_Ops.commutator). Qed.

Theorem C05_meaning_depends_on_function_only :
    forall (F : Type) (K : Ops F),
           Laws K ->
           forall (e : expr F) (g : list F) (k : N) (p q : list F),
           (forall u : F, peval p u = peval q u) -> forall u : F, peval (dsem e g k p) u = peval (dsem e g k q) u.
Proof. exact (@Proofs_Ops.dsem_ext). Qed.

Theorem C05_additive :
    forall (F : Type) (K : Ops F),
           Laws K ->
           forall (e : expr F) (g : list F) (k : N) (p q : list F) (u : F),
           peval (dsem e g k (padd p q)) u = (peval (dsem e g k p) u + peval (dsem e g k q) u)%F.
Proof. exact (@Proofs_Ops.dsem_add). Qed.

Theorem C05_homogeneous :
    forall (F : Type) (K : Ops F),
           Laws K ->
           forall (e : expr F) (g : list F) (k : N) (c : F) (p : list F) (u : F),
           peval (dsem e g k (pscale_l c p)) u = (c * peval (dsem e g k p) u)%F.
Proof. exact (@Proofs_Ops.dsem_scale). Qed.

Theorem C05_factor_on_other_grid :
    forall (F : Type) (K : Ops F),
           Laws K ->
           forall v s : spline F,
           SplInv s ->
           SplInv v ->
           sgridp v <> sgridp s -> nintervals (ssup s) <> 0%N -> apply (OSpl v) s = Throw DIFFERING_GRIDS.
Proof. exact (@Proofs_Ops.apply_differing). Qed.


Print Assumptions C05_scalar_value.
Print Assumptions C05_reciprocal.
Print Assumptions C05_expr_sound.
Print Assumptions C05_apply.
Print Assumptions C05_zero_outside.
Print Assumptions C05_commutator.
Print Assumptions C05_meaning_depends_on_function_only.
Print Assumptions C05_additive.
Print Assumptions C05_homogeneous.
Print Assumptions C05_factor_on_other_grid.

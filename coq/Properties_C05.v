(* Properties_C05.v — C05: operator expressions act as the differential expression they spell.
   Statements only: every theorem is closed by [exact <lemma>] and followed by
   Print Assumptions.  The statements quantify over every scalar structure
   (F, K : Ops F) that satisfies the ordered-field laws (Laws K), and over all
   grids, windows, orders, coefficient values, expressions etc. named in them.
   dsem (Spec_Ops.v) is the compositional meaning of the surface syntax; elab mirrors the
   class each overload constructs. *)
From Coq Require Import List NArith ZArith Arith Bool.
From BSpl Require Import Scalar Outcome Support Poly Spline Ops Forms Generator Interp Spec Spec_Ops Spec_Gen Proofs_Support Proofs_Scalar Proofs_Poly Proofs_Binom Proofs_Eval Proofs_Outcome Proofs_Spline Proofs_Forms Proofs_Ops Proofs_Forms2 Proofs_Interp Proofs_Pred Proofs_Gen Instances Instances_Ext Proofs_Valid Solver Pool Quad Proofs_Pool Proofs_Quad Proofs_Rounded Proofs_Threads Proofs_Updates Examples Proofs_Examples Proofs_Analysis Proofs_Smooth Proofs_Laws.
Import ListNotations.


Theorem C05_scalar_value :
    forall (F : Type) (K : Ops F) (s : scalar F), cast s = sval s.
Proof. exact (@Proofs_Ops.cast_sval). Qed.

Theorem C05_reciprocal :
    forall (F : Type) (K : Ops F) (s : scalar F),
           scalar_wf s -> sval s <> f0 -> cast (recip s) = (f1 / sval s)%F.
Proof. exact (@Proofs_Ops.cast_recip). Qed.

Theorem C05_expr_sound :
    forall (F : Type) (K : Ops F),
           Laws K ->
           forall (e : expr F) (c g : list F) (k : N),
           GInv g ->
           (k + 1 < nlen g)%N ->
           factors_ok e g ->
           scalars_ok e ->
           c <> [] ->
           exists t : list F,
             transform (elab e) c g k = Ok t /\
             length t = out_ord (elab e) (length c - 1) + 1 /\ (forall u : F, peval t u = peval (dsem e g k c) u).
Proof. exact (@Proofs_Ops.expr_sound). Qed.

Theorem C05_apply :
    forall (F : Type) (K : Ops F),
           Laws K ->
           forall (e : expr F) (s : spline F),
           SplInv s ->
           factors_ok e (sgridp s) ->
           scalars_ok e ->
           exists r : spline F,
             apply (elab e) s = Ok r /\
             SplInv r /\
             ssup r = ssup s /\
             sord r = out_ord (elab e) (sord s) /\
             (forall (k : N) (u : F), peval (piece r k) u = peval (dsem e (sgridp s) k (piece s k)) u).
Proof. exact (@Proofs_Ops.apply_spec). Qed.

Theorem C05_zero_outside :
    forall (F : Type) (K : Ops F),
           Laws K -> forall (e : expr F) (g : list F) (k : N) (u : F), peval (dsem e g k []) u = f0.
Proof. exact (@Proofs_Ops.peval_dsem_nil). Qed.

Theorem C05_commutator :
    forall (F : Type) (K : Ops F),
           Laws K ->
           forall (c g : list F) (k : N) (u : F),
           c <> [] -> peval (dsem (ESub (EMul (EDer 1) (EPos 1)) (EMul (EPos 1) (EDer 1))) g k c) u = peval c u.
Proof. exact (@Proofs_Ops.commutator). Qed.

Theorem C05_meaning_depends_on_function_only :
    forall (F : Type) (K : Ops F),
           Laws K ->
           forall (e : expr F) (g : list F) (k : N) (p q : list F),
           (forall u : F, peval p u = peval q u) -> forall u : F, peval (dsem e g k p) u = peval (dsem e g k q) u.
Proof. exact (@Proofs_Ops.dsem_ext). Qed.

Theorem C05_additive :
    forall (F : Type) (K : Ops F),
           Laws K ->
           forall (e : expr F) (g : list F) (k : N) (p q : list F) (u : F),
           peval (dsem e g k (padd p q)) u = (peval (dsem e g k p) u + peval (dsem e g k q) u)%F.
Proof. exact (@Proofs_Ops.dsem_add). Qed.

Theorem C05_homogeneous :
    forall (F : Type) (K : Ops F),
           Laws K ->
           forall (e : expr F) (g : list F) (k : N) (c : F) (p : list F) (u : F),
           peval (dsem e g k (pscale_l c p)) u = (c * peval (dsem e g k p) u)%F.
Proof. exact (@Proofs_Ops.dsem_scale). Qed.

Theorem C05_factor_on_other_grid :
    forall (F : Type) (K : Ops F),
           Laws K ->
           forall v s : spline F,
           SplInv s ->
           SplInv v ->
           sgridp v <> sgridp s -> nintervals (ssup s) <> 0%N -> apply (OSpl v) s = Throw DIFFERING_GRIDS.
Proof. exact (@Proofs_Ops.apply_differing). Qed.

Theorem C05_law_product :
    forall (F : Type) (K : Ops F),
           Laws K ->
           forall (a b : expr F) (s : spline F),
           SplInv s ->
           factors_ok a (sgridp s) ->
           scalars_ok a ->
           factors_ok b (sgridp s) ->
           scalars_ok b ->
           exists r r1 r2 : spline F,
             apply (elab (EMul a b)) s = Ok r /\
             apply (elab b) s = Ok r1 /\ apply (elab a) r1 = Ok r2 /\ den_eq r r2.
Proof. exact (@Proofs_Laws.law_product). Qed.

Theorem C05_law_sum :
    forall (F : Type) (K : Ops F),
           Laws K ->
           forall (a b : expr F) (s : spline F),
           SplInv s ->
           factors_ok a (sgridp s) ->
           scalars_ok a ->
           factors_ok b (sgridp s) ->
           scalars_ok b ->
           exists r ra rb rs : spline F,
             apply (elab (EAdd a b)) s = Ok r /\
             apply (elab a) s = Ok ra /\ apply (elab b) s = Ok rb /\ spl_add ra rb = Ok rs /\ den_eq r rs.
Proof. exact (@Proofs_Laws.law_sum). Qed.

Theorem C05_law_difference :
    forall (F : Type) (K : Ops F),
           Laws K ->
           forall (a b : expr F) (s : spline F),
           SplInv s ->
           factors_ok a (sgridp s) ->
           scalars_ok a ->
           factors_ok b (sgridp s) ->
           scalars_ok b ->
           exists r ra rb rs : spline F,
             apply (elab (ESub a b)) s = Ok r /\
             apply (elab a) s = Ok ra /\ apply (elab b) s = Ok rb /\ spl_sub ra rb = Ok rs /\ den_eq r rs.
Proof. exact (@Proofs_Laws.law_difference). Qed.

Theorem C05_law_scalar_left :
    forall (F : Type) (K : Ops F),
           Laws K ->
           forall (c : scalar F) (a : expr F) (s : spline F),
           SplInv s ->
           factors_ok a (sgridp s) ->
           scalars_ok a ->
           scalar_wf c ->
           exists r ra : spline F,
             apply (elab (ESMulL c a)) s = Ok r /\ apply (elab a) s = Ok ra /\ den_eq r (spl_scale_l (sval c) ra).
Proof. exact (@Proofs_Laws.law_scalar_left). Qed.

Theorem C05_law_scalar_right :
    forall (F : Type) (K : Ops F),
           Laws K ->
           forall (a : expr F) (c : scalar F) (s : spline F),
           SplInv s ->
           factors_ok a (sgridp s) ->
           scalars_ok a ->
           scalar_wf c ->
           exists r ra : spline F,
             apply (elab (ESMulR a c)) s = Ok r /\ apply (elab a) s = Ok ra /\ den_eq r (spl_scale ra (sval c)).
Proof. exact (@Proofs_Laws.law_scalar_right). Qed.

Theorem C05_law_add_scalar :
    forall (F : Type) (K : Ops F),
           Laws K ->
           forall (a : expr F) (c : scalar F) (s : spline F),
           SplInv s ->
           factors_ok a (sgridp s) ->
           scalars_ok a ->
           scalar_wf c ->
           exists r ra rs : spline F,
             apply (elab (EAddS a c)) s = Ok r /\
             apply (elab a) s = Ok ra /\ spl_add ra (spl_scale_l (sval c) s) = Ok rs /\ den_eq r rs.
Proof. exact (@Proofs_Laws.law_add_scalar). Qed.

Theorem C05_law_scalar_add :
    forall (F : Type) (K : Ops F),
           Laws K ->
           forall (c : scalar F) (a : expr F) (s : spline F),
           SplInv s ->
           factors_ok a (sgridp s) ->
           scalars_ok a ->
           scalar_wf c ->
           exists r ra rs : spline F,
             apply (elab (ESAdd c a)) s = Ok r /\
             apply (elab a) s = Ok ra /\ spl_add (spl_scale_l (sval c) s) ra = Ok rs /\ den_eq r rs.
Proof. exact (@Proofs_Laws.law_scalar_add). Qed.

Theorem C05_law_sub_scalar :
    forall (F : Type) (K : Ops F),
           Laws K ->
           forall (a : expr F) (c : scalar F) (s : spline F),
           SplInv s ->
           factors_ok a (sgridp s) ->
           scalars_ok a ->
           scalar_wf c ->
           exists r ra rs : spline F,
             apply (elab (ESubS a c)) s = Ok r /\
             apply (elab a) s = Ok ra /\ spl_sub ra (spl_scale_l (sval c) s) = Ok rs /\ den_eq r rs.
Proof. exact (@Proofs_Laws.law_sub_scalar). Qed.

Theorem C05_law_scalar_sub :
    forall (F : Type) (K : Ops F),
           Laws K ->
           forall (c : scalar F) (a : expr F) (s : spline F),
           SplInv s ->
           factors_ok a (sgridp s) ->
           scalars_ok a ->
           scalar_wf c ->
           exists r ra rs : spline F,
             apply (elab (ESSub c a)) s = Ok r /\
             apply (elab a) s = Ok ra /\ spl_sub (spl_scale_l (sval c) s) ra = Ok rs /\ den_eq r rs.
Proof. exact (@Proofs_Laws.law_scalar_sub). Qed.

Theorem C05_law_div_scalar :
    forall (F : Type) (K : Ops F),
           Laws K ->
           forall (a : expr F) (c : scalar F) (s : spline F),
           SplInv s ->
           factors_ok a (sgridp s) ->
           scalars_ok a ->
           scalar_wf c ->
           sval c <> f0 ->
           exists r ra rd : spline F,
             apply (elab (EDivS a c)) s = Ok r /\
             apply (elab a) s = Ok ra /\ spl_div ra (sval c) = Ok rd /\ den_eq r rd.
Proof. exact (@Proofs_Laws.law_div_scalar). Qed.

Theorem C05_law_neg :
    forall (F : Type) (K : Ops F),
           Laws K ->
           forall (a : expr F) (s : spline F),
           SplInv s ->
           factors_ok a (sgridp s) ->
           scalars_ok a ->
           exists r ra : spline F,
             apply (elab (ENeg a)) s = Ok r /\ apply (elab a) s = Ok ra /\ den_eq r (spl_neg ra).
Proof. exact (@Proofs_Laws.law_neg). Qed.

Theorem C05_law_spline_factor :
    forall (F : Type) (K : Ops F),
           Laws K ->
           forall v s : spline F,
           SplInv s ->
           SplInv v ->
           sgridp v = sgridp s ->
           exists r p : spline F,
             apply (OSpl v) s = Ok r /\
             spl_mul v s = Ok p /\
             ssup r = ssup s /\
             (forall (k : N) (x : F), imem k (ssup s) -> den r k x = den p k x) /\
             (forall (k : N) (x : F), imem k (ssup s) -> den r k x = (den v k x * den s k x)%F) /\
             (forall (k : N) (x : F), ~ imem k (ssup s) -> den r k x = f0) /\
             (forall (k : N) (x : F), ~ imem k (ssup v) -> den r k x = f0).
Proof. exact (@Proofs_Laws.law_spline_factor). Qed.

Theorem C05_law_spline_factor_is_product :
    forall (F : Type) (K : Ops F),
           Laws K ->
           forall v s : spline F,
           SplInv s ->
           SplInv v ->
           sgridp v = sgridp s ->
           exists r p : spline F, apply (OSpl v) s = Ok r /\ spl_mul v s = Ok p /\ den_eq r p.
Proof. exact (@Proofs_Laws.law_spline_factor_den_eq). Qed.

Theorem C05_law_commutator :
    forall (F : Type) (K : Ops F),
           Laws K ->
           forall s : spline F,
           SplInv s ->
           exists r : spline F,
             apply (elab (ESub (EMul (EDer 1) (EPos 1)) (EMul (EPos 1) (EDer 1)))) s = Ok r /\ den_eq r s.
Proof. exact (@Proofs_Laws.law_commutator). Qed.

Theorem C05_law_identity :
    forall (F : Type) (K : Ops F),
           Laws K -> forall s : spline F, SplInv s -> exists r : spline F, apply OId s = Ok r /\ den_eq r s.
Proof. exact (@Proofs_Laws.law_identity). Qed.


Print Assumptions C05_scalar_value.
Print Assumptions C05_reciprocal.
Print Assumptions C05_expr_sound.
Print Assumptions C05_apply.
Print Assumptions C05_zero_outside.
Print Assumptions C05_commutator.
Print Assumptions C05_meaning_depends_on_function_only.
Print Assumptions C05_additive.
Print Assumptions C05_homogeneous.
Print Assumptions C05_factor_on_other_grid.
Print Assumptions C05_law_product.
Print Assumptions C05_law_sum.
Print Assumptions C05_law_difference.
Print Assumptions C05_law_scalar_left.
Print Assumptions C05_law_scalar_right.
Print Assumptions C05_law_add_scalar.
Print Assumptions C05_law_scalar_add.
Print Assumptions C05_law_sub_scalar.
Print Assumptions C05_law_scalar_sub.
Print Assumptions C05_law_div_scalar.
Print Assumptions C05_law_neg.
Print Assumptions C05_law_spline_factor.
Print Assumptions C05_law_spline_factor_is_product.
Print Assumptions C05_law_commutator.
Print Assumptions C05_law_identity.

(* Properties_C04.v — C04: primitive operators are d^n/dx^n and multiplication by x^n on every interval.
   Statements only: every theorem is closed by [exact <lemma>] and followed by
   Print Assumptions.  The statements quantify over every scalar structure
   (F, K : Ops F) that satisfies the ordered-field laws (Laws K), and over all
   grids, windows, orders, coefficient values, expressions etc. named in them.
   pderiv is characterised (linear, Leibniz, kills constants, D X = 1), so
   transform (ODer n) = pderivn n says "the n-th derivative of the stored polynomial". *)
From Coq Require Import List NArith ZArith Arith Bool.
From BSpl Require Import Scalar Outcome Support Poly Spline Ops Forms Generator Interp Spec Spec_Ops Spec_Gen Proofs_Support Proofs_Scalar Proofs_Poly Proofs_Binom Proofs_Eval Proofs_Outcome Proofs_Spline Proofs_Forms Proofs_Ops Proofs_Forms2 Proofs_Interp Proofs_Pred Proofs_Gen Instances Instances_Ext Proofs_Valid Solver Pool Quad Proofs_Pool Proofs_Quad Proofs_Rounded Proofs_Threads Proofs_Updates Examples Proofs_Examples Proofs_Analysis Proofs_Smooth Proofs_Laws.
Import ListNotations.


Theorem C04_identity_transform :
    forall (F : Type) (K : Ops F) (c g : list F) (k : N), transform OId c g k = Ok c.
Proof. exact (@Proofs_Ops.transform_id). Qed.

Theorem C04_identity_apply :
    forall (F : Type) (K : Ops F) (s : spline F),
           SplInv s -> apply OId s = Ok {| ssup := ssup s; sord := sord s; scoefs := scoefs s |}.
Proof. exact (@Proofs_Ops.apply_id). Qed.

Theorem C04_derivative_transform :
    forall (F : Type) (K : Ops F),
           Laws K ->
           forall (n : nat) (c g : list F) (k : N),
           c <> [] -> transform (ODer n) c g k = Ok (if length c - 1 <? n then [f0] else pderivn n c).
Proof. exact (@Proofs_Ops.transform_der). Qed.

Theorem C04_derivative_value :
    forall (F : Type) (K : Ops F),
           Laws K ->
           forall (n : nat) (c : list F) (u : F),
           c <> [] -> peval (if length c - 1 <? n then [f0] else pderivn n c) u = peval (pderivn n c) u.
Proof. exact (@Proofs_Ops.peval_transform_der). Qed.

Theorem C04_derivative_coefficients :
    forall (F : Type) (K : Ops F),
           Laws K ->
           forall (n : nat) (p : list F) (i : nat),
           nth i (pderivn n p) f0 = (faculty_ratio (i + n) i * nth (i + n) p f0)%F.
Proof. exact (@Proofs_Poly.nth_pderivn). Qed.

Theorem C04_D_additive :
    forall (F : Type) (K : Ops F),
           Laws K ->
           forall (p q : list F) (u : F),
           peval (pderiv (padd p q)) u = (peval (pderiv p) u + peval (pderiv q) u)%F.
Proof. exact (@Proofs_Poly.peval_pderiv_padd). Qed.

Theorem C04_D_homogeneous :
    forall (F : Type) (K : Ops F),
           Laws K ->
           forall (c : F) (p : list F) (u : F), peval (pderiv (pscale_l c p)) u = (c * peval (pderiv p) u)%F.
Proof. exact (@Proofs_Poly.peval_pderiv_pscale_l). Qed.

Theorem C04_D_leibniz :
    forall (F : Type) (K : Ops F),
           Laws K ->
           forall (p q : list F) (u : F),
           peval (pderiv (pmul p q)) u = (peval (pderiv p) u * peval q u + peval p u * peval (pderiv q) u)%F.
Proof. exact (@Proofs_Poly.peval_pderiv_pmul). Qed.

Theorem C04_D_const :
    forall (F : Type) (K : Ops F) (a : F), pderiv [a] = [].
Proof. exact (@Proofs_Poly.pderiv_const). Qed.

Theorem C04_D_X :
    forall (F : Type) (K : Ops F), Laws K -> forall u : F, peval (pderiv [f0; f1]) u = f1.
Proof. exact (@Proofs_Poly.peval_pderiv_X). Qed.

Theorem C04_position_transform :
    forall (F : Type) (K : Ops F) (n : nat) (c g : list F) (k : N),
           (k + 1 < nlen g)%N ->
           (k + 1 < W)%N -> transform (OPos n) c g k = Ok (pmul c (expand_power n (mid g k))).
Proof. exact (@Proofs_Ops.transform_pos). Qed.

Theorem C04_position_value :
    forall (F : Type) (K : Ops F),
           Laws K ->
           forall (n : nat) (c g : list F) (k : N) (x : F),
           peval (pmul c (expand_power n (mid g k))) (x - mid g k)%F = (fpow x n * peval c (x - mid g k))%F.
Proof. exact (@Proofs_Ops.peval_transform_pos). Qed.

Theorem C04_binomial_expansion :
    forall (F : Type) (K : Ops F),
           Laws K -> forall (n : nat) (xm u : F), peval (expand_power n xm) u = fpow (u + xm)%F n.
Proof. exact (@Proofs_Binom.expand_power_spec). Qed.

Theorem C04_binomial_pascal :
    forall (F : Type) (K : Ops F),
           Laws K -> forall n k : nat, binomial (S n) (S k) = (binomial n k + binomial n (S k))%F.
Proof. exact (@Proofs_Binom.binomial_pascal). Qed.

Theorem C04_apply :
    forall (F : Type) (K : Ops F),
           Laws K ->
           forall (e : expr F) (s : spline F),
           SplInv s ->
           factors_ok e (sgridp s) ->
           scalars_ok e ->
           exists r : spline F,
             apply (elab e) s = Ok r /\
             SplInv r /\
             ssup r = ssup s /\
             sord r = out_ord (elab e) (sord s) /\
             (forall (k : N) (u : F), peval (piece r k) u = peval (dsem e (sgridp s) k (piece s k)) u).
Proof. exact (@Proofs_Ops.apply_spec). Qed.

Theorem C04_zero_outside :
    forall (F : Type) (K : Ops F),
           Laws K -> forall (e : expr F) (g : list F) (k : N) (u : F), peval (dsem e g k []) u = f0.
Proof. exact (@Proofs_Ops.peval_dsem_nil). Qed.


Print Assumptions C04_identity_transform.
Print Assumptions C04_identity_apply.
Print Assumptions C04_derivative_transform.
Print Assumptions C04_derivative_value.
Print Assumptions C04_derivative_coefficients.
Print Assumptions C04_D_additive.
Print Assumptions C04_D_homogeneous.
Print Assumptions C04_D_leibniz.
Print Assumptions C04_D_const.
Print Assumptions C04_D_X.
Print Assumptions C04_position_transform.
Print Assumptions C04_position_value.
Print Assumptions C04_binomial_expansion.
Print Assumptions C04_binomial_pascal.
Print Assumptions C04_apply.
Print Assumptions C04_zero_outside.

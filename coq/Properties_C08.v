(* Properties_C08.v — C08: operations across different grids are refused, never computed.
   Statements only: every theorem is closed by [exact <lemma>] and followed by
   Print Assumptions.  The statements quantify over every scalar structure
   (F, K : Ops F) that satisfies the ordered-field laws (Laws K), and over all
   grids, windows, orders, coefficient values, expressions etc. named in them.
   Function level (Throw DIFFERING_GRIDS) and lifted to the pool state machine: the step
   returns the unchanged state.  Grids are compared logically (lists of points), so distinct
   objects holding the same points are the same grid by construction of the model; that part
   is carried by the correspondence run (shared vs. separately constructed grid objects). *)
From Coq Require Import List NArith ZArith Arith Bool.
From BSpl Require Import Scalar Outcome Support Poly Spline Ops Forms Generator Interp Spec Spec_Ops Spec_Gen Proofs_Support Proofs_Scalar Proofs_Poly Proofs_Binom Proofs_Eval Proofs_Outcome Proofs_Spline Proofs_Forms Proofs_Ops Proofs_Forms2 Proofs_Interp Proofs_Pred Proofs_Gen Instances Instances_Ext Proofs_Valid Solver Pool Quad Proofs_Pool Proofs_Quad Proofs_Rounded Proofs_Threads Proofs_Updates Examples Proofs_Examples Proofs_Analysis Proofs_Smooth Proofs_Laws.
Import ListNotations.


Theorem C08_add :
    forall (F : Type) (K : Ops F),
           Laws K -> forall a b : spline F, sgridp a <> sgridp b -> spl_add a b = Throw DIFFERING_GRIDS.
Proof. exact (@Proofs_Spline.spl_add_differing). Qed.

Theorem C08_sub :
    forall (F : Type) (K : Ops F),
           Laws K -> forall a b : spline F, sgridp a <> sgridp b -> spl_sub a b = Throw DIFFERING_GRIDS.
Proof. exact (@Proofs_Spline.spl_sub_differing). Qed.

Theorem C08_mul :
    forall (F : Type) (K : Ops F),
           Laws K -> forall a b : spline F, sgridp a <> sgridp b -> spl_mul a b = Throw DIFFERING_GRIDS.
Proof. exact (@Proofs_Spline.spl_mul_differing). Qed.

Theorem C08_iadd :
    forall (F : Type) (K : Ops F),
           Laws K ->
           forall a b : spline F,
           sord b <= sord a -> sgridp a <> sgridp b -> spl_iadd a b = Throw DIFFERING_GRIDS.
Proof. exact (@Proofs_Spline.spl_iadd_differing). Qed.

Theorem C08_isub :
    forall (F : Type) (K : Ops F),
           Laws K ->
           forall a b : spline F,
           sord b <= sord a -> sgridp a <> sgridp b -> spl_isub a b = Throw DIFFERING_GRIDS.
Proof. exact (@Proofs_Spline.spl_isub_differing). Qed.

Theorem C08_lin_comb :
    forall (F : Type) (K : Ops F),
           Laws K ->
           forall (cs : list F) (s0 : spline F) (rest : list (spline F)),
           length cs = length (s0 :: rest) ->
           (exists s : spline F, In s (s0 :: rest) /\ sgridp s <> sgridp s0) ->
           lin_comb cs (s0 :: rest) = Throw DIFFERING_GRIDS.
Proof. exact (@Proofs_Spline.lin_comb_differing). Qed.

Theorem C08_bilinear :
    forall (F : Type) (K : Ops F),
           Laws K ->
           forall (o1 o2 : opx F) (a b : spline F),
           sgridp a <> sgridp b -> bilinear o1 o2 a b = Throw DIFFERING_GRIDS.
Proof. exact (@Proofs_Forms.bilinear_differing). Qed.

Theorem C08_integrate :
    forall (F : Type) (K : Ops F),
           Laws K ->
           forall (rule : nat -> (F -> F) -> F -> F -> F) (n : nat) (f : F -> F) (m1 m2 : spline F),
           sgridp m1 <> sgridp m2 -> integrate rule n f m1 m2 = Throw DIFFERING_GRIDS.
Proof. exact (@Proofs_Quad.integrate_differing). Qed.

Theorem C08_spline_factor :
    forall (F : Type) (K : Ops F),
           Laws K ->
           forall v s : spline F,
           SplInv s ->
           SplInv v ->
           sgridp v <> sgridp s -> nintervals (ssup s) <> 0%N -> apply (OSpl v) s = Throw DIFFERING_GRIDS.
Proof. exact (@Proofs_Ops.apply_differing). Qed.

Theorem C08_union :
    forall (F : Type) (K : Ops F),
           Laws K -> forall s t : support F, sgrid s <> sgrid t -> calc_union s t = Throw DIFFERING_GRIDS.
Proof. exact (@Proofs_Support.calc_union_differing). Qed.

Theorem C08_intersection :
    forall (F : Type) (K : Ops F),
           Laws K -> forall s t : support F, sgrid s <> sgrid t -> calc_inter s t = Throw DIFFERING_GRIDS.
Proof. exact (@Proofs_Support.calc_inter_differing). Qed.

Theorem C08_generator :
    forall (F : Type) (K : Ops F),
           Laws K ->
           forall ks g : list F,
           nondecreasing ks ->
           two_distinct ks -> (nlen ks < 2 ^ 63)%N -> g <> unique ks -> gen_ctor2 ks g = Throw INCONSISTENT_DATA.
Proof. exact (@Proofs_Gen.gen_ctor2_mismatch). Qed.

Theorem C08_step_add :
    forall (F : Type) (K : Ops F),
           Laws K ->
           forall (solver : nat -> list (row F) -> list F) (st : state F) (d a b : nat) (sa sb : spline F),
           lookup st a = Some (VSpl sa) ->
           lookup st b = Some (VSpl sb) ->
           sgridp sa <> sgridp sb -> step solver st (SplAdd d a b) = (st, Throw DIFFERING_GRIDS).
Proof. exact (@Proofs_Pool.c08_spl_add). Qed.

Theorem C08_step_sub :
    forall (F : Type) (K : Ops F),
           Laws K ->
           forall (solver : nat -> list (row F) -> list F) (st : state F) (d a b : nat) (sa sb : spline F),
           lookup st a = Some (VSpl sa) ->
           lookup st b = Some (VSpl sb) ->
           sgridp sa <> sgridp sb -> step solver st (SplSub d a b) = (st, Throw DIFFERING_GRIDS).
Proof. exact (@Proofs_Pool.c08_spl_sub). Qed.

Theorem C08_step_mul :
    forall (F : Type) (K : Ops F),
           Laws K ->
           forall (solver : nat -> list (row F) -> list F) (st : state F) (d a b : nat) (sa sb : spline F),
           lookup st a = Some (VSpl sa) ->
           lookup st b = Some (VSpl sb) ->
           sgridp sa <> sgridp sb -> step solver st (SplMul d a b) = (st, Throw DIFFERING_GRIDS).
Proof. exact (@Proofs_Pool.c08_spl_mul). Qed.

Theorem C08_step_iadd :
    forall (F : Type) (K : Ops F),
           Laws K ->
           forall (solver : nat -> list (row F) -> list F) (st : state F) (a b : nat) (sa sb : spline F),
           lookup st a = Some (VSpl sa) ->
           lookup st b = Some (VSpl sb) ->
           sord sb <= sord sa ->
           sgridp sa <> sgridp sb -> step solver st (SplIAdd a b) = (st, Throw DIFFERING_GRIDS).
Proof. exact (@Proofs_Pool.c08_spl_iadd). Qed.

Theorem C08_step_isub :
    forall (F : Type) (K : Ops F),
           Laws K ->
           forall (solver : nat -> list (row F) -> list F) (st : state F) (a b : nat) (sa sb : spline F),
           lookup st a = Some (VSpl sa) ->
           lookup st b = Some (VSpl sb) ->
           sord sb <= sord sa ->
           sgridp sa <> sgridp sb -> step solver st (SplISub a b) = (st, Throw DIFFERING_GRIDS).
Proof. exact (@Proofs_Pool.c08_spl_isub). Qed.

Theorem C08_step_union :
    forall (F : Type) (K : Ops F),
           Laws K ->
           forall (solver : nat -> list (row F) -> list F) (st : state F) (d a b : nat) (sa sb : support F),
           lookup st a = Some (VSup sa) ->
           lookup st b = Some (VSup sb) ->
           sgrid sa <> sgrid sb -> step solver st (SupUnion d a b) = (st, Throw DIFFERING_GRIDS).
Proof. exact (@Proofs_Pool.c08_sup_union). Qed.

Theorem C08_step_inter :
    forall (F : Type) (K : Ops F),
           Laws K ->
           forall (solver : nat -> list (row F) -> list F) (st : state F) (d a b : nat) (sa sb : support F),
           lookup st a = Some (VSup sa) ->
           lookup st b = Some (VSup sb) ->
           sgrid sa <> sgrid sb -> step solver st (SupInter d a b) = (st, Throw DIFFERING_GRIDS).
Proof. exact (@Proofs_Pool.c08_sup_inter). Qed.

Theorem C08_step_bilin :
    forall (F : Type) (K : Ops F),
           Laws K ->
           forall (solver : nat -> list (row F) -> list F) (st : state F) (e1 e2 : pexpr F) 
             (a b : nat) (sa sb : spline F),
           pexpr_typed st e1 ->
           pexpr_typed st e2 ->
           lookup st a = Some (VSpl sa) ->
           lookup st b = Some (VSpl sb) ->
           sgridp sa <> sgridp sb -> step solver st (Bilin e1 e2 a b) = (st, Throw DIFFERING_GRIDS).
Proof. exact (@Proofs_Pool.c08_bilin). Qed.

Theorem C08_step_lin_comb :
    forall (F : Type) (K : Ops F),
           Laws K ->
           forall (solver : nat -> list (row F) -> list F) (st : state F) (d : nat) (cs : list F) 
             (ss : list nat) (s0 : spline F) (rest : list (spline F)),
           omapM (get_spl st) ss = Ok (s0 :: rest) ->
           (forall s : spline F, In s (s0 :: rest) -> sord s = sord s0) ->
           length cs = length ss ->
           (exists s : spline F, In s (s0 :: rest) /\ sgridp s <> sgridp s0) ->
           step solver st (SplLinComb d cs ss) = (st, Throw DIFFERING_GRIDS).
Proof. exact (@Proofs_Pool.c08_lin_comb). Qed.

Theorem C08_step_gen2 :
    forall (F : Type) (K : Ops F),
           Laws K ->
           forall (solver : nat -> list (row F) -> list F) (st : state F) (d0 order : nat) 
             (knots : list F) (g : nat) (gr : list F),
           lookup st g = Some (VGrid gr) ->
           nondecreasing knots ->
           two_distinct knots ->
           (nlen knots < 2 ^ 63)%N ->
           gr <> unique knots -> step solver st (Gen2 d0 order knots g) = (st, Throw INCONSISTENT_DATA).
Proof. exact (@Proofs_Pool.c08_gen2). Qed.

Theorem C08_equal_grids_add :
    forall (F : Type) (K : Ops F),
           Laws K ->
           forall a b : spline F,
           SplInv a ->
           SplInv b ->
           sgridp a = sgridp b ->
           exists (u : support F) (r : spline F),
             calc_union (ssup a) (ssup b) = Ok u /\
             spl_add a b = Ok r /\
             SplInv r /\
             ssup r = u /\
             sord r = Nat.max (sord a) (sord b) /\
             (forall (k : N) (x : F), den r k x = (den a k x + den b k x)%F).
Proof. exact (@Proofs_Spline.spl_add_spec). Qed.

Theorem C08_equal_grids_mul :
    forall (F : Type) (K : Ops F),
           Laws K ->
           forall a b : spline F,
           SplInv a ->
           SplInv b ->
           sgridp a = sgridp b ->
           exists (u : support F) (r : spline F),
             calc_inter (ssup a) (ssup b) = Ok u /\
             spl_mul a b = Ok r /\
             SplInv r /\
             ssup r = u /\
             sord r = sord a + sord b /\ (forall (k : N) (x : F), den r k x = (den a k x * den b k x)%F).
Proof. exact (@Proofs_Spline.spl_mul_spec). Qed.


Print Assumptions C08_add.
Print Assumptions C08_sub.
Print Assumptions C08_mul.
Print Assumptions C08_iadd.
Print Assumptions C08_isub.
Print Assumptions C08_lin_comb.
Print Assumptions C08_bilinear.
Print Assumptions C08_integrate.
Print Assumptions C08_spline_factor.
Print Assumptions C08_union.
Print Assumptions C08_intersection.
Print Assumptions C08_generator.
Print Assumptions C08_step_add.
Print Assumptions C08_step_sub.
Print Assumptions C08_step_mul.
Print Assumptions C08_step_iadd.
Print Assumptions C08_step_isub.
Print Assumptions C08_step_union.
Print Assumptions C08_step_inter.
Print Assumptions C08_step_bilin.
Print Assumptions C08_step_lin_comb.
Print Assumptions C08_step_gen2.
Print Assumptions C08_equal_grids_add.
Print Assumptions C08_equal_grids_mul.

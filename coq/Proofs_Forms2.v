(* Proofs_Forms2.v — C06 / C07: the bilinear and the linear form of operator
   expressions are exact integrals.

   For operator expressions e1, e2 and splines a, b on one grid g the bilinear
   form returns the sum over the intervals common to both supports of the
   integral of the product of the two transformed polynomials ([dsem]), it is
   zero when the supports share no interval, it never fails when the grids
   agree, it is symmetric under exchange of the two (operator, spline) pairs,
   linear in each argument, and equal to the identity linear form of the
   product spline (e1 a) * (e2 b).  The linear form returns the sum over the
   support of the integral of the transformed polynomial and is linear.

   The integral of a polynomial p (in the local coordinate of an interval of
   half-width h) is [defint p h], the antiderivative difference. *)
From Coq Require Import List Arith NArith ZArith Bool Lia ZifyBool ZifyN Field Ring.
From BSpl Require Import ListAux Scalar Outcome Support Poly Spline Ops Forms Spec Spec_Ops
  Proofs_Support Proofs_Scalar Proofs_Outcome Proofs_Poly Proofs_Spline Proofs_Ops Proofs_Forms.
Import ListNotations.
Local Open Scope F_scope.

Ltac Zify.zify_post_hook ::= Z.div_mod_to_equations.

Section Forms2.
  Context {F : Type} {K : Ops F} {L : Laws K}.
  Add Field Fff2 : (@Fth F K L).

  (* ================================================================== *)
  (* the integral depends only on the polynomial function                *)
  (* ================================================================== *)

  Lemma defint_ext (p q : list F) h :
    (forall u, peval p u = peval q u) -> defint p h = defint q h.
  Proof. intros H. apply defint_ext_nth. apply peval_ext_coeff. exact H. Qed.

  Lemma defint_pmul_comm (p q : list F) h : defint (pmul p q) h = defint (pmul q p) h.
  Proof. apply defint_ext. intros u. rewrite !peval_pmul. ring. Qed.

  Lemma defint_zero (p : list F) h : (forall u, peval p u = f0) -> defint p h = f0.
  Proof.
    intros H. rewrite (defint_ext p [] h); [apply defint_nil|].
    intros u. rewrite H. reflexivity.
  Qed.

  (* ================================================================== *)
  (* the transformed coefficient array of an interval of the support     *)
  (* ================================================================== *)

  Lemma imem_grid (s : support F) k : SInv s -> imem k s -> (k + 1 < nlen (sgrid s))%N.
  Proof. intros Hs Hk. apply SInv_bounds in Hs. unfold imem in Hk. lia. Qed.

  Lemma transform_exact (e : expr F) (s : spline F) g k :
    SplInv s -> sgridp s = g -> factors_ok e g -> scalars_ok e -> imem k (ssup s) ->
    transform (elab e) (piece s k) g k = Ok (tr_total (elab e) (piece s k) g k) /\
    tr_total (elab e) (piece s k) g k <> [] /\
    forall u, peval (tr_total (elab e) (piece s k) g k) u = peval (dsem e g k (piece s k)) u.
  Proof.
    intros Hs Hg Hf Hsc Hk. pose proof Hs as (Su & Gg & _). subst g.
    destruct (piece_in s k Hs Hk) as [_ Lp].
    pose proof (imem_grid _ _ Su Hk) as Hkg.
    destruct (expr_sound e (piece s k) (sgridp s) k Gg Hkg Hf Hsc (nonnil_of_length _ _ Lp))
      as (t & Ht & Lt & Pt).
    unfold tr_total. rewrite Ht. split; [reflexivity|]. split; [|exact Pt].
    apply (nonnil_of_length _ _ Lt).
  Qed.

  Lemma inter_facts (a b : spline F) u :
    SplInv a -> SplInv b -> sgridp a = sgridp b ->
    calc_inter (ssup a) (ssup b) = Ok u ->
    SInv u /\ sgrid u = sgridp a /\
    forall k, imem k u <-> imem k (ssup a) /\ imem k (ssup b).
  Proof.
    intros (Sa & _) (Sb & _) Hg Hu. unfold sgridp in *.
    destruct (calc_inter_spec _ _ Sa Sb Hg) as (u' & Eu & Su & Gu & Mu).
    rewrite Hu in Eu. injection Eu as <-. split; [exact Su|]. split; [exact Gu|].
    intros k. rewrite !imem_mem, !Mu. tauto.
  Qed.

  (* ================================================================== *)
  (* C07: the linear form                                                *)
  (* ================================================================== *)

  Lemma linear_exact (e : expr F) (a : spline F) :
    SplInv a -> factors_ok e (sgridp a) -> scalars_ok e ->
    linear (elab e) a
    = Ok (fsum (fun k => defint (dsem e (sgridp a) k (piece a k)) (halfwidth (sgridp a) k))
               (interval_list (ssup a))).
  Proof.
    intros Ha Hf Hs.
    rewrite (linear_spec (elab e) a (fun k => tr_total (elab e) (piece a k) (sgridp a) k) Ha).
    - f_equal. apply fsum_ext. intros k Hk. apply imem_interval_list in Hk.
      apply defint_ext. apply (transform_exact e a _ k Ha eq_refl Hf Hs Hk).
    - intros k Hk. destruct (transform_exact e a _ k Ha eq_refl Hf Hs Hk) as (H1 & H2 & _).
      split; assumption.
  Qed.

  Lemma linear_total (e : expr F) (a : spline F) :
    SplInv a -> factors_ok e (sgridp a) -> scalars_ok e ->
    exists v, linear (elab e) a = Ok v.
  Proof. intros Ha Hf Hs. eexists. apply linear_exact; assumption. Qed.

  (* zero for a spline without intervals *)
  Lemma linear_no_interval_exact (e : expr F) (a : spline F) :
    SplInv a -> nintervals (ssup a) = 0%N -> linear (elab e) a = Ok f0.
  Proof. apply linear_no_interval. Qed.

  (* ================================================================== *)
  (* C06: the bilinear form                                              *)
  (* ================================================================== *)

  Lemma bilinear_exact (e1 e2 : expr F) (a b : spline F) u :
    SplInv a -> SplInv b -> sgridp a = sgridp b ->
    factors_ok e1 (sgridp a) -> factors_ok e2 (sgridp a) -> scalars_ok e1 -> scalars_ok e2 ->
    calc_inter (ssup a) (ssup b) = Ok u ->
    bilinear (elab e1) (elab e2) a b
    = Ok (fsum (fun k => defint (pmul (dsem e1 (sgridp a) k (piece a k))
                                      (dsem e2 (sgridp a) k (piece b k)))
                                (halfwidth (sgridp a) k))
               (interval_list u)).
  Proof.
    intros Ha Hb Hg Hf1 Hf2 Hs1 Hs2 Hu.
    destruct (inter_facts a b u Ha Hb Hg Hu) as (Su & Gu & Mu).
    rewrite (bilinear_spec (elab e1) (elab e2) a b u
               (fun k => tr_total (elab e1) (piece a k) (sgridp a) k)
               (fun k => tr_total (elab e2) (piece b k) (sgridp a) k) Ha Hb Hg Hu).
    - f_equal. apply fsum_ext. intros k Hk. apply imem_interval_list in Hk.
      apply Mu in Hk as [Hka Hkb].
      destruct (transform_exact e1 a _ k Ha eq_refl Hf1 Hs1 Hka) as (_ & _ & P1).
      destruct (transform_exact e2 b _ k Hb (eq_sym Hg) Hf2 Hs2 Hkb) as (_ & _ & P2).
      apply defint_ext. intros w. rewrite !peval_pmul, P1, P2. reflexivity.
    - intros k Hk. apply Mu in Hk as [Hka Hkb].
      destruct (transform_exact e1 a _ k Ha eq_refl Hf1 Hs1 Hka) as (T1 & N1 & _).
      destruct (transform_exact e2 b _ k Hb (eq_sym Hg) Hf2 Hs2 Hkb) as (T2 & N2 & _).
      repeat split; assumption.
  Qed.

  Lemma bilinear_total (e1 e2 : expr F) (a b : spline F) :
    SplInv a -> SplInv b -> sgridp a = sgridp b ->
    factors_ok e1 (sgridp a) -> factors_ok e2 (sgridp a) -> scalars_ok e1 -> scalars_ok e2 ->
    exists v, bilinear (elab e1) (elab e2) a b = Ok v.
  Proof.
    intros Ha Hb Hg Hf1 Hf2 Hs1 Hs2.
    pose proof Ha as (Sa & _). pose proof Hb as (Sb & _).
    destruct (calc_inter_spec _ _ Sa Sb Hg) as (u & Eu & _).
    eexists. apply (bilinear_exact e1 e2 a b u); assumption.
  Qed.

  (* zero when the supports share no interval *)
  Lemma bilinear_no_common_exact (e1 e2 : expr F) (a b : spline F) u :
    SplInv a -> SplInv b -> sgridp a = sgridp b ->
    calc_inter (ssup a) (ssup b) = Ok u -> nintervals u = 0%N ->
    bilinear (elab e1) (elab e2) a b = Ok f0.
  Proof. apply bilinear_no_common. Qed.

  Lemma bilinear_swap (e1 e2 : expr F) (a b : spline F) :
    SplInv a -> SplInv b -> sgridp a = sgridp b ->
    factors_ok e1 (sgridp a) -> factors_ok e2 (sgridp a) -> scalars_ok e1 -> scalars_ok e2 ->
    bilinear (elab e1) (elab e2) a b = bilinear (elab e2) (elab e1) b a.
  Proof.
    intros Ha Hb Hg Hf1 Hf2 Hs1 Hs2.
    pose proof Ha as (Sa & _). pose proof Hb as (Sb & _).
    destruct (calc_inter_spec _ _ Sa Sb Hg) as (u & Eu & _).
    rewrite (bilinear_exact e1 e2 a b u) by assumption.
    rewrite (bilinear_exact e2 e1 b a u); try assumption; try (rewrite <- Hg; assumption).
    - rewrite <- Hg. f_equal. apply fsum_ext. intros k _. apply defint_pmul_comm.
    - symmetry. exact Hg.
    - rewrite <- (calc_inter_comm _ _ Sa Sb Hg). exact Eu.
  Qed.

  Lemma scalar_product (a b : spline F) u :
    SplInv a -> SplInv b -> sgridp a = sgridp b ->
    calc_inter (ssup a) (ssup b) = Ok u ->
    bilinear OId OId a b
    = Ok (fsum (fun k => defint (pmul (piece a k) (piece b k)) (halfwidth (sgridp a) k))
               (interval_list u)).
  Proof.
    intros Ha Hb Hg Hu.
    apply (bilinear_exact EId EId a b u Ha Hb Hg I I I I Hu).
  Qed.

  (* ================================================================== *)
  (* integrand support: summation windows                                *)
  (* ================================================================== *)

  (* consecutive indices a, a+1, ..., a+n-1 *)
  Definition irange (a : N) (n : nat) : list N :=
    map (fun i => (a + N.of_nat i)%N) (seq 0 n).

  Lemma interval_list_irange (s : support F) :
    interval_list s = irange (sstart s) (N.to_nat (nintervals s)).
  Proof. unfold interval_list, irange, nrange. rewrite map_map. reflexivity. Qed.

  Lemma irange_shift a s n :
    map (fun i => (a + N.of_nat i)%N) (seq s n) = irange (a + N.of_nat s) n.
  Proof.
    unfold irange. revert s; induction n as [|n IH]; intros s; cbn [seq map]; [reflexivity|].
    f_equal; [lia|]. rewrite IH. rewrite <- seq_shift, map_map. apply map_ext. intros i. lia.
  Qed.

  Lemma irange_app a n1 n2 :
    irange a (n1 + n2) = irange a n1 ++ irange (a + N.of_nat n1) n2.
  Proof.
    unfold irange at 1 2. rewrite seq_app, map_app. f_equal. apply irange_shift.
  Qed.

  Lemma In_irange a n k : In k (irange a n) <-> (a <= k /\ k < a + N.of_nat n)%N.
  Proof.
    unfold irange. rewrite in_map_iff. split.
    - intros (i & <- & Hi). apply in_seq in Hi. lia.
    - intros H. exists (N.to_nat (k - a)). split; [lia|]. apply in_seq. lia.
  Qed.

  Lemma fsum_zero (f : N -> F) l : (forall k, In k l -> f k = f0) -> fsum f l = f0.
  Proof.
    induction l as [|x l IH]; intros H; [reflexivity|].
    rewrite fsum_cons, (H x (or_introl eq_refl)), IH; [ring|].
    intros k Hk. apply H. right. exact Hk.
  Qed.

  (* extending the summation to a larger window does not change the sum when
     the extra intervals contribute zero *)
  Lemma fsum_window (f : N -> F) (u w : support F) :
    SInv u -> SInv w ->
    (forall k, imem k u -> imem k w) ->
    (forall k, imem k w -> ~ imem k u -> f k = f0) ->
    fsum f (interval_list w) = fsum f (interval_list u).
  Proof.
    intros _ _ Hsub Hz.
    destruct (N.eq_dec (nintervals u) 0) as [E0|Hne].
    - unfold interval_list at 2. rewrite E0. cbn [nrange N.to_nat seq map]. rewrite fsum_nil.
      apply fsum_zero. intros k Hk. apply imem_interval_list in Hk. apply Hz; [exact Hk|].
      intros Hu. unfold imem, nintervals in *.
      destruct (sstop u - sstart u =? 0)%N eqn:E; lia.
    - assert (Hu1 : (sstart u + nintervals u + 1 = sstop u)%N).
      { unfold nintervals in *. destruct (sstop u - sstart u =? 0)%N eqn:E; lia. }
      assert (Hfirst : imem (sstart u) w) by (apply Hsub; unfold imem; lia).
      assert (Hlast : imem (sstart u + nintervals u - 1) w) by (apply Hsub; unfold imem; lia).
      assert (Hw1 : (sstart w + nintervals w + 1 = sstop w)%N).
      { unfold imem in Hfirst. unfold nintervals.
        destruct (sstop w - sstart w =? 0)%N eqn:E; lia. }
      unfold imem in Hfirst, Hlast.
      set (n1 := N.to_nat (sstart u - sstart w)).
      set (n2 := N.to_nat (nintervals u)).
      set (n3 := N.to_nat (sstart w + nintervals w - (sstart u + nintervals u))).
      rewrite !interval_list_irange. fold n2.
      replace (N.to_nat (nintervals w)) with (n1 + (n2 + n3))%nat by lia.
      rewrite !irange_app, !fsum_app.
      replace (sstart w + N.of_nat n1)%N with (sstart u) by lia.
      rewrite (fsum_zero f (irange (sstart w) n1)), (fsum_zero f (irange _ n3)); [ring| |].
      + intros k Hk. apply In_irange in Hk. apply Hz; unfold imem; lia.
      + intros k Hk. apply In_irange in Hk. apply Hz; unfold imem; lia.
  Qed.

  (* the window of all intervals of a grid *)
  Definition whole (g : list F) : support F := mkSup g 0 (nlen g).

  Lemma imem_whole (g : list F) k : imem k (whole g) <-> (k + 1 < nlen g)%N.
  Proof. unfold imem, whole. cbn [sstart sstop]. lia. Qed.

  Lemma whole_inv (g : list F) : GInv g -> SInv (whole g).
  Proof. intros (H2 & H63 & _). unfold SInv, whole. cbn [sgrid sstart sstop]. lia. Qed.

  Lemma In_interval_list_whole (g : list F) k :
    In k (interval_list (whole g)) <-> (k + 1 < nlen g)%N.
  Proof. rewrite imem_interval_list. apply imem_whole. Qed.

  (* outside the common intervals one of the pieces is [] and the integrand
     polynomial is the zero function *)
  Lemma bi_integrand_out (e1 e2 : expr F) (a b : spline F) g k h :
    ~ (imem k (ssup a) /\ imem k (ssup b)) ->
    defint (pmul (dsem e1 g k (piece a k)) (dsem e2 g k (piece b k))) h = f0.
  Proof.
    intros Hn. apply defint_zero. intros w. rewrite peval_pmul.
    destruct (inb (ssup a) k) eqn:Ea.
    - apply inb_imem in Ea. rewrite (piece_out b k) by tauto. rewrite peval_dsem_nil. ring.
    - apply inb_false in Ea. rewrite (piece_out a k) by exact Ea. rewrite peval_dsem_nil. ring.
  Qed.

  Lemma lin_integrand_out (e : expr F) (a : spline F) g k h :
    ~ imem k (ssup a) -> defint (dsem e g k (piece a k)) h = f0.
  Proof.
    intros Hn. apply defint_zero. intros w. rewrite (piece_out a k) by exact Hn.
    apply peval_dsem_nil.
  Qed.

  (* the bilinear value is the sum of the same integrand over ALL intervals
     of the grid *)
  Lemma bilinear_value_all (e1 e2 : expr F) (a b : spline F) :
    SplInv a -> SplInv b -> sgridp a = sgridp b ->
    factors_ok e1 (sgridp a) -> factors_ok e2 (sgridp a) -> scalars_ok e1 -> scalars_ok e2 ->
    bilinear (elab e1) (elab e2) a b
    = Ok (fsum (fun k => defint (pmul (dsem e1 (sgridp a) k (piece a k))
                                      (dsem e2 (sgridp a) k (piece b k)))
                                (halfwidth (sgridp a) k))
               (interval_list (whole (sgridp a)))).
  Proof.
    intros Ha Hb Hg Hf1 Hf2 Hs1 Hs2.
    pose proof Ha as (Sa & Ga & _). pose proof Hb as (Sb & _).
    destruct (calc_inter_spec _ _ Sa Sb Hg) as (u & Eu & _).
    destruct (inter_facts a b u Ha Hb Hg Eu) as (Su & Gu & Mu).
    rewrite (bilinear_exact e1 e2 a b u) by assumption.
    f_equal. symmetry. apply fsum_window.
    - exact Su.
    - apply whole_inv. exact Ga.
    - intros k Hk. apply imem_whole. rewrite <- Gu. apply imem_grid; assumption.
    - intros k _ Hn. apply bi_integrand_out. rewrite <- Mu. exact Hn.
  Qed.

  Lemma bilinear_value_all_on (e1 e2 : expr F) (a b : spline F) g :
    SplInv a -> SplInv b -> sgridp a = g -> sgridp b = g ->
    factors_ok e1 g -> factors_ok e2 g -> scalars_ok e1 -> scalars_ok e2 ->
    bilinear (elab e1) (elab e2) a b
    = Ok (fsum (fun k => defint (pmul (dsem e1 g k (piece a k)) (dsem e2 g k (piece b k)))
                                (halfwidth g k))
               (interval_list (whole g))).
  Proof.
    intros Ha Hb Hga Hgb. subst g. intros Hf1 Hf2 Hs1 Hs2.
    apply bilinear_value_all; auto.
  Qed.

  Lemma linear_value_all (e : expr F) (a : spline F) :
    SplInv a -> factors_ok e (sgridp a) -> scalars_ok e ->
    linear (elab e) a
    = Ok (fsum (fun k => defint (dsem e (sgridp a) k (piece a k)) (halfwidth (sgridp a) k))
               (interval_list (whole (sgridp a)))).
  Proof.
    intros Ha Hf Hs. pose proof Ha as (Sa & Ga & _).
    rewrite (linear_exact e a) by assumption.
    f_equal. symmetry. apply fsum_window.
    - exact Sa.
    - apply whole_inv. exact Ga.
    - intros k Hk. apply imem_whole. apply imem_grid; assumption.
    - intros k _ Hn. apply lin_integrand_out. exact Hn.
  Qed.

  Lemma linear_value_all_on (e : expr F) (a : spline F) g :
    SplInv a -> sgridp a = g -> factors_ok e g -> scalars_ok e ->
    linear (elab e) a
    = Ok (fsum (fun k => defint (dsem e g k (piece a k)) (halfwidth g k))
               (interval_list (whole g))).
  Proof. intros Ha Hg. subst g. apply linear_value_all. exact Ha. Qed.

  (* ================================================================== *)
  (* linearity                                                           *)
  (* ================================================================== *)

  (* the function a spline denotes on interval k, in the local coordinate *)
  Lemma den_local (s : spline F) k w : den s k (w + mid (sgridp s) k) = peval (piece s k) w.
  Proof. unfold den, sgridp. f_equal. ring. Qed.

  (* the pieces of a sum spline evaluate as the sums of the pieces *)
  Lemma add_facts (a1 a2 r : spline F) :
    SplInv a1 -> SplInv a2 -> sgridp a1 = sgridp a2 -> spl_add a1 a2 = Ok r ->
    SplInv r /\ sgridp r = sgridp a1 /\
    forall k w, peval (piece r k) w = peval (piece a1 k) w + peval (piece a2 k) w.
  Proof.
    intros H1 H2 Hg Hr. pose proof H1 as (S1 & _). pose proof H2 as (S2 & _).
    destruct (spl_add_spec a1 a2 H1 H2 Hg) as (u & r' & Eu & Er & Ir & Sr & _ & Dr).
    rewrite Hr in Er. injection Er as <-.
    assert (Gr : sgridp r = sgridp a1).
    { unfold sgridp in *. destruct (calc_union_spec _ _ S1 S2 Hg) as (u' & Eu' & _ & Gu & _).
      rewrite Eu in Eu'. injection Eu' as <-. rewrite Sr. exact Gu. }
    split; [exact Ir|]. split; [exact Gr|].
    intros k w. rewrite <- (den_local r k w), Dr.
    rewrite Gr, den_local. rewrite Hg, den_local. reflexivity.
  Qed.

  Lemma scale_facts (a : spline F) c :
    SplInv a ->
    SplInv (spl_scale_l c a) /\ sgridp (spl_scale_l c a) = sgridp a /\
    forall k w, peval (piece (spl_scale_l c a) k) w = c * peval (piece a k) w.
  Proof.
    intros Ha. split; [apply spl_scale_l_inv; exact Ha|]. split; [reflexivity|].
    intros k w. unfold spl_scale_l. rewrite piece_scale, peval_pscale. ring.
  Qed.

  Lemma bi_integrand_add_l (e1 e2 : expr F) g k (p p1 p2 q : list F) h :
    (forall w, peval p w = peval p1 w + peval p2 w) ->
    defint (pmul (dsem e1 g k p) (dsem e2 g k q)) h
    = defint (pmul (dsem e1 g k p1) (dsem e2 g k q)) h
      + defint (pmul (dsem e1 g k p2) (dsem e2 g k q)) h.
  Proof.
    intros Hp. rewrite <- defint_padd. apply defint_ext. intros w.
    rewrite peval_padd, !peval_pmul.
    rewrite (dsem_ext e1 g k p (padd p1 p2)) by (intros x; rewrite peval_padd; apply Hp).
    rewrite dsem_add. ring.
  Qed.

  Lemma bi_integrand_scale_l (e1 e2 : expr F) g k c (p p1 q : list F) h :
    (forall w, peval p w = c * peval p1 w) ->
    defint (pmul (dsem e1 g k p) (dsem e2 g k q)) h
    = c * defint (pmul (dsem e1 g k p1) (dsem e2 g k q)) h.
  Proof.
    intros Hp. rewrite <- defint_pscale_l. apply defint_ext. intros w.
    rewrite peval_pscale_l, !peval_pmul.
    rewrite (dsem_ext e1 g k p (pscale_l c p1)) by (intros x; rewrite peval_pscale_l; apply Hp).
    rewrite dsem_scale. ring.
  Qed.

  Lemma bilinear_add_l (e1 e2 : expr F) (a1 a2 b r : spline F) :
    SplInv a1 -> SplInv a2 -> SplInv b ->
    sgridp a1 = sgridp a2 -> sgridp a1 = sgridp b ->
    factors_ok e1 (sgridp a1) -> factors_ok e2 (sgridp a1) -> scalars_ok e1 -> scalars_ok e2 ->
    spl_add a1 a2 = Ok r ->
    exists v1 v2 v,
      bilinear (elab e1) (elab e2) a1 b = Ok v1 /\
      bilinear (elab e1) (elab e2) a2 b = Ok v2 /\
      bilinear (elab e1) (elab e2) r b = Ok v /\
      v = v1 + v2.
  Proof.
    intros H1 H2 Hb G12 G1b Hf1 Hf2 Hs1 Hs2 Hr.
    destruct (add_facts a1 a2 r H1 H2 G12 Hr) as (Ir & Gr & Pr).
    set (g := sgridp a1) in *.
    rewrite (bilinear_value_all_on e1 e2 a1 b g) by (auto; reflexivity).
    rewrite (bilinear_value_all_on e1 e2 a2 b g) by auto.
    rewrite (bilinear_value_all_on e1 e2 r b g) by auto.
    do 3 eexists. split; [reflexivity|]. split; [reflexivity|]. split; [reflexivity|].
    rewrite <- fsum_add. apply fsum_ext. intros k _.
    apply bi_integrand_add_l. apply Pr.
  Qed.

  Lemma bilinear_scale_l (e1 e2 : expr F) (a b : spline F) c :
    SplInv a -> SplInv b -> sgridp a = sgridp b ->
    factors_ok e1 (sgridp a) -> factors_ok e2 (sgridp a) -> scalars_ok e1 -> scalars_ok e2 ->
    exists v v',
      bilinear (elab e1) (elab e2) a b = Ok v /\
      bilinear (elab e1) (elab e2) (spl_scale_l c a) b = Ok v' /\
      v' = c * v.
  Proof.
    intros Ha Hb Hg Hf1 Hf2 Hs1 Hs2.
    destruct (scale_facts a c Ha) as (Ir & Gr & Pr).
    set (g := sgridp a) in *.
    rewrite (bilinear_value_all_on e1 e2 a b g) by (auto; reflexivity).
    rewrite (bilinear_value_all_on e1 e2 (spl_scale_l c a) b g) by auto.
    do 2 eexists. split; [reflexivity|]. split; [reflexivity|].
    rewrite <- fsum_scale. apply fsum_ext. intros k _.
    apply bi_integrand_scale_l. apply Pr.
  Qed.

  Lemma bilinear_add_r (e1 e2 : expr F) (a b1 b2 r : spline F) :
    SplInv a -> SplInv b1 -> SplInv b2 ->
    sgridp a = sgridp b1 -> sgridp a = sgridp b2 ->
    factors_ok e1 (sgridp a) -> factors_ok e2 (sgridp a) -> scalars_ok e1 -> scalars_ok e2 ->
    spl_add b1 b2 = Ok r ->
    exists v1 v2 v,
      bilinear (elab e1) (elab e2) a b1 = Ok v1 /\
      bilinear (elab e1) (elab e2) a b2 = Ok v2 /\
      bilinear (elab e1) (elab e2) a r = Ok v /\
      v = v1 + v2.
  Proof.
    intros Ha H1 H2 G1 G2 Hf1 Hf2 Hs1 Hs2 Hr.
    assert (G12 : sgridp b1 = sgridp b2) by congruence.
    destruct (add_facts b1 b2 r H1 H2 G12 Hr) as (Ir & Gr & _).
    assert (Gar : sgridp a = sgridp r) by congruence.
    rewrite (bilinear_swap e1 e2 a b1), (bilinear_swap e1 e2 a b2), (bilinear_swap e1 e2 a r)
      by assumption.
    apply (bilinear_add_l e2 e1 b1 b2 a r); try assumption; try congruence;
      rewrite <- G1; assumption.
  Qed.

  Lemma bilinear_scale_r (e1 e2 : expr F) (a b : spline F) c :
    SplInv a -> SplInv b -> sgridp a = sgridp b ->
    factors_ok e1 (sgridp a) -> factors_ok e2 (sgridp a) -> scalars_ok e1 -> scalars_ok e2 ->
    exists v v',
      bilinear (elab e1) (elab e2) a b = Ok v /\
      bilinear (elab e1) (elab e2) a (spl_scale_l c b) = Ok v' /\
      v' = c * v.
  Proof.
    intros Ha Hb Hg Hf1 Hf2 Hs1 Hs2.
    destruct (scale_facts b c Hb) as (Ir & Gr & _).
    assert (Gar : sgridp a = sgridp (spl_scale_l c b)) by congruence.
    rewrite (bilinear_swap e1 e2 a b), (bilinear_swap e1 e2 a (spl_scale_l c b)) by assumption.
    apply (bilinear_scale_l e2 e1 b a c); try assumption; try congruence;
      rewrite <- Hg; assumption.
  Qed.

  Lemma linear_add (e : expr F) (a1 a2 r : spline F) :
    SplInv a1 -> SplInv a2 -> sgridp a1 = sgridp a2 ->
    factors_ok e (sgridp a1) -> scalars_ok e ->
    spl_add a1 a2 = Ok r ->
    exists v1 v2 v,
      linear (elab e) a1 = Ok v1 /\ linear (elab e) a2 = Ok v2 /\ linear (elab e) r = Ok v /\
      v = v1 + v2.
  Proof.
    intros H1 H2 G12 Hf Hs Hr.
    destruct (add_facts a1 a2 r H1 H2 G12 Hr) as (Ir & Gr & Pr).
    set (g := sgridp a1) in *.
    rewrite (linear_value_all_on e a1 g) by (auto; reflexivity).
    rewrite (linear_value_all_on e a2 g) by auto.
    rewrite (linear_value_all_on e r g) by auto.
    do 3 eexists. split; [reflexivity|]. split; [reflexivity|]. split; [reflexivity|].
    rewrite <- fsum_add. apply fsum_ext. intros k _.
    rewrite <- defint_padd. apply defint_ext. intros w. rewrite peval_padd.
    rewrite (dsem_ext e g k (piece r k) (padd (piece a1 k) (piece a2 k)))
      by (intros x; rewrite peval_padd; apply Pr).
    apply dsem_add.
  Qed.

  Lemma linear_scale (e : expr F) (a : spline F) c :
    SplInv a -> factors_ok e (sgridp a) -> scalars_ok e ->
    exists v v',
      linear (elab e) a = Ok v /\ linear (elab e) (spl_scale_l c a) = Ok v' /\ v' = c * v.
  Proof.
    intros Ha Hf Hs.
    destruct (scale_facts a c Ha) as (Ir & Gr & Pr).
    set (g := sgridp a) in *.
    rewrite (linear_value_all_on e a g) by (auto; reflexivity).
    rewrite (linear_value_all_on e (spl_scale_l c a) g) by auto.
    do 2 eexists. split; [reflexivity|]. split; [reflexivity|].
    rewrite <- fsum_scale. apply fsum_ext. intros k _.
    rewrite <- defint_pscale_l. apply defint_ext. intros w. rewrite peval_pscale_l.
    rewrite (dsem_ext e g k (piece (spl_scale_l c a) k) (pscale_l c (piece a k)))
      by (intros x; rewrite peval_pscale_l; apply Pr).
    apply dsem_scale.
  Qed.

  (* ================================================================== *)
  (* C07: the bilinear form is the linear form of the product spline     *)
  (* ================================================================== *)

  Lemma den_local_on (s : spline F) g k w :
    sgridp s = g -> den s k (w + mid g k) = peval (piece s k) w.
  Proof. intros <-. apply den_local. Qed.

  Lemma bilinear_is_linear_of_product (e1 e2 : expr F) (a b : spline F) :
    SplInv a -> SplInv b -> sgridp a = sgridp b ->
    factors_ok e1 (sgridp a) -> factors_ok e2 (sgridp a) -> scalars_ok e1 -> scalars_ok e2 ->
    exists ra rb p v,
      apply (elab e1) a = Ok ra /\ apply (elab e2) b = Ok rb /\ spl_mul ra rb = Ok p /\
      bilinear (elab e1) (elab e2) a b = Ok v /\ linear OId p = Ok v.
  Proof.
    intros Ha Hb Hg Hf1 Hf2 Hs1 Hs2.
    destruct (apply_spec e1 a Ha Hf1 Hs1) as (ra & Era & Ira & Sra & _ & Pra).
    assert (Hf2' : factors_ok e2 (sgridp b)) by (rewrite <- Hg; exact Hf2).
    destruct (apply_spec e2 b Hb Hf2' Hs2) as (rb & Erb & Irb & Srb & _ & Prb).
    rewrite <- Hg in Prb.
    assert (Gra : sgridp ra = sgridp a) by (unfold sgridp; rewrite Sra; reflexivity).
    assert (Grb : sgridp rb = sgridp a).
    { unfold sgridp. rewrite Srb. symmetry. exact Hg. }
    assert (Grab : sgridp ra = sgridp rb) by congruence.
    destruct (spl_mul_spec ra rb Ira Irb Grab) as (u & p & Eu & Ep & Ip & Sp & _ & Dp).
    rewrite Sra, Srb in Eu.
    destruct (inter_facts a b u Ha Hb Hg Eu) as (Su & Gu & Mu).
    assert (Gp : sgridp p = sgridp a) by (unfold sgridp; rewrite Sp; exact Gu).
    exists ra, rb, p. eexists.
    split; [exact Era|]. split; [exact Erb|]. split; [exact Ep|].
    split; [apply (bilinear_exact e1 e2 a b u); assumption|].
    change (@OId F) with (elab (@EId F)). rewrite (linear_exact EId p Ip I I).
    f_equal. rewrite Gp, Sp. cbn [dsem]. apply fsum_ext. intros k _.
    apply defint_ext. intros w.
    rewrite <- (den_local_on p (sgridp a) k w Gp), Dp.
    rewrite (den_local_on ra (sgridp a) k w Gra), (den_local_on rb (sgridp a) k w Grb).
    rewrite Pra, Prb, peval_pmul. reflexivity.
  Qed.

End Forms2.

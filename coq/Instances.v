(* Instances.v — the exact rational instance [Qc] of the scalar interface, used
   for execution (extraction), for witnesses and for non-vacuity examples. *)
From Coq Require Import List ZArith QArith Qcanon Field Bool Lia.
From BSpl Require Import Scalar.
Import ListNotations.

Definition Qc_ltb (a b : Qc) : bool := match (a ?= b)%Qc with Lt => true | _ => false end.
Definition Qc_eqb (a b : Qc) : bool := match (a ?= b)%Qc with Eq => true | _ => false end.

Global Instance QcOps : Ops Qc := {|
  f0 := 0%Qc; f1 := 1%Qc;
  fadd := Qcplus; fmul := Qcmult; fsub := Qcminus; fopp := Qcopp; fdiv := Qcdiv;
  feqb := Qc_eqb; fneb := fun a b => negb (Qc_eqb a b);
  fltb := Qc_ltb; fleb := fun a b => Qc_ltb a b || Qc_eqb a b;
  fgtb := fun a b => Qc_ltb b a; fgeb := fun a b => Qc_ltb b a || Qc_eqb b a |}.

Lemma Qc_ltb_lt a b : Qc_ltb a b = true <-> (a < b)%Qc.
Proof.
  unfold Qc_ltb. rewrite Qclt_alt. destruct (a ?= b)%Qc; split; congruence.
Qed.

Lemma Qc_eqb_eq a b : Qc_eqb a b = true <-> a = b.
Proof.
  unfold Qc_eqb. rewrite Qceq_alt. destruct (a ?= b)%Qc; split; congruence.
Qed.

Ltac qc_unfold :=
  change (@fdiv Qc QcOps) with Qcdiv in *; change (@f1 Qc QcOps) with 1%Qc in *;
  change (@f0 Qc QcOps) with 0%Qc in *; change (@fadd Qc QcOps) with Qcplus in *;
  change (@fmul Qc QcOps) with Qcmult in *; change (@fsub Qc QcOps) with Qcminus in *;
  change (@fopp Qc QcOps) with Qcopp in *; change (@fltb Qc QcOps) with Qc_ltb in *;
  change (@feqb Qc QcOps) with Qc_eqb in *.

Lemma Qc_field_theory :
  field_theory 0%Qc 1%Qc Qcplus Qcmult Qcminus Qcopp Qcdiv (@finv Qc QcOps) (@eq Qc).
Proof.
  destruct Qcft as [R Hneq Hdiv Hinv].
  constructor; try assumption.
  - intros p q. unfold finv. qc_unfold. rewrite Hdiv.
    unfold Qcdiv. rewrite Qcmult_1_l. reflexivity.
  - intros p Hp. unfold finv. qc_unfold. unfold Qcdiv. rewrite Qcmult_1_l.
    apply Hinv. exact Hp.
Qed.

Global Instance Qc_laws : Laws QcOps.
Proof.
  constructor.
  - exact Qc_field_theory.
  - exact Qc_eqb_eq.
  - reflexivity.
  - reflexivity.
  - reflexivity.
  - reflexivity.
  - intros a. qc_unfold. destruct (Qc_ltb a a) eqn:E; [|reflexivity].
    apply Qc_ltb_lt in E. exfalso. apply (Qclt_not_eq _ _ E). reflexivity.
  - intros a b c. qc_unfold. rewrite !Qc_ltb_lt. apply Qclt_trans.
  - intros a b. qc_unfold. rewrite !Qc_ltb_lt.
    destruct (Qc_dec a b) as [[H|H]|H]; auto.
  - intros a b c. qc_unfold. rewrite !Qc_ltb_lt. intros H.
    apply Qclt_minus_iff. apply Qclt_minus_iff in H.
    replace (b + c + - (a + c))%Qc with (b + - a)%Qc by ring. exact H.
  - intros a b c. qc_unfold. rewrite !Qc_ltb_lt. intros Hc H.
    apply Qcmult_lt_compat_r; assumption.
Qed.

(* literals for examples: n/d in lowest terms *)
Definition qc (n : Z) (d : positive) : Qc := Q2Qc (n # d).

"""pipeline.py — build / prove / extract / correspond machinery shared by all checks."""
import concurrent.futures
import hashlib
import json
import os
import re
import shutil
import subprocess
import sys
import time

VERIF = os.path.dirname(os.path.dirname(os.path.abspath(__file__)))
REPO = os.environ.get("VERIF_REPO", "/repo")
BUILD = os.path.join(VERIF, ".build")
COQ = os.path.join(VERIF, "coq")
NCPU = os.cpu_count() or 4

FORBIDDEN = re.compile(
    r"\b(Admitted|admit|Axiom|Axioms|Parameter|Parameters|Conjecture|Conjectures|Admit Obligations|"
    r"Unset Guard Checking|Unset Positivity Checking|Unset Universe Checking|bypass_check|"
    r"native_compute|type-in-type|impredicative-set)\b")


def sh(cmd, timeout=1800, cwd=None, env=None):
    t0 = time.time()
    try:
        p = subprocess.run(cmd, shell=isinstance(cmd, str), cwd=cwd, env=env, timeout=timeout,
                           stdout=subprocess.PIPE, stderr=subprocess.STDOUT, text=True, errors="replace")
        return p.returncode, p.stdout, time.time() - t0
    except subprocess.TimeoutExpired as e:
        out = e.stdout if isinstance(e.stdout, str) else (e.stdout or b"").decode(errors="replace")
        return 124, out + "\n[timeout]", time.time() - t0


def file_hash(paths):
    h = hashlib.sha256()
    for p in sorted(paths):
        h.update(p.encode())
        with open(p, "rb") as f:
            h.update(f.read())
    return h.hexdigest()[:20]


def tree_files(root, exts=None):
    out = []
    for d, _, fs in os.walk(root):
        for f in fs:
            if exts is None or os.path.splitext(f)[1] in exts:
                out.append(os.path.join(d, f))
    return out


# ---------------------------------------------------------------------------
# Coq
# ---------------------------------------------------------------------------
def coq_sources():
    with open(os.path.join(COQ, "_CoqProject")) as f:
        return [l.strip() for l in f if l.strip().endswith(".v")]


def hygiene_gate():
    """no Admitted / Axiom / ... anywhere in the development (comments excluded)"""
    bad = []
    for v in tree_files(COQ, {".v"}):
        src = open(v).read()
        src = re.sub(r"\(\*.*?\*\)", "", src, flags=re.S)
        for m in FORBIDDEN.finditer(src):
            bad.append(f"{os.path.relpath(v, VERIF)}: {m.group(0)}")
        if re.search(r"^\s*(Variable|Variables|Hypothesis|Hypotheses)\b", src, flags=re.M):
            # allowed only inside sections; checked textually: every file using them must open a Section first
            first = re.search(r"^\s*(Variable|Variables|Hypothesis|Hypotheses)\b", src, flags=re.M).start()
            if "Section" not in src[:first]:
                bad.append(f"{os.path.relpath(v, VERIF)}: Variable/Hypothesis outside a section")
    return bad


def build_coq(target=None, timeout=3000):
    """full .vo build through coq_makefile (never -vos)"""
    if not os.path.exists(os.path.join(COQ, "Makefile")) or \
            os.path.getmtime(os.path.join(COQ, "Makefile")) < os.path.getmtime(os.path.join(COQ, "_CoqProject")):
        rc, out, _ = sh("coq_makefile -f _CoqProject -o Makefile", cwd=COQ)
        if rc != 0:
            return False, out
    tgt = target or ""
    rc, out, dt = sh(f"timeout {timeout} make -k -j{NCPU} {tgt}", cwd=COQ, timeout=timeout + 60)
    return rc == 0, out


def prove(pid):
    """Recompiles Properties_<pid>.v (and, if present, the analysis bridge Properties_<pid>_R.v and the compiled-kernel tie Properties_<pid>_K.v) after making
    their dependencies; returns (ok, theorems, assumptions, log).  theorems: list of names; assumptions: name -> text."""
    files = [f"Properties_{pid}.v"]
    if os.path.exists(os.path.join(COQ, f"Properties_{pid}_R.v")):
        files.append(f"Properties_{pid}_R.v")
    if os.path.exists(os.path.join(COQ, f"Properties_{pid}_K.v")):
        files.append(f"Properties_{pid}_K.v")       # kernels as compiled (coq/gen/KernelGen_*.v, regenerated on every run)
    if os.path.exists(os.path.join(COQ, f"Properties_{pid}_O.v")):
        files.append(f"Properties_{pid}_O.v")       # whole operations as compiled (coq/gen/OpsGen_*.v, regenerated on every run)
    if os.path.exists(os.path.join(COQ, f"Properties_{pid}_P.v")):
        files.append(f"Properties_{pid}_P.v")       # branching operations as compiled, per path (coq/gen/PathGen_*.v)
    all_thms, all_ass, logs, good = [], {}, [], True
    for fn in files:
        ok, thms, ass, log = prove_file(fn)
        all_thms += thms
        all_ass.update(ass)
        logs.append(log)
        good = good and ok
    return good, all_thms, all_ass, "\n".join(logs)


def prove_file(fn):
    path = os.path.join(COQ, fn)
    if not os.path.exists(path):
        return False, [], {}, f"{fn} missing"
    ok, log = build_coq(fn[:-2] + ".vo")
    if not ok:
        return False, [], {}, log
    rc, out, dt = sh(f"timeout 900 coqc -Q . BSpl {fn}", cwd=COQ, timeout=960)
    src = open(path).read()
    src_nc = re.sub(r"\(\*.*?\*\)", "", src, flags=re.S)
    thms = re.findall(r"^\s*(?:Theorem|Corollary)\s+(\w+)", src_nc, flags=re.M)
    printed = re.findall(r"^\s*Print Assumptions\s+(\w+)\s*\.", src_nc, flags=re.M)
    # split the output into one block per Print Assumptions
    blocks = re.split(r"(?=^Closed under the global context|^Axioms:)", out, flags=re.M)
    blocks = [b.strip() for b in blocks if b.strip().startswith(("Closed under", "Axioms:"))]
    assumptions = {}
    for name, b in zip(printed, blocks):
        assumptions[name] = b
    if rc != 0:
        return False, thms, assumptions, out
    missing = [t for t in thms if t not in printed]
    if missing or len(blocks) != len(printed):
        return False, thms, assumptions, out + f"\n[Print Assumptions missing for {missing}; {len(blocks)} blocks for {len(printed)} requests]"
    return True, thms, assumptions, out


def build_model():
    """extraction + OCaml driver; cached on the sources' hash"""
    srcs = [os.path.join(COQ, f) for f in coq_sources() if not f.startswith(("Proofs_", "Properties_", "Spec"))]
    srcs += [os.path.join(COQ, "Extract.v"), os.path.join(VERIF, "ocaml", "driver.ml")]
    key = file_hash(srcs)
    d = os.path.join(BUILD, "extract", key)
    drv = os.path.join(d, "driver")
    if os.path.exists(drv):
        return True, drv, "cached"
    ok, log = build_coq("Pool.vo Instances.vo Solver.vo")
    if not ok:
        return False, None, log
    os.makedirs(d, exist_ok=True)
    rc, out, _ = sh(f"timeout 600 coqc -Q {COQ} BSpl {COQ}/Extract.v -o {d}/Extract.vo", cwd=d)
    if rc != 0:
        return False, None, out
    shutil.copy(os.path.join(VERIF, "ocaml", "driver.ml"), d)
    rc, out2, _ = sh("timeout 600 ocamlfind ocamlopt -package zarith -linkpkg -w -a -O2 model.mli model.ml driver.ml -o driver", cwd=d)
    if rc != 0:
        return False, None, out + out2
    return True, drv, out + out2


# ---------------------------------------------------------------------------
# C++ harness
# ---------------------------------------------------------------------------
BASE_FLAGS = "-std=c++17 -O0 -g0 -w -DOKRUZ_BSPLINEBASIS_VERIF"
VARIANTS = {
    "plain": "",
    "checks": "-DBSPLINE_ADD_TEST_CHECKS",
    "asan": "-fsanitize=address,undefined -fno-sanitize-recover=all -fno-omit-frame-pointer -g1 -D_GLIBCXX_ASSERTIONS",
    "asanchecks": "-fsanitize=address,undefined -fno-sanitize-recover=all -fno-omit-frame-pointer -g1 -D_GLIBCXX_ASSERTIONS -DBSPLINE_ADD_TEST_CHECKS",
    "debugstl": "-D_GLIBCXX_DEBUG -D_GLIBCXX_DEBUG_PEDANTIC",
    # rounding tiers (C16): the same generated program with a built-in floating type as scalar
    "fp_float": "-DVERIF_FP=float", "fp_double": "-DVERIF_FP=double", "fp_ldouble": "-DVERIF_FP='long double'",
    "fp_double_O2": "-DVERIF_FP=double -O2", "fp_double_checks": "-DVERIF_FP=double -DBSPLINE_ADD_TEST_CHECKS",
    "fp_double_eigen": "-DVERIF_FP=double -DVERIF_EIGEN -DVERIF_NO_QUAD",
    "wrapd": "-DVERIF_FP=WrapD -DVERIF_NO_QUAD", "fp_double_noquad": "-DVERIF_FP=double -DVERIF_NO_QUAD",
    "fp_float_O2": "-DVERIF_FP=float -O2", "fp_ldouble_O2": "-DVERIF_FP='long double' -O2",
}


def repo_key(extra=()):
    files = tree_files(os.path.join(REPO, "include")) + [os.path.join(VERIF, "cpp", "harness.h")] + list(extra)
    return file_hash(files)


def prune_cache(sub, keep):
    """content-hash caches grow with every tree the checks are run against (one directory per tree and variant, a
    precompiled header is ~0.5 GB): only the `keep` most recently used entries of .build/<sub> are kept"""
    root = os.path.join(BUILD, sub)
    if not os.path.isdir(root):
        return
    ents = sorted((os.path.join(root, e) for e in os.listdir(root)), key=lambda q: os.path.getmtime(q), reverse=True)
    for q in ents[keep:]:
        if os.path.isdir(q):
            shutil.rmtree(q, ignore_errors=True)
        else:
            os.remove(q)


def build_pch(variant):
    flags = f"{BASE_FLAGS} {VARIANTS[variant]}"
    key = hashlib.sha256((repo_key() + flags).encode()).hexdigest()[:20]
    d = os.path.join(BUILD, "pch", key)
    gch = os.path.join(d, "harness.h.gch")
    prune_cache("pch", 20)
    prune_cache("examples", 6)
    prune_cache("extract", 6)
    if os.path.exists(gch):
        os.utime(d, None)           # most recently used
    if not os.path.exists(gch):
        os.makedirs(d, exist_ok=True)
        shutil.copy(os.path.join(VERIF, "cpp", "harness.h"), os.path.join(d, "harness.h"))
        rc, out, _ = sh(f"timeout 900 g++ {flags} -I{REPO}/include -x c++-header {d}/harness.h -o {gch}.tmp && mv {gch}.tmp {gch}", timeout=960)
        if rc != 0:
            shutil.rmtree(d, ignore_errors=True)
            return False, None, flags, out
    return True, d, flags, ""


def shard_cases(cases, nshards):
    shards = [[] for _ in range(nshards)]
    weights = [0] * nshards
    for c in sorted(cases, key=lambda c: -len(c.lines)):
        i = weights.index(min(weights))
        shards[i].append(c)
        weights[i] += len(c.lines) + 5
    return [s for s in shards if s]


def build_harness(cases, workdir, variant="plain", nshards=None):
    """writes the generated program for `cases` and compiles it; returns (ok, binary, log)"""
    ok, pchdir, flags, log = build_pch(variant)
    if not ok:
        return False, None, "PCH build failed (the library does not compile with the archetype scalar?)\n" + log
    nshards = nshards or min(NCPU, max(1, sum(len(c.lines) for c in cases) // 150))
    shards = shard_cases(cases, nshards)
    os.makedirs(workdir, exist_ok=True)
    srcs = []
    fnames = []
    for i, sh_cases in enumerate(shards):
        parts = ['#include "harness.h"', "using namespace vh;"]
        for c in sh_cases:
            fn, code = c.cpp()
            fnames.append((c.cid, fn))
            parts.append(code)
        p = os.path.join(workdir, f"shard_{i}.cpp")
        with open(p, "w") as f:
            f.write("\n".join(parts))
        srcs.append(p)
    main = ['#include <cstdio>', '#include <cstring>', '#include <set>', '#include <string>']
    for _, fn in fnames:
        main.append(f"void {fn}();")
    main.append("int main(int argc, char **argv) {")
    main.append("  std::set<std::string> skip; for (int i = 1; i < argc; i++) skip.insert(argv[i]);")
    order = {c.cid: i for i, c in enumerate(cases)}
    for cid, fn in sorted(fnames, key=lambda t: order[t[0]]):
        main.append(f'  if (!skip.count("{cid}")) {{ std::printf("BEGIN {cid}\\n"); std::fflush(stdout); {fn}(); }}')
    main.append('  std::printf("DONE\\n"); return 0; }')
    mp = os.path.join(workdir, "main.cpp")
    with open(mp, "w") as f:
        f.write("\n".join(main))
    key = hashlib.sha256((file_hash(srcs + [mp]) + repo_key() + flags).encode()).hexdigest()[:20]
    binp = os.path.join(workdir, f"harness_{variant}_{key}")
    # binaries of earlier trees / case sets in this work directory: keep the three most recent per variant
    olds = sorted((os.path.join(workdir, f) for f in os.listdir(workdir) if f.startswith(f"harness_{variant}_") and not f.endswith(key)),
                  key=os.path.getmtime, reverse=True)
    for q in olds[3:]:
        if os.path.isdir(q):
            shutil.rmtree(q, ignore_errors=True)
        else:
            os.remove(q)
    if os.path.exists(binp):
        return True, binp, "cached"

    def comp(src):
        obj = src[:-4] + f".{variant}.o"
        inc = f"-I{pchdir} -I{REPO}/include" if not src.endswith("main.cpp") else ""
        return sh(f"timeout 1500 g++ {flags} {inc} -c {src} -o {obj}", timeout=1560) + (obj,)

    logs = []
    objs = []
    good = True
    with concurrent.futures.ThreadPoolExecutor(max_workers=NCPU) as ex:
        for rc, out, dt, obj in ex.map(comp, srcs + [mp]):
            objs.append(obj)
            if rc != 0:
                good = False
                logs.append(out[-6000:])
    if not good:
        return False, None, "\n".join(logs)
    rc, out, _ = sh(f"g++ {flags} {' '.join(objs)} -o {binp}")
    for o in objs:
        try:
            os.remove(o)
        except OSError:
            pass
    if rc != 0:
        return False, None, out
    return True, binp, ""


def run_harness(binp, max_restarts=25, timeout=1200):
    """runs the generated program; on a crash (sanitizer abort, signal) records the
    case being executed, skips it and restarts.  Returns (lines dict, crashes list)."""
    lines = {}
    crashes = []
    skip = []
    env = dict(os.environ, ASAN_OPTIONS="detect_leaks=0:abort_on_error=0:halt_on_error=1", UBSAN_OPTIONS="print_stacktrace=1")
    for _ in range(max_restarts):
        try:
            p = subprocess.run([binp] + skip, stdout=subprocess.PIPE, stderr=subprocess.PIPE, timeout=timeout, env=env)
            out = p.stdout.decode(errors="replace")
            err = p.stderr.decode(errors="replace")
            rc = p.returncode
        except subprocess.TimeoutExpired as e:
            out = (e.stdout or b"").decode(errors="replace")
            err = "[timeout]"
            rc = 124
        cur = None
        done = False
        for ln in out.splitlines():
            if ln.startswith("BEGIN "):
                cur = ln[6:].strip()
            elif ln == "DONE":
                done = True
            else:
                k, _, v = ln.partition(" ")
                lines[k] = v
        if done and rc == 0:
            break
        crashes.append({"case": cur, "rc": rc, "stderr": err[-3000:]})
        if cur is None:
            break
        skip.append(cur)
    return lines, crashes


def run_model(driver, casefile, timeout=1200):
    rc, out, _ = sh([driver, casefile], timeout=timeout)
    lines = {}
    for ln in out.splitlines():
        k, _, v = ln.partition(" ")
        lines[k] = v
    return rc, lines, out


def build_simple(src, outname, flags="", extra_inc="", timeout=900):
    """compiles one hand-written harness source against REPO; cached on sources + repo hash"""
    key = hashlib.sha256((file_hash([src]) + repo_key() + flags + REPO + file_hash(tree_files(os.path.join(REPO, "examples")))).encode()).hexdigest()[:20]
    d = os.path.join(BUILD, "simple")
    os.makedirs(d, exist_ok=True)
    binp = os.path.join(d, f"{outname}_{key}")
    if os.path.exists(binp):
        return True, binp, "cached"
    rc, out, _ = sh(f"timeout {timeout} g++ -std=c++17 -w -DOKRUZ_BSPLINEBASIS_VERIF {flags} -I{REPO}/include {extra_inc} {src} -o {binp}", timeout=timeout + 30)
    return rc == 0, (binp if rc == 0 else None), out

"""oracles.py — property oracles used by the search for a failing input.

When model and implementation disagree on a line, `judge` decides whether the
implementation's output on that input fails the property ('fails'), still
satisfies it although it differs from the model ('holds' — a rewrite the model
no longer mirrors) or cannot be decided here ('unknown').

For most operations the property theorems are full functional specifications:
they determine the observable result uniquely (window by the interval algebra,
order by the typing rule, coefficients because two polynomials of bounded
length that agree as functions over an infinite field have equal coefficients,
outcome code by the validation theorems).  The model is proved to produce that
result, so any other implementation output violates the theorem's conclusion
at this input.  The exceptions, where the property is looser than the model,
are judged by an independent evaluation in exact rational arithmetic below.
"""
from fractions import Fraction as Fr

from caselib import Case, replay_line


def case_from_replay(info):
    c = Case("replay")
    for t in info["history"]:
        replay_line(c, t)
    return [c]


def _state_from_history(lines):
    """reconstructs grids/windows/splines defined by literal constructors only"""
    grids, sups, spls = {}, {}, {}
    for t in lines:
        tk = t.split()
        if tk[0] == 'GridNew':
            n = int(tk[2])
            grids[int(tk[1])] = [Fr(x) for x in tk[3:3 + n]]
        elif tk[0] == 'SupNew' and int(tk[2]) in grids:
            sups[int(tk[1])] = (grids[int(tk[2])], int(tk[3]), int(tk[4]))
        elif tk[0] == 'SplNew' and int(tk[3]) in sups:
            o, m = int(tk[2]), int(tk[4])
            vals = [Fr(x) for x in tk[5:]]
            spls[int(tk[1])] = (sups[int(tk[3])], o, [vals[i * (o + 1):(i + 1) * (o + 1)] for i in range(m)])
    return grids, sups, spls


def _peval(c, u):
    r = Fr(0)
    for a in reversed(c):
        r = r * u + a
    return r


def judge_eval(case, d):
    """C02: zero outside the closed support, else the value of a piece whose closed interval contains x"""
    tk = d["op"].split()
    _, _, spls = _state_from_history(case.lines[:d["line"]])
    a = int(tk[1])
    if a not in spls or not (d["impl"] or "").startswith("OK "):
        return None
    (g, s, e), o, coefs = spls[a]
    x = Fr(tk[2])
    try:
        got = Fr(d["impl"].split()[1])
    except Exception:
        return None
    allowed = set()
    if e - s >= 2 and g[s] <= x <= g[e - 1]:
        for j in range(e - s - 1):
            lo, hi = g[s + j], g[s + j + 1]
            if lo <= x <= hi:
                allowed.add(_peval(coefs[j], x - (lo + hi) / 2))
    else:
        allowed.add(Fr(0))
    if got in allowed:
        return ('holds', f"implementation value {got} is the value of an adjacent piece (admissible values {sorted(allowed)}); the model picks the left piece")
    return ('fails', f"implementation value {got} is not among the admissible values {sorted(allowed)} at x={x}")


def judge(pid, case, d):
    op = d["op"].split()[0]
    if op == 'SplEval':
        r = judge_eval(case, d)
        if r:
            return r
    if d["impl"] is None:
        return ('unknown', "the implementation produced no output for this line")
    if d["model"] is None:
        return ('unknown', "the model produced no output for this line")
    if d["model"].startswith("UB IllTyped"):
        return ('unknown', "an operand slot was unbound in the model (generator/typing problem)")
    if (d["impl"] or "").startswith("CRASH"):
        return ('fails', "the implementation aborted (sanitizer report, assertion or signal) on an input for which the proved model returns " + d["model"])
    return ('fails', "the property theorems determine this observable uniquely; the proved model returns '%s', the implementation '%s'" % (d["model"], d["impl"]))

"""checks.py — the decision procedure of one check (DESIGN.md section 6).

prove -> extract -> generate -> build the implementation -> correspond -> decide.
Exit 0: the property held on everything explored.  Exit 1 with a line
`VIOLATION property=<id> replay=<path>` otherwise.
"""
import argparse
import hashlib
import json
import os
import re
import sys
import time

import pipeline
import props
import oracles
from pipeline import VERIF, REPO, BUILD

# evidence/ only ever describes runs against /repo itself; a development run against a scratch copy (VERIF_REPO set by
# gen/trymutant.py) writes its evidence and replay files under .build/
EVID = os.path.join(VERIF, "evidence") if os.path.realpath(REPO) == "/repo" else os.path.join(BUILD, "scratch_evidence")
KNOWN = os.path.join(VERIF, "KNOWN_FINDINGS.txt")

OBSERVERS = {
    'GridAt', 'GridSub', 'GridFind', 'GridEq', 'GridSize', 'GridFront', 'GridBack',
    'SupRel', 'SupIvl', 'SupAbs', 'SupAt', 'SupSub', 'SupFront', 'SupBack', 'SupIter', 'SupEq',
    'SupSameGrid', 'SupIsEmpty', 'SupContains', 'SplEval', 'SplFront', 'SplBack', 'SplIsZero',
    'SplOverlap', 'SplEq', 'Transform', 'Bilin', 'Lin', 'Show'}

TRUSTED_BASE = [
    "Coq 8.16.1 kernel (coqc), including its VM (vm_compute is used for witnesses and non-vacuity examples); no native_compute",
    "axioms: none — every property theorem prints 'Closed under the global context' (recorded per theorem under coverage.assumptions)",
    "the ordered-field laws (class Laws in coq/Scalar.v) are premises of the theorems, instantiated at Qc in coq/Instances.v",
    "hand-written Gallina model of the library (coq/Support.v Poly.v Spline.v Ops.v Forms.v Generator.v Interp.v Pool.v); tied to /repo by the exact correspondence run of this check",
    "the extracted model is cross-checked on every run: a sample of the generated cases is evaluated inside Coq with vm_compute (coq/EvalCheck.v) and compared outcome by outcome with the OCaml run",
    "extraction: ExtrOcamlBasic only (Extract Inductive bool/option/unit/list/prod/sumbool/sumor, Extract Inlined Constant andb/orb); no directive of our own; OCaml 4.13.1 ocamlopt; Zarith used only for decimal I/O in ocaml/driver.ml",
    "correspondence machinery: gen/*.py, ocaml/driver.ml, cpp/harness.h, boost::multiprecision::cpp_rational (exact arithmetic on the C++ side), g++ 12, libstdc++, ASan/UBSan where used",
    "modelled rather than verified: std::vector/array/optional/shared_ptr as values (no object identity), std::lower_bound/unique/min/max by contract, exceptions as the outcome monad, template instantiation and overload resolution (the model's constructors name the overloads)",
]


DEFAULT_ASSUMES = [
    "the theorems are about the hand-written Gallina model; the model is tied to /repo's current source by the correspondence run of this check (and, for C13, by definitions regenerated from the source), not by a verified C++ semantics",
    "scalar structures are assumed to satisfy the ordered-field laws (class Laws), as premises of the theorems; floating-point types do not, which is what C16 is about",
    "grids are assumed shorter than 2^63 points (a std::vector's size fits ptrdiff_t); index arithmetic is modelled in N with explicit wrap-around at 2^64",
]


def load_known():
    findings, fixed = [], []
    if os.path.exists(KNOWN):
        for ln in open(KNOWN):
            ln = ln.strip()
            if not ln or ln.startswith('#'):
                continue
            if ln.startswith('fixed:'):
                fixed.append(ln)
            elif ln.startswith('finding:'):
                kv = dict(re.findall(r'(\w+)=("(?:[^"\\]|\\.)*"|\S+)', ln[len('finding:'):]))
                kv = {k: (v[1:-1] if v.startswith('"') else v) for k, v in kv.items()}
                findings.append(kv)
    return findings, fixed


def match_known(findings, pid, optext, model_out, impl_out):
    for f in findings:
        if f.get('property') != pid:
            continue
        if 'op' in f and not re.search(f['op'], optext):
            continue
        if 'impl' in f and not re.search(f['impl'], impl_out or ''):
            continue
        if 'model' in f and not re.search(f['model'], model_out or ''):
            continue
        return f
    return None


def slice_case(case_lines, idx):
    """keeps the lines (1-based idx is the failing one) that can influence line idx:
    every earlier non-observer line mentioning a slot in the transitive closure"""
    def slots(t):
        return set(re.findall(r'(?<![/\w-])(\d+)(?![/\w])', t))
    need = slots(case_lines[idx - 1])
    keep = {idx}
    for j in range(idx - 1, 0, -1):
        t = case_lines[j - 1]
        if t.split()[0] in OBSERVERS:
            continue
        if slots(t) & need:
            keep.add(j)
            need |= slots(t)
    return [case_lines[j - 1] for j in sorted(keep)]


def write_replay(pid, kind, info):
    os.makedirs(os.path.join(EVID, "replay"), exist_ok=True)
    h = hashlib.sha256(json.dumps(info, sort_keys=True, default=str).encode()).hexdigest()[:12]
    path = os.path.join(EVID, "replay", f"{pid}-{kind}-{h}.json")
    info = dict(info, property=pid, kind=kind, replay_cmd=f"./check {pid} --replay {os.path.relpath(path, VERIF)}")
    with open(path, "w") as f:
        json.dump(info, f, indent=1, default=str)
    return path


def write_evidence(pid, ev):
    os.makedirs(EVID, exist_ok=True)
    with open(os.path.join(EVID, f"{pid}.json"), "w") as f:
        json.dump(ev, f, indent=1, default=str)


def correspond(pid, cfg, cases, tier, workdir, variants):
    """returns dict with model lines, per-variant impl lines, crashes, build errors"""
    os.makedirs(workdir, exist_ok=True)
    casefile = os.path.join(workdir, "cases.txt")
    with open(casefile, "w") as f:
        f.write("".join(c.text() for c in cases))
    res = {"casefile": casefile, "variants": {}}
    ok, drv, log = pipeline.build_model()
    if not ok:
        res["model_error"] = log[-4000:]
        return res
    rc, ml, out = pipeline.run_model(drv, casefile)
    res["model"] = ml
    if rc != 0:
        res["model_error"] = out[-4000:]
    for v in variants:
        ok, binp, log = pipeline.build_harness(cases, workdir, v)
        if not ok:
            res["variants"][v] = {"build_error": log[-8000:]}
            continue
        hl, crashes = pipeline.run_harness(binp)
        res["variants"][v] = {"lines": hl, "crashes": crashes}
    return res


def main(argv):
    ap = argparse.ArgumentParser()
    ap.add_argument("pid")
    ap.add_argument("--tier", default=os.environ.get("VERIF_TIER", "quick"))
    ap.add_argument("--replay")
    ap.add_argument("--keep", action="store_true")
    a = ap.parse_args(argv)
    pid, tier = a.pid, a.tier
    seed = int(os.environ.get("VERIF_SEED", "20260928"))
    cfg = props.PROPS[pid]
    t0 = time.time()
    violations = []      # (message, replay path, suffix)
    known_lines = []
    findings, fixed = load_known()

    # stale replay files of this property are removed: a run reports only what it found itself
    if not a.replay and os.path.isdir(os.path.join(EVID, "replay")):
        for f in os.listdir(os.path.join(EVID, "replay")):
            if f.startswith(pid + "-"):
                os.remove(os.path.join(EVID, "replay", f))

    # ---- 1. proofs ----
    # the tables generated from /repo's current source are refreshed on EVERY run (2 s), so that no check ever
    # compiles against tables left behind by a run on another tree; only their owners depend on them
    pre_infra = []
    import scan_sites
    subs, _sh = scan_sites.main()          # coq/gen/Sites.v, coq/gen/Shared.v  (owners: C09, C18)
    unreviewed_shapes = []
    if pid == "C09":
        # access-shape inventory: not a proof obligation; shapes of unchecked accesses that the reviewed table
        # (coq/Proofs_Sites.v) does not list make the check ESCALATE its search under the sanitizers
        tab = open(os.path.join(pipeline.COQ, "Proofs_Sites.v")).read()
        tab = tab[tab.index("Definition site_table"):]
        reviewed = {(f, t.replace('""', '"')) for f, t in re.findall(r'\("((?:[^"]|"")*)", "((?:[^"]|"")*)", "', tab)}
        unreviewed_shapes = [list(x) for x in subs if tuple(x) not in reviewed]
    rc, out, _ = pipeline.sh([sys.executable, os.path.join(VERIF, "gen", "ast2coq.py")], timeout=600)   # coq/gen/SupportGen.v (owner: C13)
    if rc != 0 and cfg.get("scan") == 'ast':
        pre_infra.append(("gen/ast2coq.py cannot translate Support.h any more (construct outside the translated fragment)", out[-3000:]))
    if os.path.exists(os.path.join(pipeline.COQ, f"Properties_{pid}_K.v")):
        # coq/gen/KernelGen_*.v (owners: C02 C03 C04 C06 C07): the real kernels run over a symbolic scalar type
        rc, out, _ = pipeline.sh([sys.executable, os.path.join(VERIF, "gen", "symkern.py")], timeout=900)
        if rc != 0:
            pre_infra.append(("gen/symkern.py cannot extract the kernels' expressions from the current headers "
                              "(does not compile with the symbolic scalar, branches on a scalar value, reads an "
                              "uninitialised scalar, throws or crashes)", out[-3000:]))
    if pid == "C16":
        # coq/gen/RoundGen_*.v (owner: C16): the compiled kernels' expressions reified for the generic rounding bound
        rc, out, _ = pipeline.sh([sys.executable, os.path.join(VERIF, "gen", "symround.py")], timeout=900)
        if rc != 0:
            pre_infra.append(("gen/symround.py cannot reify the kernels' expressions from the current headers (does not compile "
                              "with the symbolic scalar - e.g. a value routed through float -, a divisor that is not an "
                              "integer constant, a scalar comparison, an uninitialised scalar, an exception or a crash)", out[-3000:]))
    if pid == "C16":
        # coq/gen/OpsGen_*.v are inputs of coq/gen/RoundOpsGen_*.v (whole operations, rounding bound)
        for script, what in (("symops.py", "extract the results of the public operations"), ("symroundops.py", "reify the results of the public operations")):
            rc, out, _ = pipeline.sh([sys.executable, os.path.join(VERIF, "gen", script)], timeout=900)
            if rc != 0:
                pre_infra.append((f"gen/{script} cannot {what} from the current headers", out[-3000:]))
    if os.path.exists(os.path.join(pipeline.COQ, f"Properties_{pid}_O.v")) and pid != "C16":
        # coq/gen/OpsGen_*.v (owners: C03 C04 C06 C07): whole public operations run over the symbolic scalar type
        rc, out, _ = pipeline.sh([sys.executable, os.path.join(VERIF, "gen", "symops.py")], timeout=900)
        if rc != 0:
            pre_infra.append(("gen/symops.py cannot extract the results of the public operations from the current headers "
                              "(does not compile with the symbolic scalar, branches on a scalar value, reads an "
                              "uninitialised scalar, throws or crashes)", out[-3000:]))
    if os.path.exists(os.path.join(pipeline.COQ, f"Properties_{pid}_P.v")):
        # coq/gen/PathGen_*.v (owners: C01 C02 C11 C12 C15): operations that branch on scalar values, run concolically
        rc, out, _ = pipeline.sh([sys.executable, os.path.join(VERIF, "gen", "symops2.py")], timeout=900)
        if rc != 0:
            pre_infra.append(("gen/symops2.py cannot extract the per-path results of the public operations from the current "
                              "headers (does not compile with the symbolic scalar, reads an uninitialised scalar, throws "
                              "unexpectedly or crashes)", out[-3000:]))
    bad = pipeline.hygiene_gate()
    ok, thms, assumptions, plog = pipeline.prove(pid)
    obligations = len(thms) + 1        # + the correspondence relation
    discharged = 0
    nonclosed = {k: v for k, v in assumptions.items() if not v.startswith("Closed under the global context")}
    allowed_axioms = cfg.get("allowed_axioms", [])
    for k, v in list(nonclosed.items()):
        names = [ln.split()[0] for ln in v.splitlines() if ln and not ln[0].isspace() and not ln.startswith("Axioms:")]
        if names and all(any(n.endswith(ax) for ax in allowed_axioms) for n in names):
            del nonclosed[k]
    if ok and not bad and not nonclosed:
        discharged += len(thms)
    proof_broken = None
    if bad:
        proof_broken = "hygiene gate: " + "; ".join(bad[:10])
    elif not ok:
        m = re.search(r'File "\./([^"]+)", line (\d+).*?\n(Error:.*?)(?:\n\n|\Z)', plog, flags=re.S)
        proof_broken = (f"{m.group(1)}:{m.group(2)} {m.group(3)[:600]}" if m else plog[-1500:])
    elif nonclosed:
        proof_broken = "theorems depend on axioms: " + json.dumps(nonclosed)[:1500]

    # ---- 2. cases ----
    replay_stage_only = False
    if a.replay:
        info = json.load(open(a.replay))
        try:
            cases = oracles.case_from_replay(info)
        except Exception:
            # the replay belongs to an extra stage (floating-point tier, examples, threads, scanners) or to a
            # broken proof obligation: re-run the whole check, which re-runs that stage / re-checks the proofs
            cases = cfg["gen"](seed, tier)
            replay_stage_only = True
    else:
        cases = cfg["gen"](seed, tier)
        if unreviewed_shapes and tier == "quick":
            # escalated search: the thorough tier's histories and placements, renamed so that ids stay unique
            more = cfg["gen"](seed + 1, "thorough")
            for c in more:
                c.cid = "esc_" + c.cid
            cases = cases + more
    # a kernel lemma of the generated file no longer goes through: search with cases directed at that kernel and size
    km = re.search(r'File "\./gen/(KernelGen_\w+\.v)", line (\d+)', plog or "")
    if km and not a.replay:
        try:
            src = open(os.path.join(pipeline.COQ, "gen", km.group(1))).read().splitlines()[:int(km.group(2))]
            inst = [re.match(r"Lemma k_(\w+)_ok", ln).group(1) for ln in src if re.match(r"Lemma k_(\w+)_ok", ln)][-1]
            cases = cases + props.kernel_cases(inst, seed)
        except Exception:
            pass
    assert len({c.cid for c in cases}) == len(cases), "duplicate case ids"
    workdir = os.path.join(BUILD, "run", f"{pid}_{tier}" + ("_replay" if a.replay else ""))
    variants = cfg.get("variants", {}).get(tier, ["plain"])
    res = correspond(pid, cfg, cases, tier, workdir, variants)

    # ---- 3. compare ----
    by_id = {c.cid: c for c in cases}
    total_lines = sum(len(c.lines) for c in cases)
    diffs = []
    infra = list(pre_infra)
    extra_distinct = set()
    if "model_error" in res and "model" not in res:
        infra.append(("model does not build/run", res["model_error"]))
    ml = res.get("model", {})
    for v, r in res.get("variants", {}).items():
        if "build_error" in r:
            infra.append((f"harness[{v}] does not build against {REPO}", r["build_error"]))
            continue
        hl = r["lines"]
        crashed_cases = {c["case"] for c in r["crashes"]}
        for c in cases:
            for i, text in enumerate(c.lines, 1):
                k = f"{c.cid}.{i}"
                m_out, h_out = ml.get(k), hl.get(k)
                if m_out == h_out and m_out is not None:
                    continue
                if h_out is None and c.cid in crashed_cases:
                    continue    # reported through the crash record below
                diffs.append({"variant": v, "case": c.cid, "line": i, "op": text, "model": m_out, "impl": h_out})
        for cr in r["crashes"]:
            c = by_id.get(cr["case"])
            if c is None:
                infra.append((f"harness[{v}] crashed outside any case", cr["stderr"]))
                continue
            # the first line with no output is where it died
            i = next((i for i in range(1, len(c.lines) + 1) if f"{c.cid}.{i}" not in hl), len(c.lines))
            diffs.append({"variant": v, "case": c.cid, "line": i, "op": c.lines[i - 1],
                          "model": ml.get(f"{c.cid}.{i}"), "impl": "CRASH rc=%s" % cr["rc"], "stderr": cr["stderr"]})

    # extra stages (floating-point tiers, source scanners, ...): same diff format, with their own history
    extra_eval = 0
    extra_samples = []
    extra_notes = {}
    for stage in (cfg.get("extra_stages", []) if (not a.replay or replay_stage_only) else []):
        r = stage(pid, seed, tier, workdir)
        diffs += r.get("diffs", [])
        infra += r.get("infra", [])
        extra_eval += r.get("evaluations", 0)
        extra_samples += r.get("samples", [])[:3]
        extra_notes[stage.__name__] = r.get("notes", {})
        for t in r.get("nontrivial", []):
            extra_distinct.add(t)
    # every run: a sample (3 quick / 12 thorough) of the cases evaluated inside Coq (vm_compute) against the extracted run
    if cases and ml and not a.replay:
        import coqeval
        r = coqeval.stage_coq_eval(pid, seed, tier, workdir, cases, ml, sample=(3 if tier == "quick" else 12))
        diffs += r.get("diffs", [])
        infra += r.get("infra", [])
        extra_eval += r.get("evaluations", 0)
        extra_notes["coq_eval_vs_extraction"] = r.get("notes", {})
    # ---- 4. decide ----
    seen_reports = set()
    for d in diffs:
        c = by_id.get(d["case"])
        kf = match_known(findings, pid, d["op"], d["model"], d["impl"])
        if kf:
            msg = f"KNOWN-FINDING: property={pid} {kf.get('what', kf.get('id', 'listed finding'))}"
            if msg not in known_lines:
                known_lines.append(msg)
            continue
        if c is None:       # produced by an extra stage, which supplies its own verdict and history
            verdict = (d.get("oracle", "fails"), d.get("explanation", ""))
            sl = d.get("history", [d["op"]])
        else:
            verdict = oracles.judge(pid, c, d)      # 'fails' | 'holds' | 'unknown', explanation
            sl = slice_case(c.lines, d["line"])
        info = {"case": d["case"], "line": d["line"], "op": d["op"], "variant": d["variant"],
                "model_output": d["model"], "implementation_output": d["impl"],
                "history": sl, "oracle": verdict[0], "oracle_explanation": verdict[1],
                "theorems": thms, "stderr": d.get("stderr", "")[-2000:]}
        key = (d["op"].split()[0], verdict[0])
        if key in seen_reports and len(violations) >= 5:
            continue
        seen_reports.add(key)
        if verdict[0] == 'fails':
            violations.append((write_replay(pid, "input", info), ""))
        else:
            info["broken"] = f"correspondence corr_{pid} (model vs implementation) at {d['case']}.{d['line']}"
            violations.append((write_replay(pid, "corr", info), " no-failing-input-found"))
    if not diffs and not infra and "model" in res:
        discharged += 1
    for what, log in infra:
        # search for a failing input is impossible without a running implementation/model
        info = {"broken": what, "log": log[-6000:], "theorems": thms}
        violations.append((write_replay(pid, "infra", info), " no-failing-input-found"))
    if proof_broken:
        # the proof obligation no longer checks; the correspondence run above was the search for a failing input
        if not any(s == "" for _, s in violations):
            info = {"broken": f"proof obligations of Properties_{pid}.v", "detail": proof_broken, "theorems": thms}
            violations.append((write_replay(pid, "proof", info), " no-failing-input-found"))

    # ---- 5. evidence ----
    nontriv = cfg.get("nontrivial", lambda t: True)
    distinct = set(extra_distinct)
    opcount = {}
    for c in cases:
        for t in c.lines:
            opcount[t.split()[0]] = opcount.get(t.split()[0], 0) + 1
            if nontriv(t):
                distinct.add(t)
    outcome_kinds = {}
    for v in ml.values():
        k = " ".join(v.split()[:2]) if not v.startswith("OK") else "OK"
        outcome_kinds[k] = outcome_kinds.get(k, 0) + 1
    samples = []
    first_variant = next((r.get("lines", {}) for r in res.get("variants", {}).values() if "lines" in r), {})
    for c in cases[:: max(1, len(cases) // 4)][:4]:
        setup = c.lines[:3]
        interesting = [(i, t) for i, t in enumerate(c.lines, 1) if nontriv(t) and i > 3][:4]
        samples.append({"case": c.cid, "setup": setup,
                        "operations": [{"op": t[:400], "model": (ml.get(f"{c.cid}.{i}") or "")[:400],
                                        "implementation": (first_variant.get(f"{c.cid}.{i}") or "")[:400]} for i, t in interesting]})
    ev = {
        "property_id": pid, "tier": tier, "seed": seed, "level": cfg["level"],
        "coverage": {
            "obligations": obligations, "discharged": discharged,
            "checker_cmd": f"make -C coq Properties_{pid}.vo && coqc -Q coq BSpl coq/Properties_{pid}.v  (full .vo build, Print Assumptions under every theorem)",
            "trusted_base": TRUSTED_BASE + cfg.get("trusted_extra", []),
            "theorems": thms, "assumptions": assumptions,
            "evaluations": total_lines * max(1, len(variants)) + extra_eval,
            "extra_stages": extra_notes,
            "unreviewed_access_shapes": unreviewed_shapes,
            "distinct_nontrivial": len(distinct),
            "rule": cfg.get("rule", ""),
            "samples": samples + extra_samples,
            "exhaustive": bool(cfg.get("exhaustive", False)),
            "cases": len(cases), "operations_per_kind": opcount, "model_outcome_kinds": outcome_kinds,
            "variants": variants, "repo": REPO,
            "explanation": cfg.get("explanation", ""),
            "known_findings_reobserved": known_lines,
        },
        "assumptions": DEFAULT_ASSUMES + cfg.get("assumes", []),
        "wall_s": round(time.time() - t0, 2),
        "violations": len(violations),
    }
    write_evidence(pid, ev)
    for ln in known_lines:
        print(ln)
    for f, t in unreviewed_shapes:
        print(f"NOTE property={pid} unchecked access of a shape not in the reviewed table: {f}: {t}  (search escalated; "
              f"{'a failing input was found' if any(sfx == '' for _, sfx in violations) else 'no failing input found'})")
    for path, suffix in violations:
        print(f"VIOLATION property={pid} replay={os.path.relpath(path, VERIF)}{suffix}")
    print(f"[{pid}] tier={tier} seed={seed} theorems={len(thms)} obligations={obligations} discharged={discharged} "
          f"cases={len(cases)} ops={total_lines} diffs={len(diffs)} violations={len(violations)} wall={ev['wall_s']}s")
    return 1 if violations else 0

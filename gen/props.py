"""props.py — per-property case generators (correspondence inputs).

Every random choice derives from one random.Random(seed).  Each generator
returns a list of Case objects; `nontrivial` predicates used for the evidence
counts are defined next to the generators.
"""
import itertools
import random

import stages
from fractions import Fraction as Fr

from caselib import Case, E, Sc

W64 = 2 ** 64


# ---------------------------------------------------------------------------
# shared toolkit
# ---------------------------------------------------------------------------
def grid_points(rng, n, family=None):
    """n strictly increasing rationals; families: unit, irregular, offset±1000, tiny"""
    family = family or rng.choice(['unit', 'irregular', 'irregular', 'off+', 'off-', 'tiny', 'sym'])
    if family == 'sym':
        # contains an interval whose midpoint is exactly 0 and a grid point at 0 (boundary values of the midpoint expansion)
        base = [Fr(-7, 2), Fr(-2), Fr(-1), Fr(1), Fr(3, 2), Fr(4), Fr(9, 2), Fr(6), Fr(13, 2), Fr(8), Fr(9), Fr(10)]
        if n <= 3:
            return base[2:2 + n]
        return base[1:1 + n]
    if family == 'unit':
        return [Fr(i) for i in range(n)]
    if family == 'tiny':
        x = Fr(rng.randint(-3, 3))
        pts = []
        for _ in range(n):
            pts.append(x)
            x += Fr(1, rng.choice([8, 16, 3, 7]))
        return pts
    x = Fr(rng.randint(-4, 4), rng.choice([1, 2, 3]))
    if family == 'off+':
        x += 1000
    if family == 'off-':
        x -= 1000
    pts = []
    for _ in range(n):
        pts.append(x)
        x += Fr(rng.randint(1, 9), rng.choice([1, 2, 3, 4, 5, 8]))
    return pts


def windows(n):
    """all valid windows of an n-point grid: (0,0) and 0<=a<b<=n"""
    return [(0, 0)] + [(a, b) for a in range(n) for b in range(a + 1, n + 1)]


def nint(w):
    return max(0, w[1] - w[0] - 1)


def rand_coef(rng, small=False):
    if small or rng.random() < 0.5:
        return Fr(rng.randint(-5, 5))
    return Fr(rng.randint(-9, 9), rng.choice([1, 2, 3, 4, 7]))


def rand_coefs(rng, order, k, zero_prob=0.0):
    out = []
    for _ in range(k):
        if rng.random() < zero_prob:
            out.append([Fr(0)] * (order + 1))
        else:
            arr = [rand_coef(rng) for _ in range(order + 1)]
            if all(c == 0 for c in arr):
                arr[0] = Fr(1)
            out.append(arr)
    return out


def rand_scalar(rng, nonzero=True):
    while True:
        c = rand_coef(rng)
        if c != 0 or not nonzero:
            return c


def mk_spline(case, rng, d, gslot, npts, order, w=None, zero_prob=0.0, supslot=None):
    """creates support slot (supslot or d+1000) and spline slot d on grid gslot"""
    w = w if w is not None else rng.choice(windows(npts))
    ss = supslot if supslot is not None else d + 1000
    case.sup_new(ss, gslot, w[0], w[1])
    case.spl_new(d, order, ss, rand_coefs(rng, order, nint(w), zero_prob))
    return w


def placement(wa, wb):
    """relative placement class of two windows"""
    if wa == (0, 0) or wb == (0, 0):
        return 'empty'
    if nint(wa) == 0 or nint(wb) == 0:
        return 'pointlike'
    a0, a1 = wa
    b0, b1 = wb
    lo, hi = max(a0, b0), min(a1, b1)
    if wa == wb:
        return 'identical'
    if hi - lo >= 2:
        if (a0 <= b0 and b1 <= a1) or (b0 <= a0 and a1 <= b1):
            return 'nested'
        return 'overlap'
    if hi - lo == 1:
        return 'touching'
    return 'gap'


# ---------------------------------------------------------------------------
# expression generators
# ---------------------------------------------------------------------------
def rand_sc(rng, nonzero=False):
    while True:
        if rng.random() < 0.5:
            s = Sc('I', rng.randint(-4, 5))
        else:
            s = Sc('F', rand_coef(rng))
        if not (nonzero and s.is_zero()):
            return s


def rand_expr(rng, depth, spline_slots=(), maxpos=2, maxder=3):
    """random expression tree over the whole overload set"""
    if depth <= 0 or rng.random() < 0.25:
        r = rng.random()
        if r < 0.2:
            return E('Id')
        if r < 0.5:
            return E('Pos', rng.randint(0, maxpos))
        if r < 0.8 or not spline_slots:
            return E('Der', rng.randint(0, maxder))
        return E('Spl', rng.choice(list(spline_slots)))
    h = rng.choice(['Mul', 'Mul', 'Add', 'Sub', 'SMulL', 'SMulR', 'DivS', 'AddS', 'SAdd', 'SubS', 'SSub', 'Neg'])
    sub = lambda: rand_expr(rng, depth - 1, spline_slots, maxpos, maxder)
    if h in ('Mul', 'Add', 'Sub'):
        return E(h, sub(), sub())
    if h in ('SMulL', 'SAdd', 'SSub'):
        return E(h, rand_sc(rng), sub())
    if h == 'DivS':
        return E(h, sub(), rand_sc(rng, nonzero=True))
    if h in ('SMulR', 'AddS', 'SubS'):
        return E(h, sub(), rand_sc(rng))
    return E('Neg', sub())


def catalogue(spl=None, spl2=None):
    """fixed catalogue covering every overload and both scalar kinds"""
    X1, D1, D2, I = E('Pos', 1), E('Der', 1), E('Der', 2), E('Id')
    f = Sc('F', Fr(3, 2))
    g = Sc('F', Fr(-2, 3))
    i2 = Sc('I', 2)
    im = Sc('I', -3)
    cat = [
        I, E('Pos', 0), X1, E('Pos', 2), E('Pos', 3), E('Pos', 4), E('Pos', 6), E('Der', 0), D1, D2, E('Der', 3), E('Der', 4), E('Der', 5),
        E('Mul', D1, X1), E('Mul', X1, D1), E('Sub', E('Mul', D1, X1), E('Mul', X1, D1)),
        E('Add', D2, E('Pos', 2)), E('Sub', D2, E('Pos', 2)), E('Add', X1, D2), E('Sub', I, D1),
        E('SMulL', f, D1), E('SMulL', i2, X1), E('SMulR', X1, g), E('SMulR', D2, im),
        E('DivS', X1, f), E('DivS', E('Pos', 2), i2), E('DivS', D1, im), E('DivS', I, Sc('I', 4)),
        E('AddS', X1, f), E('AddS', D1, i2), E('SAdd', g, X1), E('SAdd', im, D2),
        E('SubS', E('Pos', 2), f), E('SubS', X1, i2), E('SSub', f, X1), E('SSub', i2, D1),
        E('Neg', D1), E('Neg', E('Add', X1, D1)),
        E('Add', E('SMulL', Sc('F', Fr(-1, 2)), D2), E('SMulL', Sc('F', Fr(1, 2)), E('Pos', 2))),
        E('Mul', E('SubS', X1, f), E('SSub', g, X1)),
        E('SMulL', f, E('SubS', X1, g)), E('SMulL', g, E('SSub', f, X1)),
        E('Mul', E('Mul', D1, X1), E('Mul', X1, D1)),
        E('DivS', E('Sub', E('Mul', X1, D2), E('SMulL', i2, D1)), Sc('F', Fr(5, 3))),
        # both operands of a sum have the SAME C++ type but different state (a type-level shortcut would be wrong)
        E('Add', E('SMulL', f, D1), E('SMulL', g, D1)), E('Sub', E('SMulL', i2, X1), E('SMulL', im, X1)),
        E('SubS', E('SMulL', Sc('F', Fr(3)), I), Sc('F', Fr(1))), E('AddS', E('SMulR', I, i2), Sc('I', 5)),
        E('Sub', E('DivS', D1, i2), E('DivS', D1, Sc('I', 3))),
        # integer scalars of other C++ types (unsigned ones must not be negated or subtracted in their own type)
        E('SubS', X1, Sc('U', 2)), E('SSub', Sc('U', 3), D1), E('SubS', D2, Sc('Z', 2)), E('SSub', Sc('Z', 5), X1),
        E('AddS', D1, Sc('U', 2)), E('SAdd', Sc('Z', 3), X1), E('SMulL', Sc('U', 3), D1), E('SMulR', X1, Sc('Z', 2)),
        E('DivS', X1, Sc('U', 3)), E('DivS', D1, Sc('Z', 4)), E('Neg', E('SMulL', Sc('U', 2), X1)),
        E('SubS', X1, Sc('L', -2)), E('SSub', Sc('H', 3), D1), E('DivS', I, Sc('H', -4)), E('SMulL', Sc('L', 7), D1),
        E('Sub', E('SubS', X1, Sc('U', 1)), E('SubS', X1, Sc('Z', 4))),
    ]
    if spl is not None:
        V = E('Spl', spl)
        cat += [V, E('Mul', V, D1), E('Mul', D1, V), E('Add', V, X1), E('Sub', X1, V),
                E('SMulL', i2, V), E('DivS', V, f), E('Neg', V), E('Mul', V, V),
                E('Add', E('Mul', X1, V), E('SMulL', g, D2))]
        if spl2 is not None:
            Wf = E('Spl', spl2)      # a second factor of the same order: same C++ type, different spline
            cat += [E('Add', V, Wf), E('Sub', V, Wf), E('Mul', V, Wf), E('Sub', E('Mul', V, D1), E('Mul', Wf, D1))]
    return cat


# ---------------------------------------------------------------------------
# C13 — support windows form the interval algebra (exhaustive on small grids)
# ---------------------------------------------------------------------------
def index_probes(n):
    return list(range(0, n + 3)) + [2 ** 63 - 1, 2 ** 63, 2 ** 63 + 1, W64 - 3, W64 - 2, W64 - 1]


def gen_C13(seed, tier):
    rng = random.Random(seed)
    cases = []
    sizes = [2, 3, 4, 5] if tier == 'quick' else [2, 3, 4, 5, 6]
    triple_max = 3 if tier == 'quick' else 5
    for n in sizes:
        pts = grid_points(rng, n)
        ws = windows(n)
        # unary: conversions and accessors, all index values of interest
        c = Case(f"C13u{n}")
        c.grid_new(0, pts)
        for wi, w in enumerate(ws):
            s = 10 + wi
            c.sup_new(s, 0, w[0], w[1])
            c.show(s)
            c.sup_iter(s)
            c.sup_front(s)
            c.sup_back(s)
            c.sup_is_empty(s)
            c.sup_contains(s)
            for i in index_probes(n):
                c.sup_rel(s, i)
                c.sup_ivl(s, i)
                c.sup_abs(s, i)
                c.sup_at(s, i)
        # invalid windows are refused
        for (a, b) in [(1, 1), (2, 1), (0, n + 1), (n, n), (n, n + 1), (1, 0), (W64 - 1, 0), (0, W64 - 1), (n + 1, n + 2),
                       (n + 1, n + 3), (n + 2, n + 4), (n + 1, n + 1), (W64 - 2, W64 - 1), (n + 1, W64 - 1), (2 ** 63, 2 ** 63 + 1)]:
            c.sup_new(900, 0, a, b)
        c.sup_whole(901, 0)
        c.show(901)
        c.sup_empty(902, 0)
        c.show(902)
        cases.append(c)
        # pairs: union, intersection, equality; on a shared grid object and on an equal copy
        c = Case(f"C13p{n}")
        c.grid_new(0, pts)
        c.grid_new(1, pts)          # distinct object, same points
        for wi, w in enumerate(ws):
            c.sup_new(10 + wi, 0, w[0], w[1])
            c.sup_new(100 + wi, 1, w[0], w[1])
        for i in range(len(ws)):
            for j in range(len(ws)):
                c.sup_union(500, 10 + i, 10 + j)
                c.show(500)
                c.sup_inter(501, 10 + i, 100 + j)
                c.show(501)
                c.sup_eq(10 + i, 100 + j)
        cases.append(c)
        for i in (range(len(ws)) if n <= triple_max else []):
            c = Case(f"C13t{n}_{i}")
            c.grid_new(0, pts)
            for wi, w in enumerate(ws):
                c.sup_new(10 + wi, 0, w[0], w[1])
            for j, k in itertools.product(range(len(ws)), repeat=2):
                c.sup_union(500, 10 + i, 10 + j)
                c.sup_union(501, 500, 10 + k)
                c.sup_union(502, 10 + j, 10 + k)
                c.sup_union(503, 10 + i, 502)
                c.sup_eq(501, 503)
                c.sup_inter(504, 10 + i, 10 + j)
                c.sup_inter(505, 504, 10 + k)
                c.sup_inter(506, 10 + j, 10 + k)
                c.sup_inter(507, 10 + i, 506)
                c.sup_eq(505, 507)
                c.show(501)
                c.show(505)
            cases.append(c)
    # differing grids are refused
    c = Case("C13d")
    p = grid_points(rng, 4, 'unit')
    c.grid_new(0, p)
    c.grid_new(1, p[:3] + [p[3] + 1])
    c.sup_new(10, 0, 0, 3)
    c.sup_new(11, 1, 0, 3)
    c.sup_union(12, 10, 11)
    c.sup_inter(12, 10, 11)
    c.sup_eq(10, 11)
    c.sup_same_grid(10, 11)
    cases.append(c)
    # every pair of windows (incl. empty and point-like) across two logically different grids, and across
    # equal grids held in distinct objects: equality, union and intersection
    for kind, g2 in (('moved', p[:2] + [p[2] + Fr(1, 2)] + p[3:]), ('longer', p + [p[-1] + 1]), ('first', [p[0] - Fr(1, 2)] + p[1:]), ('shorter', p[:-1]), ('equal', list(p))):
        c = Case(f"C13x_{kind}")
        c.grid_new(0, p)
        c.grid_new(1, g2)
        wa = windows(4)
        wb = windows(len(g2))
        for i, w in enumerate(wa):
            c.sup_new(10 + i, 0, w[0], w[1])
        for j, w in enumerate(wb):
            c.sup_new(100 + j, 1, w[0], w[1])
        for i in range(len(wa)):
            for j in range(len(wb)):
                c.sup_eq(10 + i, 100 + j)
                c.sup_eq(100 + j, 10 + i)
                c.sup_union(500, 10 + i, 100 + j)
                c.sup_inter(501, 100 + j, 10 + i)
        cases.append(c)
    return cases


def nontrivial_C13(text):
    """a line is non-trivial when it is a binary window operation or a conversion/accessor call"""
    return text.split()[0] in ('SupUnion', 'SupInter', 'SupEq', 'SupRel', 'SupIvl', 'SupAbs', 'SupAt', 'SupIter')



# ---------------------------------------------------------------------------
# C02 — evaluation
# ---------------------------------------------------------------------------
def eval_points(pts, w):
    xs = set()
    for i, p in enumerate(pts):
        xs.add(p)
        if i + 1 < len(pts):
            xs.add((p + pts[i + 1]) / 2)
            xs.add(p + (pts[i + 1] - p) / 3)
    for e in ([pts[w[0]], pts[w[1] - 1]] if w != (0, 0) else []):
        xs.add(e - Fr(1, 1000))
        xs.add(e + Fr(1, 1000))
    xs.add(pts[0] - 50)
    xs.add(pts[-1] + 50)
    return sorted(xs)


def gen_C02(seed, tier):
    rng = random.Random(seed)
    cases = []
    sizes = [2, 3, 5] if tier == 'quick' else [2, 3, 4, 5, 6]
    orders = [0, 1, 2] if tier == 'quick' else [0, 1, 2, 3]
    for n in sizes:
        pts = grid_points(rng, n)
        for o in orders:
            c = Case(f"C02_{n}_{o}")
            c.grid_new(0, pts)
            for wi, w in enumerate(windows(n)):
                d = 10 + wi
                # discontinuous pieces on purpose: the choice of piece is visible
                c.sup_new(d + 1000, 0, w[0], w[1])
                c.spl_new(d, o, d + 1000, [[Fr(10 * (j + 1) + i) for i in range(o + 1)] for j in range(nint(w))])
                c.spl_front(d)
                c.spl_back(d)
                xs = eval_points(pts, w)
                for x in xs:
                    c.spl_eval(d, x)
                # evaluation must not depend on what was evaluated before: descending, then shuffled
                for x in reversed(xs):
                    c.spl_eval(d, x)
                ys = list(xs)
                rng.shuffle(ys)
                for x in ys[:12]:
                    c.spl_eval(d, x)
            cases.append(c)
    # random larger grids, random coefficients
    for r in range(6 if tier == 'quick' else 30):
        n = rng.randint(4, 9)
        pts = grid_points(rng, n)
        o = rng.randint(0, 4)
        c = Case(f"C02r{r}")
        c.grid_new(0, pts)
        w = mk_spline(c, rng, 1, 0, n, o)
        for x in eval_points(pts, w):
            c.spl_eval(1, x)
        c.spl_front(1)
        c.spl_back(1)
        cases.append(c)
    # "every spline": also the ones that come out of copies, moves, move assignments onto a live target (source AND
    # target), cross-order assignment, arithmetic and operator application; each is probed over the whole grid
    for r in range(4 if tier == 'quick' else 16):
        n = rng.randint(4, 7)
        pts = grid_points(rng, n)
        o = rng.randint(0, 3)
        c = Case(f"C02h{r}")
        c.grid_new(0, pts)
        ws = [w for w in windows(n)]
        wa = rng.choice([w for w in ws if nint(w) >= 1])
        wb = rng.choice([w for w in ws if w != wa])
        mk_spline(c, rng, 1, 0, n, o, w=wa)
        mk_spline(c, rng, 2, 0, n, o, w=wb)
        mk_spline(c, rng, 3, 0, n, o, w=rng.choice(ws))
        mk_spline(c, rng, 4, 0, n, o + 1, w=rng.choice(ws))
        def probe(d):
            c.spl_front(d); c.spl_back(d)
            for x in eval_points(pts, (0, n)):
                c.spl_eval(d, x)
        c.spl_copy(5, 1); probe(5)
        c.spl_move(6, 5); probe(6); probe(5)                    # move construction: target and moved-from source
        c.spl_copy(7, 2)
        c.spl_move_assign(7, 1); probe(7); probe(1)             # move assignment onto a live target
        c.spl_move_assign(1, 3); probe(1); probe(3)             # ... onto a moved-from object
        c.spl_assign_up(4, 2); probe(4); probe(2)               # cross-order assignment
        c.spl_add(8, 7, 2); probe(8)
        c.spl_mul(9, 7, 2); probe(9)
        c.apply(10, E('Add', E('Pos', 1), E('Der', 1)), 7); probe(10)
        c.spl_empty(11, o, 0); probe(11)
        c.spl_move_assign(11, 7); probe(11); probe(7)
        cases.append(c)
    return cases


# ---------------------------------------------------------------------------
# C03 — spline arithmetic
# ---------------------------------------------------------------------------
def gen_C03(seed, tier):
    rng = random.Random(seed)
    cases = []
    n = 5 if tier == 'quick' else 6
    pts = grid_points(rng, n)
    ws = windows(n)
    allpairs = [(a, b) for a in range(4) for b in range(4)]
    opairs = rng.sample(allpairs, 3) if tier == 'quick' else allpairs
    for (oa, ob) in opairs:
        for ai, wa in enumerate(ws):
            c = Case(f"C03_{oa}{ob}_{ai}")
            c.grid_new(0, pts)
            c.grid_new(1, pts)        # equal points, distinct object
            c.sup_new(1000, 0, wa[0], wa[1])
            c.spl_new(2, oa, 1000, rand_coefs(rng, oa, nint(wa)))
            for bi, wb in enumerate(ws):
                c.sup_new(1001, 1 if bi % 2 else 0, wb[0], wb[1])
                c.spl_new(3, ob, 1001, rand_coefs(rng, ob, nint(wb), zero_prob=0.1))
                c.spl_add(4, 2, 3)
                c.show(4)
                c.spl_sub(5, 2, 3)
                c.show(5)
                c.spl_mul(6, 2, 3)
                c.show(6)
                if ob <= oa:
                    c.spl_copy(7, 2)
                    c.spl_iadd(7, 3)
                    c.show(7)
                    c.spl_isub(7, 3)
                    c.spl_isub(7, 3)
                    c.show(7)
                c.meta.setdefault('placements', []).append(placement(wa, wb))
            cases.append(c)
    # scalar forms, negation, division, cross-order assignment, in-place chains, linearCombination
    for r in range(12 if tier == 'quick' else 60):
        c = Case(f"C03s{r}")
        m = rng.randint(3, 8)
        g = grid_points(rng, m)
        c.grid_new(0, g)
        o = rng.randint(0, 3)
        w = mk_spline(c, rng, 1, 0, m, o)
        sc = rand_scalar(rng)
        c.spl_scale(2, 1, sc); c.show(2)
        c.spl_scale_l(3, sc, 1); c.show(3)
        c.spl_div(4, 1, rand_scalar(rng)); c.show(4)
        c.spl_neg(5, 1); c.show(5)
        c.spl_copy(6, 1)
        c.spl_imul(6, rand_scalar(rng, nonzero=False)); c.show(6)
        c.spl_idiv(6, rand_scalar(rng)); c.show(6)
        # cross-order assignment into a higher-order object
        ho = o + rng.randint(1, 2)
        mk_spline(c, rng, 7, 0, m, ho, supslot=1007)
        c.spl_assign_up(7, 1); c.show(7)
        # a chain of in-place updates applied to one object
        c.spl_copy(8, 7)
        for _ in range(rng.randint(2, 6)):
            k = rng.random()
            src = 20 + rng.randint(0, 2)
            if src not in c.kind:
                mk_spline(c, rng, src, 0, m, rng.randint(0, ho), supslot=1000 + src)
            if k < 0.4:
                c.spl_iadd(8, src)
            elif k < 0.7:
                c.spl_isub(8, src)
            elif k < 0.85:
                c.spl_imul(8, rand_scalar(rng, nonzero=False))
            else:
                c.spl_idiv(8, rand_scalar(rng))
            c.show(8)
        # the same object as both operands (aliasing): a + a, a - a, a * a, a += a, a -= a
        c.spl_add(70, 1, 1); c.show(70)
        c.spl_sub(71, 1, 1); c.show(71)
        if 2 * o <= 8:
            c.spl_mul(720 + 2 * o, 1, 1); c.show(720 + 2 * o)
        c.spl_copy(73, 1); c.spl_iadd(73, 73); c.show(73)
        c.spl_copy(74, 1); c.spl_isub(74, 74); c.show(74)
        c.spl_lincomb(75, [Fr(2), Fr(-3)], [1, 1]); c.show(75)
        # linearCombination over 1..6 splines with differing windows
        k = rng.randint(1, 6)
        ss = []
        for j in range(k):
            mk_spline(c, rng, 40 + j, 0, m, o, supslot=1040 + j, zero_prob=0.1)
            ss.append(40 + j)
        c.spl_lincomb(60, [rand_scalar(rng, nonzero=False) for _ in range(k)], ss)
        c.show(60)
        cases.append(c)
    return cases


def nontrivial_C03(t):
    return t.split()[0] in ('SplAdd', 'SplSub', 'SplMul', 'SplIAdd', 'SplISub', 'SplLinComb', 'SplScale', 'SplScaleL',
                            'SplDiv', 'SplNeg', 'SplIMul', 'SplIDiv', 'SplAssignUp') or t.startswith('SplNew')


# ---------------------------------------------------------------------------
# C04 — primitive operators
# ---------------------------------------------------------------------------
def gen_C04(seed, tier):
    rng = random.Random(seed)
    cases = []
    orders = [0, 1, 2, 3] if tier == 'quick' else [0, 1, 2, 3, 4]
    maxpos = 5 if tier == 'quick' else 6
    for fam in ['unit', 'irregular', 'off+', 'off-', 'sym']:
        for o in orders:
            tag = fam.replace('+', 'p').replace('-', 'm')
            c = Case(f"C04_{tag}_{o}")
            n = 5
            pts = grid_points(rng, n, fam)
            c.grid_new(0, pts)
            for wi, w in enumerate([(0, n), (1, 4), (2, 4), (0, 0), (3, 4)]):
                src = 10 + wi
                mk_spline(c, rng, src, 0, n, o, w=w, supslot=1000 + src)
                c.apply(100 + o, E('Id'), src); c.show(100 + o); c.spl_eq(100 + o, src)
                for k in range(0, o + 3):
                    d = 200 + k            # result order max(k,o)-k: one slot per k
                    c.apply(d, E('Der', k), src); c.show(d)
                for k in range(0, maxpos + 1):
                    d = 300 + k
                    c.apply(d, E('Pos', k), src); c.show(d)
            # the same operators applied alternately to splines on a DIFFERENT grid of the same size (same interval
            # indices, different midpoints): nothing may be carried over from one application to the next
            pts2 = [p + Fr(2 * i + 1, 3) for i, p in enumerate(pts)]
            c.grid_new(1, pts2)
            mk_spline(c, rng, 30, 0, n, o, w=(0, n), supslot=1030)
            mk_spline(c, rng, 31, 1, n, o, w=(n - 2, n), supslot=1031)
            mk_spline(c, rng, 32, 1, n, o, w=(0, n), supslot=1032)
            for k in range(0, maxpos + 1):
                d = 300 + k
                c.apply(d, E('Pos', k), 30); c.apply(d, E('Pos', k), 31); c.show(d)
                c.apply(d, E('Pos', k), 32); c.show(d); c.apply(d, E('Pos', k), 30); c.show(d)
            for k in range(0, o + 2):
                d = 200 + k
                c.apply(d, E('Der', k), 30); c.apply(d, E('Der', k), 31); c.show(d)
            # the per-interval transform directly, on every interval of the grid
            coefs = [rand_coef(rng) for _ in range(o + 1)]
            for k in range(n - 1):
                c.transform(E('Der', min(o, 1)), coefs, 0, k)
                c.transform(E('Pos', 2), coefs, 0, k)
                c.transform(E('Id'), coefs, 0, k)
            cases.append(c)
    return cases


def nontrivial_C04(t):
    return t.split()[0] in ('Apply', 'Transform')


# ---------------------------------------------------------------------------
# C05 — operator expressions
# ---------------------------------------------------------------------------
def gen_C05(seed, tier):
    rng = random.Random(seed)
    cases = []
    n = 5
    pts = grid_points(rng, n, 'irregular')
    ws = windows(n)
    orders = [0, 2] if tier == 'quick' else [0, 1, 2, 3]
    # (a) catalogue without spline factors x operand orders x a few operand windows
    cat = catalogue(None)
    extra = [rand_expr(rng, 3) for _ in range(10 if tier == 'quick' else 120)]
    exprs = cat + extra
    for o in orders:
        for ci in range(0, len(exprs), 6):
            c = Case(f"C05a_{o}_{ci}")
            c.grid_new(0, pts)
            opnds = []
            for wi, w in enumerate([(0, n), (1, 3), (0, 0), (2, 3)]):
                mk_spline(c, rng, 10 + wi, 0, n, o, w=w, supslot=1010 + wi)
                opnds.append(10 + wi)
            for ei, e in enumerate(exprs[ci:ci + 6]):
                if e.out_ord(o, c.order) > 10:
                    continue
                for a in opnds:
                    c.apply(100 + ei, e, a); c.show(100 + ei)
            cases.append(c)
    # (b) spline-factor expressions: every placement of factor window vs operand window
    fo, oo = (1, 1) if tier == 'quick' else (2, 1)
    fcat = catalogue(50, 51)[len(cat):]
    for wi, wv in enumerate(ws):
        c = Case(f"C05b_{wi}")
        c.grid_new(0, pts)
        c.grid_new(1, pts)
        c.sup_new(1050, 1, wv[0], wv[1])
        c.spl_new(50, fo, 1050, rand_coefs(rng, fo, nint(wv)))
        wv2 = ws[(wi * 7 + 3) % len(ws)]
        c.sup_new(1051, 0, wv2[0], wv2[1])
        c.spl_new(51, fo, 1051, rand_coefs(rng, fo, nint(wv2)))
        for wj, wa in enumerate(ws):
            c.sup_new(1060, 0, wa[0], wa[1])
            c.spl_new(60, oo, 1060, rand_coefs(rng, oo, nint(wa)))
            for ei, e in enumerate(fcat if tier != 'quick' else [fcat[0], fcat[(wi + wj) % len(fcat)], fcat[-1 - (wi + wj) % 4]]):
                c.apply(100 + fcat.index(e), e, 60); c.show(100 + fcat.index(e))
        cases.append(c)
    return cases


def nontrivial_C05(t):
    return t.split()[0] == 'Apply'


# ---------------------------------------------------------------------------
# C06 / C07 — forms
# ---------------------------------------------------------------------------
def form_exprs(spl=None):
    X1, D1, D2, I = E('Pos', 1), E('Der', 1), E('Der', 2), E('Id')
    l = [I, D1, X1, D2, E('Pos', 2), E('Mul', X1, D1), E('SMulL', Sc('F', Fr(-1, 2)), D2),
         E('Add', E('SMulL', Sc('F', Fr(-1, 2)), D2), E('SMulL', Sc('F', Fr(1, 2)), E('Pos', 2))),
         E('DivS', E('SubS', X1, Sc('I', 1)), Sc('I', 2)), E('Neg', E('Der', 3)),
         E('Pos', 4), E('Pos', 5)]      # higher powers: inner binomial coefficients
    if spl is not None:
        l += [E('Spl', spl), E('Mul', E('Spl', spl), D1)]
    return l


def gen_C06(seed, tier, linear=False):
    rng = random.Random(seed)
    cases = []
    n = 5
    pts = grid_points(rng, n, rng.choice(['irregular', 'off+', 'tiny']))
    ws = windows(n)
    opairs = [(0, 0), (1, 2), (3, 1)] if tier == 'quick' else [(a, b) for a in range(4) for b in range(4)]
    exprs = form_exprs(70)
    for (oa, ob) in opairs:
        for ai, wa in enumerate(ws):
            c = Case(f"{'C07' if linear else 'C06'}_{oa}{ob}_{ai}")
            c.grid_new(0, pts)
            c.grid_new(1, pts)
            c.sup_new(1070, 0, 1, 4)
            c.spl_new(70, 1, 1070, rand_coefs(rng, 1, 2))
            c.sup_new(1002, 0, wa[0], wa[1])
            c.spl_new(2, oa, 1002, rand_coefs(rng, oa, nint(wa)))
            if linear:
                for e in exprs:
                    c.lin(e, 2)
            for bi, wb in enumerate(ws):
                c.sup_new(1003, 1 if bi % 2 else 0, wb[0], wb[1])
                c.spl_new(3, ob, 1003, rand_coefs(rng, ob, nint(wb)))
                k = (ai + bi) % len(exprs)
                e1, e2 = exprs[k], exprs[(k * 3 + 1) % len(exprs)]
                c.bilin(e1, e2, 2, 3)
                c.bilin(e2, e1, 3, 2)                     # swapped pairs
                c.bilin(E('Id'), E('Id'), 2, 3)           # scalar product
                if bi == ai:
                    # the same object as both arguments, operators of ONE C++ type with different state
                    c.bilin(E('SMulL', Sc('F', Fr(2)), E('Der', 1)), E('SMulL', Sc('F', Fr(3)), E('Der', 1)), 2, 2)
                    c.bilin(E('SMulL', Sc('I', 2), E('Pos', 1)), E('SMulL', Sc('I', -5), E('Pos', 1)), 2, 2)
                    c.bilin(e1, e2, 2, 2)
                    c.bilin(E('Id'), E('Id'), 2, 2)
                if linear:
                    # bilinear form = identity linear form of the product spline
                    o1 = e1.out_ord(oa, c.order)
                    o2 = e2.out_ord(ob, c.order)
                    c.apply(200 + o1, e1, 2)
                    c.apply(300 + o2, e2, 3)
                    c.spl_mul(400 + o1 + o2, 200 + o1, 300 + o2)
                    c.lin(E('Id'), 400 + o1 + o2)
            cases.append(c)
    return cases


def gen_C07(seed, tier):
    return gen_C06(seed + 7, tier, linear=True)


def kernel_cases(instance, seed):
    """directed search after a broken kernel lemma k_<instance>_ok (coq/gen/KernelGen.v): cases that drive the real
    code through exactly that kernel at exactly those sizes, with generic coefficients; the ordinary correspondence
    and its oracle then decide whether a concrete failing input exists"""
    rng = random.Random(seed)
    parts = instance.split("_")
    fam, nums = parts[0], [int(x) for x in parts[1:]]
    cases = []
    for r in range(4):
        c = Case(f"K{fam}{'x'.join(map(str, nums))}r{r}")
        pts = grid_points(rng, 4, rng.choice(['irregular', 'off+', 'sym']))
        c.grid_new(0, pts)
        c.sup_new(1001, 0, 0, 4)
        full = lambda o: [[rand_scalar(rng, nonzero=True) for _ in range(o + 1)] for _ in range(3)]
        if fam == 'bi':
            c.spl_new(1, nums[0] - 1, 1001, full(nums[0] - 1)); c.spl_new(2, nums[1] - 1, 1001, full(nums[1] - 1))
            c.bilin(E('Id'), E('Id'), 1, 2); c.bilin(E('Id'), E('Id'), 2, 1)
        elif fam == 'lin':
            c.spl_new(1, nums[0] - 1, 1001, full(nums[0] - 1)); c.lin(E('Id'), 1)
        elif fam == 'eval':
            c.spl_new(1, nums[0] - 1, 1001, full(nums[0] - 1))
            for x in eval_points(pts, (0, 4)):
                c.spl_eval(1, x)
        elif fam in ('der', 'pos'):
            c.spl_new(1, nums[1] - 1, 1001, full(nums[1] - 1))
            c.apply(2, E('Der' if fam == 'der' else 'Pos', nums[0]), 1); c.show(2)
        elif fam == 'bigfacratio' and nums[0] > nums[1]:
            # c!/d! is the prefactor of coefficient d in Dx<c-d> of an order-c spline
            c.spl_new(1, nums[0], 1001, full(nums[0]))
            c.apply(2, E('Der', nums[0] - nums[1]), 1); c.show(2)
        elif fam in ('bigbinom', 'bigfaculty', 'bigfacratio'):
            # binomial coefficients (and through them the factorials) are the weights of X<n>
            c.spl_new(1, 1, 1001, full(1))
            c.apply(2, E('Pos', max(nums)), 1); c.show(2)
        elif fam in ('faculty', 'facratio', 'binom'):
            # reached through derivatives (facultyRatio) and position powers (binomialCoefficient)
            k = max(nums) if nums else 1
            o = min(max(k, 1), 8)
            c.spl_new(1, o, 1001, full(o))
            for d in range(0, o + 1):
                c.apply(10 + d, E('Der', d), 1); c.show(10 + d)
            for q in range(0, min(k, 5) + 1):
                c.apply(30 + q, E('Pos', q), 1); c.show(30 + q)
        elif fam in ('add', 'chsize'):
            oa, ob = nums[0] - 1, nums[1] - 1
            c.spl_new(1, oa, 1001, full(oa)); c.spl_new(2, ob, 1001, full(ob))
            c.spl_add(3, 1, 2); c.show(3); c.spl_sub(4, 2, 1); c.show(4)
            if oa < ob:
                c.spl_assign_up(2, 1); c.show(2)
        else:
            continue
        cases.append(c)
    return cases


def nontrivial_forms(t):
    return t.split()[0] in ('Bilin', 'Lin')



# ---------------------------------------------------------------------------
# C01 — generator
# ---------------------------------------------------------------------------
def multiplicity_patterns(maxvals, maxlen, maxmult):
    out = []
    for nv in range(2, maxvals + 1):
        for mults in itertools.product(range(1, maxmult + 1), repeat=nv):
            if sum(mults) <= maxlen:
                out.append(mults)
    return out


def spacing(rng, nv, fam):
    return grid_points(rng, nv, fam)


def gen_C01(seed, tier):
    rng = random.Random(seed)
    cases = []
    maxp = 3 if tier == 'quick' else 5
    pats = multiplicity_patterns(4, 8, 4 if tier == 'quick' else 5)
    if tier == 'quick':
        pats = rng.sample(pats, 40)
    fams = ['unit', 'irregular', 'off+', 'off-']
    for pi, mults in enumerate(pats):
        fam = fams[pi % len(fams)] if tier == 'quick' else None
        for fam in ([fam] if fam else fams):
            vals = spacing(rng, len(mults), fam)
            knots = [v for v, m in zip(vals, mults) for _ in range(m)]
            tag = fam.replace('+', 'p').replace('-', 'm')
            c = Case(f"C01_{pi}_{tag}")
            c.grid_new(0, vals)
            d0 = 10
            for p in range(0, maxp + 1):
                cnt = max(0, len(knots) - p - 1)
                if p % 2 == 0:
                    c.gen1(d0, p, knots)
                else:
                    c.gen2(d0, p, knots, 0)         # the supplied-grid route
                for i in range(cnt):
                    c.show(d0 + i)
                d0 += cnt + 1
            # evaluation at interior points and on knots
            cases.append(c)
    # random longer vectors, supplied grid that does not match, too few knots
    for r in range(6 if tier == 'quick' else 40):
        nv = rng.randint(2, 7)
        vals = grid_points(rng, nv)
        knots = [v for v in vals for _ in range(rng.choice([1, 1, 1, 2, 3]))][:14]
        c = Case(f"C01r{r}")
        c.grid_new(0, vals)
        c.grid_new(1, vals[:-1] + [vals[-1] + 1])
        p = rng.randint(0, maxp)
        c.gen1(10, p, knots)
        for i in range(max(0, len(knots) - p - 1)):
            c.show(10 + i)
            for x in [knots[0], (knots[0] + knots[-1]) / 2, knots[-1]]:
                c.spl_eval(10 + i, x)
        c.gen2(100, p, knots, 1)                     # mismatching supplied grid: refused
        c.gen1(200, len(knots), knots)               # too few knots for this order
        c.gen1(300, 1, [knots[0]] * 3)               # no two distinct values
        c.gen1(320, 1, list(reversed(knots)))        # not non-decreasing
        cases.append(c)
    return cases


def nontrivial_C01(t):
    return t.split()[0] in ('Gen1', 'Gen2')


# ---------------------------------------------------------------------------
# C08 — differing grids
# ---------------------------------------------------------------------------
def grid_variants(rng, pts):
    """ways a second grid can differ from pts"""
    n = len(pts)
    v = {}
    q = list(pts); q[n // 2] = (pts[n // 2] + pts[n // 2 + 1]) / 2 if n // 2 + 1 < n else pts[n // 2] + 1
    v['moved'] = q
    v['extra_left'] = [pts[0] - 1] + list(pts)
    v['extra_right'] = list(pts) + [pts[-1] + 1]
    v['extra_inside'] = list(pts[:1]) + [(pts[0] + pts[1]) / 2] + list(pts[1:])
    v['prefix'] = list(pts[:-1])
    v['suffix'] = list(pts[1:])
    q = list(pts); q[-1] = pts[-1] + Fr(1, 7)
    v['agree_on_overlap'] = q          # differs only at the last point
    q = list(pts); q[0] = pts[0] - Fr(1, 3)
    v['first_moved'] = q               # same size, differs only at the first point
    return {k: g for k, g in v.items() if len(g) >= 2}


def gen_C08(seed, tier):
    rng = random.Random(seed)
    cases = []
    n = 5
    reps = 1 if tier == 'quick' else 4
    for rep in range(reps):
        pts = grid_points(rng, n)
        for kind, g2 in grid_variants(rng, pts).items():
            c = Case(f"C08_{kind}_{rep}")
            c.grid_new(0, pts)
            c.grid_new(1, g2)
            c.grid_new(2, pts)            # same points, distinct object
            c.grid_eq(0, 1); c.grid_eq(0, 2)
            n2 = len(g2)
            placements = [((0, n), (0, n2)), ((0, 3), (0, 3)), ((1, 3), (0, 0)), ((0, 0), (0, 2)), ((0, 0), (0, 0)), ((1, 2), (1, 3))]
            for pi, (wa, wb) in enumerate(placements):
                wb = (wb[0], min(wb[1], n2))
                if wb[0] >= wb[1]:
                    wb = (0, 0)
                oa, ob = rng.randint(0, 2), rng.randint(0, 2)
                if ob > oa:
                    oa, ob = ob, oa
                a, b, b2 = 10 + 10 * pi, 11 + 10 * pi, 12 + 10 * pi
                c.sup_new(1000 + a, 0, wa[0], wa[1]); c.spl_new(a, oa, 1000 + a, rand_coefs(rng, oa, nint(wa)))
                c.sup_new(1000 + b, 1, wb[0], wb[1]); c.spl_new(b, ob, 1000 + b, rand_coefs(rng, ob, nint(wb)))
                # the same second operand on the equal grid held in a distinct object: never refused
                wb_eq = wb if wb[1] <= n else (0, 0)
                c.sup_new(1000 + b2, 2, wb_eq[0], wb_eq[1]); c.spl_new(b2, ob, 1000 + b2, rand_coefs(rng, ob, nint(wb_eq)))
                for second in (b, b2):
                    c.spl_add(500 + max(oa, ob), a, second)
                    c.spl_sub(500 + max(oa, ob), a, second)
                    c.spl_mul(600 + oa + ob, a, second)
                    c.spl_iadd(a, second)
                    c.spl_isub(a, second)
                    c.spl_overlap(a, second)
                    c.bilin(E('Id'), E('Der', 1), a, second)
                    c.bilin(E('Pos', 1), E('Id'), second, a)
                    c.sup_union(700, 1000 + a, 1000 + second)
                    c.sup_inter(701, 1000 + a, 1000 + second)
                    c.sup_eq(1000 + a, 1000 + second)
                    # operator with a spline factor on the other grid
                    c.apply(800 + oa + ob, E('Spl', second), a)
                    c.apply(820 + oa + ob + 1, E('Mul', E('Pos', 1), E('Spl', second)), a)
                    c.lin(E('Spl', second), a)
                    c.bilin(E('Spl', second), E('Id'), a, a)
                    # operands are unchanged after a refusal
                    c.show(a); c.show(second)
                if oa == ob:
                    c.spl_lincomb(900 + oa, [Fr(1), Fr(2)], [a, b])
                    c.spl_lincomb(900 + oa, [Fr(1), Fr(2)], [a, b2])
                    c.spl_lincomb(900 + oa, [Fr(1)], [a, b])          # count mismatch comes first
            # an existing object re-assigned ACROSS grids (move assignment, copy assignment, cross-order assignment):
            # afterwards it lives on the source's grid - refused with its old neighbours, accepted with its new ones
            wn = (0, min(3, n2))
            c.sup_new(1970, 0, 0, 3); c.spl_new(970, 1, 1970, rand_coefs(rng, 1, 2))
            c.sup_new(1971, 1, wn[0], wn[1]); c.spl_new(971, 1, 1971, rand_coefs(rng, 1, nint(wn)))
            c.sup_new(1972, 0, 1, 4); c.spl_new(972, 1, 1972, rand_coefs(rng, 1, 2))
            c.sup_new(1973, 1, wn[0], wn[1]); c.spl_new(973, 1, 1973, rand_coefs(rng, 1, nint(wn)))
            c.sup_new(1974, 1, wn[0], wn[1]); c.spl_new(974, 0, 1974, rand_coefs(rng, 0, nint(wn)))
            c.spl_copy(975, 970); c.spl_move_assign(975, 971); c.show(975)          # 975 now lives on grid 1
            c.spl_add(980, 975, 972); c.spl_add(980, 975, 973); c.show(980)
            c.spl_mul(981, 972, 975); c.bilin(E('Id'), E('Id'), 975, 972); c.bilin(E('Id'), E('Id'), 975, 973)
            c.spl_copy(976, 970); c.spl_assign_up(976, 974); c.show(976)             # order 1 <- order 0 on grid 1
            c.spl_add(980, 976, 972); c.spl_add(980, 976, 973); c.spl_iadd(976, 972); c.show(976)
            c.spl_copy(977, 970); c.spl_copy(977, 973); c.spl_sub(980, 977, 972); c.spl_sub(980, 977, 971)
            c.sup_copy(1978, 1970); c.sup_move_assign(1978, 1971); c.show(1978)
            c.sup_union(1979, 1978, 1972); c.sup_union(1979, 1978, 1973); c.sup_eq(1978, 1973)
            # generator with a supplied grid
            c.gen2(950, 1, list(pts), 1)
            c.gen2(960, 1, list(pts), 2)
            cases.append(c)
    return cases


def nontrivial_C08(t):
    return t.split()[0] in ('SplAdd', 'SplSub', 'SplMul', 'SplIAdd', 'SplISub', 'Bilin', 'Lin', 'Apply', 'SupUnion',
                            'SupInter', 'SplLinComb', 'Gen2', 'SupEq', 'GridEq')


# ---------------------------------------------------------------------------
# C11 — validation (exact tier; NaN/Inf are covered by the double tier in floatcheck)
# ---------------------------------------------------------------------------
def gen_C11(seed, tier):
    rng = random.Random(seed)
    cases = []
    # grids: every position of a defect in sequences of length <= 6 (quick: <= 5)
    maxlen = 5 if tier == 'quick' else 6
    c = Case("C11_grid")
    slot = 0
    for n in range(0, maxlen + 1):
        base = grid_points(rng, max(n, 1))[:n]
        c.grid_new(slot, base); slot += 1
        for pos in range(n - 1):
            dup = list(base); dup[pos + 1] = dup[pos]
            c.grid_new(slot, dup); slot += 1
            desc = list(base); desc[pos], desc[pos + 1] = desc[pos + 1], desc[pos]
            c.grid_new(slot, desc); slot += 1
            big = list(base); big[pos] = base[-1] + 5
            c.grid_new(slot, big); slot += 1
    cases.append(c)
    # supports: every index pair on grids up to 5 points (+ extremes)
    for n in range(2, 5 if tier == 'quick' else 6):
        c = Case(f"C11_sup{n}")
        c.grid_new(0, grid_points(rng, n))
        probes = list(range(0, n + 3)) + [W64 - 1]
        for a in probes:
            for b in probes:
                c.sup_new(1, 0, a, b)
        cases.append(c)
    # splines: every coefficient count against every window
    for n in (3, 5):
        for o in (0, 2):
            c = Case(f"C11_spl{n}_{o}")
            c.grid_new(0, grid_points(rng, n))
            for wi, w in enumerate(windows(n)):
                c.sup_new(10 + wi, 0, w[0], w[1])
                for k in range(0, n + 1):
                    c.spl_new(100, o, 10 + wi, rand_coefs(rng, o, k))
            c.spl_empty(101, o, 0); c.show(101)
            cases.append(c)
    # generator: knots
    c = Case("C11_gen")
    vals = grid_points(rng, 4, 'unit')
    c.grid_new(0, vals)
    bad = [[], [vals[0]], [vals[0]] * 4, [vals[1], vals[0]], [vals[0], vals[1], vals[1], vals[0]],
           [vals[0], vals[2], vals[1], vals[3]], list(vals) + [vals[0]]]
    good = [list(vals), [vals[0], vals[0], vals[1], vals[2], vals[2], vals[3], vals[3]], [vals[0], vals[1]],
            [vals[0]] * 3 + [vals[1]] * 3, [vals[0]] * 4 + [vals[2]] * 4, [vals[0], vals[0], vals[1], vals[1]]]
    d0 = 10
    for ks in bad + good:
        for p in (0, 1, 3):
            c.gen1(d0, p, ks); d0 += max(0, len(ks) - p - 1) + 1
            c.gen2(d0, p, ks, 0); d0 += max(0, len(ks) - p - 1) + 1
    cases.append(c)
    # linearCombination: counts
    c = Case("C11_lc")
    c.grid_new(0, vals)
    for j in range(4):
        mk_spline(c, rng, 10 + j, 0, 4, 1, supslot=1010 + j)
    for nc in range(0, 5):
        for ns in range(0, 5):
            c.spl_lincomb(50, [Fr(i + 1) for i in range(nc)], [10 + j for j in range(ns)], order=1)
    cases.append(c)
    # interpolation: abscissae/ordinates counts, boundary derivative orders
    c = Case("C11_interp")
    g = grid_points(rng, 5)
    c.grid_new(0, g)
    for wi, w in enumerate(windows(5)):
        c.sup_new(10 + wi, 0, w[0], w[1])
        size = w[1] - w[0]
        for ny in {0, 1, 2, size, size + 1}:
            c.interp(100, 1, 10 + wi, [Fr(j) for j in range(ny)])
            c.interp(102, 3, 10 + wi, [Fr(j * j) for j in range(ny)])
        for dd in range(0, 5):
            c.interp(102, 3, 10 + wi, [Fr(j) for j in range(size)], [('FIRST', dd, Fr(1)), ('LAST', 1, Fr(0))])
            c.interp(102, 3, 10 + wi, [Fr(j) for j in range(size)], [('FIRST', 1, Fr(1)), ('LAST', dd, Fr(0))])
    cases.append(c)
    return cases


def nontrivial_C11(t):
    return t.split()[0] in ('GridNew', 'SupNew', 'SplNew', 'Gen1', 'Gen2', 'SplLinComb', 'Interp', 'InterpDefault')


# ---------------------------------------------------------------------------
# C12 — interpolation
# ---------------------------------------------------------------------------
def gen_C12(seed, tier):
    rng = random.Random(seed)
    cases = []
    orders = [1, 2, 3, 4] if tier == 'quick' else [1, 2, 3, 4, 5]
    for o in orders:
        for r in range(4 if tier == 'quick' else 16):
            n = rng.randint(2, 8)
            c = Case(f"C12_{o}_{r}")
            pts = grid_points(rng, n, rng.choice(['unit', 'irregular', 'tiny', 'off+']))
            c.grid_new(0, pts)
            w = rng.choice([w for w in windows(n) if w[1] - w[0] >= 2])
            c.sup_new(1, 0, w[0], w[1])
            size = w[1] - w[0]
            y = [rand_coef(rng) for _ in range(size)]
            c.interp(10, o, 1, y)                      # default boundaries
            c.show(10)
            for j in range(size):
                c.spl_eval(10, pts[w[0] + j])
            # user boundary sets: all node/derivative combinations (sampled)
            for _ in range(2 if tier == 'quick' else 6):
                bs = [(rng.choice(['FIRST', 'LAST']), rng.randint(1, o), rand_coef(rng)) for _ in range(o - 1)]
                c.interp(11, o, 1, y, bs)
                c.show(11)
                # derivatives at the ends through the derivative operator
                for dd in range(1, o + 1):
                    c.apply(20 + dd, E('Der', dd), 11)
                    c.spl_eval(20 + dd, pts[w[0]])
                    c.spl_eval(20 + dd, pts[w[1] - 1])
            cases.append(c)
    return cases


def nontrivial_C12(t):
    return t.split()[0] in ('Interp', 'InterpDefault')


# ---------------------------------------------------------------------------
# C15 — predicates
# ---------------------------------------------------------------------------
def gen_C15(seed, tier):
    rng = random.Random(seed)
    cases = []
    n = 5
    pts = grid_points(rng, n)
    ws = windows(n)
    for o in ([1] if tier == 'quick' else [0, 1, 2]):
        for ai, wa in enumerate(ws):
            c = Case(f"C15_{o}_{ai}")
            c.grid_new(0, pts)
            c.grid_new(1, pts)
            c.sup_new(1002, 0, wa[0], wa[1])
            ca = rand_coefs(rng, o, nint(wa), zero_prob=0.4)
            c.spl_new(2, o, 1002, ca)
            c.spl_is_zero(2)
            c.spl_new(4, o, 1002, [[Fr(0)] * (o + 1) for _ in range(nint(wa))])
            c.spl_is_zero(4)
            c.spl_copy(5, 2); c.spl_eq(2, 5); c.spl_eq(5, 2); c.spl_eq(2, 2)
            for bi, wb in enumerate(ws):
                c.sup_new(1003, 1, wb[0], wb[1])
                same = (wa == wb and rng.random() < 0.7)
                c.spl_new(3, o, 1003, ca if same else rand_coefs(rng, o, nint(wb), zero_prob=0.3))
                c.spl_overlap(2, 3); c.spl_overlap(3, 2)
                c.spl_eq(2, 3); c.spl_eq(3, 2)
                c.spl_mul(6, 2, 3); c.show(6); c.spl_is_zero(6)
            cases.append(c)
    # isZero against every single-coefficient pattern: exactly one non-zero coefficient (each position 0..o, the
    # leading one included) in exactly one interval (each position) or in every interval; orders 0..4 in both tiers;
    # also the results of arithmetic on such splines
    for o in range(0, 5):
        c = Case(f"C15z{o}")
        c.grid_new(0, pts)
        c.sup_new(1000, 0, 1, n)
        m = n - 2
        d = 10
        for k in range(o + 1):
            for where in list(range(m)) + ['all']:
                cs = [[(rand_scalar(rng) if (j == k and (where == 'all' or where == i)) else Fr(0)) for j in range(o + 1)] for i in range(m)]
                c.spl_new(d, o, 1000, cs); c.spl_is_zero(d)
                c.spl_scale(d + 1, d, Fr(0)); c.spl_is_zero(d + 1)
                c.spl_sub(d + 2, d, d); c.spl_is_zero(d + 2)
                c.spl_neg(d + 3, d); c.spl_is_zero(d + 3)
                c.spl_add(d + 4, d, d); c.spl_is_zero(d + 4)
                d += 5
        c.spl_new(d, o, 1000, [[Fr(0)] * (o + 1) for _ in range(m)]); c.spl_is_zero(d)
        c.spl_empty(d + 1, o, 0); c.spl_is_zero(d + 1)
        cases.append(c)
    # equality across logically different grids (empty, point-like and coinciding windows)
    for tag, other in (("last", pts[:-1] + [pts[-1] + 1]), ("first", [pts[0] - 1] + pts[1:])):
        c = Case("C15_diffgrid_" + tag)
        c.grid_new(0, pts)
        c.grid_new(1, other)
        for wi, w in enumerate([(0, 0), (1, 2), (0, 3), (2, 4)]):
            for gi in (0, 1):
                c.sup_new(1000 + 10 * wi + gi, gi, w[0], w[1])
                c.spl_new(200 + 10 * wi + gi, 1, 1000 + 10 * wi + gi, [[Fr(1), Fr(2)] for _ in range(nint(w))])
        for wi in range(4):
            for wj in range(4):
                c.spl_eq(200 + 10 * wi, 200 + 10 * wj + 1); c.spl_eq(200 + 10 * wj + 1, 200 + 10 * wi)
                c.spl_overlap(200 + 10 * wi, 200 + 10 * wj + 1)
        cases.append(c)
    return cases


def nontrivial_C15(t):
    return t.split()[0] in ('SplIsZero', 'SplOverlap', 'SplEq')


# ---------------------------------------------------------------------------
# C10 / C14 / C09 — random histories over a pool of objects
# ---------------------------------------------------------------------------
def gen_history(rng, cid, length, show_every=True):
    c = Case(cid)
    n = rng.randint(3, 6)
    pts = grid_points(rng, n)
    c.grid_new(0, pts)
    c.grid_new(1, pts)                                  # equal, distinct object
    c.grid_new(2, grid_points(rng, rng.randint(2, 5)))   # a different grid
    gsize = {0: n, 1: n, 2: len(c.lines[-1].split()) - 3}
    # refused grid constructions: one defect (equal or decreasing neighbours) at the first, an interior or the LAST
    # pair, and the two-point cases; a refused construction leaves no object behind
    for pos in ('first', 'last', 'mid'):
        m = rng.randint(2, 5)
        good = grid_points(rng, m)
        k = {'first': 1, 'last': m - 1, 'mid': rng.randint(1, m - 1)}[pos]
        bad = list(good)
        bad[k] = bad[k - 1] if rng.random() < 0.5 else bad[k - 1] - Fr(1, 3)
        if all(bad[j - 1] < bad[j] for j in range(k + 1, m)) or k == m - 1:
            c.grid_new(3, bad)
    sups = []       # support slots
    spl = {}        # spline slot -> order
    nxt = [10]

    def fresh():
        nxt[0] += 1
        return nxt[0]

    def new_spline(order=None, g=None):
        g = g if g is not None else rng.choice([0, 0, 0, 1, 2])
        o = order if order is not None else rng.randint(0, 3)
        d = fresh()
        ss = fresh()
        w = rng.choice(windows(gsize[g]))
        c.sup_new(ss, g, w[0], w[1]); sups.append(ss)
        c.spl_new(d, o, ss, rand_coefs(rng, o, nint(w), zero_prob=0.15))
        spl[d] = o
        return d

    for _ in range(3):
        new_spline()

    def pick(order=None, maxorder=None):
        cands = [s for s, o in spl.items() if (order is None or o == order) and (maxorder is None or o <= maxorder)]
        return rng.choice(cands) if cands else None

    def dump():
        if show_every:
            for s in sorted(spl):
                c.show(s)
            for s in sups[-4:]:
                c.show(s)

    for step in range(length):
        r = rng.random()
        a = pick()
        if r < 0.07:
            new_spline()
        elif r < 0.10:
            c.spl_eval(a, pts[0]); c.spl_eval(a, pts[-1])
            for k in range(1, n - 1):
                c.spl_eval(a, (pts[k] + pts[k + 1]) / 2); c.spl_eval(a, pts[k])
        elif r < 0.16:
            d = fresh(); c.spl_copy(d, a); spl[d] = spl[a]
        elif r < 0.22:
            d = fresh(); c.spl_move(d, a); spl[d] = spl[a]
        elif r < 0.28:
            b = pick(order=spl[a])
            c.spl_move_assign(a, b)                     # may be a self-move
        elif r < 0.33:
            b = pick(order=spl[a]); c.spl_copy(a, b)    # copy assignment (may be self)
        elif r < 0.38:
            lows = [s for s, o in spl.items() if o < spl[a]]
            if lows:
                c.spl_assign_up(a, rng.choice(lows))
        elif r < 0.48:
            b = pick()
            k = rng.choice(['add', 'sub', 'mul'])
            o = max(spl[a], spl[b]) if k != 'mul' else spl[a] + spl[b]
            if o <= 8:
                d = fresh()
                getattr(c, 'spl_' + k)(d, a, b); spl[d] = o
        elif r < 0.58:
            b = pick(maxorder=spl[a])
            (c.spl_iadd if rng.random() < 0.5 else c.spl_isub)(a, b)
        elif r < 0.64:
            (c.spl_imul if rng.random() < 0.6 else c.spl_idiv)(a, rand_scalar(rng))
        elif r < 0.69:
            d = fresh()
            k = rng.random()
            if k < 0.3: c.spl_scale(d, a, rand_scalar(rng, False))
            elif k < 0.5: c.spl_scale_l(d, rand_scalar(rng, False), a)
            elif k < 0.7: c.spl_div(d, a, rand_scalar(rng))
            else: c.spl_neg(d, a)
            spl[d] = spl[a]
        elif r < 0.77:
            facs = [s for s, o in spl.items() if o <= 1]
            e = rand_expr(rng, 2, spline_slots=facs[:2])
            o = e.out_ord(spl[a], lambda s: spl[s])
            if o <= 8:
                d = fresh(); c.apply(d, e, a); spl[d] = o
        elif r < 0.82:
            b = pick()
            c.bilin(rand_expr(rng, 1), rand_expr(rng, 1), a, b)
        elif r < 0.85:
            c.lin(rand_expr(rng, 1), a)
        elif r < 0.89:
            xi = rng.randrange(n)
            c.spl_eval(a, pts[xi] + Fr(rng.randint(-1, 1), 3)); c.spl_is_zero(a)
            # evaluation is a const operation: its result may not depend on earlier evaluations of the same object
            # (approach every grid point from the right interval, then from the left one)
            for k in range(1, n - 1):
                c.spl_eval(a, (pts[k] + pts[k + 1]) / 2); c.spl_eval(a, pts[k])
                c.spl_eval(a, (pts[k - 1] + pts[k]) / 2); c.spl_eval(a, pts[k])
            b = pick(order=spl[a]); c.spl_eq(a, b); c.spl_overlap(a, pick())
        elif r < 0.92:
            # failing constructions interleaved
            c.sup_new(fresh(), 0, 3, 1)
            bad = rng.choice([(n + 1, n + 3), (n + 2, n + 3), (n, n + 1), (n + 5, n + 9), (W64 - 2, W64 - 1), (2, n + 1), (n + 1, n + 1)])
            sb = fresh()
            c.sup_new(sb, 0, bad[0], bad[1]); c.show(sb)
            ss = sups[-1] if sups else None
            if ss:
                c.spl_new(fresh(), 1, ss, rand_coefs(rng, 1, 7))
            c.spl_front(a); c.spl_back(a)
        elif r < 0.95:
            ss = fresh(); c.spl_support(ss, a); sups.append(ss)
            s2 = fresh(); c.sup_move(s2, ss); sups.append(s2)
            if len(sups) >= 2:
                c.sup_move_assign(sups[-1], sups[-2])
        else:
            same = [s for s, o in spl.items() if o == spl[a]]
            k = rng.randint(1, min(4, len(same)))
            d = fresh()
            c.spl_lincomb(d, [rand_scalar(rng, False) for _ in range(k)], rng.sample(same, k)); spl[d] = spl[a]
        dump()
    # read-only comparisons of a fresh, solely owned grid against equal / different grids: references, iterators and the
    # identity of its data must survive
    for (ga, gb) in ((0, 1), (1, 0), (0, 2), (2, 0), (0, 0)):
        c.grid_eq_fresh(ga, gb)
    # single-term and two-term linear combinations through both overloads (consecutive destinations differ in parity)
    for a in rng.sample(sorted(spl), min(3, len(spl))):
        for k in (1, 1, 2, 2):
            d = fresh()
            c.spl_lincomb(d, [rand_scalar(rng, False) for _ in range(k)], [a] * k); spl[d] = spl[a]
            c.show(d); c.show(a)          # result and operand only: a full dump here makes the thorough tier's programs too large
    dump()
    return c


def gen_C10(seed, tier, prefix="C10"):
    rng = random.Random(seed)
    k, length = (24, 25) if tier == 'quick' else (120, 60)
    return [gen_history(rng, f"{prefix}_{i}", length) for i in range(k)]


def gen_C14(seed, tier):
    return gen_C10(seed + 14, tier, "C14")


def gen_C09(seed, tier):
    rng = random.Random(seed + 9)
    k, length = (30, 30) if tier == 'quick' else (150, 60)
    cases = [gen_history(rng, f"C09_{i}", length, show_every=False) for i in range(k)]
    # placements of operand / factor / result supports for the spline operator (D1) and checked accessors
    n = 5
    pts = grid_points(rng, n)
    for wi, wv in enumerate(windows(n)):
        c = Case(f"C09f_{wi}")
        c.grid_new(0, pts)
        c.sup_new(1050, 0, wv[0], wv[1]); c.spl_new(50, 1, 1050, rand_coefs(rng, 1, nint(wv)))
        for wa in windows(n):
            c.sup_new(1060, 0, wa[0], wa[1]); c.spl_new(60, 2, 1060, rand_coefs(rng, 2, nint(wa)))
            c.apply(70, E('Spl', 50), 60)
            c.lin(E('Mul', E('Der', 1), E('Spl', 50)), 60)
            c.bilin(E('Spl', 50), E('Id'), 60, 60)
        for i in index_probes(n):
            c.sup_at(1050, i); c.grid_at(0, i); c.sup_abs(1050, i); c.sup_rel(1050, i); c.sup_ivl(1050, i)
        cases.append(c)
    # degenerate supports (empty, point-like, one interval): every accessor and every binary operation, evaluated at
    # every grid point and just beside it
    for o in (0, 2):
        c = Case(f"C09d_{o}")
        c.grid_new(0, pts)
        ws = windows(n)
        for wi, w in enumerate(ws):
            c.sup_new(1100 + wi, 0, w[0], w[1])
            c.spl_new(100 + wi, o, 1100 + wi, rand_coefs(rng, o, nint(w)))
            for x in pts:
                c.spl_eval(100 + wi, x)
            c.spl_eval(100 + wi, pts[0] - 1); c.spl_eval(100 + wi, pts[-1] + 1); c.spl_eval(100 + wi, (pts[1] + pts[2]) / 2)
            c.spl_front(100 + wi); c.spl_back(100 + wi); c.spl_is_zero(100 + wi)
            c.sup_front(1100 + wi); c.sup_back(1100 + wi); c.sup_iter(1100 + wi)
        small = [wi for wi, w in enumerate(ws) if nint(w) <= 1]
        for wi in small:
            for wj in small:
                c.spl_mul(300, 100 + wi, 100 + wj)
                for x in pts:
                    c.spl_eval(300, x)
                c.spl_add(301, 100 + wi, 100 + wj); c.spl_eval(301, pts[1])
                c.spl_overlap(100 + wi, 100 + wj)
                c.bilin(E('Pos', 1), E('Der', 1), 100 + wi, 100 + wj)
                c.apply(302, E('Mul', E('Pos', 1), E('Der', 1)), 100 + wi); c.spl_eval(302, pts[2])
        cases.append(c)
    return cases


def nontrivial_hist(t):
    return t.split()[0] not in ('Show',)


# ---------------------------------------------------------------------------
# C16 — well-scaled floating-point inputs (exactly representable in float)
# ---------------------------------------------------------------------------
def dyadic_grid(rng, n, lo=-8, hi=8):
    """n strictly increasing multiples of 1/8 in [lo, hi], spacing >= 1/8"""
    ks = sorted(rng.sample(range(lo * 8, hi * 8 + 1), n))
    return [Fr(k, 8) for k in ks]


def dyadic_coef(rng):
    return Fr(rng.randint(-24, 24), rng.choice([1, 2, 4, 8]))


def gen_C16(seed, tier):
    rng = random.Random(seed + 16)
    cases = []
    reps = 6 if tier == 'quick' else 30
    for r in range(reps):
        c = Case(f"C16g{r}")
        # basis generation from knots, orders up to 6, with repeated knots
        nv = rng.randint(3, 7)
        vals = dyadic_grid(rng, nv) if r % 3 else [Fr(k, 8) for k in range(-4 * 8, -4 * 8 + nv)]  # also spacing exactly 1/8
        knots = [v for v in vals for _ in range(rng.choice([1, 1, 2, 3]))]
        p = rng.randint(1, 6)
        c.grid_new(0, vals)
        c.gen1(10, p, knots)
        cnt = max(0, len(knots) - p - 1)
        for i in range(cnt):
            c.show(10 + i)
            for x in (vals[0], vals[len(vals) // 2], (vals[0] + vals[1]) / 2, vals[-1]):
                c.spl_eval(10 + i, x)
        if cnt >= 2:
            c.spl_add(100, 10, 11); c.show(100)
            if 2 * p <= 12:
                c.spl_mul(101, 10, 11); c.show(101)
            c.bilin(E('Id'), E('Id'), 10, 11)
            c.bilin(E('Der', 1), E('Der', 1), 10, 11)
            c.bilin(E('Id'), E('Pos', 2), 10, 10)
            c.lin(E('Id'), 10)
            c.lin(E('Pos', 1), 11)
            c.apply(102, E('Add', E('SMulL', Sc('F', Fr(-1, 2)), E('Der', 2)), E('SMulL', Sc('F', Fr(1, 2)), E('Pos', 2))), 10); c.show(102)
            c.apply(103, E('DivS', E('SubS', E('Pos', 1), Sc('F', Fr(3, 2))), Sc('I', 4)), 11); c.show(103)
            # divisors that are not powers of two, of integer and of floating type
            c.apply(104, E('DivS', E('Pos', 2), Sc('I', 7)), 10); c.show(104)
            c.apply(105, E('DivS', E('Der', 1), Sc('I', 3)), 11); c.show(105)
            c.apply(106, E('DivS', E('Id'), Sc('F', Fr(6))), 10); c.show(106)
            c.lin(E('DivS', E('Pos', 1), Sc('I', 3)), 10)
            c.bilin(E('DivS', E('Id'), Sc('I', 5)), E('Pos', 1), 10, 11)
            # position-dependent operators on the LEFT, on the last functions of the basis (supports not starting at the
            # first grid point)
            c.bilin(E('Pos', 1), E('Id'), 10 + cnt - 1, 10 + cnt - 2)
            c.bilin(E('Pos', 2), E('Der', 1), 10 + cnt - 1, 10 + cnt - 1)
            c.bilin(E('Mul', E('Pos', 1), E('Der', 1)), E('Pos', 1), 10 + cnt - 2, 10 + cnt - 1)
        cases.append(c)
    for r in range(reps):
        c = Case(f"C16s{r}")
        n = rng.randint(3, 8)
        pts = dyadic_grid(rng, n)
        c.grid_new(0, pts)
        oa, ob = rng.randint(0, 6), rng.randint(0, 6)
        for (d, o) in ((1, oa), (2, ob)):
            w = rng.choice([w for w in windows(n) if nint(w) >= 1])
            c.sup_new(1000 + d, 0, w[0], w[1])
            c.spl_new(d, o, 1000 + d, [[dyadic_coef(rng) for _ in range(o + 1)] for _ in range(nint(w))])
        for x in pts + [(pts[0] + pts[1]) / 2]:
            c.spl_eval(1, x)
        c.spl_add(3, 1, 2); c.show(3)
        c.spl_sub(4, 1, 2); c.show(4)
        c.spl_mul(5, 1, 2); c.show(5)
        c.spl_scale(6, 1, Fr(3, 8)); c.show(6)
        c.spl_div(7, 1, Fr(4)); c.show(7)
        c.bilin(E('Id'), E('Id'), 1, 2)
        c.bilin(E('Der', 1), E('Pos', 1), 1, 2)
        c.bilin(E('Pos', 1), E('Der', 1), 1, 2)
        c.bilin(E('Pos', 2), E('Id'), 2, 1)
        c.lin(E('Pos', 2), 1)
        c.apply(8, E('Mul', E('Pos', 1), E('Der', 1)), 1); c.show(8)
        c.apply(9, E('Pos', 3), 2); c.show(9)
        cases.append(c)
    # evaluation close to an interval centre of pieces that vanish there (c_0 = 0): the magnitude S is tiny, so a
    # formulation that loses the low-order bits of x - xm (cancellation) is far outside the bound; intervals centred at
    # the origin and away from it; abscissae exactly representable in float
    for r, pts in enumerate([[Fr(-11, 8), Fr(-3, 8), Fr(3, 8), Fr(1), Fr(2)], [Fr(-1), Fr(0), Fr(1, 2), Fr(3, 4), Fr(2)],
                             [Fr(1, 4), Fr(3, 4), Fr(5, 4), Fr(7, 4), Fr(3)]]):
        c = Case(f"C16c{r}")
        c.grid_new(0, pts)
        c.sup_new(1001, 0, 0, 5)
        o = 2 + r
        c.spl_new(1, o, 1001, [[Fr(0)] + [dyadic_coef(rng) or Fr(1) for _ in range(o)] for _ in range(4)])
        c.apply(2, E('Pos', 1), 1)        # x * s: also small near the centre of an interval centred at 0
        c.show(1); c.show(2)
        c.meta['fine_eval'] = True         # evaluations judged relative to sum_k |c_k| |x - xm|^k (stages.stage_fp_round)
        for k in range(4):
            xm = (pts[k] + pts[k + 1]) / 2
            for e in (10, 16, 18):
                for sgn in (1, -1):
                    x = xm + sgn * Fr(1, 2 ** e)
                    c.spl_eval(1, x)
                    c.spl_eval(2, x)
            if xm == 0:
                for e in (30, 45, 60):
                    c.spl_eval(1, Fr(3, 2 ** e)); c.spl_eval(1, -Fr(1, 2 ** e)); c.spl_eval(2, Fr(5, 2 ** e))
        cases.append(c)
    # pieces dominated by their ODD local coefficients (even ones smaller by 2^-24..2^-40) and the converse: the exact
    # integral over an interval only involves the even local powers, so the terms involved - and S - are tiny; a kernel
    # that lets the odd powers take part in the rounded sums and cancel at the end is far outside the bound
    for r in range(3 if tier == 'quick' else 12):
        c = Case(f"C16o{r}")
        n = rng.randint(3, 6)
        pts = dyadic_grid(rng, n) if r % 2 else [Fr(k, 2) - Fr(n - 1, 4) for k in range(n)]
        c.grid_new(0, pts)
        c.sup_new(1001, 0, 0, n)
        oa, ob = rng.randint(1, 5), rng.randint(1, 5)
        def tiny():
            return Fr(rng.choice([-3, -1, 1, 3, 5]), 2 ** rng.randint(24, 40))
        c.spl_new(1, oa, 1001, [[(tiny() if k % 2 == 0 else (dyadic_coef(rng) or Fr(1))) for k in range(oa + 1)] for _ in range(n - 1)])
        c.spl_new(2, ob, 1001, [[(tiny() if k % 2 == 1 else (dyadic_coef(rng) or Fr(1))) for k in range(ob + 1)] for _ in range(n - 1)])
        c.show(1); c.show(2)
        c.lin(E('Id'), 1)
        c.lin(E('Der', 2), 1)
        c.lin(E('SMulL', Sc('F', Fr(3, 4)), E('Id')), 1)
        c.lin(E('Der', 1), 2)
        c.lin(E('Id'), 2)
        c.bilin(E('Id'), E('Id'), 1, 2)
        c.bilin(E('Der', 2), E('Id'), 1, 2)
        c.bilin(E('Id'), E('Der', 2), 1, 2)
        c.bilin(E('Der', 1), E('Der', 1), 1, 2)
        c.bilin(E('Id'), E('Id'), 1, 1)
        cases.append(c)
    return cases



# ---------------------------------------------------------------------------
# C19 — every public operation once over, with the archetype scalars
# ---------------------------------------------------------------------------
def gen_C19(seed, tier):
    rng = random.Random(seed + 19)
    cases = []
    cases += gen_C10(seed + 191, 'quick', "C19h")[:6 if tier == 'quick' else 24]
    cases += gen_C05(seed + 192, 'quick')[:6 if tier == 'quick' else 30]
    cases += [c for c in gen_C06(seed + 193, 'quick')][:4 if tier == 'quick' else 16]
    cases += gen_C01(seed + 194, 'quick')[:6 if tier == 'quick' else 30]
    cases += gen_C12(seed + 195, 'quick')[:4 if tier == 'quick' else 16]
    cases += gen_C02(seed + 196, 'quick')[:3]
    c15 = gen_C15(seed + 197, 'quick')                 # predicates: ==, !=, isZero, checkOverlap through the archetype's own ==
    cases += c15[:3] + [c for c in c15 if c.cid.startswith("C15z")][:2]
    cases += gen_C03(seed + 198, 'quick')[:3]
    return cases


# ---------------------------------------------------------------------------
# registry
# ---------------------------------------------------------------------------
def _p(gen, nontrivial, rule, variants=None, **kw):
    return dict(gen=gen, nontrivial=nontrivial, level='proof', rule=rule,
                variants=variants or {'quick': ['plain'], 'thorough': ['plain', 'asanchecks']}, **kw)


PROPS = {
    'C02': _p(gen_C02, lambda t: t.split()[0] in ('SplEval', 'SplFront', 'SplBack'),
              "exhaustive: every window of grids with 2,3,5 (quick) / 2..6 (thorough) points x orders 0..2 / 0..3 with "
              "discontinuous pieces, evaluated at every grid point, midpoint, third-point, both support ends +- 1/1000 and far "
              "outside; plus random larger splines; non-trivial = distinct evaluation/front/back calls", exhaustive=True),
    'C03': _p(gen_C03, nontrivial_C03,
              "exhaustive: all ordered pairs of windows (empty, point-like, identical, nested, overlapping, touching, gap) on a "
              "5- (quick) / 6-point (thorough) grid x 3 random / all 16 order pairs from (0..3)^2: + - * and the in-place forms, "
              "every second right operand on a distinct-but-equal grid object; random: scalar forms, division, negation, "
              "cross-order assignment, chains of in-place updates, linearCombination over 1..6 splines; non-trivial = distinct "
              "arithmetic operations and operand constructions", exhaustive=True),
    'C04': _p(gen_C04, nontrivial_C04,
              "orders 0..3 (quick) / 0..4 x Derivative<n>, n = 0..order+2, Position<n>, n = 0..5/6, identity, on grids at the "
              "origin, irregular, offset by +1000 and -1000, whole-grid, sub-window, point-like and empty supports; direct "
              "transform calls on every interval; non-trivial = distinct Apply/Transform operations"),
    'C05': _p(gen_C05, nontrivial_C05,
              "expression catalogue covering every overload of CompoundOperators.h/ScalarOperators.h with scalars of the spline's "
              "type and of type int, plus seeded random trees of depth <= 3 (10 quick / 120 thorough), x operand orders x "
              "whole/sub/empty/point-like operand windows; spline-factor expressions with every placement of the factor's "
              "window against the operand's window on a 5-point grid (exhaustive), factor on a distinct-but-equal grid object; "
              "non-trivial = distinct Apply operations"),
    'C06': _p(gen_C06, nontrivial_forms,
              "operator pairs from a catalogue (incl. a spline factor) x order pairs x all ordered pairs of windows on a 5-point "
              "grid (exhaustive placements), swapped evaluation and the scalar product for every pair; exact fractions; "
              "non-trivial = distinct Bilin operations"),
    'C07': _p(gen_C07, nontrivial_forms,
              "every catalogue operator as a linear form on every window x orders; for every window pair the bilinear form and "
              "the identity linear form of the product spline (O1 a)*(O2 b), computed independently on both sides"),
    'C01': _p(gen_C01, nontrivial_C01,
              "knot vectors: multiplicity patterns over <= 4 distinct values, total length <= 8, multiplicities up to 4 (quick: 40 "
              "sampled; thorough: all, multiplicities up to 5) x spacing families (unit, irregular, offset +-1000), orders 0..3 / "
              "0..5, both construction routes alternating; random vectors up to 14 knots; refusals (mismatching grid, too few "
              "knots, constant, descending); every generated spline compared coefficient by coefficient"),
    'C08': _p(gen_C08, nontrivial_C08,
              "every multi-spline entry point (+ - * += -= checkOverlap linearCombination bilinear union intersection ==, "
              "operators and forms with a spline factor, generator with supplied grid) x 7 ways two grids differ (point moved, "
              "extra point left/right/inside, prefix, suffix, differing only outside the overlap) x 6 support placements incl. "
              "empty arguments, each also with the equal grid held in a distinct object; operands re-dumped after each refusal"),
    'C10': _p(gen_C10, nontrivial_hist,
              "random histories (24 x 25 steps quick, 120 x 60 thorough) over a pool of splines/supports on three grids (two equal, "
              "one different): construction, copy, move, copy-/move-assignment incl. self, cross-order assignment, arithmetic, "
              "in-place forms, operator application, forms, predicates, failing calls, linearCombination; the full state of every "
              "live spline is compared after every step; built with the library's own self-checks (BSPLINE_ADD_TEST_CHECKS)",
              variants={'quick': ['checks'], 'thorough': ['checks', 'asanchecks']}),
    'C14': _p(gen_C14, nontrivial_hist,
              "as C10 with a different seed: the C++ state of every live object (grid points, window, coefficients) is compared "
              "with the model after every step, so a disturbed operand shows as a difference in a slot the model proves untouched",
              variants={'quick': ['plain'], 'thorough': ['plain', 'asan']}),
    'C09': _p(gen_C09, nontrivial_hist,
              "random histories and every placement of factor window against operand window for the spline operator, plus checked "
              "accessors at extreme indices, all executed under AddressSanitizer + UndefinedBehaviorSanitizer + libstdc++ "
              "assertions; a sanitizer report on an input for which the model returns Ok/Throw is a violation",
              variants={'quick': ['asan'], 'thorough': ['asan', 'asanchecks']}, scan=True,
              trusted_extra=["gen/scan_sites.py: regular-expression scanner that lists the shapes of unchecked accesses in /repo's headers on every run; a shape missing from the reviewed table of coq/Proofs_Sites.v is reported as a NOTE and escalates the sanitizer search to the thorough tier's cases (it is not a proof obligation, DESIGN R9)"]),
    'C11': _p(gen_C11, nontrivial_C11,
              "grids: duplicate/descent/outlier at every position of sequences of length 0..5 (quick) / 0..6; supports: every index "
              "pair from 0..n+2 and 2^64-1 on grids of 2..4 / 2..5 points; splines: every coefficient count against every window; "
              "generator: empty, single, constant, descending, non-monotone and valid knot vectors x orders x both routes; "
              "linearCombination: every count pair 0..4; interpolation: count mismatches and boundary derivative orders 0..4; double tier: "
              "NaN, +inf, -inf at every position of sequences of length 1..5/6 for Grid<double> and BSplineGenerator<double>, compared "
              "with the model at the IEEE comparison structure ext", exhaustive=True, extra_stages=[stages.stage_fp_valid]),
    'C12': _p(gen_C12, nontrivial_C12,
              "interpolate<Arch, order, exact recording solver>: orders 1..4 (quick) / 1..5, 2..8 nodes as windows of a larger grid, "
              "uniform / irregular / tiny / offset spacing, default and random user boundary sets; the assembled dense system M, b is "
              "compared entry by entry with the model's rows, the resulting spline coefficient by coefficient, values at the nodes "
              "and end-point derivatives through Apply(Der d) + evaluation; double tier: interpolateUsingEigen<double, order> on dyadic inputs, its "
              "coefficients (converted exactly) inserted into the exactly assembled system of the model: normwise backward error "
              "||Mc-b|| <= 2^20 eps (||M|| ||c|| + ||b||)", extra_stages=[stages.stage_fp_interp],
              explanation="proof relative to the solver: holds for every solution of the assembled system; the bundled dense solver is validated, not modelled"),
    'C15': _p(gen_C15, nontrivial_C15,
              "all ordered pairs of windows on a 5-point grid (second operand on a distinct-but-equal grid object), coefficient "
              "patterns with zero pieces (probability 0.3-0.4), identical coefficients on identical windows: isZero, checkOverlap both "
              "ways, ==/!= both ways, copy equality, product and its isZero", exhaustive=True),
    'C18': dict(gen=lambda seed, tier: [], nontrivial=lambda t: True, level='other', scan=True,
                variants={'quick': [], 'thorough': []}, extra_stages=[stages.stage_threads],
                rule="2, 3, 4, 8, 16 threads x 2 (quick) / 6 repetitions x 2 / 6 seeds x {double, long double}: every thread evaluates, copies, "
                     "adds, subtracts, multiplies, applies operators (incl. a shared spline factor), integrates (scalar product, Hamiltonian "
                     "form, linear form), calls isZero/checkOverlap/union/intersection, copies and destroys grid handles, regenerates a basis "
                     "from a shared const generator; every result compared bit for bit with a sequential run; plain -O2 and -fsanitize=thread",
                explanation="PARTIAL. Proved: under every interleaving of whole operations each thread's results and final private state equal "
                            "its solo run and shared const objects never change (Proofs_Threads.v); the inventory of constructs that could "
                            "introduce shared mutable state, regenerated from the headers on every run, is fully classified "
                            "(Proofs_Shared.shared_inventory_safe). Not provable in the model: absence of data races inside one operation "
                            "(memory model, reference counting) - ThreadSanitizer can only find races, never exclude them."),
    'C19': _p(gen_C19, nontrivial_hist,
              "a cross-section of every check's cases (histories, expression catalogue, forms, generator, interpolation, evaluation) "
              "compiled with the archetype scalar Arch (exact rationals; only default/copy construction, explicit construction from "
              "integers, + - * / with compound forms, unary minus, six comparisons; static_asserts exclude implicit conversions and "
              "numeric_limits) and compared exactly with the model at Qc; the same program instantiated with the second archetype "
              "WrapD (the same interface over double) and with plain double must print bit-identical results; plus explicit "
              "instantiation of every core class template with both archetypes (compile = check)",
              extra_stages=[stages.stage_archetypes]),
    'C20': dict(gen=lambda seed, tier: [], nontrivial=lambda t: True, level='other',
                variants={'quick': [], 'thorough': []}, extra_stages=[stages.stage_examples],
                rule="examples/*.cpp of the current tree compiled with -D_GLIBCXX_DEBUG and ASan/UBSan (Eigen assertions on): diffusion with "
                     "random positive piecewise-constant coefficients on 1..12 (quick) / 1..40 intervals, random boundary values, scaled by "
                     "0.5, 3, 1000, and constant coefficients (straight line); spline potential on interpolation grids of 12..30 / 8..60 "
                     "points (both sides of the ten-eigenvalue boundary), shifted by a constant; harmonic oscillator and hydrogen spectra; "
                     "non-trivial = distinct (case, check) pairs",
                explanation="PARTIAL. Proved (Properties_C20.v, about the model of the solver skeletons): container accesses in range, end "
                            "values for any solver output, scale and shift laws of the assembled systems. Validated with tolerances, not "
                            "proved: Eigen's factorizations and spectra (n+1/2, -1/n^2), the straight line for a constant coefficient."),
    'C17': dict(gen=lambda seed, tier: [], nontrivial=lambda t: True, level='other',
                variants={'quick': [], 'thorough': []}, extra_stages=[stages.stage_fp_quad],
                rule="random spline pairs (orders 0..3, all window placements incl. disjoint/empty, dyadic grids and coefficients) x "
                     "polynomial weights of degree 0..3 x quadrature sizes n-1, n, n+2 around the exactness bound 2n-1 >= o1+o2+d; double "
                     "(thorough also long double and -O2): value against the analytic bilinear form (model, pair world) within 2^20 eps S "
                     "when the bound holds; a recording weight function observes every abscissa: exactly n strictly inside each common "
                     "interval and none elsewhere, on both sides of the bound",
                explanation="PARTIAL. Proved (Properties_C17.v): for every rule that is exact for polynomials of degree <= 2n-1, integrate "
                            "equals the analytic bilinear form with the weight as operator, over exactly the common intervals, zero if none, "
                            "DIFFERING_GRIDS on different grids. Validated, not proved: that Boost's Gauss-Legendre tables are such a rule "
                            "(irrational nodes, floating tables) - checked numerically against the exact analytic value."),
    'C16': dict(gen=gen_C16, nontrivial=lambda t: t.split()[0] not in ('GridNew', 'SupNew'), level='other',
                allowed_axioms=['ClassicalDedekindReals.sig_forall_dec', 'ClassicalDedekindReals.sig_not_dec',
                                'FunctionalExtensionality.functional_extensionality_dep', 'Classical_Prop.classic'],
                assumes=["standard-library axioms used by the kernel-bound theorems of Properties_C16.v (Print Assumptions): "
                         "ClassicalDedekindReals.sig_forall_dec, ClassicalDedekindReals.sig_not_dec, "
                         "FunctionalExtensionality.functional_extensionality_dep (real numbers), Classical_Prop.classic (through Flocq)",
                         "standard model of floating-point arithmetic: rnd x = x(1+d), |d| <= u - a section hypothesis, discharged for "
                         "round-to-nearest-even with 53 bits and unbounded exponent (Flocq FLX) in C16_binary64_rounding_model; overflow "
                         "and underflow are excluded by the well-scaled input range"],
                variants={'quick': ['plain'], 'thorough': ['plain']}, extra_stages=[stages.stage_fp_round],
                rule="well-scaled exactly representable inputs (grid points multiples of 1/8 in [-8, 8], spacing >= 1/8, orders <= 6, "
                     "dyadic coefficients): B-spline generation from knots with repeats, evaluation, + - * scalar forms, operator "
                     "application, linear and bilinear forms; executed with float, double, long double (-O0; thorough also -O2) and "
                     "compared token by token with the model run over the pair world (exact value, magnitude S): |fl - exact| <= 2^20 "
                     "eps_T S; double with/without BSPLINE_ADD_TEST_CHECKS compared bit for bit; non-trivial = distinct (type, operation) "
                     "pairs whose output contains a scalar",
                explanation="PARTIAL. Proved: the exact reference (C01-C07 theorems, re-checked in Properties_C16.v as instances) and "
                            "standard-model rounding bounds for the evaluation and integration kernels (Proofs_Rounded.v, over R, "
                            "depends on the real-number axioms listed under assumptions). Validated, not proved: the 2^20 eps bound for "
                            "composite computations in the three hardware formats, on generated well-scaled inputs."),
    'C13': dict(
        gen=gen_C13, nontrivial=nontrivial_C13, level='proof', exhaustive=True,
        rule="exhaustive: every window of grids with 2..5 (quick) / 2..6 (thorough) points; every ordered pair (union, "
             "intersection on a distinct-but-equal grid object, ==/!=); every triple for associativity up to 3 (quick) / 5 "
             "(thorough) points; conversions and checked access at indices 0..n+2, 2^63-1..2^63+1, 2^64-3..2^64-1; "
             "non-trivial = distinct binary window operations and conversion/accessor calls",
        variants={'quick': ['plain'], 'thorough': ['plain', 'asanchecks']}, scan='ast',
        trusted_extra=["gen/ast2coq.py: translator from clang 14's JSON AST of Support<double> to coq/gen/SupportGen.v (integer-only member functions, size_t as N with explicit wrap); Proofs_SupportGen proves the generated definitions equal to the hand-written model on every run"],
    ),
}


REAL_AXIOMS = ['ClassicalDedekindReals.sig_forall_dec', 'ClassicalDedekindReals.sig_not_dec',
               'FunctionalExtensionality.functional_extensionality_dep']
for _c in ('C04', 'C06', 'C07'):
    PROPS[_c].update(
        allowed_axioms=REAL_AXIOMS,
        assumes=[f"the analysis-bridge theorems (Properties_{_c}_R.v: at the real instance the formal derivative / antiderivative "
                 "difference coincide with Coquelicot's is_derive_n / is_RInt) depend on the standard library's real-number axioms "
                 "ClassicalDedekindReals.sig_forall_dec, sig_not_dec and FunctionalExtensionality.functional_extensionality_dep; the "
                 f"generic theorems of Properties_{_c}.v are closed under the global context"])

# translator ties: kernels (K) and whole operations (O) as compiled, see DESIGN R8
_K = ("cpp/symkern_sym.h + cpp/symkern.cpp + gen/symkern.py: the real kernel templates of /repo's current headers are compiled "
      "(g++) and run over a symbolic scalar type; the expressions they compute are written to coq/gen/KernelGen_*.v together "
      "with generated lemma statements (model function = that expression, for every ordered field), proved by the fixed "
      "reflexive tactic of coq/Proofs_KernelTac.v; finite instance ranges (Properties_%s_K.v)")
_O = ("cpp/symops.cpp + gen/symops.py: the same for whole public operations on splines with symbolic grid points and "
      "coefficients and concrete windows/orders (coq/gen/OpsGen_*.v, coq/Proofs_OpsTac.v, Properties_%s_O.v); finite scenario lists")
for _c in ('C02', 'C03', 'C04', 'C06', 'C07'):
    PROPS[_c]['trusted_extra'] = list(PROPS[_c].get('trusted_extra', [])) + [_K % _c] + ([_O % _c] if _c != 'C02' else [])
_P = ("cpp/symops2.cpp + gen/symops2.py: operations that branch on scalar values (evaluation, grid construction and search, "
      "predicates, interpolation assembly, the generator) run concolically over the symbolic scalar: the comparisons executed "
      "and their outcomes are the path condition, stated as hypotheses of the generated lemma (coq/gen/PathGen_*.v, "
      "coq/Proofs_PathTac.v with a reflexive order-decision procedure, Properties_%s_P.v); every lemma comes with an Example "
      "at Qc showing its path condition satisfiable; finite scenario lists")
for _c in ('C01', 'C02', 'C11', 'C12', 'C15'):
    PROPS[_c]['trusted_extra'] = list(PROPS[_c].get('trusted_extra', [])) + [_P % _c]
PROPS['C16']['trusted_extra'] = list(PROPS['C16'].get('trusted_extra', [])) + [
    "gen/symround.py + gen/symroundops.py: reify the expressions extracted by gen/symkern.py / gen/symops.py (the compiled code's own "
    "operation order) into coq/gen/RoundGen_*.v / RoundOpsGen_*.v; coq/Proofs_RoundTac.v / Proofs_RoundOpsTac.v prove the generic "
    "forward rounding-error bound instantiated there (Properties_C16_K.v, Properties_C16_O.v); same trusted pieces as the kernel tie"]

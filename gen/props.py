"""props.py — per-property case generators (correspondence inputs).

Every random choice derives from one random.Random(seed).  Each generator
returns a list of Case objects; `nontrivial` predicates used for the evidence
counts are defined next to the generators.
"""
import itertools
import random
from fractions import Fraction as Fr

from caselib import Case, E, Sc

W64 = 2 ** 64


# ---------------------------------------------------------------------------
# shared toolkit
# ---------------------------------------------------------------------------
def grid_points(rng, n, family=None):
    """n strictly increasing rationals; families: unit, irregular, offset±1000, tiny"""
    family = family or rng.choice(['unit', 'irregular', 'irregular', 'off+', 'off-', 'tiny'])
    if family == 'unit':
        return [Fr(i) for i in range(n)]
    if family == 'tiny':
        x = Fr(rng.randint(-3, 3))
        pts = []
        for _ in range(n):
            pts.append(x)
            x += Fr(1, rng.choice([8, 16, 3, 7]))
        return pts
    x = Fr(rng.randint(-4, 4), rng.choice([1, 2, 3]))
    if family == 'off+':
        x += 1000
    if family == 'off-':
        x -= 1000
    pts = []
    for _ in range(n):
        pts.append(x)
        x += Fr(rng.randint(1, 9), rng.choice([1, 2, 3, 4, 5, 8]))
    return pts


def windows(n):
    """all valid windows of an n-point grid: (0,0) and 0<=a<b<=n"""
    return [(0, 0)] + [(a, b) for a in range(n) for b in range(a + 1, n + 1)]


def nint(w):
    return max(0, w[1] - w[0] - 1)


def rand_coef(rng, small=False):
    if small or rng.random() < 0.5:
        return Fr(rng.randint(-5, 5))
    return Fr(rng.randint(-9, 9), rng.choice([1, 2, 3, 4, 7]))


def rand_coefs(rng, order, k, zero_prob=0.0):
    out = []
    for _ in range(k):
        if rng.random() < zero_prob:
            out.append([Fr(0)] * (order + 1))
        else:
            arr = [rand_coef(rng) for _ in range(order + 1)]
            if all(c == 0 for c in arr):
                arr[0] = Fr(1)
            out.append(arr)
    return out


def rand_scalar(rng, nonzero=True):
    while True:
        c = rand_coef(rng)
        if c != 0 or not nonzero:
            return c


def mk_spline(case, rng, d, gslot, npts, order, w=None, zero_prob=0.0, supslot=None):
    """creates support slot (supslot or d+1000) and spline slot d on grid gslot"""
    w = w if w is not None else rng.choice(windows(npts))
    ss = supslot if supslot is not None else d + 1000
    case.sup_new(ss, gslot, w[0], w[1])
    case.spl_new(d, order, ss, rand_coefs(rng, order, nint(w), zero_prob))
    return w


def placement(wa, wb):
    """relative placement class of two windows"""
    if wa == (0, 0) or wb == (0, 0):
        return 'empty'
    if nint(wa) == 0 or nint(wb) == 0:
        return 'pointlike'
    a0, a1 = wa
    b0, b1 = wb
    lo, hi = max(a0, b0), min(a1, b1)
    if wa == wb:
        return 'identical'
    if hi - lo >= 2:
        if (a0 <= b0 and b1 <= a1) or (b0 <= a0 and a1 <= b1):
            return 'nested'
        return 'overlap'
    if hi - lo == 1:
        return 'touching'
    return 'gap'


# ---------------------------------------------------------------------------
# expression generators
# ---------------------------------------------------------------------------
def rand_sc(rng, nonzero=False):
    while True:
        if rng.random() < 0.5:
            s = Sc('I', rng.randint(-4, 5))
        else:
            s = Sc('F', rand_coef(rng))
        if not (nonzero and s.is_zero()):
            return s


def rand_expr(rng, depth, spline_slots=(), maxpos=2, maxder=3):
    """random expression tree over the whole overload set"""
    if depth <= 0 or rng.random() < 0.25:
        r = rng.random()
        if r < 0.2:
            return E('Id')
        if r < 0.5:
            return E('Pos', rng.randint(0, maxpos))
        if r < 0.8 or not spline_slots:
            return E('Der', rng.randint(0, maxder))
        return E('Spl', rng.choice(list(spline_slots)))
    h = rng.choice(['Mul', 'Mul', 'Add', 'Sub', 'SMulL', 'SMulR', 'DivS', 'AddS', 'SAdd', 'SubS', 'SSub', 'Neg'])
    sub = lambda: rand_expr(rng, depth - 1, spline_slots, maxpos, maxder)
    if h in ('Mul', 'Add', 'Sub'):
        return E(h, sub(), sub())
    if h in ('SMulL', 'SAdd', 'SSub'):
        return E(h, rand_sc(rng), sub())
    if h == 'DivS':
        return E(h, sub(), rand_sc(rng, nonzero=True))
    if h in ('SMulR', 'AddS', 'SubS'):
        return E(h, sub(), rand_sc(rng))
    return E('Neg', sub())


def catalogue(spl=None):
    """fixed catalogue covering every overload and both scalar kinds"""
    X1, D1, D2, I = E('Pos', 1), E('Der', 1), E('Der', 2), E('Id')
    f = Sc('F', Fr(3, 2))
    g = Sc('F', Fr(-2, 3))
    i2 = Sc('I', 2)
    im = Sc('I', -3)
    cat = [
        I, E('Pos', 0), X1, E('Pos', 2), E('Pos', 3), E('Der', 0), D1, D2, E('Der', 3), E('Der', 5),
        E('Mul', D1, X1), E('Mul', X1, D1), E('Sub', E('Mul', D1, X1), E('Mul', X1, D1)),
        E('Add', D2, E('Pos', 2)), E('Sub', D2, E('Pos', 2)), E('Add', X1, D2), E('Sub', I, D1),
        E('SMulL', f, D1), E('SMulL', i2, X1), E('SMulR', X1, g), E('SMulR', D2, im),
        E('DivS', X1, f), E('DivS', E('Pos', 2), i2), E('DivS', D1, im), E('DivS', I, Sc('I', 4)),
        E('AddS', X1, f), E('AddS', D1, i2), E('SAdd', g, X1), E('SAdd', im, D2),
        E('SubS', E('Pos', 2), f), E('SubS', X1, i2), E('SSub', f, X1), E('SSub', i2, D1),
        E('Neg', D1), E('Neg', E('Add', X1, D1)),
        E('Add', E('SMulL', Sc('F', Fr(-1, 2)), D2), E('SMulL', Sc('F', Fr(1, 2)), E('Pos', 2))),
        E('Mul', E('SubS', X1, f), E('SSub', g, X1)),
        E('SMulL', f, E('SubS', X1, g)), E('SMulL', g, E('SSub', f, X1)),
        E('Mul', E('Mul', D1, X1), E('Mul', X1, D1)),
        E('DivS', E('Sub', E('Mul', X1, D2), E('SMulL', i2, D1)), Sc('F', Fr(5, 3))),
    ]
    if spl is not None:
        V = E('Spl', spl)
        cat += [V, E('Mul', V, D1), E('Mul', D1, V), E('Add', V, X1), E('Sub', X1, V),
                E('SMulL', i2, V), E('DivS', V, f), E('Neg', V), E('Mul', V, V),
                E('Add', E('Mul', X1, V), E('SMulL', g, D2))]
    return cat


# ---------------------------------------------------------------------------
# C13 — support windows form the interval algebra (exhaustive on small grids)
# ---------------------------------------------------------------------------
def index_probes(n):
    return list(range(0, n + 3)) + [2 ** 63 - 1, 2 ** 63, 2 ** 63 + 1, W64 - 3, W64 - 2, W64 - 1]


def gen_C13(seed, tier):
    rng = random.Random(seed)
    cases = []
    sizes = [2, 3, 4, 5] if tier == 'quick' else [2, 3, 4, 5, 6]
    triple_max = 3 if tier == 'quick' else 5
    for n in sizes:
        pts = grid_points(rng, n)
        ws = windows(n)
        # unary: conversions and accessors, all index values of interest
        c = Case(f"C13u{n}")
        c.grid_new(0, pts)
        for wi, w in enumerate(ws):
            s = 10 + wi
            c.sup_new(s, 0, w[0], w[1])
            c.show(s)
            c.sup_iter(s)
            c.sup_front(s)
            c.sup_back(s)
            c.sup_is_empty(s)
            c.sup_contains(s)
            for i in index_probes(n):
                c.sup_rel(s, i)
                c.sup_ivl(s, i)
                c.sup_abs(s, i)
                c.sup_at(s, i)
        # invalid windows are refused
        for (a, b) in [(1, 1), (2, 1), (0, n + 1), (n, n), (n, n + 1), (1, 0), (W64 - 1, 0), (0, W64 - 1)]:
            c.sup_new(900, 0, a, b)
        c.sup_whole(901, 0)
        c.show(901)
        c.sup_empty(902, 0)
        c.show(902)
        cases.append(c)
        # pairs: union, intersection, equality; on a shared grid object and on an equal copy
        c = Case(f"C13p{n}")
        c.grid_new(0, pts)
        c.grid_new(1, pts)          # distinct object, same points
        for wi, w in enumerate(ws):
            c.sup_new(10 + wi, 0, w[0], w[1])
            c.sup_new(100 + wi, 1, w[0], w[1])
        for i in range(len(ws)):
            for j in range(len(ws)):
                c.sup_union(500, 10 + i, 10 + j)
                c.show(500)
                c.sup_inter(501, 10 + i, 100 + j)
                c.show(501)
                c.sup_eq(10 + i, 100 + j)
        cases.append(c)
        for i in (range(len(ws)) if n <= triple_max else []):
            c = Case(f"C13t{n}_{i}")
            c.grid_new(0, pts)
            for wi, w in enumerate(ws):
                c.sup_new(10 + wi, 0, w[0], w[1])
            for j, k in itertools.product(range(len(ws)), repeat=2):
                c.sup_union(500, 10 + i, 10 + j)
                c.sup_union(501, 500, 10 + k)
                c.sup_union(502, 10 + j, 10 + k)
                c.sup_union(503, 10 + i, 502)
                c.sup_eq(501, 503)
                c.sup_inter(504, 10 + i, 10 + j)
                c.sup_inter(505, 504, 10 + k)
                c.sup_inter(506, 10 + j, 10 + k)
                c.sup_inter(507, 10 + i, 506)
                c.sup_eq(505, 507)
                c.show(501)
                c.show(505)
            cases.append(c)
    # differing grids are refused
    c = Case("C13d")
    p = grid_points(rng, 4, 'unit')
    c.grid_new(0, p)
    c.grid_new(1, p[:3] + [p[3] + 1])
    c.sup_new(10, 0, 0, 3)
    c.sup_new(11, 1, 0, 3)
    c.sup_union(12, 10, 11)
    c.sup_inter(12, 10, 11)
    c.sup_eq(10, 11)
    c.sup_same_grid(10, 11)
    cases.append(c)
    return cases


def nontrivial_C13(text):
    """a line is non-trivial when it is a binary window operation or a conversion/accessor call"""
    return text.split()[0] in ('SupUnion', 'SupInter', 'SupEq', 'SupRel', 'SupIvl', 'SupAbs', 'SupAt', 'SupIter')


# ---------------------------------------------------------------------------
# registry
# ---------------------------------------------------------------------------
PROPS = {
    'C13': dict(
        gen=gen_C13, nontrivial=nontrivial_C13, level='proof', exhaustive=True,
        rule="exhaustive: every window of grids with 2..5 (quick) / 2..6 (thorough) points; every ordered pair (union, "
             "intersection on a distinct-but-equal grid object, ==/!=); every triple for associativity up to 3 (quick) / 5 "
             "(thorough) points; conversions and checked access at indices 0..n+2, 2^63-1..2^63+1, 2^64-3..2^64-1; "
             "non-trivial = distinct binary window operations and conversion/accessor calls",
        variants={'quick': ['plain'], 'thorough': ['plain', 'asanchecks']},
    ),
}

#!/usr/bin/env python3
"""symops.py — regenerates coq/gen/OpsGen_<family>.v from the objects the REAL C++ public operations return.

cpp/symops.cpp instantiates the library's templates ($VERIF_REPO/include, default /repo) with the
symbolic scalar type of cpp/symkern_sym.h (the free term algebra over named variables and integer
literals) and runs whole public operations - spline arithmetic, operator application, bilinear and
linear forms - on splines whose grid points and coefficients are variables and whose windows and
orders are concrete.  This script compiles and runs that program in /verif/.build/symops and writes,
per scenario,

    Definition o_<scenario> (vars : F) : sres F | F := <the printed result>.
    Lemma o_<scenario>_ok {F} {K : Ops F} {L : Laws K} :
      forall vars, [premises ->] <model call on the same symbolic objects> = Ok (to_spline G (o_<scenario> vars)).
    Proof. ops_tac. Qed.

The OPERANDS of every statement are read back from the objects the C++ program constructed (ARG
lines), the model call is taken from the scenario table below (and the operand shapes of the table
are cross-checked against the ARG lines); the proof script is fixed; `ops_tac` lives in the
hand-written coq/Proofs_OpsTac.v.  Output is deterministic (no time stamps, fixed scenario order)
and a file is only rewritten when its content changes.

usage: symops.py [--out DIR] [--print]
    --out DIR   write DIR/OpsGen_<family>.v instead of /verif/coq/gen/OpsGen_<family>.v
    --print     print the generated files on stdout, write nothing
exit status: 0 ok; 2 the program does not compile; 3 it crashes; 4 a scenario reports
BRANCH / UNINIT / EXCEPTION; 5 the output does not match the expected scenario list / syntax.
"""
import argparse
import hashlib
import importlib.util
import os
import re
import subprocess
import sys

ROOT = os.path.dirname(os.path.dirname(os.path.abspath(__file__)))
REPO = os.environ.get("VERIF_REPO", "/repo")
SRC = os.path.join(ROOT, "cpp", "symops.cpp")
SYM_HEADER = os.path.join(ROOT, "cpp", "symkern_sym.h")
SYMKERN_PY = os.path.join(ROOT, "gen", "symkern.py")
BUILD = os.path.join(ROOT, ".build", "symops")
DEFAULT_OUT = os.path.join(ROOT, "coq", "gen")
CXX = os.environ.get("CXX", "g++")
# _GLIBCXX_ASSERTIONS: an out-of-range std::array / std::vector subscript aborts instead of reading garbage
CXXFLAGS = ["-std=c++17", "-O1", "-D_GLIBCXX_ASSERTIONS"]


def die(code, msg):
    sys.stderr.write("symops.py: " + msg.rstrip() + "\n")
    sys.exit(code)


# the term parser / printer is the one of gen/symkern.py (same term syntax, same Gallina rendering)
_spec = importlib.util.spec_from_file_location("symkern", SYMKERN_PY)
symkern = importlib.util.module_from_spec(_spec)
_spec.loader.exec_module(symkern)
symkern.die = die
Parser, variables, gallina = symkern.Parser, symkern.variables, symkern.gallina

GRID = ["g0", "g1", "g2", "g3"]
FAMILIES = ["arith", "apply", "bilin", "lin"]
FAMILY_DOC = {
    "arith": "Spline + - * Spline, scalar * / Spline, unary minus, += -= *= /=, linearCombination (property C03)",
    "apply": "operator * Spline for derivative, position, product, sum, difference, scalar and spline operators (C04 / C05)",
    "bilin": "BilinearForm<O1,O2>::evaluate and operator() (C06)",
    "lin": "LinearForm<O>::evaluate and operator() (C07)",
}


# ------------------------------------------------------------------------------------------------
# the scenario table: name -> operand shapes, model call, result kind, premises, C++ expression.
# It mirrors cpp/symops.cpp (same names, same order); a divergence is reported (exit 5).
# ------------------------------------------------------------------------------------------------
PLACES = {  # name: (a start, a end, b start, b end), windows [start, end) in grid-point indices
    "ident": (0, 3, 0, 3), "ainb": (1, 3, 0, 4), "bina": (0, 4, 1, 3), "stag": (0, 3, 1, 4),
    "touch": (0, 2, 1, 3), "disj": (0, 2, 2, 4), "aempty": (0, 0, 1, 4), "bempty": (0, 3, 0, 0),
    "apoint": (1, 2, 0, 3),
}
WIN_G13 = ("g13", 1, 4)
WIN_WHOLE = ("whole", 0, 4)


def spl(order, start, end):
    return ("SPLINE", order, start, end)


SCALAR = ("SCALAR",)


def scenarios():
    """Ordered list of (name, description dict)."""
    out = []

    def add(name, args, call, wrap, kind, cxx, hyps=()):
        out.append((name, dict(args=args, call=call, wrap=wrap, kind=kind, cxx=cxx, hyps=list(hyps))))

    # ---- arith ----
    def binary(oa, ob, tag, places):
        for pn in places:
            a_s, a_e, b_s, b_e = PLACES[pn]
            args = [("a", spl(oa, a_s, a_e)), ("b", spl(ob, b_s, b_e))]
            for op, fn, sym in (("add", "spl_add", "+"), ("sub", "spl_sub", "-"), ("mul", "spl_mul", "*")):
                add("arith_%s_%s_%s" % (op, tag, pn), args, "%s {a} {b}" % fn, "ok", "spline", "a %s b" % sym)

    def inplace(oa, ob, tag, places):
        for pn in places:
            a_s, a_e, b_s, b_e = PLACES[pn]
            args = [("a", spl(oa, a_s, a_e)), ("b", spl(ob, b_s, b_e))]
            add("arith_iadd_%s_%s" % (tag, pn), args, "spl_iadd {a} {b}", "ok", "spline", "a += b; a")
            add("arith_isub_%s_%s" % (tag, pn), args, "spl_isub {a} {b}", "ok", "spline", "a -= b; a")

    def scalar(oa, tag, win):
        suffix = "%s_%s" % (tag, win[0])
        a = ("a", spl(oa, win[1], win[2]))
        c = ("c", SCALAR)
        nz = ["feqb {c} f0 = false"]
        add("arith_scalel_" + suffix, [a, c], "spl_scale_l {c} {a}", "eq", "spline", "c * a")
        add("arith_scale_" + suffix, [a, c], "spl_scale {a} {c}", "eq", "spline", "a * c")
        add("arith_div_" + suffix, [a, c], "spl_div {a} {c}", "ok", "spline", "a / c", nz)
        add("arith_neg_" + suffix, [a], "spl_neg {a}", "eq", "spline", "-a")
        add("arith_imul_" + suffix, [a, c], "spl_scale {a} {c}", "eq", "spline", "a *= c; a")
        add("arith_idiv_" + suffix, [a, c], "spl_div {a} {c}", "ok", "spline", "a /= c; a", nz)

    binary(1, 1, "11", ["ident", "ainb", "bina", "stag", "touch", "disj", "aempty", "bempty", "apoint"])
    binary(1, 2, "12", ["ainb", "stag", "disj"])
    binary(0, 2, "02", ["bina", "stag", "touch"])
    inplace(1, 1, "11", ["stag", "touch"])
    inplace(2, 1, "21", ["ainb", "disj"])
    scalar(1, "1", ("g02", 0, 3))
    scalar(2, "2", WIN_G13)
    a = ("a", spl(1, 0, 3))
    add("arith_iadd_11_self", [a], "spl_iadd {a} {a}", "ok", "spline", "a += a; a")
    add("arith_isub_11_self", [a], "spl_isub {a} {a}", "ok", "spline", "a -= a; a")
    add("arith_assignup_21_g13", [("a", spl(2, 0, 2)), ("b", spl(1, 1, 4))], "spl_assign_up 2 {b}", "ok", "spline",
        "a = b; a   (a of order 2, b of order 1)")
    add("arith_assignup_20_empty", [("a", spl(2, 0, 4)), ("b", spl(0, 0, 0))], "spl_assign_up 2 {b}", "ok", "spline",
        "a = b; a   (a of order 2, b of order 0)")
    eq = "   (b on a distinct Grid object holding the same points)"
    add("arith_add_11_eqgrid", [a, ("b", spl(1, 1, 4))], "spl_add {a} {b}", "ok", "spline", "a + b" + eq)
    add("arith_mul_11_eqgrid", [a, ("b", spl(1, 1, 4))], "spl_mul {a} {b}", "ok", "spline", "a * b" + eq)
    cs = [("c0", SCALAR), ("c1", SCALAR), ("c2", SCALAR)]
    add("arith_lincomb_overlap", [("s", spl(1, 0, 3)), ("t", spl(1, 1, 4)), ("u", spl(1, 1, 3))] + cs,
        "lin_comb [{c0}; {c1}; {c2}] [{s}; {t}; {u}]", "ok", "spline",
        "linearCombination(vector{c0, c1, c2}, vector{s, t, u})")
    add("arith_lincomb_gap", [("s", spl(1, 2, 4)), ("t", spl(1, 0, 0)), ("u", spl(1, 0, 2))] + cs,
        "lin_comb [{c0}; {c1}; {c2}] [{s}; {t}; {u}]", "ok", "spline",
        "linearCombination(cs.begin(), cs.end(), ss.begin(), ss.end()), cs = {c0, c1, c2}, ss = {s, t, u}")

    # ---- apply ----
    v = ("v", spl(1, 0, 3))
    c = ("c", SCALAR)
    applies = [
        ("id", [], "EId", "IdentityOperator{}"),
        ("dx1", [], "EDer 1", "Dx<1>{}"),
        ("dx2", [], "EDer 2", "Dx<2>{}"),
        ("dx3", [], "EDer 3", "Dx<3>{}"),
        ("x1", [], "EPos 1", "X<1>{}"),
        ("x2", [], "EPos 2", "X<2>{}"),
        ("x1dx1", [], "EMul (EPos 1) (EDer 1)", "X<1>{} * Dx<1>{}"),
        ("dx1x1", [], "EMul (EDer 1) (EPos 1)", "Dx<1>{} * X<1>{}"),
        ("comm", [], "ESub (EMul (EPos 1) (EDer 1)) (EMul (EDer 1) (EPos 1))",
         "X<1>{} * Dx<1>{} - Dx<1>{} * X<1>{}"),
        ("hamil", [("mh", SCALAR), ("ph", SCALAR)],
         "EAdd (ESMulL (ScF {mh}) (EDer 2)) (ESMulL (ScF {ph}) (EPos 2))",
         "mh * Dx<2>{} + ph * X<2>{}, mh = static_cast<T>(-1) / static_cast<T>(2), ph = static_cast<T>(1) / static_cast<T>(2)"),
        ("int3x1", [], "ESMulL (ScI 3) (EPos 1)", "3 * X<1>{}"),
        ("x1div2", [], "EDivS (EPos 1) (ScI 2)", "X<1>{} / 2"),
        ("x1mulc", [c], "ESMulR (EPos 1) (ScF {c})", "X<1>{} * c"),
        ("x1plusc", [c], "EAddS (EPos 1) (ScF {c})", "X<1>{} + c"),
        ("cplusx1", [c], "ESAdd (ScF {c}) (EPos 1)", "c + X<1>{}"),
        ("x1minusc", [c], "ESubS (EPos 1) (ScF {c})", "X<1>{} - c"),
        ("cminusdx1", [c], "ESSub (ScF {c}) (EDer 1)", "c - Dx<1>{}"),
        ("x1divc", [c], "EDivS (EPos 1) (ScF {c})", "X<1>{} / c", ["feqb {c} f0 = false"]),
        ("negx1", [], "ENeg (EPos 1)", "-X<1>{}"),
        ("splv", [v], "ESpl {v}", "SplineOperator{v}"),
        ("splvdx1", [v], "EMul (ESpl {v}) (EDer 1)", "SplineOperator{v} * Dx<1>{}"),
    ]
    for nm, extra, ex, cxx, *hyps in applies:
        for win in (WIN_G13, WIN_WHOLE):
            add("apply_%s_%s" % (nm, win[0]), [("a", spl(2, win[1], win[2]))] + extra,
                "apply (elab (%s)) {a}" % ex, "ok", "spline", "(%s) * a" % cxx, hyps[0] if hyps else ())

    for nm, extra, ex, cxx in (("dx1", [], "EDer 1", "Dx<1>{}"), ("x1", [], "EPos 1", "X<1>{}"),
                               ("splv", [v], "ESpl {v}", "SplineOperator{v}")):
        for win in (("empty", 0, 0), ("point", 2, 3)):
            add("apply_%s_%s" % (nm, win[0]), [("a", spl(2, win[1], win[2]))] + extra,
                "apply (elab (%s)) {a}" % ex, "ok", "spline", "(%s) * a" % cxx)
    add("apply_splveq_whole", [("a", spl(2, 0, 4)), v], "apply (elab (ESpl {v})) {a}", "ok", "spline",
        "(SplineOperator{v}) * a   (v on a distinct Grid object holding the same points)")

    # ---- bilin ----
    mh = ("mh", SCALAR)
    pairs = [
        ("id_id", [], "EId", "EId", "BilinearForm{IdentityOperator{}, IdentityOperator{}}"),
        ("dx1_id", [], "EDer 1", "EId", "BilinearForm{Dx<1>{}, IdentityOperator{}}"),
        ("dx1_dx1", [], "EDer 1", "EDer 1", "BilinearForm{Dx<1>{}, Dx<1>{}}"),
        ("x1_id", [], "EPos 1", "EId", "BilinearForm{X<1>{}, IdentityOperator{}}"),
        ("id_x2", [], "EId", "EPos 2", "BilinearForm{X<2>{}}"),
        ("x1dx1_dx1", [], "EMul (EPos 1) (EDer 1)", "EDer 1", "BilinearForm{X<1>{} * Dx<1>{}, Dx<1>{}}"),
        ("splv_id", [v], "ESpl {v}", "EId", "BilinearForm{SplineOperator{v}, IdentityOperator{}}"),
        ("hamv_id", [v, mh], "EAdd (ESMulL (ScF {mh}) (EDer 2)) (ESpl {v})", "EId",
         "BilinearForm{mh * Dx<2>{} + SplineOperator{v}, IdentityOperator{}}, mh = static_cast<T>(-1) / static_cast<T>(2)"),
    ]
    bplaces = [("nest", (0, 4, 1, 3)), ("anest", (1, 3, 0, 4)), ("stag", (1, 4, 0, 3)), ("disj", (0, 2, 2, 4))]
    for nm, extra, e1, e2, cxx in pairs:
        for oa, ob, tag, with_call in ((1, 1, "11", True), (2, 1, "21", False), (1, 2, "12", False)):
            call = "bilinear (elab (%s)) (elab (%s)) {a} {b}" % (e1, e2)
            for pn, (a_s, a_e, b_s, b_e) in bplaces:
                add("bilin_%s_%s_%s" % (nm, tag, pn), [("a", spl(oa, a_s, a_e)), ("b", spl(ob, b_s, b_e))] + extra,
                    call, "ok", "scalar", "%s.evaluate(a, b)" % cxx)
            if with_call:
                a_s, a_e, b_s, b_e = bplaces[0][1]
                add("bilin_%s_%s_call" % (nm, tag), [("a", spl(oa, a_s, a_e)), ("b", spl(ob, b_s, b_e))] + extra,
                    call, "ok", "scalar", "%s(a, b)" % cxx)

    add("bilin_x1_id_11_eqgrid", [("a", spl(1, 1, 4)), ("b", spl(1, 0, 3))],
        "bilinear (elab (EPos 1)) (elab (EId)) {a} {b}", "ok", "scalar",
        "BilinearForm{X<1>{}, IdentityOperator{}}.evaluate(a, b)   (b on a distinct Grid object holding the same points)")

    # ---- lin ----
    lins = [
        ("id", [], "EId", "LinearForm{IdentityOperator{}}"),
        ("x1", [], "EPos 1", "LinearForm{X<1>{}}"),
        ("x2", [], "EPos 2", "LinearForm{X<2>{}}"),
        ("dx1", [], "EDer 1", "LinearForm{Dx<1>{}}"),
        ("splv", [v], "ESpl {v}", "LinearForm{SplineOperator{v}}"),
        ("cx1", [c], "ESMulL (ScF {c}) (EPos 1)", "LinearForm{c * X<1>{}}"),
    ]
    for nm, extra, ex, cxx in lins:
        for oa, tag, with_call in ((1, "1", False), (2, "2", True)):
            call = "linear (elab (%s)) {a}" % ex
            for win in (WIN_WHOLE, WIN_G13):
                add("lin_%s_%s_%s" % (nm, tag, win[0]), [("a", spl(oa, win[1], win[2]))] + extra,
                    call, "ok", "scalar", "%s.evaluate(a)" % cxx)
            if with_call:
                add("lin_%s_%s_call" % (nm, tag), [("a", spl(oa, WIN_WHOLE[1], WIN_WHOLE[2]))] + extra,
                    call, "ok", "scalar", "%s(a)" % cxx)
    add("lin_splv_1_eqgrid", [("a", spl(1, 1, 4)), v], "linear (elab (ESpl {v})) {a}", "ok", "scalar",
        "LinearForm{SplineOperator{v}}.evaluate(a)   (v on a distinct Grid object holding the same points)")
    return out


# ------------------------------------------------------------------------------------------------
# objects:  SCALAR <term>  |  SPLINE <order> <start> <end> <ngrid> <nintervals> <ncoef> <terms>
# ------------------------------------------------------------------------------------------------
def parse_object(text, where):
    m = re.match(r"SCALAR (.*)$", text)
    if m:
        ts = Parser(m.group(1), where).terms()
        if len(ts) != 1:
            die(5, "%s: a scalar object with %d terms" % (where, len(ts)))
        return dict(kind="scalar", term=ts[0])
    m = re.match(r"SPLINE (\d+) (\d+) (\d+) (\d+) (\d+) (\d+) ?(.*)$", text)
    if not m:
        die(5, "%s: unexpected object %r" % (where, text[:200]))
    order, start, end, ngrid, nint, ncoef = (int(x) for x in m.groups()[:6])
    ts = Parser(m.group(7), where).terms()
    if len(ts) != ngrid + nint * ncoef:
        die(5, "%s: announces %d grid points and %d x %d coefficients, prints %d terms"
            % (where, ngrid, nint, ncoef, len(ts)))
    if ncoef != order + 1:
        die(5, "%s: %d coefficients per interval for order %d" % (where, ncoef, order))
    grid = ts[:ngrid]
    if grid != [("v", g) for g in GRID]:
        die(5, "%s: the object does not live on the grid %s" % (where, GRID))
    coefs = [ts[ngrid + i * ncoef: ngrid + (i + 1) * ncoef] for i in range(nint)]
    return dict(kind="spline", order=order, start=start, end=end, coefs=coefs)


def object_terms(o):
    return [o["term"]] if o["kind"] == "scalar" else [t for c in o["coefs"] for t in c]


def glist(xs):
    return "[" + "; ".join(xs) + "]"


def gterm(t):
    s = gallina(t)
    return "(%s)" % s if t[0] == "c" else s


def coefs_text(coefs, sep):
    return "[" + sep.join(glist([gterm(t) for t in c]) for c in coefs) + "]"


def operand_text(o):
    """an operand as a term of the model"""
    if o["kind"] == "scalar":
        return gterm(o["term"])
    return "(mkSpl (mkSup %s %d%%N %d%%N) %d%%nat %s)" % (glist(GRID), o["start"], o["end"], o["order"],
                                                       coefs_text(o["coefs"], "; "))


# ------------------------------------------------------------------------------------------------
def source_key(inc):
    h = hashlib.sha256()
    files = [SRC, SYM_HEADER, SYMKERN_PY, os.path.abspath(__file__)]
    for root, _, fs in os.walk(inc):
        files += [os.path.join(root, f) for f in fs]
    for f in sorted(files):
        h.update(f.encode() + b"\0")
        with open(f, "rb") as fh:
            h.update(fh.read())
    return h.hexdigest()[:24]


def build_and_run():
    """the program is rebuilt and re-run whenever a header, cpp/symops.cpp, cpp/symkern_sym.h or the scripts
    changed (content hash); otherwise the recorded output of the run on exactly these sources is reused"""
    os.makedirs(BUILD, exist_ok=True)
    inc = os.path.join(REPO, "include")
    if not os.path.isdir(os.path.join(inc, "bspline")):
        die(2, "no library headers under %s (VERIF_REPO=%s)" % (inc, REPO))
    cache = os.path.join(BUILD, "out-" + source_key(inc) + ".txt")
    if os.path.exists(cache) and not os.environ.get("VERIF_NO_CACHE"):
        with open(cache) as f:
            lines = f.read().splitlines()
        if lines and lines[-1] == "END":
            return lines[:-1]
    lines = build_and_run_uncached(inc)
    with open(cache, "w") as f:
        f.write("\n".join(lines + ["END"]) + "\n")
    return lines


def build_and_run_uncached(inc):
    exe = os.path.join(BUILD, "symops-%d" % os.getpid())
    log = os.path.join(BUILD, "compile.log")
    cmd = [CXX] + CXXFLAGS + ["-I" + inc, SRC, "-o", exe]
    try:
        p = subprocess.run(cmd, stdout=subprocess.PIPE, stderr=subprocess.STDOUT, universal_newlines=True)
        if p.returncode != 0 or not os.path.exists(exe):
            with open(log, "w") as f:
                f.write(p.stdout)
            lines = p.stdout.splitlines()
            errs = []
            for l in lines:
                if re.search(r"\berror\b", l) and l not in errs:
                    errs.append(l)
            shown = errs[:8] + (["... (%d more error lines)" % (len(errs) - 8)] if len(errs) > 8 else [])
            die(2, "cpp/symops.cpp does NOT COMPILE against %s (full log: %s):\n  %s\n%s"
                % (inc, log, " ".join(cmd), "\n".join(shown or lines[:20])))
        if os.path.exists(log):
            os.remove(log)
        p = subprocess.run([exe], stdout=subprocess.PIPE, stderr=subprocess.PIPE, universal_newlines=True)
    finally:
        if os.path.exists(exe):
            os.remove(exe)
    if p.returncode != 0:
        done = [l.split()[1] for l in p.stdout.splitlines() if l.startswith("OP ")]
        die(3, "the operations program CRASHED (exit status %d) after scenario %s:\n%s"
            % (p.returncode, done[-1] if done else "<none>", p.stderr[-2000:]))
    lines = p.stdout.splitlines()
    if not lines or lines[-1] != "END":
        die(3, "the operations program did not run to completion (no END marker)")
    return lines[:-1]


def collect(lines):
    """name -> (operands: list of (tag, object), result object); dies on BRANCH / UNINIT / EXCEPTION."""
    args = {}
    got = {}
    bad = []
    for line in lines:
        m = re.match(r"ARG (\S+) (\S+) (.*)$", line)
        if m:
            name, tag, rest = m.groups()
            if name in got or any(name == b[0] for b in bad):
                die(5, "scenario %s: operand printed after the result" % name)
            if not re.fullmatch(r"[a-z][a-z0-9]*", tag):
                die(5, "scenario %s: bad operand tag %r" % (name, tag))
            if any(tag == t for t, _ in args.get(name, [])):
                die(5, "scenario %s: operand %s printed twice" % (name, tag))
            args.setdefault(name, []).append((tag, parse_object(rest, "%s operand %s" % (name, tag))))
            continue
        m = re.match(r"OP (\S+) (\S+) ?(.*)$", line)
        if not m:
            die(5, "unexpected output line: %r" % line[:200])
        name, tag, rest = m.groups()
        if name in got or any(name == b[0] for b in bad):
            die(5, "scenario %s reported twice" % name)
        if tag in ("BRANCH", "UNINIT", "EXCEPTION"):
            bad.append((name, tag, rest))
            continue
        got[name] = (args.get(name, []), parse_object(tag + " " + rest, name))
    if bad:
        msg = ["%d scenario(s) did not yield an object:" % len(bad)]
        for name, tag, rest in bad:
            why = {"BRANCH": "the operation compared scalar values (the object would not describe every run)",
                   "UNINIT": "the result depends on a default-constructed scalar",
                   "EXCEPTION": "the operation threw"}[tag]
            msg.append("  %-28s %-9s %s: %s" % (name, tag, why, rest[:160] + (" ..." if len(rest) > 160 else "")))
        die(4, "\n".join(msg))
    return got


def generate(got):
    scs = scenarios()
    expected = [n for n, _ in scs]
    if len(set(expected)) != len(expected):
        die(5, "internal: duplicate scenario names in the table")
    missing = [n for n in expected if n not in got]
    extra = [n for n in got if n not in set(expected)]
    if missing or extra:
        die(5, "scenario list mismatch: missing %s; unexpected %s" % (missing or "-", extra or "-"))

    per = {}        # scenario -> (definition text, lemma text, statement)
    for name, d in scs:
        operands, result = got[name]
        # the operands the C++ program built are the ones the table announces
        shapes = []
        for tag, o in operands:
            shapes.append((tag, SCALAR if o["kind"] == "scalar" else spl(o["order"], o["start"], o["end"])))
        if shapes != [(t, s) for t, s in d["args"]]:
            die(5, "scenario %s: the program built the operands %s, the table says %s" % (name, shapes, d["args"]))
        # variables: the grid points, then every variable of the operands in order of appearance
        vars_ = list(GRID)
        for tag, o in operands:
            for t in object_terms(o):
                if o["kind"] == "spline" and t[0] != "v":
                    die(5, "scenario %s: coefficient of operand %s is not a variable" % (name, tag))
                for x in sorted(variables(t, set())):
                    if x not in vars_:
                        vars_.append(x)
        used = set()
        for t in object_terms(result):
            variables(t, used)
        unknown = sorted(used - set(vars_))
        if unknown:
            die(5, "scenario %s: the result mentions undeclared variable(s) %s" % (name, unknown))
        if result["kind"] != d["kind"]:
            die(5, "scenario %s: the result is a %s, the table says %s" % (name, result["kind"], d["kind"]))

        binder = " (%s : F)" % " ".join(vars_)
        app = "(o_%s %s)" % (name, " ".join(vars_))
        if d["kind"] == "scalar":
            body, ty = gterm(result["term"]), "F"
            rhs = app
        else:
            body = "mkRes %d%%nat %d%%N %d%%N\n      %s" % (result["order"], result["start"], result["end"],
                                                         coefs_text(result["coefs"], ";\n       "))
            ty = "sres F"
            rhs = "(to_spline %s %s)" % (glist(GRID), app)
        deftext = "  (* %s *)\n  Definition o_%s%s : %s :=\n    %s.\n" % (d["cxx"], name, binder, ty, body)

        env = {tag: operand_text(o) for tag, o in operands}
        call = d["call"].format(**env)
        hyps = "".join(h.format(**env) + " ->\n    " for h in d["hyps"])
        stmt = "forall %s : F,\n    %s%s =\n    %s%s" % (" ".join(vars_), hyps, call, "Ok " if d["wrap"] == "ok" else "", rhs)
        lemma = "Lemma o_%s_ok {F} {K : Ops F} {L : Laws K} :\n  %s.\nProof. ops_tac. Qed.\n" % (name, stmt)
        per[name] = (deftext, lemma, stmt)

    head = """(* %s — GENERATED by gen/symops.py on every run; do not edit.
   %s.
   Each o_<scenario> is the object a real C++ public operation returns, obtained by compiling and
   running include/bspline over the symbolic scalar type of cpp/symkern_sym.h (driver
   cpp/symops.cpp): the grid points g0 < g1 < g2 < g3 and every coefficient of every operand are
   named variables, windows [start, end) and orders are concrete; `static_cast<T>(c)` is `fofZ c`,
   a compound assignment `x op= y` is `x op y`.  A spline result is printed through its public
   accessors (order, getStartIndex, getEndIndex, getCoefficients; its grid is checked to be
   g0..g3).  No operation compared scalar values after its operands were built and no result
   depends on a default-constructed scalar (the generator refuses to write this file otherwise),
   so each object describes the computation for every scalar type.
   Each o_<scenario>_ok states that the hand-written model operation (the one coq/Pool.v's eval_op
   uses for the same C++ call), applied to the same symbolic operands - read back from the
   objects the C++ program constructed - returns exactly that object in every ordered field; the
   only premise ever used is the documented precondition of a division (divisor <> 0).  The proof
   script is fixed (ops_tac, coq/Proofs_OpsTac.v).  ops_%s_agree is the conjunction of the
   statements.  %d scenarios. *)
From Coq Require Import List ZArith NArith.
From BSpl Require Import Scalar Outcome Support Poly Spline Ops Forms Proofs_KernelTac Proofs_OpsTac.
Import ListNotations.
Local Open Scope F_scope.

Section OpsGen.
  Context {F : Type} {K : Ops F}.

"""
    mid = """End OpsGen.

"""

    def nest(xs):
        return xs[0] if len(xs) == 1 else "(conj %s %s)" % (xs[0], nest(xs[1:]))

    files = {}
    for fam in FAMILIES:
        fname = "OpsGen_%s.v" % fam
        members = [n for n, _ in scs if n.split("_")[0] == fam]
        defs = [per[n][0] for n in members]
        lemmas = [per[n][1] for n in members]
        conj = " /\\\n    ".join("(%s)" % per[n][2].replace("\n    ", "\n      ") for n in members)
        proof = nest(["(@o_%s_ok F K L)" % n for n in members])
        summary = ("(* %d scenarios *)\nDefinition ops_%s_agree : Prop :=\n  forall (F : Type) (K : Ops F) (L : Laws K),\n    %s.\n"
                   "Lemma ops_%s_agree_ok : ops_%s_agree.\nProof. intros F K L. exact %s. Qed.\n"
                   % (len(members), fam, conj, fam, fam, proof))
        tail = "\nPrint Assumptions ops_%s_agree_ok.\n" % fam
        files[fname] = (head % (fname, FAMILY_DOC[fam], fam, len(members)) + "\n".join(defs) + mid
                        + "\n".join(lemmas) + "\n" + summary + tail)
    if set(n.split("_")[0] for n, _ in scs) != set(FAMILIES):
        die(5, "internal: a scenario belongs to no family")
    return files


def main():
    ap = argparse.ArgumentParser(description=__doc__, formatter_class=argparse.RawDescriptionHelpFormatter)
    ap.add_argument("--out", metavar="DIR", default=DEFAULT_OUT, help="directory for OpsGen_<family>.v")
    ap.add_argument("--print", dest="print_", action="store_true", help="print to stdout, write nothing")
    args = ap.parse_args()

    files = generate(collect(build_and_run()))
    if args.print_:
        for fname, text in files.items():
            sys.stdout.write(text)
        return
    os.makedirs(args.out, exist_ok=True)
    for fname, text in files.items():
        path = os.path.join(args.out, fname)
        old = None
        if os.path.exists(path):
            with open(path) as f:
                old = f.read()
        if old != text:
            with open(path, "w") as f:
                f.write(text)
            print("symops.py: wrote %s" % path)
    print("symops.py: %d scenarios in %d files under %s" % (len(scenarios()), len(files), args.out))


if __name__ == "__main__":
    main()

#!/usr/bin/env python3
"""mkprops.py — (development tool, not part of a check run) writes coq/Properties_<id>.v
from the table below: each theorem's statement is the full type of the proved lemma as
Coq prints it, so the property file shows every statement at full strength and closes
each by `exact`.  The files it writes are committed and compiled like any other source;
a statement is re-parsed and re-checked by the kernel when the file compiles."""
import os
import re
import subprocess
import sys

COQ = os.path.join(os.path.dirname(os.path.dirname(os.path.abspath(__file__))), "coq")

HEAD = """(* Properties_{pid}.v — {title}
   Statements only: every theorem is closed by [exact <lemma>] and followed by
   Print Assumptions.  The statements quantify over every scalar structure
   (F, K : Ops F) that satisfies the ordered-field laws (Laws K), and over all
   grids, windows, orders, coefficient values, expressions etc. named in them.
{blurb} *)
From Coq Require Import List NArith ZArith Arith Bool.
From BSpl Require Import {imports}.
Import ListNotations.

"""

IMPORTS = ("Scalar Outcome Support Poly Spline Ops Forms Generator Interp Spec Spec_Ops Spec_Gen "
           "Proofs_Support Proofs_Scalar Proofs_Poly Proofs_Binom Proofs_Eval Proofs_Outcome Proofs_Spline "
           "Proofs_Forms Proofs_Ops Proofs_Forms2 Proofs_Interp Proofs_Pred Proofs_Gen Instances Instances_Ext Proofs_Valid Solver Pool Quad Proofs_Pool Proofs_Quad Proofs_Rounded Proofs_Threads Proofs_Updates Examples Proofs_Examples Proofs_Analysis Proofs_Smooth Proofs_Laws")

TABLE = {
    "C02": ("evaluation returns the value of the stored piecewise polynomial", """
   den s k x = peval (piece s k) (x - mid k) is the polynomial stored for grid interval k.
   Zero outside the closed support; inside, the value of the piece whose interval contains x
   (left piece at an interior grid point, first piece at the first point); both ends inside;
   front/back are the end points and throw INVALID_ACCESS for the empty support; never UB.""", [
        ("C02_no_interval", "Proofs_Eval.seval_no_interval"),
        ("C02_outside", "Proofs_Eval.seval_outside"),
        ("C02_inside", "Proofs_Eval.seval_inside"),
        ("C02_zero_or_adjacent_piece", "Proofs_Eval.seval_cases"),
        ("C02_total", "Proofs_Eval.seval_total"),
        ("C02_front", "Proofs_Eval.spl_front_spec"),
        ("C02_back", "Proofs_Eval.spl_back_spec"),
        ("C02_den_outside", "Proofs_Eval.den_outside"),
        ("C02_lower_bound_contract", "Proofs_Eval.lower_bound_spec"),
    ]),
    "C03": ("spline arithmetic is pointwise arithmetic of the denoted functions", """
   Every equation on den holds for ALL interval indices k and all x: den is zero where a
   spline is not supported, so "zero wherever the result is not supported" is part of it.""", [
        ("C03_scale", "Proofs_Spline.spl_scale_den"),
        ("C03_scale_l", "Proofs_Spline.spl_scale_l_den"),
        ("C03_neg", "Proofs_Spline.spl_neg_den"),
        ("C03_scale_inv", "Proofs_Spline.spl_scale_inv"),
        ("C03_div", "Proofs_Spline.spl_div_spec"),
        ("C03_assign_up", "Proofs_Spline.spl_assign_up_spec"),
        ("C03_add", "Proofs_Spline.spl_add_spec"),
        ("C03_sub", "Proofs_Spline.spl_sub_spec"),
        ("C03_mul", "Proofs_Spline.spl_mul_spec"),
        ("C03_iadd_is_add", "Proofs_Spline.spl_iadd_eq"),
        ("C03_isub_is_sub", "Proofs_Spline.spl_isub_eq"),
        ("C03_iadd", "Proofs_Spline.spl_iadd_spec"),
        ("C03_isub", "Proofs_Spline.spl_isub_spec"),
        ("C03_lin_comb", "Proofs_Spline.lin_comb_spec_strong"),
        ("C03_update_sequences", "Proofs_Updates.apply_upds_spec"),
    ]),
    "C04": ("primitive operators are d^n/dx^n and multiplication by x^n on every interval", """
   pderiv is characterised (linear, Leibniz, kills constants, D X = 1), so
   transform (ODer n) = pderivn n says "the n-th derivative of the stored polynomial".""", [
        ("C04_identity_transform", "Proofs_Ops.transform_id"),
        ("C04_identity_apply", "Proofs_Ops.apply_id"),
        ("C04_derivative_transform", "Proofs_Ops.transform_der"),
        ("C04_derivative_value", "Proofs_Ops.peval_transform_der"),
        ("C04_derivative_coefficients", "Proofs_Poly.nth_pderivn"),
        ("C04_D_additive", "Proofs_Poly.peval_pderiv_padd"),
        ("C04_D_homogeneous", "Proofs_Poly.peval_pderiv_pscale_l"),
        ("C04_D_leibniz", "Proofs_Poly.peval_pderiv_pmul"),
        ("C04_D_const", "Proofs_Poly.pderiv_const"),
        ("C04_D_X", "Proofs_Poly.peval_pderiv_X"),
        ("C04_position_transform", "Proofs_Ops.transform_pos"),
        ("C04_position_value", "Proofs_Ops.peval_transform_pos"),
        ("C04_binomial_expansion", "Proofs_Binom.expand_power_spec"),
        ("C04_binomial_pascal", "Proofs_Binom.binomial_pascal"),
        ("C04_apply", "Proofs_Ops.apply_spec"),
        ("C04_zero_outside", "Proofs_Ops.peval_dsem_nil"),
    ]),
    "C05": ("operator expressions act as the differential expression they spell", """
   dsem (Spec_Ops.v) is the compositional meaning of the surface syntax; elab mirrors the
   class each overload constructs.""", [
        ("C05_scalar_value", "Proofs_Ops.cast_sval"),
        ("C05_reciprocal", "Proofs_Ops.cast_recip"),
        ("C05_expr_sound", "Proofs_Ops.expr_sound"),
        ("C05_apply", "Proofs_Ops.apply_spec"),
        ("C05_zero_outside", "Proofs_Ops.peval_dsem_nil"),
        ("C05_commutator", "Proofs_Ops.commutator"),
        ("C05_meaning_depends_on_function_only", "Proofs_Ops.dsem_ext"),
        ("C05_additive", "Proofs_Ops.dsem_add"),
        ("C05_homogeneous", "Proofs_Ops.dsem_scale"),
        ("C05_factor_on_other_grid", "Proofs_Ops.apply_differing"),
        ("C05_law_product", "Proofs_Laws.law_product"),
        ("C05_law_sum", "Proofs_Laws.law_sum"),
        ("C05_law_difference", "Proofs_Laws.law_difference"),
        ("C05_law_scalar_left", "Proofs_Laws.law_scalar_left"),
        ("C05_law_scalar_right", "Proofs_Laws.law_scalar_right"),
        ("C05_law_add_scalar", "Proofs_Laws.law_add_scalar"),
        ("C05_law_scalar_add", "Proofs_Laws.law_scalar_add"),
        ("C05_law_sub_scalar", "Proofs_Laws.law_sub_scalar"),
        ("C05_law_scalar_sub", "Proofs_Laws.law_scalar_sub"),
        ("C05_law_div_scalar", "Proofs_Laws.law_div_scalar"),
        ("C05_law_neg", "Proofs_Laws.law_neg"),
        ("C05_law_spline_factor", "Proofs_Laws.law_spline_factor"),
        ("C05_law_spline_factor_is_product", "Proofs_Laws.law_spline_factor_den_eq"),
        ("C05_law_commutator", "Proofs_Laws.law_commutator"),
        ("C05_law_identity", "Proofs_Laws.law_identity"),
    ]),
    "C06": ("bilinear forms equal the exact integral of the two transformed splines", """
   defint p h is the antiderivative difference over [-h, h] (C06_defint_is_integral).""", [
        ("C06_defint_is_integral", "Proofs_Forms.defint_is_integral"),
        ("C06_kernel", "Proofs_Forms.bi_kernel_spec"),
        ("C06_exact", "Proofs_Forms2.bilinear_exact"),
        ("C06_total", "Proofs_Forms2.bilinear_total"),
        ("C06_no_common_interval", "Proofs_Forms2.bilinear_no_common_exact"),
        ("C06_swap", "Proofs_Forms2.bilinear_swap"),
        ("C06_scalar_product", "Proofs_Forms2.scalar_product"),
        ("C06_add_l", "Proofs_Forms2.bilinear_add_l"),
        ("C06_scale_l", "Proofs_Forms2.bilinear_scale_l"),
        ("C06_add_r", "Proofs_Forms2.bilinear_add_r"),
        ("C06_scale_r", "Proofs_Forms2.bilinear_scale_r"),
        ("C06_differing", "Proofs_Forms.bilinear_differing"),
    ]),
    "C07": ("linear forms equal the exact integral and agree with the bilinear form", "", [
        ("C07_defint_is_integral", "Proofs_Forms.defint_is_integral"),
        ("C07_kernel", "Proofs_Forms.lin_kernel_spec"),
        ("C07_exact", "Proofs_Forms2.linear_exact"),
        ("C07_total", "Proofs_Forms2.linear_total"),
        ("C07_no_interval", "Proofs_Forms2.linear_no_interval_exact"),
        ("C07_add", "Proofs_Forms2.linear_add"),
        ("C07_scale", "Proofs_Forms2.linear_scale"),
        ("C07_bilinear_is_linear_of_product", "Proofs_Forms2.bilinear_is_linear_of_product"),
    ]),
    "C12": ("interpolation reproduces the data with the promised smoothness and boundaries", """
   Relative to the solver: the theorems hold for EVERY vector that solves the assembled
   system (solves rows c); unique solvability is not needed.""", [
        ("C12_system_ok", "Proofs_Interp.interp_system_ok"),
        ("C12_spec", "Proofs_Interp.interp_spec"),
        ("C12_interpolate", "Proofs_Interp.interpolate_spec"),
        ("C12_default_boundaries_ok", "Proofs_Interp.default_boundaries_ok"),
        ("C12_default_boundaries", "Proofs_Interp.default_boundaries_spec"),
        ("C12_value_row", "Proofs_Interp.row_apply_value_row"),
        ("C12_derivative_row", "Proofs_Interp.row_apply_deriv_entries"),
        ("C12_count_mismatch", "Proofs_Interp.interp_system_count"),
        ("C12_too_few", "Proofs_Interp.interp_system_few"),
        ("C12_bad_derivative", "Proofs_Interp.interp_system_bad_deriv"),
    ]),
    "C01": ("generated basis functions are exactly the Cox-de Boor B-splines of the knots", """
   B (Spec_Gen.v) is the textbook recursion on the knot list; it mentions neither grids nor
   windows nor midpoints.  den l_i k x = B ks p i x for every x in [g_k, g_{k+1}).""", [
        ("C01_count", "Proofs_Gen.gen_count"),
        ("C01_too_few_knots", "Proofs_Gen.gen_too_few"),
        ("C01_is_cox_de_boor", "Proofs_Gen.gen_is_cox_de_boor"),
        ("C01_order0", "Proofs_Gen.gen0_is_cox_de_boor"),
        ("C01_eval_interior", "Proofs_Gen.gen_eval_interior"),
        ("C01_local_support", "Proofs_Gen.B_local_support"),
        ("C01_nonnegative", "Proofs_Gen.B_nonneg"),
        ("C01_partition_of_unity", "Proofs_Gen.B_partition_of_unity"),
        ("C01_smooth_across_knots", "Proofs_Smooth.gen_smooth"),
        ("C01_smooth_at_every_grid_point", "Proofs_Smooth.gen_smooth_all"),
        ("C01_continuous", "Proofs_Smooth.gen_continuous"),
        ("C01_derivative_formula", "Proofs_Smooth.B_derivative_formula"),
        ("C01_smoothness_is_sharp_example", "Proofs_Smooth.gen_smooth_qc_examples"),
        ("C01_supplied_grid_route", "Proofs_Gen.gen_route2"),
        ("C01_supplied_grid_mismatch", "Proofs_Gen.gen_route2_mismatch"),
        ("C01_constructor", "Proofs_Gen.gen_ctor1_iff"),
        ("C01_grid_is_unique_knots", "Proofs_Gen.gen_ctor1_ok"),
    ]),
    "C08": ("operations across different grids are refused, never computed", """
   Function level (Throw DIFFERING_GRIDS) and lifted to the pool state machine: the step
   returns the unchanged state.  Grids are compared logically (lists of points), so distinct
   objects holding the same points are the same grid by construction of the model; that part
   is carried by the correspondence run (shared vs. separately constructed grid objects).""", [
        ("C08_add", "Proofs_Spline.spl_add_differing"),
        ("C08_sub", "Proofs_Spline.spl_sub_differing"),
        ("C08_mul", "Proofs_Spline.spl_mul_differing"),
        ("C08_iadd", "Proofs_Spline.spl_iadd_differing"),
        ("C08_isub", "Proofs_Spline.spl_isub_differing"),
        ("C08_lin_comb", "Proofs_Spline.lin_comb_differing"),
        ("C08_bilinear", "Proofs_Forms.bilinear_differing"),
        ("C08_integrate", "Proofs_Quad.integrate_differing"),
        ("C08_spline_factor", "Proofs_Ops.apply_differing"),
        ("C08_union", "Proofs_Support.calc_union_differing"),
        ("C08_intersection", "Proofs_Support.calc_inter_differing"),
        ("C08_generator", "Proofs_Gen.gen_ctor2_mismatch"),
        ("C08_step_add", "Proofs_Pool.c08_spl_add"),
        ("C08_step_sub", "Proofs_Pool.c08_spl_sub"),
        ("C08_step_mul", "Proofs_Pool.c08_spl_mul"),
        ("C08_step_iadd", "Proofs_Pool.c08_spl_iadd"),
        ("C08_step_isub", "Proofs_Pool.c08_spl_isub"),
        ("C08_step_union", "Proofs_Pool.c08_sup_union"),
        ("C08_step_inter", "Proofs_Pool.c08_sup_inter"),
        ("C08_step_bilin", "Proofs_Pool.c08_bilin"),
        ("C08_step_lin_comb", "Proofs_Pool.c08_lin_comb"),
        ("C08_step_gen2", "Proofs_Pool.c08_gen2"),
        ("C08_equal_grids_add", "Proofs_Spline.spl_add_spec"),
        ("C08_equal_grids_mul", "Proofs_Spline.spl_mul_spec"),
    ]),
    "C09": ("no operation touches memory outside its objects or runs into undefined behaviour", """
   The model makes every C++ partiality explicit: unchecked subscripts are `sub` (UB OOBRead when
   out of range), optional::value() is `value` (Throw BadOptionalAccess), vector::at is `at_`
   (Throw StdOutOfRange), zero divisors UB DivByZero.  no_ub: on every well-typed operation over a
   valid state none of these occurs — for every history.  Checked accessors throw for every index
   outside the view, for all 64-bit index values (C13 theorems, restated).  Object lifetimes,
   uninitialised storage and allocator behaviour are outside the model (sanitizer runs only).""", [
        ("C09_no_ub", "Proofs_Pool.no_ub"),
        ("C09_no_ub_history", "Proofs_Pool.no_ub_history"),
        ("C09_no_ub_with_model_solver", "Proofs_Pool.no_ub_gauss"),
        ("C09_transform_total", "Proofs_Pool.transform_total"),
        ("C09_support_at", "Proofs_Support.sup_at_spec"),
        ("C09_interval_index", "Proofs_Support.interval_index_spec"),
        ("C09_relative_index", "Proofs_Support.rel_from_abs_spec"),
        ("C09_absolute_index", "Proofs_Support.abs_from_rel_spec"),
        ("C09_eval_total", "Proofs_Eval.seval_total"),
    ]),
    "C10": ("objects are always valid: class invariants survive every history", "", [
        ("C10_init", "Proofs_Pool.inv_init"),
        ("C10_writes_valid", "Proofs_Pool.eval_op_inv"),
        ("C10_step", "Proofs_Pool.inv_step"),
        ("C10_run", "Proofs_Pool.inv_run"),
        ("C10_history", "Proofs_Pool.inv_history"),
        ("C10_history_with_model_solver", "Proofs_Pool.inv_history_gauss"),
        ("C10_moved_from_support", "Proofs_Pool.moved_from_sup"),
        ("C10_moved_from_support_assign", "Proofs_Pool.moved_from_sup_assign"),
        ("C10_moved_from_spline", "Proofs_Pool.moved_from_spl"),
        ("C10_moved_from_spline_assign", "Proofs_Pool.moved_from_spl_assign"),
        ("C10_moved_from_support_valid", "Proofs_Pool.moved_from_valid_sup"),
        ("C10_moved_from_spline_valid", "Proofs_Pool.moved_from_valid_spl"),
        ("C10_size_bound_needed", "Proofs_Pool.grid_size_bound_needed"),
    ]),
    "C14": ("value semantics: operations never disturb their operands or earlier results", "", [
        ("C14_frame", "Proofs_Pool.frame"),
        ("C14_frame_history", "Proofs_Pool.frame_run"),
        ("C14_writes_are_targets", "Proofs_Pool.eval_op_targets"),
        ("C14_throw_changes_nothing", "Proofs_Pool.throw_changes_nothing"),
        ("C14_ub_changes_nothing", "Proofs_Pool.ub_changes_nothing"),
        ("C14_observers_change_nothing", "Proofs_Pool.observers_change_nothing"),
        ("C14_copy_independent", "Proofs_Pool.copy_independent"),
        ("C14_copy_value", "Proofs_Pool.copy_value"),
    ]),
    "C16": ("floating-point results stay at rounding level of the exact result", """
   PARTIAL.  (i) The exact reference: the model at any ordered field, proved to be the mathematical
   object by C01-C07 (instances restated here at Qc).  (ii) Standard-model rounding bounds for the
   numerical kernels, over R: the SAME model code run with rounded operations (RndOps rnd, where
   rnd x = x(1+d), |d| <= u) against the exact instance: Horner evaluation about the midpoint, the
   even-power Horner scheme, the linear and bilinear interval kernels, with gamma k = (1+u)^k - 1,
   and the discharge of the rounding hypothesis for round-to-nearest-even with 53 bits (Flocq).
   These theorems depend on the standard library's real-number axioms and, through Flocq, on
   classical logic (printed below).  NOT proved: the bound for composite computations (B-spline
   generation through several recursion levels, operator chains) - validated by the check.""", [
        ("C16_horner", "Proofs_Rounded.horner_rounded_bound"),
        ("C16_horner_2n_bound_is_false", "Proofs_Rounded.horner_2n_bound_fails"),
        ("C16_even_horner", "Proofs_Rounded.even_horner_rounded_bound"),
        ("C16_linear_kernel", "Proofs_Rounded.lin_kernel_rounded_bound"),
        ("C16_bilinear_kernel", "Proofs_Rounded.bi_kernel_rounded_bound"),
        ("C16_gamma_small", "Proofs_Rounded.gamma_small"),
        ("C16_binary64_rounding_model", "Proofs_Rounded.flx_rnd_spec"),
        ("C16_binary64_small_integers_exact", "Proofs_Rounded.flx_rnd_int"),
        ("C16_horner_binary64", "Proofs_Rounded.horner_rounded_bound_binary64_eps"),
        ("C16_linear_kernel_binary64", "Proofs_Rounded.lin_kernel_rounded_bound_binary64"),
        ("C16_bilinear_kernel_binary64", "Proofs_Rounded.bi_kernel_rounded_bound_binary64"),
        ("C16_rounded_model_is_the_model", "Proofs_Rounded.RndOps_id"),
        ("C16_exact_reference_generator", "(@Proofs_Gen.gen_is_cox_de_boor Qcanon.Qc QcOps Qc_laws)"),
        ("C16_exact_reference_forms", "(@Proofs_Forms2.bilinear_exact Qcanon.Qc QcOps Qc_laws)"),
    ]),
    "C18": ("concurrent read-only use is race-free and deterministic", """
   PARTIAL: the operation-level theorem.  Threads own disjoint sets of slots and may read shared
   slots that nobody writes (the C++ const discipline, op_allowed).  Under EVERY interleaving of
   whole operations each thread obtains exactly the results, and leaves its own objects in exactly
   the state, of running its operation list alone; shared objects never change.  The step from
   operation-level atomicity to real interleavings is data-race freedom of the shared locations:
   the inventory of such locations is regenerated from the headers on every run and must be fully
   classified (C18_shared_inventory_safe).  Races inside one operation cannot be exhibited by the
   model; ThreadSanitizer runs look for them.""", [
        ("C18_interleave_deterministic", "Proofs_Threads.interleave_deterministic"),
        ("C18_schedule_independent", "Proofs_Threads.schedule_independent"),
        ("C18_schedule_independent_state", "Proofs_Threads.schedule_independent_state"),
        ("C18_shared_never_change", "Proofs_Threads.shared_never_change"),
        ("C18_result_depends_on_reads_only", "Proofs_Threads.eval_op_reads"),
        ("C18_only_owner_changes_owned", "Proofs_Threads.owned_only_changed_by_owner"),
        ("C18_discipline_needed", "Proofs_Threads.thr_discipline_needed"),
        ("C18_shared_inventory_safe", "Proofs_Shared.shared_inventory_safe"),
    ]),
    "C04_R": ("analysis bridge for C04 at the real numbers", """
   The generic theorems use the FORMAL derivative (characterised algebraically).  At the real
   instance ExactOps the formal derivative is the derivative of analysis (Coquelicot is_derive_n):
   applying Derivative<n> yields on every interval the n-th derivative of the denoted function.
   Depends on the standard library's real-number axioms (printed below).""", [
        ("C04_R_formal_derivative_is_derivative", "Proofs_Analysis.peval_is_derive"),
        ("C04_R_nth_derivative", "Proofs_Analysis.peval_is_derive_n"),
        ("C04_R_den_nth_derivative", "Proofs_Analysis.den_is_derive_n"),
        ("C04_R_derivative_operator_is_derivative", "Proofs_Analysis.derivative_operator_is_derivative"),
    ]),
    "C06_R": ("analysis bridge for C06 at the real numbers", """
   defint is the Riemann integral (Coquelicot is_RInt / RInt); the scalar product is the integral of
   the product of the two evaluated splines over the common support.  Real-number axioms.""", [
        ("C06_R_defint_is_RInt", "Proofs_Analysis.defint_is_RInt"),
        ("C06_R_defint_RInt", "Proofs_Analysis.defint_RInt"),
        ("C06_R_scalar_product_sum_of_integrals", "Proofs_Analysis.scalar_product_sum_of_integrals"),
        ("C06_R_scalar_product_is_integral", "Proofs_Analysis.scalar_product_is_integral"),
    ]),
    "C07_R": ("analysis bridge for C07 at the real numbers", """
   The identity linear form is the Riemann integral of the evaluated spline over its support.""", [
        ("C07_R_piece_integral", "Proofs_Analysis.piece_integral"),
        ("C07_R_linear_form_sum_of_integrals", "Proofs_Analysis.linear_form_sum_of_integrals"),
        ("C07_R_linear_form_is_integral", "Proofs_Analysis.linear_form_is_integral"),
    ]),
    "C20": ("the shipped example solvers are well-defined programs and solve their problems", """
   PARTIAL: theorems about the MODEL of the solver skeletons (Examples.v: knot set-up, basis
   generation, std::vector front/back/erase/pop_back and indexed access to the eigen solver's output
   in the checked-container reading, assembly with the library's forms, construction of the returned
   splines).  Eigen's dense solvers are arbitrary functions of the right result size.  ORDER is
   SPLINE_ORDER (10 in the shipped code; any ORDER >= 1 here).  Not proved: the straight line for a
   constant coefficient, the numerical spectra of the harmonic oscillator and hydrogen examples
   (floating-point eigen decompositions) - validated with tolerances by the check.""", [
        ("C20_diffusion_no_ub", "Proofs_Examples.diffusion_no_ub"),
        ("C20_diffusion_basis", "Proofs_Examples.diff_basis_count"),
        ("C20_diffusion_system_shape", "Proofs_Examples.diffusion_system_ok"),
        ("C20_diffusion_subwindow_refused", "Proofs_Examples.diff_basis_window_refused"),
        ("C20_diffusion_too_small", "Proofs_Examples.diffusion_too_small"),
        ("C20_diffusion_end_values", "Proofs_Examples.diffusion_end_values"),
        ("C20_diffusion_scale", "Proofs_Examples.diffusion_scale"),
        ("C20_diffusion_scale_solution", "Proofs_Examples.diffusion_scale_solution"),
        ("C20_diffusion_scale_invariant", "Proofs_Examples.diffusion_scale_invariant"),
        ("C20_potential_no_ub", "Proofs_Examples.potential_no_ub"),
        ("C20_potential_count", "Proofs_Examples.potential_count"),
        ("C20_potential_few_grid_points", "Proofs_Examples.potential_few"),
        ("C20_potential_shift", "Proofs_Examples.potential_shift"),
        ("C20_potential_shift_eigen", "Proofs_Examples.potential_shift_eigen"),
        ("C20_potential_shift_constant", "Proofs_Examples.potential_shift_const"),
        ("C20_old_loop_reads_out_of_range", "Proofs_Examples.old_loop_reads_out_of_range"),
        ("C20_clamped_first", "Proofs_Examples.clamped_first"),
        ("C20_clamped_last", "Proofs_Examples.clamped_last"),
    ]),
    "C19": ("the scalar type needs only the documented operations", """
   The model's sections have exactly the documented operations as their interface (class Ops in
   Scalar.v: 0, 1, + - * /, unary minus, six comparisons; integers enter through fofZ, i.e.
   static_cast<T>(int)), so Coq's type checker guarantees that no definition uses anything else, and
   every theorem of C01-C07, C12 is quantified over ALL scalar structures satisfying the ordered-field
   laws.  Restated here: the laws are satisfiable (Qc), and at that exact field the results are exact.
   The C++ side (compile-as-check with the archetype scalars) is the correspondence run.""", [
        ("C19_laws_satisfiable", "(Instances.Qc_laws)"),
        ("C19_generator_any_scalar", "Proofs_Gen.gen_is_cox_de_boor"),
        ("C19_arithmetic_any_scalar", "Proofs_Spline.spl_mul_spec"),
        ("C19_operators_any_scalar", "Proofs_Ops.apply_spec"),
        ("C19_forms_any_scalar", "Proofs_Forms2.bilinear_exact"),
        ("C19_interpolation_any_scalar", "Proofs_Interp.interp_spec"),
        ("C19_generator_exact_at_Qc", "(@Proofs_Gen.gen_is_cox_de_boor Qcanon.Qc QcOps Qc_laws)"),
        ("C19_arithmetic_exact_at_Qc", "(@Proofs_Spline.spl_mul_spec Qcanon.Qc QcOps Qc_laws)"),
        ("C19_operators_exact_at_Qc", "(@Proofs_Ops.apply_spec Qcanon.Qc QcOps Qc_laws)"),
        ("C19_forms_exact_at_Qc", "(@Proofs_Forms2.bilinear_exact Qcanon.Qc QcOps Qc_laws)"),
        ("C19_interpolation_exact_at_Qc", "(@Proofs_Interp.interp_spec Qcanon.Qc QcOps Qc_laws)"),
    ]),
    "C17": ("numerical quadrature matches the analytic forms where Gauss-Legendre is exact", """
   Relative to the rule: `rule` is any function satisfying rule_ext (depends only on the values
   of the integrand) and rule_exact (exact for polynomials of degree <= 2n-1, written about the
   interval midpoint) — premises of the theorems, not axioms.  That Boost's tables are such a
   rule is validated numerically by the check, not proved.""", [
        ("C17_spec", "Proofs_Quad.integrate_spec"),
        ("C17_sum_over_common_intervals", "Proofs_Quad.integrate_sum"),
        ("C17_no_common_interval", "Proofs_Quad.integrate_no_common"),
        ("C17_differing_grids", "Proofs_Quad.integrate_differing"),
        ("C17_weight_is_multiplication", "Proofs_Quad.peval_weight"),
        ("C17_weight_order", "Proofs_Quad.out_ord_weight"),
        ("C17_horner", "Proofs_Quad.horner_spec"),
    ]),
    "C11": ("malformed input is rejected at the boundary with the library's exception", """
   One characterisation per validating entry point: accepted iff valid, and every refusal is
   Throw <library code> (never BadOptionalAccess, StdOutOfRange or UB).  The grid theorems need
   no order law, so they hold for the IEEE comparison structure ext (NaN, +-inf) as well.""", [
        ("C11_grid_iff", "Proofs_Eval.grid_ctor_iff"),
        ("C11_grid_outcomes", "Proofs_Eval.grid_ctor_cases"),
        ("C11_grid_too_short", "Proofs_Eval.grid_ctor_missing"),
        ("C11_grid_not_increasing", "Proofs_Eval.grid_ctor_inconsistent"),
        ("C11_grid_nan", "Proofs_Valid.grid_ctor_nan"),
        ("C11_grid_nan_inconsistent", "Proofs_Valid.grid_ctor_nan_long"),
        ("C11_support_accepted", "Proofs_Support.sup_ctor_ok"),
        ("C11_support_refused", "Proofs_Support.sup_ctor_throw"),
        ("C11_spline_accepted", "Proofs_Spline.spl_ctor_ok"),
        ("C11_spline_refused", "Proofs_Spline.spl_ctor_throw"),
        ("C11_generator_iff", "Proofs_Gen.gen_ctor1_iff"),
        ("C11_generator_constant", "Proofs_Gen.gen_ctor1_constant"),
        ("C11_generator_descent", "Proofs_Gen.gen_ctor1_descent"),
        ("C11_generator_grid_mismatch", "Proofs_Gen.gen_ctor2_mismatch"),
        ("C11_generator_grid_match", "Proofs_Gen.gen_ctor2_ok"),
        ("C11_generate_too_few", "Proofs_Gen.gen_too_few"),
        ("C11_generate_valid", "Proofs_Gen.gen_count"),
        ("C11_lincomb_count", "Proofs_Spline.lin_comb_count"),
        ("C11_lincomb_empty", "Proofs_Spline.lin_comb_empty"),
        ("C11_lincomb_differing", "Proofs_Spline.lin_comb_differing"),
        ("C11_lincomb_valid", "Proofs_Spline.lin_comb_spec"),
        ("C11_interp_count", "Proofs_Interp.interp_system_count"),
        ("C11_interp_few", "Proofs_Interp.interp_system_few"),
        ("C11_interp_bad_derivative", "Proofs_Interp.interp_system_bad_deriv"),
        ("C11_interp_valid", "Proofs_Interp.interp_system_ok"),
    ]),
    "C15": ("predicates tell the truth", "", [
        ("C15_is_zero", "Proofs_Pred.is_zero_spec"),
        ("C15_is_zero_coefficients", "Proofs_Pred.is_zero_coeffs"),
        ("C15_overlap_total", "Proofs_Pred.check_overlap_total"),
        ("C15_overlap", "Proofs_Pred.check_overlap_spec"),
        ("C15_overlap_product", "Proofs_Pred.check_overlap_mul"),
        ("C15_overlap_sym", "Proofs_Pred.check_overlap_sym"),
        ("C15_eq", "Proofs_Pred.spl_eqb_spec"),
        ("C15_eq_refl", "Proofs_Pred.spl_eqb_refl"),
        ("C15_eq_sym", "Proofs_Pred.spl_eqb_sym"),
        ("C15_eq_trans", "Proofs_Pred.spl_eqb_trans"),
        ("C15_eq_copy", "Proofs_Pred.spl_eqb_copy"),
        ("C15_eq_eval", "Proofs_Pred.spl_eqb_eval_strong"),
    ]),
}


def coq_types(names, implicit=False, imports=None):
    src = ["From Coq Require Import List NArith ZArith Arith Bool.",
           f"From BSpl Require Import {imports or IMPORTS}.", "Import ListNotations.", "Set Printing Width 110.",
           "Set Printing Depth 1000."] + (["Set Printing Implicit."] if implicit else [])
    for n in names:
        src.append('Goal True. idtac "=====MARK". Abort.')
        src.append(f'Check {n}.' if n.startswith('(') else f'Check @{n}.')
    p = "/var/tmp/mkprops_q.v"
    open(p, "w").write("\n".join(src) + "\n")
    out = subprocess.run(["coqc", "-Q", COQ, "BSpl", p], stdout=subprocess.PIPE, stderr=subprocess.STDOUT, text=True).stdout
    for ext in (".v", ".vo", ".glob", ".vok", ".vos"):
        try:
            os.remove(p[:-2] + ext)
        except OSError:
            pass
    blocks = [b.strip().lstrip("@") for b in out.split("=====MARK")[1:]]
    types = {}
    assert len(blocks) == len(names), out[-3000:]
    for n, b in zip(names, blocks):
        name, _, ty = b.partition("\n")
        ty = ty.strip()
        if not ty.startswith(":"):
            # short type printed on the same line: "@name : type"
            name, _, rest = b.partition(":")
            ty = ":" + rest
        if not n.startswith('('):
            assert n.endswith(name.strip()), (n, name)
        elif ty.strip() == '' or not ty.strip().startswith(':'):
            # `Check (term).` prints "term\n : type": split at the first line that starts with ':'
            m = re.search(r"^\s*:", b, flags=re.M)
            ty = b[m.start():]
        types[n] = ty.strip()[1:].strip()
    return types, out


def main():
    only = sys.argv[1:]
    for pid, (title, blurb, thms) in TABLE.items():
        if only and pid not in only:
            continue
        types, out = coq_types([l for _, l in thms], implicit=(pid == 'C16' or pid.endswith('_R')),
                               imports=IMPORTS + (" Proofs_Sites" if pid == "C09" else " Proofs_Shared" if pid == "C18" else ""))
        imports = IMPORTS + (" Proofs_Sites" if pid == "C09" else " Proofs_Shared" if pid == "C18" else "")
        parts = [HEAD.format(pid=pid, title=f"{pid}: {title}.", blurb=blurb.strip("\n"), imports=imports)]
        for name, lemma in thms:
            if lemma not in types:
                print("MISSING", lemma, out[-2000:])
                sys.exit(1)
            ty = "\n    ".join(types[lemma].splitlines())
            pf = lemma if lemma.startswith('(') else f"(@{lemma})"
            parts.append(f"Theorem {name} :\n    {ty}.\nProof. exact {pf}. Qed.\n")
        parts.append("")
        for name, _ in thms:
            parts.append(f"Print Assumptions {name}.")
        path = os.path.join(COQ, f"Properties_{pid}.v")
        open(path, "w").write("\n".join(parts) + "\n")
        print("wrote", path)


if __name__ == "__main__":
    main()

"""stages.py — extra check stages beyond the exact-tier correspondence."""
import itertools
import os
import random
from fractions import Fraction as Fr

import pipeline
from pipeline import VERIF, REPO, BUILD


# ---------------------------------------------------------------------------
# C11: special floating-point values (double) against the ext instance of the model
# ---------------------------------------------------------------------------
def stage_fp_valid(pid, seed, tier, workdir):
    rng = random.Random(seed + 1100)
    maxlen = 5 if tier == 'quick' else 6
    specials = ['nan', 'inf', '-inf']
    lines = []
    for n in range(1, maxlen + 1):
        base = [str(Fr(2 * i + 1, 2)) for i in range(n)]
        lines.append(("XGrid", base))
        lines.append(("XGen", base))
        for pos in range(n):
            for sp in specials:
                v = list(base)
                v[pos] = sp
                lines.append(("XGrid", v))
                lines.append(("XGen", v))
        # descending sequences with a NaN in between (the shape of D2), duplicates next to NaN
        for pos in range(1, n - 1):
            v = [str(Fr(10 - i)) for i in range(n)]
            v[pos] = 'nan'
            lines.append(("XGrid", v))
            lines.append(("XGen", v))
        for pos in range(n - 1):
            v = list(base)
            v[pos + 1] = v[pos]
            lines.append(("XGen", v))
    casefile = os.path.join(workdir, "fp_valid.txt")
    with open(casefile, "w") as f:
        f.write("CASE fpv\n" + "\n".join(f"{op} {len(v)} {' '.join(v)}" for op, v in lines) + "\nEND\n")
    res = {"diffs": [], "infra": [], "evaluations": len(lines), "samples": [], "nontrivial": []}
    ok, drv, log = pipeline.build_model()
    if not ok:
        res["infra"].append(("model does not build", log[-3000:]))
        return res
    rc, ml, out = pipeline.run_model(drv, casefile)
    ok, binp, log = pipeline.build_simple(os.path.join(VERIF, "cpp", "fp_valid.cpp"), "fp_valid", "-O0")
    if not ok:
        res["infra"].append((f"fp_valid.cpp does not build against {REPO}", log[-4000:]))
        return res
    rc, out, _ = pipeline.sh([binp, casefile])
    hl = {}
    for ln in out.splitlines():
        k, _, v = ln.partition(" ")
        hl[k] = v
    for i, (op, v) in enumerate(lines, 1):
        k = f"fpv.{i}"
        text = f"{op} {len(v)} {' '.join(v)}"
        if any(x in ('nan', 'inf', '-inf') for x in v):
            res["nontrivial"].append(text)
        if ml.get(k) != hl.get(k):
            res["diffs"].append({"variant": "double", "case": "fpv", "line": i, "op": text, "model": ml.get(k),
                                 "impl": hl.get(k), "history": [text], "oracle": "fails",
                                 "explanation": "C11_grid_iff/C11_grid_nan determine the outcome: a sequence is accepted iff every point is "
                                                "strictly smaller than its successor (IEEE comparison: false whenever NaN is involved)"})
    res["samples"] = [{"op": f"{op} {' '.join(v)}", "model": ml.get(f"fpv.{i}")} for i, (op, v) in list(enumerate(lines, 1))[5:8]]
    res["notes"] = {"scalar": "double", "lines": len(lines)}
    return res


# ---------------------------------------------------------------------------
# C16: floating-point results against the exact value and its magnitude (pair world)
# ---------------------------------------------------------------------------
EPS = {"float": Fr(1, 2 ** 23), "double": Fr(1, 2 ** 52), "ldouble": Fr(1, 2 ** 63)}


def hex_to_fraction(t):
    """exact value of a C99 hex float literal (%a / %La output)"""
    t = t.strip().lower()
    if t in ("nan", "-nan", "inf", "-inf"):
        return None
    neg = t.startswith("-")
    t = t.lstrip("+-")
    assert t.startswith("0x"), t
    mant, _, ex = t[2:].partition("p")
    ip, _, fp = mant.partition(".")
    val = Fr(int(ip + fp, 16), 16 ** len(fp))
    val *= Fr(2) ** int(ex or 0)
    return -val if neg else val


def compare_fp_line(pair_line, fp_line, eps):
    """returns (ok, worst ratio, message)"""
    pt, ft = pair_line.split(), (fp_line or "").split()
    if len(pt) != len(ft):
        return False, None, "different shape"
    worst = Fr(0)
    for a, b in zip(pt, ft):
        if "~" in a:
            v, m = (Fr(x) for x in a.split("~"))
            try:
                x = hex_to_fraction(b)
            except Exception:
                return False, None, f"token {b} is not a hex float"
            if x is None:
                return False, None, f"non-finite result {b}"
            err = abs(x - v)
            if m == 0:
                if err != 0:
                    return False, None, f"value {b} where the exact result is 0 with zero magnitude"
                continue
            ratio = err / (eps * m)
            worst = max(worst, ratio)
            if ratio > 2 ** 20:
                return False, ratio, f"|fl - exact| = {float(err):.3e} > 2^20 eps S (S = {float(m):.3e}, ratio {float(ratio):.3e} eps S)"
        elif a != b:
            try:
                # grid points / inputs are printed as hex floats as well: compare exactly
                if hex_to_fraction(b) == Fr(a):
                    continue
            except Exception:
                pass
            return False, None, f"token {a} vs {b}"
    return True, worst, ""


def stage_fp_round(pid, seed, tier, workdir):
    import props
    cases = props.gen_C16(seed, tier)
    casefile = os.path.join(workdir, "cases.txt")
    res = {"diffs": [], "infra": [], "evaluations": 0, "samples": [], "nontrivial": [], "notes": {}}
    ok, drv, log = pipeline.build_model()
    if not ok:
        res["infra"].append(("model does not build", log[-3000:]))
        return res
    rc, out, _ = pipeline.sh([drv, "--pair", casefile])
    pl = {}
    for ln in out.splitlines():
        k, _, v = ln.partition(" ")
        pl[k] = v
    variants = ["fp_float", "fp_double", "fp_ldouble", "fp_double_checks"] if tier == "quick" else \
        ["fp_float", "fp_double", "fp_ldouble", "fp_double_checks", "fp_float_O2", "fp_double_O2", "fp_ldouble_O2"]
    outs = {}
    worst = {}
    for v in variants:
        ok, binp, log = pipeline.build_harness(cases, workdir, v)
        if not ok:
            res["infra"].append((f"harness[{v}] does not build against {REPO}", log[-6000:]))
            continue
        hl, crashes = pipeline.run_harness(binp)
        outs[v] = hl
        eps = EPS["float" if "float" in v else "ldouble" if "ldouble" in v else "double"]
        w = Fr(0)
        for c in cases:
            for i, text in enumerate(c.lines, 1):
                k = f"{c.cid}.{i}"
                if k not in pl:
                    continue
                res["evaluations"] += 1
                if not pl[k].startswith("OK"):
                    if pl[k] != hl.get(k):
                        res["diffs"].append({"variant": v, "case": c.cid, "line": i, "op": text, "model": pl[k], "impl": hl.get(k),
                                             "history": c.lines[:i], "oracle": "fails", "explanation": "outcome differs"})
                    continue
                okc, ratio, msg = compare_fp_line(pl[k], hl.get(k), eps)
                if ratio is not None:
                    w = max(w, ratio)
                if "~" in pl[k]:
                    res["nontrivial"].append(v + " " + text)
                if not okc:
                    res["diffs"].append({"variant": v, "case": c.cid, "line": i, "op": text, "model": pl[k][:400], "impl": (hl.get(k) or "")[:400],
                                         "history": c.lines[:i], "oracle": "fails",
                                         "explanation": f"{v}: {msg}; the exact value and S come from the proved model run over the pair world"})
        worst[v] = float(w)
    # the optional self-checks must not change any value: bit-identical outputs
    if "fp_double" in outs and "fp_double_checks" in outs:
        for k, val in outs["fp_double"].items():
            if outs["fp_double_checks"].get(k) != val:
                cid, _, i = k.rpartition(".")
                c = next(c for c in cases if c.cid == cid)
                res["diffs"].append({"variant": "fp_double_checks", "case": cid, "line": int(i), "op": c.lines[int(i) - 1],
                                     "model": val[:300], "impl": (outs["fp_double_checks"].get(k) or "")[:300], "history": c.lines[:int(i)],
                                     "oracle": "fails", "explanation": "values differ between builds with and without BSPLINE_ADD_TEST_CHECKS"})
    res["notes"] = {"worst_error_in_units_of_eps_times_S": worst, "threshold": 2 ** 20, "variants": variants}
    res["samples"] = [{"op": cases[0].lines[1][:200], "pair_model": pl.get(f"{cases[0].cid}.2", "")[:200]}]
    return res

"""stages.py — extra check stages beyond the exact-tier correspondence."""
import itertools
import os
import random
from fractions import Fraction as Fr

import pipeline
from pipeline import VERIF, REPO, BUILD


# ---------------------------------------------------------------------------
# C11: special floating-point values (double) against the ext instance of the model
# ---------------------------------------------------------------------------
def stage_fp_valid(pid, seed, tier, workdir):
    rng = random.Random(seed + 1100)
    maxlen = 5 if tier == 'quick' else 6
    specials = ['nan', 'inf', '-inf']
    lines = []
    for n in range(1, maxlen + 1):
        base = [str(Fr(2 * i + 1, 2)) for i in range(n)]
        lines.append(("XGrid", base))
        lines.append(("XGen", base))
        for pos in range(n):
            for sp in specials:
                v = list(base)
                v[pos] = sp
                lines.append(("XGrid", v))
                lines.append(("XGen", v))
        # descending sequences with a NaN in between (the shape of D2), duplicates next to NaN
        for pos in range(1, n - 1):
            v = [str(Fr(10 - i)) for i in range(n)]
            v[pos] = 'nan'
            lines.append(("XGrid", v))
            lines.append(("XGen", v))
        for pos in range(n - 1):
            v = list(base)
            v[pos + 1] = v[pos]
            lines.append(("XGen", v))
    casefile = os.path.join(workdir, "fp_valid.txt")
    with open(casefile, "w") as f:
        f.write("CASE fpv\n" + "\n".join(f"{op} {len(v)} {' '.join(v)}" for op, v in lines) + "\nEND\n")
    res = {"diffs": [], "infra": [], "evaluations": len(lines), "samples": [], "nontrivial": []}
    ok, drv, log = pipeline.build_model()
    if not ok:
        res["infra"].append(("model does not build", log[-3000:]))
        return res
    rc, ml, out = pipeline.run_model(drv, casefile)
    ok, binp, log = pipeline.build_simple(os.path.join(VERIF, "cpp", "fp_valid.cpp"), "fp_valid", "-O0")
    if not ok:
        res["infra"].append((f"fp_valid.cpp does not build against {REPO}", log[-4000:]))
        return res
    rc, out, _ = pipeline.sh([binp, casefile])
    hl = {}
    for ln in out.splitlines():
        k, _, v = ln.partition(" ")
        hl[k] = v
    for i, (op, v) in enumerate(lines, 1):
        k = f"fpv.{i}"
        text = f"{op} {len(v)} {' '.join(v)}"
        if any(x in ('nan', 'inf', '-inf') for x in v):
            res["nontrivial"].append(text)
        if ml.get(k) != hl.get(k):
            res["diffs"].append({"variant": "double", "case": "fpv", "line": i, "op": text, "model": ml.get(k),
                                 "impl": hl.get(k), "history": [text], "oracle": "fails",
                                 "explanation": "C11_grid_iff/C11_grid_nan determine the outcome: a sequence is accepted iff every point is "
                                                "strictly smaller than its successor (IEEE comparison: false whenever NaN is involved)"})
    res["samples"] = [{"op": f"{op} {' '.join(v)}", "model": ml.get(f"fpv.{i}")} for i, (op, v) in list(enumerate(lines, 1))[5:8]]
    res["notes"] = {"scalar": "double", "lines": len(lines)}
    return res


# ---------------------------------------------------------------------------
# C16: floating-point results against the exact value and its magnitude (pair world)
# ---------------------------------------------------------------------------
EPS = {"float": Fr(1, 2 ** 23), "double": Fr(1, 2 ** 52), "ldouble": Fr(1, 2 ** 63)}


def hex_to_fraction(t):
    """exact value of a C99 hex float literal (%a / %La output)"""
    t = t.strip().lower()
    if t in ("nan", "-nan", "inf", "-inf"):
        return None
    neg = t.startswith("-")
    t = t.lstrip("+-")
    assert t.startswith("0x"), t
    mant, _, ex = t[2:].partition("p")
    ip, _, fp = mant.partition(".")
    val = Fr(int(ip + fp, 16), 16 ** len(fp))
    val *= Fr(2) ** int(ex or 0)
    return -val if neg else val


def compare_fp_line(pair_line, fp_line, eps):
    """returns (ok, worst ratio, message)"""
    pt, ft = pair_line.split(), (fp_line or "").split()
    if len(pt) != len(ft):
        return False, None, "different shape"
    worst = Fr(0)
    for a, b in zip(pt, ft):
        if "~" in a:
            v, m = (Fr(x) for x in a.split("~"))
            try:
                x = hex_to_fraction(b)
            except Exception:
                return False, None, f"token {b} is not a hex float"
            if x is None:
                return False, None, f"non-finite result {b}"
            err = abs(x - v)
            if m == 0:
                if err != 0:
                    return False, None, f"value {b} where the exact result is 0 with zero magnitude"
                continue
            ratio = err / (eps * m)
            worst = max(worst, ratio)
            if ratio > 2 ** 20:
                return False, ratio, f"|fl - exact| = {float(err):.3e} > 2^20 eps S (S = {float(m):.3e}, ratio {float(ratio):.3e} eps S)"
        elif a != b:
            try:
                # grid points / inputs are printed as hex floats as well: compare exactly
                if hex_to_fraction(b) == Fr(a):
                    continue
            except Exception:
                pass
            return False, None, f"token {a} vs {b}"
    return True, worst, ""


def fine_eval_bound(c, pl, text):
    """(exact value, sum_k |c_k| |x - xm|^k) of `SplEval a x` from the exact model state shown in the case"""
    tk = text.split()
    a, x = int(tk[1]), Fr(tk[2])
    grid = None
    for i, t in enumerate(c.lines, 1):
        if t.startswith("GridNew 0 "):
            n = int(t.split()[2])
            grid = [Fr(v) for v in t.split()[3:3 + n]]
        if t == f"Show {a}":
            out = pl.get(f"{c.cid}.{i}", "").split()
            if len(out) < 4 or out[1] != "SPL":
                return None
            start = int(out[4])
            gi = out.index("GRID")
            p2 = gi + 2 + int(out[gi + 1])
            ncoef = int(out[p2]); p2 += 1
            coefs = []
            for _ in range(ncoef):
                ln = int(out[p2])
                coefs.append([Fr(v.split("~")[0]) for v in out[p2 + 1:p2 + 1 + ln]])
                p2 += 1 + ln
            for j, cj in enumerate(coefs):
                lo, hi = grid[start + j], grid[start + j + 1]
                if lo < x < hi:
                    dx = x - (lo + hi) / 2
                    exact = sum(ck * dx ** kk for kk, ck in enumerate(cj))
                    return exact, sum(abs(ck) * abs(dx) ** kk for kk, ck in enumerate(cj))
            return None
    return None


def stage_fp_round(pid, seed, tier, workdir):
    import props
    cases = props.gen_C16(seed, tier)
    casefile = os.path.join(workdir, "cases.txt")
    res = {"diffs": [], "infra": [], "evaluations": 0, "samples": [], "nontrivial": [], "notes": {}}
    ok, drv, log = pipeline.build_model()
    if not ok:
        res["infra"].append(("model does not build", log[-3000:]))
        return res
    rc, out, _ = pipeline.sh([drv, "--pair", casefile])
    pl = {}
    for ln in out.splitlines():
        k, _, v = ln.partition(" ")
        pl[k] = v
    variants = ["fp_float", "fp_double", "fp_ldouble", "fp_double_checks"] if tier == "quick" else \
        ["fp_float", "fp_double", "fp_ldouble", "fp_double_checks", "fp_float_O2", "fp_double_O2", "fp_ldouble_O2"]
    outs = {}
    worst = {}
    for v in variants:
        ok, binp, log = pipeline.build_harness(cases, workdir, v)
        if not ok:
            res["infra"].append((f"harness[{v}] does not build against {REPO}", log[-6000:]))
            continue
        hl, crashes = pipeline.run_harness(binp)
        outs[v] = hl
        eps = EPS["float" if "float" in v else "ldouble" if "ldouble" in v else "double"]
        w = Fr(0)
        for c in cases:
            for i, text in enumerate(c.lines, 1):
                k = f"{c.cid}.{i}"
                if k not in pl:
                    continue
                res["evaluations"] += 1
                if not pl[k].startswith("OK"):
                    if pl[k] != hl.get(k):
                        res["diffs"].append({"variant": v, "case": c.cid, "line": i, "op": text, "model": pl[k], "impl": hl.get(k),
                                             "history": c.lines[:i], "oracle": "fails", "explanation": "outcome differs"})
                    continue
                okc, ratio, msg = compare_fp_line(pl[k], hl.get(k), eps)
                if okc and c.meta.get('fine_eval') and text.startswith("SplEval"):
                    # finer reading for evaluations: the terms involved are c_k (x - xm)^k of the stored piece
                    fine = fine_eval_bound(c, pl, text)
                    if fine is not None:
                        exact, sfine = fine
                        got = hex_to_fraction((hl.get(k) or "OK 0x0p+0").split()[1])
                        err = abs(got - exact)
                        if (sfine == 0 and err != 0) or (sfine != 0 and err > 2 ** 20 * eps * sfine):
                            okc, msg = False, (f"evaluation error {float(err):.3e} exceeds 2^20 eps * sum_k |c_k||x-xm|^k = "
                                               f"{float(2 ** 20 * eps * sfine):.3e} (cancellation in the local coordinate)")
                if ratio is not None:
                    w = max(w, ratio)
                if "~" in pl[k]:
                    res["nontrivial"].append(v + " " + text)
                if not okc:
                    res["diffs"].append({"variant": v, "case": c.cid, "line": i, "op": text, "model": pl[k][:400], "impl": (hl.get(k) or "")[:400],
                                         "history": c.lines[:i], "oracle": "fails",
                                         "explanation": f"{v}: {msg}; the exact value and S come from the proved model run over the pair world"})
        worst[v] = float(w)
    # the optional self-checks must not change any value: bit-identical outputs
    if "fp_double" in outs and "fp_double_checks" in outs:
        for k, val in outs["fp_double"].items():
            if outs["fp_double_checks"].get(k) != val:
                cid, _, i = k.rpartition(".")
                c = next(c for c in cases if c.cid == cid)
                res["diffs"].append({"variant": "fp_double_checks", "case": cid, "line": int(i), "op": c.lines[int(i) - 1],
                                     "model": val[:300], "impl": (outs["fp_double_checks"].get(k) or "")[:300], "history": c.lines[:int(i)],
                                     "oracle": "fails", "explanation": "values differ between builds with and without BSPLINE_ADD_TEST_CHECKS"})
    res["notes"] = {"worst_error_in_units_of_eps_times_S": worst, "threshold": 2 ** 20, "variants": variants}
    res["samples"] = [{"op": cases[0].lines[1][:200], "pair_model": pl.get(f"{cases[0].cid}.2", "")[:200]}]
    return res


# ---------------------------------------------------------------------------
# C17: Gauss-Legendre quadrature (double) against the analytic form (pair world) + interval coverage
# ---------------------------------------------------------------------------
def gen_C17(seed, tier):
    import props
    from caselib import Case
    rng = random.Random(seed + 17)
    cases = []
    for r in range(10 if tier == 'quick' else 60):
        c = Case(f"C17_{r}")
        n = rng.randint(3, 7)
        pts = props.dyadic_grid(rng, n)
        c.grid_new(0, pts)
        oa, ob = rng.randint(0, 3), rng.randint(0, 3)
        wins = {}
        allw = props.windows(n)
        w1 = rng.choice(allw)
        if r % 3 != 2:
            # two cases out of three: the supports share at least one interval (nested, overlapping or identical)
            w1 = rng.choice([w for w in allw if props.nint(w) >= 1])
            w2 = rng.choice([w for w in allw if min(w[1], w1[1]) - max(w[0], w1[0]) >= 2])
        else:
            w2 = rng.choice(allw)
        for (d, o, w) in ((1, oa, w1), (2, ob, w2)):
            wins[d] = w
            c.sup_new(1000 + d, 0, w[0], w[1])
            coefs = [[props.dyadic_coef(rng) for _ in range(o + 1)] for _ in range(props.nint(w))]
            # pieces whose coefficients cancel (sum exactly 0) or partly vanish: a 'this piece is zero' shortcut based
            # on anything but all coefficients must not drop them
            for j, arr in enumerate(coefs):
                if o >= 1 and (r + j) % 3 == 0:
                    arr[-1] = -sum(arr[:-1]) or Fr(0)
                    if all(x == 0 for x in arr):
                        arr[0], arr[-1] = Fr(1), Fr(-1)
                elif (r + j) % 5 == 1:
                    arr[0] = Fr(0)
            c.spl_new(d, o, 1000 + d, coefs)
        c.meta['pts'] = pts
        c.meta['wins'] = wins
        for deg in list(range(0, 4)) + [4 + r % 3, 4 + (r + 1) % 3]:
            # degrees 0..3 with generic coefficients; degrees 4..6 as a generic polynomial or as the single power x^d
            w = [props.dyadic_coef(rng) for _ in range(deg + 1)] if (deg < 4 or (r + deg) % 2) else [Fr(0)] * deg + [Fr(1)]
            if w[-1] == 0:
                w[-1] = Fr(1)
            need = (oa + ob + deg + 2) // 2          # smallest n with 2n-1 >= oa+ob+deg
            for nq in sorted({max(1, need - 1), need, need + 2}):
                c.quad(nq, w, 1, 2)
        cases.append(c)
    return cases


def stage_fp_quad(pid, seed, tier, workdir):
    cases = gen_C17(seed, tier)
    os.makedirs(workdir, exist_ok=True)
    casefile = os.path.join(workdir, "quad_cases.txt")
    with open(casefile, "w") as f:
        f.write("".join(c.text() for c in cases))
    res = {"diffs": [], "infra": [], "evaluations": 0, "samples": [], "nontrivial": [], "notes": {}}
    ok, drv, log = pipeline.build_model()
    if not ok:
        res["infra"].append(("model does not build", log[-3000:]))
        return res
    rc, out, _ = pipeline.sh([drv, "--pair", casefile])
    pl = dict(ln.split(" ", 1) for ln in out.splitlines() if " " in ln)
    worst = Fr(0)
    exact_side = below_side = 0
    with_common = sum(1 for c in cases if min(c.meta['wins'][1][1], c.meta['wins'][2][1]) - max(c.meta['wins'][1][0], c.meta['wins'][2][0]) >= 2)
    for v in (["fp_double"] if tier == 'quick' else ["fp_double", "fp_ldouble", "fp_double_O2"]):
        ok, binp, log = pipeline.build_harness(cases, os.path.join(workdir, "quad"), v)
        if not ok:
            res["infra"].append((f"harness[{v}] does not build against {REPO}", log[-6000:]))
            continue
        hl, crashes = pipeline.run_harness(binp)
        eps = EPS["ldouble" if "ldouble" in v else "double"]
        for c in cases:
            pts, wins = c.meta['pts'], c.meta['wins']
            lo, hi = max(wins[1][0], wins[2][0]), min(wins[1][1], wins[2][1])
            common = list(range(lo, hi - 1)) if hi - lo >= 2 else []
            for idx, (nq, w, a, b) in c.meta.get('quad', {}).items():
                k = f"{c.cid}.{idx}"
                text = f"integrate<{nq}> weight={[str(x) for x in w]} orders={c.order(a)},{c.order(b)} windows={wins[1]},{wins[2]}"
                res["evaluations"] += 1
                res["nontrivial"].append(v + " " + text + " " + c.cid)
                toks = (hl.get(k) or "").split()
                hist = c.lines[:idx] + [f"# quadrature points: {nq}"]
                def bad(msg, oracle="fails"):
                    res["diffs"].append({"variant": v, "case": c.cid, "line": idx, "op": c.lines[idx - 1] + f"  [integrate<{nq}>]",
                                         "model": pl.get(k), "impl": hl.get(k), "history": hist, "oracle": oracle, "explanation": msg})
                if len(toks) < 4 or toks[0] != "OK" or "ABSC" not in toks:
                    bad("unexpected output shape")
                    continue
                val = hex_to_fraction(toks[1])
                ai = toks.index("ABSC")
                nx = int(toks[ai + 1])
                xs = [hex_to_fraction(t) for t in toks[ai + 2:ai + 2 + nx]]
                analytic = hex_to_fraction(toks[toks.index("ANALYTIC") + 1]) if "ANALYTIC" in toks else None
                # coverage: exactly nq abscissae strictly inside each common interval, none elsewhere
                cnt = {kk: 0 for kk in common}
                stray = 0
                for x in xs:
                    kk = next((kk for kk in common if pts[kk] < x < pts[kk + 1]), None)
                    if kk is None:
                        stray += 1
                    else:
                        cnt[kk] += 1
                if stray or any(cn != nq for cn in cnt.values()):
                    bad(f"the integrand was evaluated at {len(xs)} abscissae, {stray} outside the common intervals {common}; per interval {cnt} (expected {nq} each)")
                    continue
                exact = (2 * nq - 1 >= c.order(a) + c.order(b) + len(w) - 1)
                pv = pl.get(k, "")
                if exact and pv.startswith("OK "):
                    vv, mm = (Fr(x) for x in pv.split()[1].split("~"))
                    exact_side += 1
                    err = abs(val - vv)
                    if mm == 0:
                        if err != 0:
                            bad("non-zero result where the exact integral is 0 with zero magnitude")
                        continue
                    ratio = err / (eps * mm)
                    worst = max(worst, ratio)
                    if ratio > 2 ** 20:
                        bad(f"|numerical - analytic| = {float(err):.3e} exceeds 2^20 eps S although 2n-1 >= order1+order2+d (ratio {float(ratio):.3e})")
                    elif analytic is None or abs(val - analytic) > 2 ** 21 * eps * mm:
                        # the relation the property states is between the library's two routes
                        bad(f"numerical integral {float(val):.17g} and the library's analytic bilinear form {None if analytic is None else float(analytic):.17g} "
                            f"differ by more than 2^21 eps S although 2n-1 >= order1+order2+d")
                else:
                    below_side += 1
    res["notes"] = {"worst_error_in_units_of_eps_times_S": float(worst), "cases_with_exactness_bound_met": exact_side,
                    "cases_below_the_bound_checked_for_coverage_only": below_side,
                    "spline_pairs": len(cases), "spline_pairs_with_a_common_interval": with_common}
    res["samples"] = [{"case": cases[0].cid, "ops": cases[0].lines[:6]}]
    return res


# ---------------------------------------------------------------------------
# C20: the shipped example solvers under debug-STL + ASan/UBSan
# ---------------------------------------------------------------------------
def build_examples():
    import hashlib
    import concurrent.futures
    flags = ("-std=c++17 -O1 -w -D_GLIBCXX_DEBUG -fsanitize=address,undefined -fno-sanitize-recover=all "
             "-DBSPLINE_INTERPOLATION_USE_EIGEN -DOKRUZ_BSPLINEBASIS_VERIF")
    srcs = [os.path.join(REPO, "examples", f + ".cpp") for f in ("diffusion", "spline-potential", "harmonic-oscillator", "hydrogen")]
    srcs.append(os.path.join(VERIF, "cpp", "examples_check.cpp"))
    key = hashlib.sha256((pipeline.file_hash(pipeline.tree_files(os.path.join(REPO, "include")) +
                                             pipeline.tree_files(os.path.join(REPO, "examples")) + [srcs[-1]]) + flags).encode()).hexdigest()[:20]
    d = os.path.join(BUILD, "examples", key)
    binp = os.path.join(d, "examples_check")
    if os.path.exists(binp):
        return True, binp, "cached"
    os.makedirs(d, exist_ok=True)

    def comp(src):
        obj = os.path.join(d, os.path.basename(src)[:-4] + ".o")
        return pipeline.sh(f"timeout 1500 g++ {flags} -I{REPO}/include -I{REPO}/examples -c {src} -o {obj}", timeout=1560) + (obj,)

    objs, logs, good = [], [], True
    with concurrent.futures.ThreadPoolExecutor(max_workers=8) as ex:
        for rc, out, dt, obj in ex.map(comp, srcs):
            objs.append(obj)
            if rc != 0:
                good = False
                logs.append(out[-4000:])
    if not good:
        return False, None, "\n".join(logs)
    rc, out, _ = pipeline.sh(f"g++ -fsanitize=address,undefined {' '.join(objs)} -o {binp}")
    for o in objs:
        try:
            os.remove(o)
        except OSError:
            pass
    return rc == 0, (binp if rc == 0 else None), out


def stage_examples(pid, seed, tier, workdir):
    import subprocess
    res = {"diffs": [], "infra": [], "evaluations": 0, "samples": [], "nontrivial": [], "notes": {}}
    ok, binp, log = build_examples()
    if not ok:
        res["infra"].append((f"the example solvers do not build against {REPO}", log[-6000:]))
        return res
    skip = []
    checks = {}
    env = dict(os.environ, ASAN_OPTIONS="detect_leaks=0", UBSAN_OPTIONS="print_stacktrace=1")
    for _ in range(40):
        p = subprocess.run([binp, str(seed % (2 ** 32)), tier] + skip, stdout=subprocess.PIPE, stderr=subprocess.PIPE, env=env, timeout=3000)
        out = p.stdout.decode(errors="replace")
        cur = None
        done = False
        for ln in out.splitlines():
            if ln.startswith("BEGIN "):
                cur = ln[6:].strip()
            elif ln.startswith("EX "):
                _, cid, chk, verdict, *det = ln.split(" ", 4)
                checks[(cid, chk, len(checks))] = (verdict, det[0] if det else "")
            elif ln == "DONE":
                done = True
        if done and p.returncode == 0:
            break
        err = p.stderr.decode(errors="replace")
        res["diffs"].append({"variant": "debugstl+asan", "case": cur, "line": 0, "op": f"example case {cur} (seed {seed}, tier {tier})",
                             "model": "well-defined execution (Proofs_Examples: container accesses in range)",
                             "impl": f"CRASH rc={p.returncode}", "stderr": err[-3000:], "history": [f"examples_check {seed} {tier}  # case {cur}"],
                             "oracle": "fails", "explanation": "the example solver aborted (libstdc++ debug mode / sanitizer / Eigen assertion): undefined behaviour on an admissible input"})
        if cur is None:
            break
        skip.append(cur)
    for (cid, chk, _), (verdict, det) in checks.items():
        res["evaluations"] += 1
        res["nontrivial"].append(f"{cid} {chk}")
        if verdict != "OK":
            res["diffs"].append({"variant": "debugstl+asan", "case": cid, "line": 0, "op": f"example case {cid}: {chk}", "model": "property holds",
                                 "impl": f"FAIL {det}", "history": [f"examples_check {seed} {tier}  # case {cid}"], "oracle": "fails",
                                 "explanation": f"{chk}: {det}"})
    res["samples"] = [{"case": k[0], "check": k[1], "result": v[0], "details": v[1]} for k, v in list(checks.items())[:4]]
    res["notes"] = {"cases_crashed": skip, "checks": len(checks)}
    return res


# ---------------------------------------------------------------------------
# C18: concurrent read-only use, bit-identical to sequential, under ThreadSanitizer
# ---------------------------------------------------------------------------
def stage_threads(pid, seed, tier, workdir):
    res = {"diffs": [], "infra": [], "evaluations": 0, "samples": [], "nontrivial": [], "notes": {}}
    src = os.path.join(VERIF, "cpp", "threads_check.cpp")
    builds = [("plain", "-O2 -pthread"), ("tsan", "-O1 -g -pthread -fsanitize=thread")]
    seeds = [seed % 100000, seed % 100000 + 7] if tier == "quick" else [seed % 100000 + i for i in range(6)]
    for name, flags in builds:
        ok, binp, log = pipeline.build_simple(src, "threads_" + name, flags)
        if not ok:
            res["infra"].append((f"threads_check.cpp [{name}] does not build against {REPO}", log[-4000:]))
            continue
        for sd in seeds:
            env = dict(os.environ, TSAN_OPTIONS="halt_on_error=0 report_signal_unsafe=0")
            import subprocess
            p = subprocess.run([binp, str(sd), tier], stdout=subprocess.PIPE, stderr=subprocess.PIPE, env=env, timeout=3000)
            out, err = p.stdout.decode(errors="replace"), p.stderr.decode(errors="replace")
            for ln in out.splitlines():
                if ln.startswith("TH "):
                    res["evaluations"] += 1
                    res["nontrivial"].append(f"{name} seed={sd} " + " ".join(ln.split()[1:4]))
                    if not ln.rstrip().endswith("OK"):
                        res["diffs"].append({"variant": name, "case": f"threads seed={sd}", "line": 0, "op": ln, "model": "results identical to the sequential run (Proofs_Threads.interleave_deterministic)",
                                             "impl": ln, "history": [f"threads_check {sd} {tier}  # build {name}: {flags}"], "oracle": "fails",
                                             "explanation": "a thread obtained results that differ from the sequential run"})
            if "ThreadSanitizer" in err or (p.returncode != 0 and "DONE" not in out):
                res["diffs"].append({"variant": name, "case": f"threads seed={sd}", "line": 0, "op": f"threads_check {sd} {tier}", "model": "no data race",
                                     "impl": f"rc={p.returncode}", "stderr": err[-4000:], "history": [f"threads_check {sd} {tier}  # build {name}: {flags}"],
                                     "oracle": "fails", "explanation": "ThreadSanitizer reported a data race (or the run aborted) during concurrent const use"})
    res["notes"] = {"builds": [b[0] for b in builds], "seeds": seeds, "thread_counts": [2, 3, 4, 8, 16], "types": ["double", "long double"]}
    res["samples"] = [{"run": t} for t in res["nontrivial"][:3]]
    return res


# ---------------------------------------------------------------------------
# C19: archetype scalars
# ---------------------------------------------------------------------------
def stage_archetypes(pid, seed, tier, workdir):
    import props
    res = {"diffs": [], "infra": [], "evaluations": 0, "samples": [], "nontrivial": [], "notes": {}}
    # (1) explicit instantiation of every core template with both archetypes
    ok, pchdir, flags, log = pipeline.build_pch("plain")
    src = os.path.join(VERIF, "cpp", "instantiate_arch.cpp")
    if ok:
        rc, out, _ = pipeline.sh(f"timeout 900 g++ {flags} -I{pchdir} -I{REPO}/include -c {src} -o {workdir}/instantiate_arch.o", timeout=960)
        res["evaluations"] += 1
        if rc != 0:
            res["diffs"].append({"variant": "arch", "case": "explicit instantiation", "line": 0, "op": "compile cpp/instantiate_arch.cpp",
                                 "model": "compiles", "impl": "compile error", "stderr": out[-4000:], "history": ["g++ -c cpp/instantiate_arch.cpp"],
                                 "oracle": "fails", "explanation": "a core template does not compile for a scalar type offering only the documented operations: " + out[-1500:]})
    else:
        res["infra"].append(("PCH build failed", log[-4000:]))
    # (2) WrapD vs double, bit for bit
    cases = props.gen_C19(seed, tier)
    outs = {}
    for v in ("fp_double_noquad", "wrapd"):
        ok, binp, log = pipeline.build_harness(cases, os.path.join(workdir, "arch"), v)
        if not ok:
            res["diffs"].append({"variant": v, "case": "build", "line": 0, "op": f"compile the generated program with {v}", "model": "compiles",
                                 "impl": "compile error", "stderr": log[-4000:], "history": [f"variant {v}"], "oracle": "fails",
                                 "explanation": "the library does not compile for the archetype scalar: " + log[-1500:]})
            return res
        outs[v], _ = pipeline.run_harness(binp)
    for c in cases:
        for i, text in enumerate(c.lines, 1):
            k = f"{c.cid}.{i}"
            res["evaluations"] += 1
            if outs["wrapd"].get(k) != outs["fp_double_noquad"].get(k):
                res["diffs"].append({"variant": "wrapd", "case": c.cid, "line": i, "op": text, "model": (outs["fp_double_noquad"].get(k) or "")[:300],
                                     "impl": (outs["wrapd"].get(k) or "")[:300], "history": c.lines[:i], "oracle": "fails",
                                     "explanation": "results with the archetype over double differ from results with double: the library used something beyond the documented operations"})
    res["notes"] = {"lines_compared_bitwise": sum(len(c.lines) for c in cases)}
    return res


# ---------------------------------------------------------------------------
# C12: the bundled dense solver (Eigen, double) against the exactly assembled system
# ---------------------------------------------------------------------------
def gen_C12_eigen(seed, tier):
    import props
    from caselib import Case
    rng = random.Random(seed + 1200)
    cases = []
    for r in range(12 if tier == 'quick' else 80):
        c = Case(f"C12e_{r}")
        n = rng.randint(3, 9)
        pts = props.dyadic_grid(rng, n, -4, 4)
        c.grid_new(0, pts)
        w = rng.choice([w for w in props.windows(n) if w[1] - w[0] >= 2])
        c.sup_new(1, 0, w[0], w[1])
        size = w[1] - w[0]
        o = rng.randint(1, 4)
        y = [props.dyadic_coef(rng) for _ in range(size)]
        if r % 2 == 0:
            c.interp_eigen(10, o, 1, y)
        else:
            bs = [(rng.choice(['FIRST', 'LAST']), rng.randint(1, o), props.dyadic_coef(rng)) for _ in range(o - 1)]
            # keep the system uniquely solvable: distinct (node, derivative) pairs
            seen = set()
            ok = True
            for b in bs:
                if (b[0], b[1]) in seen:
                    ok = False
                seen.add((b[0], b[1]))
            c.interp_eigen(10, o, 1, y, bs if ok else None)
        cases.append(c)
    return cases


def _nonsingular(m):
    """exact rank test (fraction Gaussian elimination)"""
    a = [list(r) for r in m]
    n = len(a)
    for k in range(n):
        p = next((i for i in range(k, n) if a[i][k] != 0), None)
        if p is None:
            return False
        a[k], a[p] = a[p], a[k]
        for i in range(k + 1, n):
            if a[i][k] != 0:
                f = a[i][k] / a[k][k]
                a[i] = [x - f * y for x, y in zip(a[i], a[k])]
    return True


def stage_fp_interp(pid, seed, tier, workdir):
    cases = gen_C12_eigen(seed, tier)
    wd = os.path.join(workdir, "eigen")
    os.makedirs(wd, exist_ok=True)
    casefile = os.path.join(wd, "cases.txt")
    with open(casefile, "w") as f:
        f.write("".join(c.text() for c in cases))
    res = {"diffs": [], "infra": [], "evaluations": 0, "samples": [], "nontrivial": [], "notes": {}}
    ok, drv, log = pipeline.build_model()
    if not ok:
        res["infra"].append(("model does not build", log[-3000:]))
        return res
    rc, ml, out = pipeline.run_model(drv, casefile)
    ok, binp, log = pipeline.build_harness(cases, wd, "fp_double_eigen")
    if not ok:
        res["infra"].append((f"harness[fp_double_eigen] does not build against {REPO}", log[-6000:]))
        return res
    hl, crashes = pipeline.run_harness(binp)
    eps = EPS["double"]
    worst = 0.0
    singular = 0
    for c in cases:
        for idx in c.meta.get('eigen', []):
            k = f"{c.cid}.{idx}"
            text = c.lines[idx - 1]
            mt = (ml.get(k) or "").split()
            ht = (hl.get(k) or "").split()
            res["evaluations"] += 1
            if not mt or mt[0] != "OK":
                if " ".join(mt) != " ".join(ht):
                    res["diffs"].append({"variant": "fp_double_eigen", "case": c.cid, "line": idx, "op": text, "model": ml.get(k), "impl": hl.get(k),
                                         "history": c.lines[:idx], "oracle": "fails", "explanation": "outcome differs"})
                continue
            # model: OK LIST n ROW m.. b ROW ...
            n = int(mt[2])
            rows, pos = [], 3
            for _ in range(n):
                assert mt[pos] == "ROW"
                rows.append([Fr(x) for x in mt[pos + 1:pos + 2 + n]])
                pos += n + 2
            if not ht or ht[0] != "OK" or "SPL" not in ht:
                res["diffs"].append({"variant": "fp_double_eigen", "case": c.cid, "line": idx, "op": text, "model": "a spline", "impl": hl.get(k),
                                     "history": c.lines[:idx], "oracle": "fails", "explanation": "interpolateUsingEigen did not return a spline"})
                continue
            # impl: OK SPL ord SUP s e size nint GRID g p.. ncoef (len c..)*
            gi = ht.index("GRID")
            g = int(ht[gi + 1])
            p2 = gi + 2 + g
            ncoef = int(ht[p2])
            p2 += 1
            coefs = []
            for _ in range(ncoef):
                ln = int(ht[p2])
                coefs += [hex_to_fraction(t) for t in ht[p2 + 1:p2 + 1 + ln]]
                p2 += 1 + ln
            if len(coefs) != n or any(v is None for v in coefs):
                res["diffs"].append({"variant": "fp_double_eigen", "case": c.cid, "line": idx, "op": text, "model": f"{n} coefficients", "impl": f"{len(coefs)} finite coefficients",
                                     "history": c.lines[:idx], "oracle": "fails", "explanation": "wrong number of / non-finite coefficients"})
                continue
            # unique solvability is a premise of the property: systems that are singular in exact arithmetic are skipped
            if not _nonsingular([r[:n] for r in rows]):
                singular += 1
                continue
            resid = max(abs(sum(r[j] * coefs[j] for j in range(n)) - r[n]) for r in rows)
            scale = max(sum(abs(r[j]) for j in range(n)) for r in rows) * max(abs(v) for v in coefs) + max(abs(r[n]) for r in rows)
            ratio = float(resid / (eps * scale)) if scale else 0.0
            worst = max(worst, ratio)
            res["nontrivial"].append(text)
            if ratio > 2 ** 20:
                res["diffs"].append({"variant": "fp_double_eigen", "case": c.cid, "line": idx, "op": text, "model": "residual at backward-error level",
                                     "impl": f"normwise residual {ratio:.3e} eps", "history": c.lines[:idx], "oracle": "fails",
                                     "explanation": f"||M c - b|| = {float(resid):.3e} exceeds 2^20 eps (||M|| ||c|| + ||b||) = {float(2 ** 20 * eps * scale):.3e}: the returned spline violates the interpolation conditions beyond the solver's backward-error level (M, b are the exactly assembled system of the proved model)"})
    res["notes"] = {"worst_normwise_backward_error_in_eps": worst, "threshold": 2 ** 20, "systems": res["evaluations"],
                    "skipped_because_singular_in_exact_arithmetic": singular}
    res["samples"] = [{"case": cases[0].cid, "ops": cases[0].lines}]
    return res

"""stages.py — extra check stages beyond the exact-tier correspondence."""
import itertools
import os
import random
from fractions import Fraction as Fr

import pipeline
from pipeline import VERIF, REPO, BUILD


# ---------------------------------------------------------------------------
# C11: special floating-point values (double) against the ext instance of the model
# ---------------------------------------------------------------------------
def stage_fp_valid(pid, seed, tier, workdir):
    rng = random.Random(seed + 1100)
    maxlen = 5 if tier == 'quick' else 6
    specials = ['nan', 'inf', '-inf']
    lines = []
    for n in range(1, maxlen + 1):
        base = [str(Fr(2 * i + 1, 2)) for i in range(n)]
        lines.append(("XGrid", base))
        lines.append(("XGen", base))
        for pos in range(n):
            for sp in specials:
                v = list(base)
                v[pos] = sp
                lines.append(("XGrid", v))
                lines.append(("XGen", v))
        # descending sequences with a NaN in between (the shape of D2), duplicates next to NaN
        for pos in range(1, n - 1):
            v = [str(Fr(10 - i)) for i in range(n)]
            v[pos] = 'nan'
            lines.append(("XGrid", v))
            lines.append(("XGen", v))
        for pos in range(n - 1):
            v = list(base)
            v[pos + 1] = v[pos]
            lines.append(("XGen", v))
    casefile = os.path.join(workdir, "fp_valid.txt")
    with open(casefile, "w") as f:
        f.write("CASE fpv\n" + "\n".join(f"{op} {len(v)} {' '.join(v)}" for op, v in lines) + "\nEND\n")
    res = {"diffs": [], "infra": [], "evaluations": len(lines), "samples": [], "nontrivial": []}
    ok, drv, log = pipeline.build_model()
    if not ok:
        res["infra"].append(("model does not build", log[-3000:]))
        return res
    rc, ml, out = pipeline.run_model(drv, casefile)
    ok, binp, log = pipeline.build_simple(os.path.join(VERIF, "cpp", "fp_valid.cpp"), "fp_valid", "-O0")
    if not ok:
        res["infra"].append((f"fp_valid.cpp does not build against {REPO}", log[-4000:]))
        return res
    rc, out, _ = pipeline.sh([binp, casefile])
    hl = {}
    for ln in out.splitlines():
        k, _, v = ln.partition(" ")
        hl[k] = v
    for i, (op, v) in enumerate(lines, 1):
        k = f"fpv.{i}"
        text = f"{op} {len(v)} {' '.join(v)}"
        if any(x in ('nan', 'inf', '-inf') for x in v):
            res["nontrivial"].append(text)
        if ml.get(k) != hl.get(k):
            res["diffs"].append({"variant": "double", "case": "fpv", "line": i, "op": text, "model": ml.get(k),
                                 "impl": hl.get(k), "history": [text], "oracle": "fails",
                                 "explanation": "C11_grid_iff/C11_grid_nan determine the outcome: a sequence is accepted iff every point is "
                                                "strictly smaller than its successor (IEEE comparison: false whenever NaN is involved)"})
    res["samples"] = [{"op": f"{op} {' '.join(v)}", "model": ml.get(f"fpv.{i}")} for i, (op, v) in list(enumerate(lines, 1))[5:8]]
    res["notes"] = {"scalar": "double", "lines": len(lines)}
    return res

#!/usr/bin/env python3
"""ast2coq.py — regenerates coq/gen/SupportGen.v from the C++ source on every run.

A second, independent tie between /repo/include/bspline/support/Support.h and the hand-written
Gallina model coq/Support.v: clang (not a regular expression) parses the header, this script walks
the JSON AST of the integer-only member functions of `Support<double>` and prints, for each of them,
a Gallina definition with EXACTLY the C++ semantics of size_t (`+` is `wadd`, `-` is `wsub`, both
modulo 2^64).  coq/Proofs_SupportGen.v then proves that every generated definition coincides with
the hand-written model function; an edit of Support.h that changes the meaning of one of these
functions changes the generated text and breaks that proof.

    clang++ -std=c++17 -fsyntax-only -I$VERIF_REPO/include -Xclang -ast-dump=json \
            -Xclang -ast-dump-filter=Support tu.cpp

with tu.cpp = `#include <bspline/support/Support.h>` + an explicit instantiation of Support<double>.
With a filter clang prints several top-level JSON objects; the one used is the
ClassTemplateSpecializationDecl (the `double` instantiation: no dependent types, member calls
resolved).

Translated (Gallina parameters `gsize start stop : N` stand for `_grid.size()`, `_startIndex`,
`_endIndex`, followed by the function's own parameters):
    size empty containsIntervals relativeFromAbsolute intervalIndexFromAbsolute
    absoluteFromRelative numberOfIntervals
    checkValidity  -> `valid : bool` (true iff the function does NOT throw) and, as a bonus,
                      `checkValidity : outcome unit`
    at             -> `at_guard : bool` (the condition of its `if (...) throw`), and, as a bonus,
                      `at_throw : err` (the code thrown) and `at_index : N` (the argument of the
                      final `_grid.at(...)`)

Anything the translator does not understand raises Unsupported (AST kind + source line) and the
script exits non-zero; nothing is ever skipped silently, with one exception that is checked for
shape: `do {} while (false)` (the expansion of DURING_TEST_CHECK_VALIDITY() outside the tests).

Python 3, standard library only.  Deterministic and idempotent; writes the output only if changed.
Options: --print (echo the generated Gallina), --out DIR (write DIR/SupportGen.v instead).
"""
import json
import os
import shutil
import subprocess
import sys
import tempfile

HEADER_REL = os.path.join("bspline", "support", "Support.h")
CLASS_NAME = "Support"
DEFAULT_OUT = os.path.join(os.path.dirname(os.path.dirname(os.path.abspath(__file__))), "coq", "gen")
OUT_NAME = "SupportGen.v"

# C++ member function -> generated Gallina name, in output order (callees are pulled in earlier).
PLAIN = [
    ("size", "size"),
    ("empty", "empty"),
    ("containsIntervals", "containsIntervals"),
    ("relativeFromAbsolute", "relativeFromAbsolute"),
    ("intervalIndexFromAbsolute", "intervalIndexFromAbsolute"),
    ("absoluteFromRelative", "absoluteFromRelative"),
    ("numberOfIntervals", "numberOfIntervals"),
]
FIELDS = {"_startIndex": "start", "_endIndex": "stop"}
GRID_FIELD = "_grid"
ERR_CODES = ("DIFFERING_GRIDS", "INCONSISTENT_DATA", "MISSING_DATA", "INVALID_ACCESS", "UNDETERMINED")
EXC_TYPE = "bspline::exceptions::BSplineException"

RESERVED = {
    # Gallina keywords
    "as", "at", "cofix", "else", "end", "exists", "exists2", "fix", "for", "forall", "fun", "if",
    "IF", "in", "let", "match", "mod", "Prop", "return", "Set", "then", "Type", "using", "where",
    "with", "SProp",
    # names the generated text uses
    "gsize", "start", "stop", "wadd", "wsub", "W", "N", "bool", "unit", "option", "outcome", "err",
    "Some", "None", "Ok", "Throw", "UB", "andb", "orb", "negb", "true", "false", "tt", "G",
    "valid", "checkValidity", "at_guard", "at_throw", "at_index",
} | {g for _, g in PLAIN} | set(ERR_CODES)

SIZE_T = {"unsigned long", "size_t", "std::size_t"}


class Unsupported(Exception):
    pass


# --------------------------------------------------------------------------------------------
# clang
# --------------------------------------------------------------------------------------------
def run_clang(repo):
    inc = os.path.join(repo, "include")
    hdr = os.path.join(inc, HEADER_REL)
    if not os.path.isfile(hdr):
        raise Unsupported("header not found: %s" % hdr)
    os.makedirs("/var/tmp", exist_ok=True)
    tmp = tempfile.mkdtemp(prefix="ast2coq.", dir="/var/tmp")
    try:
        tu = os.path.join(tmp, "tu.cpp")
        with open(tu, "w") as f:
            f.write("#include <bspline/support/Support.h>\n"
                    "template class bspline::support::Support<double>;\n")
        cmd = ["clang++", "-std=c++17", "-fsyntax-only", "-I" + inc,
               "-Xclang", "-ast-dump=json", "-Xclang", "-ast-dump-filter=" + CLASS_NAME, tu]
        try:
            p = subprocess.run(cmd, stdout=subprocess.PIPE, stderr=subprocess.PIPE,
                               universal_newlines=True, cwd=tmp)
        except OSError as e:
            raise Unsupported("cannot run clang++: %s" % e)
        if p.returncode != 0:
            raise Unsupported("clang++ failed (exit %d):\n%s" % (p.returncode, p.stderr.strip()))
        return p.stdout, hdr
    finally:
        shutil.rmtree(tmp, ignore_errors=True)


def parse_objects(text):
    """clang prints several top-level JSON objects one after another."""
    dec = json.JSONDecoder()
    i, n, objs = 0, len(text), []
    while True:
        while i < n and text[i].isspace():
            i += 1
        if i >= n:
            return objs
        try:
            o, i = dec.raw_decode(text, i)
        except ValueError as e:
            raise Unsupported("cannot parse clang's JSON output at byte %d: %s" % (i, e))
        objs.append(o)


def find_specialization(objs):
    found = []

    def walk(n, top):
        if not isinstance(n, dict):
            return
        if n.get("kind") == "ClassTemplateSpecializationDecl" and n.get("name") == CLASS_NAME:
            inner = n.get("inner", [])
            has_methods = any(c.get("kind") == "CXXMethodDecl" for c in inner)
            is_double = any(c.get("kind") == "TemplateArgument"
                            and c.get("type", {}).get("qualType") == "double" for c in inner)
            if has_methods and is_double:
                found.append(n)
                return
        if top or n.get("kind") in ("ClassTemplateDecl", "NamespaceDecl"):
            for c in n.get("inner", []):
                walk(c, False)

    for o in objs:
        walk(o, True)
    if not found:
        raise Unsupported("no ClassTemplateSpecializationDecl %s<double> with member definitions in "
                          "clang's output (%d top-level objects)" % (CLASS_NAME, len(objs)))
    ids = {n.get("id") for n in found}
    if len(ids) != 1:
        raise Unsupported("several distinct %s<double> specializations in clang's output" % CLASS_NAME)
    return found[0]


# --------------------------------------------------------------------------------------------
# Gallina terms:  ("atom", s) ("app", f, [args]) ("infix", op, a, b) ("if", c, a, b) ("let", x, e, b)
# --------------------------------------------------------------------------------------------
def atom(s):
    return ("atom", s)


def app(f, *args):
    return ("app", f, list(args))


def inline(e):
    k = e[0]
    if k == "atom":
        return e[1]
    if k == "app":
        return e[1] + " " + " ".join(arg(a) for a in e[2])
    if k == "infix":
        return "(%s %s %s)" % (operand(e[2]), e[1], operand(e[3]))
    if k == "if":
        return "(if %s then %s else %s)" % (inline(e[1]), inline(e[2]), inline(e[3]))
    if k == "let":
        return "(let %s := %s in %s)" % (e[1], inline(e[2]), inline(e[3]))
    raise AssertionError(k)


def arg(e):
    return inline(e) if e[0] in ("atom", "infix", "if", "let") else "(" + inline(e) + ")"


def operand(e):
    return inline(e)  # application binds tighter than any infix; if/let/infix carry their own parens


def block(e, ind):
    """multi-line rendering of the statement structure (let / if chains)"""
    k = e[0]
    if k == "let":
        return "let %s := %s in\n%s%s" % (e[1], inline(e[2]), ind, block(e[3], ind))
    if k == "if":
        return "if %s\n%sthen %s\n%selse %s" % (inline(e[1]), ind, branch(e[2], ind + "  "),
                                                 ind, branch(e[3], ind + "  "))
    return inline(e)


def branch(e, ind):
    if e[0] == "let":
        return "(" + block(e, ind + " ") + ")"
    return block(e, ind)


# --------------------------------------------------------------------------------------------
# translation
# --------------------------------------------------------------------------------------------
class Fn:
    """a translated member function"""
    def __init__(self, cname, gname, params, kind, throws, body, node):
        self.cname, self.gname, self.params, self.kind = cname, gname, params, kind
        self.throws, self.body, self.node = throws, body, node


BASE_TY = {"N": "N", "bool": "bool", "optN": "option N", "unit": "unit", "err": "err"}


class Translator:
    def __init__(self, spec, hdr_path):
        self.spec = spec
        self.hdr_path = hdr_path
        with open(hdr_path, "rb") as f:
            self.src = f.read()
        self.methods = {}
        for c in spec.get("inner", []):
            if c.get("kind") == "CXXMethodDecl":
                self.methods.setdefault(c.get("name"), []).append(c)
        self.fields = {}
        for c in spec.get("inner", []):
            if c.get("kind") == "FieldDecl":
                self.fields[c.get("id")] = c.get("name")
        self.done = {}        # C++ name -> Fn
        self.order = []       # Fn in definition order (callees first)
        self.active = []      # cycle detection

    # ---- diagnostics -------------------------------------------------------------------
    def offset_of(self, n):
        b = (n.get("range") or {}).get("begin") or {}
        if "expansionLoc" in b:
            b = b["expansionLoc"]
        return b.get("offset")

    def line_of(self, n):
        off = self.offset_of(n)
        if off is None:
            return "?"
        return self.src.count(b"\n", 0, off) + 1

    def fail(self, n, what=None):
        kind = n.get("kind", "?") if isinstance(n, dict) else "?"
        msg = "unsupported AST node %s" % kind
        if what:
            msg += " (%s)" % what
        msg += " at %s:%s" % (HEADER_REL, self.line_of(n) if isinstance(n, dict) else "?")
        if self.active:
            msg += " in %s::%s" % (CLASS_NAME, self.active[-1])
        raise Unsupported(msg)

    # ---- types -------------------------------------------------------------------------
    @staticmethod
    def tyname(n):
        t = n.get("type") or {}
        q = t.get("desugaredQualType", t.get("qualType", ""))
        q = q.strip()
        while q.startswith("const "):
            q = q[6:].strip()
        if q.endswith(" const"):
            q = q[:-6].strip()
        return q

    def kind_of_type(self, n):
        q = self.tyname(n)
        if q in SIZE_T:
            return "N"
        if q == "bool":
            return "bool"
        if q in ("std::optional<unsigned long>", "optional<unsigned long>"):
            return "optN"
        if q == "void":
            return "unit"
        return None

    # ---- methods -----------------------------------------------------------------------
    def method(self, cname, at=None):
        ms = self.methods.get(cname, [])
        if len(ms) != 1:
            msg = "expected exactly one member function %s::%s, found %d" % (CLASS_NAME, cname, len(ms))
            if at is not None:
                self.fail(at, msg)
            raise Unsupported(msg)
        return ms[0]

    def method_parts(self, m):
        params, body = [], None
        for c in m.get("inner", []):
            k = c.get("kind")
            if k == "ParmVarDecl":
                params.append(c)
            elif k == "CompoundStmt":
                if body is not None:
                    self.fail(c, "second body")
                body = c
            elif k.endswith("Comment") or k.endswith("Attr"):
                continue
            else:
                self.fail(c, "unexpected child of CXXMethodDecl")
        if body is None:
            self.fail(m, "member function without a body")
        return params, body

    def mangle(self, name, taken):
        g = name
        while g in RESERVED or g in taken or not g or g == "_":
            g += "_"
        if not all(ch.isalnum() or ch == "_" for ch in g) or g[0].isdigit():
            raise Unsupported("cannot use C++ identifier %r as a Gallina name" % name)
        return g

    def bind_params(self, params):
        env, binders = {}, []
        for p in params:
            k = self.kind_of_type(p)
            if k not in ("N", "bool"):
                self.fail(p, "parameter of type %r" % self.tyname(p))
            g = self.mangle(p.get("name", ""), {b for b, _ in binders})
            env[p["id"]] = (g, k)
            binders.append((g, k))
        return env, binders

    @staticmethod
    def contains_kind(n, kind):
        if not isinstance(n, dict):
            return False
        if n.get("kind") == kind:
            return True
        return any(Translator.contains_kind(c, kind) for c in n.get("inner", []))

    def collect_returns(self, n, acc):
        if not isinstance(n, dict):
            return
        if n.get("kind") == "ReturnStmt":
            acc.append(n)
            return
        if n.get("kind") == "LambdaExpr":
            self.fail(n)
        for c in n.get("inner", []):
            self.collect_returns(c, acc)

    def translate(self, cname, gname=None, at=None):
        """translate member function `cname` in full (memoised; callees first)"""
        if cname in self.done:
            return self.done[cname]
        if cname in self.active:
            raise Unsupported("recursive member functions: %s" % " -> ".join(self.active + [cname]))
        m = self.method(cname, at)
        self.active.append(cname)
        try:
            params, body = self.method_parts(m)
            env, binders = self.bind_params(params)
            rets = []
            self.collect_returns(body, rets)
            kinds = set()
            for r in rets:
                inner = r.get("inner", [])
                if not inner:
                    kinds.add("unit")
                elif len(inner) == 1:
                    k = self.kind_of_type(inner[0])
                    if k is None:
                        self.fail(inner[0], "return value of type %r" % self.tyname(inner[0]))
                    kinds.add(k)
                else:
                    self.fail(r)
            if not kinds:
                kinds.add("unit")
            if len(kinds) != 1:
                self.fail(m, "return statements of different types %s" % sorted(kinds))
            kind = kinds.pop()
            throws = self.contains_kind(body, "CXXThrowExpr")
            ctx = {"kind": kind, "throws": throws, "mode": "fun"}
            term = self.stmts([body], env, ctx)
            fn = Fn(cname, gname or dict(PLAIN).get(cname) or cname, binders, kind, throws, term, m)
        finally:
            self.active.pop()
        self.done[cname] = fn
        self.order.append(fn)
        return fn

    # ---- statements --------------------------------------------------------------------
    def wrap_value(self, e, ctx):
        return app("Ok", e) if ctx["throws"] else e

    def fallthrough(self, ctx, where):
        if ctx["mode"] == "nothrow":
            return atom("true")
        if ctx["kind"] != "unit":
            self.fail(where, "control reaches the end of a non-void function")
        return self.wrap_value(atom("tt"), ctx)

    def is_empty_do_while_false(self, s):
        inner = s.get("inner", [])
        if len(inner) != 2:
            return False
        b, c = inner
        return (b.get("kind") == "CompoundStmt" and not b.get("inner")
                and c.get("kind") == "CXXBoolLiteralExpr" and c.get("value") is False)

    def stmts(self, todo, env, ctx, last=None):
        """translate the statement list `todo` (what follows an `if` is appended to both branches)"""
        if not todo:
            return self.fallthrough(ctx, last if last is not None else {})
        s, rest = todo[0], todo[1:]
        if not isinstance(s, dict) or "kind" not in s:
            self.fail(last if last is not None else {}, "empty statement slot")
        k = s["kind"]
        if k == "CompoundStmt":
            return self.stmts(list(s.get("inner", [])) + rest, env, ctx, s)
        if k == "NullStmt":
            return self.stmts(rest, env, ctx, s)
        if k == "DoStmt":
            if not self.is_empty_do_while_false(s):
                self.fail(s, "only `do {} while (false)` is ignored")
            return self.stmts(rest, env, ctx, s)
        if k == "DeclStmt":
            env = dict(env)
            lets = []
            for d in s.get("inner", []):
                if d.get("kind") != "VarDecl":
                    self.fail(d, "declaration in DeclStmt")
                vk = self.kind_of_type(d)
                t = d.get("type", {})
                q = t.get("desugaredQualType", t.get("qualType", ""))
                if vk not in ("N", "bool"):
                    self.fail(d, "local variable of type %r" % q)
                if not (q.startswith("const ") or t.get("qualType", "").startswith("const ")):
                    self.fail(d, "non-const local variable %r" % d.get("name"))
                if d.get("storageClass") or d.get("tls"):
                    self.fail(d, "static/thread_local local variable")
                init = [c for c in d.get("inner", []) if not c.get("kind", "").endswith("Comment")]
                if len(init) != 1 or d.get("init") not in ("c", "call", "list"):
                    self.fail(d, "local variable without a simple initialiser")
                e = self.expr_as(init[0], vk, env)
                g = self.mangle(d.get("name", ""), {v[0] for v in env.values()})
                lets.append((g, e))
                env[d["id"]] = (g, vk)
            body = self.stmts(rest, env, ctx, s)
            for g, e in reversed(lets):
                body = ("let", g, e, body)
            return body
        if k == "IfStmt":
            for bad in ("hasInit", "hasVar", "isConstexpr", "isConsteval"):
                if s.get(bad):
                    self.fail(s, bad)
            inner = s.get("inner", [])
            has_else = bool(s.get("hasElse"))
            if len(inner) != (3 if has_else else 2):
                self.fail(s, "if statement with %d children" % len(inner))
            c = self.expr_as(inner[0], "bool", env)
            a = self.stmts([inner[1]] + rest, env, ctx, s)
            b = self.stmts(([inner[2]] if has_else else []) + rest, env, ctx, s)
            return ("if", c, a, b)
        if k == "ReturnStmt":
            # whatever follows a return is dead code: dropping it IS the C++ semantics
            inner = s.get("inner", [])
            if ctx["mode"] == "nothrow":
                if inner:
                    self.fail(s, "return with a value in a validity check")
                return atom("true")
            if not inner:
                if ctx["kind"] != "unit":
                    self.fail(s, "return without a value")
                return self.wrap_value(atom("tt"), ctx)
            if ctx["kind"] == "optN":
                return self.wrap_value(self.optional(inner[0], env), ctx)
            if ctx["kind"] == "unit":
                self.fail(s, "return with a value in a void function")
            return self.wrap_value(self.expr_as(inner[0], ctx["kind"], env), ctx)
        if k in ("ExprWithCleanups", "CXXThrowExpr"):
            code = self.throw_code(s)
            if ctx["mode"] == "nothrow":
                return atom("false")
            return app("Throw", atom(code))
        self.fail(s, "statement")

    def throw_code(self, s):
        n = s
        if n.get("kind") == "ExprWithCleanups":
            inner = n.get("inner", [])
            if len(inner) != 1:
                self.fail(n)
            n = inner[0]
        if n.get("kind") != "CXXThrowExpr":
            self.fail(n, "expression statement")
        inner = n.get("inner", [])
        if len(inner) != 1:
            self.fail(n, "rethrow")
        e = inner[0]
        while e.get("kind") in ("CXXFunctionalCastExpr", "CXXBindTemporaryExpr", "MaterializeTemporaryExpr",
                                "ExprWithCleanups", "ParenExpr", "CXXTemporaryObjectExpr") \
                or (e.get("kind") == "ImplicitCastExpr"
                    and e.get("castKind") in ("ConstructorConversion", "NoOp")):
            if e.get("kind") == "CXXTemporaryObjectExpr":
                break
            if len(e.get("inner", [])) != 1:
                self.fail(e)
            e = e["inner"][0]
        if e.get("kind") not in ("CXXConstructExpr", "CXXTemporaryObjectExpr") or self.tyname(e) != EXC_TYPE:
            self.fail(e, "thrown object is not a %s" % EXC_TYPE)
        args = e.get("inner", [])
        if len(args) != 1:
            self.fail(e, "exception constructed from %d arguments" % len(args))
        a = args[0]
        ref = a.get("referencedDecl") or {}
        if a.get("kind") != "DeclRefExpr" or ref.get("kind") != "EnumConstantDecl":
            self.fail(a, "error code is not an enumerator")
        code = ref.get("name")
        if code not in ERR_CODES:
            self.fail(a, "unknown error code %r" % code)
        return code

    # ---- expressions -------------------------------------------------------------------
    def expr_as(self, n, want, env):
        e, k = self.expr(n, env)
        if k != want:
            self.fail(n, "expected an expression of kind %s, got %s" % (want, k))
        return e

    def only_child(self, n):
        inner = n.get("inner", [])
        if len(inner) != 1:
            self.fail(n, "%d children" % len(inner))
        return inner[0]

    def check_kind(self, n, k):
        """the kind computed bottom-up must agree with the type clang assigned to the node"""
        tk = self.kind_of_type(n)
        if tk != k:
            self.fail(n, "computed kind %s but clang says type %r" % (k, self.tyname(n)))

    def expr(self, n, env):
        """returns (term, kind) with kind in N | bool | intlit"""
        if not isinstance(n, dict) or "kind" not in n:
            raise Unsupported("malformed AST node %r" % (n,))
        k = n["kind"]
        if k == "ParenExpr":
            return self.expr(self.only_child(n), env)
        if k in ("ExprWithCleanups", "ConstantExpr"):
            return self.expr(self.only_child(n), env)
        if k == "ImplicitCastExpr":
            ck = n.get("castKind")
            e, ek = self.expr(self.only_child(n), env)
            if ck in ("LValueToRValue", "NoOp"):
                return e, ek
            if ck == "IntegralCast":
                if self.kind_of_type(n) != "N":
                    self.fail(n, "integral cast to %r" % self.tyname(n))
                if ek in ("N", "intlit"):
                    return e, "N"
                self.fail(n, "integral cast from kind %s" % ek)
            if ck == "IntegralToBoolean":
                if ek != "N":
                    self.fail(n, "conversion to bool from kind %s" % ek)
                return app("negb", ("infix", "=?", e, atom("0"))), "bool"
            self.fail(n, "castKind %s" % ck)
        if k == "IntegerLiteral":
            v = n.get("value")
            if not isinstance(v, str) or not v.isdigit() or int(v) >= 2 ** 64:
                self.fail(n, "literal %r" % (v,))
            if self.kind_of_type(n) == "N":
                return atom(str(int(v))), "N"
            if self.tyname(n) in ("int", "unsigned int", "long", "long long", "unsigned long long"):
                return atom(str(int(v))), "intlit"   # usable only under an IntegralCast to size_t
            self.fail(n, "literal of type %r" % self.tyname(n))
        if k == "CXXBoolLiteralExpr":
            v = n.get("value")
            if v not in (True, False):
                self.fail(n)
            return atom("true" if v else "false"), "bool"
        if k == "DeclRefExpr":
            ref = n.get("referencedDecl") or {}
            if ref.get("kind") in ("ParmVarDecl", "VarDecl") and ref.get("id") in env:
                g, vk = env[ref["id"]]
                self.check_kind(n, vk)
                return atom(g), vk
            self.fail(n, "reference to %s %r" % (ref.get("kind"), ref.get("name")))
        if k == "MemberExpr":
            base = self.only_child(n)
            if base.get("kind") == "CXXThisExpr" and n.get("name") in FIELDS \
                    and self.fields.get(n.get("referencedMemberDecl")) == n.get("name"):
                self.check_kind(n, "N")
                return atom(FIELDS[n["name"]]), "N"
            self.fail(n, "member %r" % n.get("name"))
        if k == "UnaryOperator":
            op = n.get("opcode")
            if op == "!":
                e = self.expr_as(self.only_child(n), "bool", env)
                self.check_kind(n, "bool")
                return app("negb", e), "bool"
            self.fail(n, "unary operator %r" % op)
        if k == "BinaryOperator":
            op = n.get("opcode")
            inner = n.get("inner", [])
            if len(inner) != 2:
                self.fail(n)
            (a, ka), (b, kb) = self.expr(inner[0], env), self.expr(inner[1], env)
            if op in ("+", "-"):
                if ka != "N" or kb != "N":
                    self.fail(n, "%r on kinds %s, %s" % (op, ka, kb))
                self.check_kind(n, "N")
                return app("wadd" if op == "+" else "wsub", a, b), "N"
            if op in ("<", "<=", ">", ">=", "==", "!="):
                self.check_kind(n, "bool")
                if ka == "N" and kb == "N":
                    if op == "<":
                        return ("infix", "<?", a, b), "bool"
                    if op == "<=":
                        return ("infix", "<=?", a, b), "bool"
                    if op == ">":
                        return ("infix", "<?", b, a), "bool"
                    if op == ">=":
                        return ("infix", "<=?", b, a), "bool"
                    if op == "==":
                        return ("infix", "=?", a, b), "bool"
                    return app("negb", ("infix", "=?", a, b)), "bool"
                if ka == "bool" and kb == "bool" and op in ("==", "!="):
                    e = app("Bool.eqb", a, b)
                    return (e if op == "==" else app("negb", e)), "bool"
                self.fail(n, "%r on kinds %s, %s" % (op, ka, kb))
            if op in ("&&", "||"):
                if ka != "bool" or kb != "bool":
                    self.fail(n, "%r on kinds %s, %s" % (op, ka, kb))
                self.check_kind(n, "bool")
                return app("andb" if op == "&&" else "orb", a, b), "bool"
            self.fail(n, "binary operator %r" % op)
        if k == "ConditionalOperator":
            inner = n.get("inner", [])
            if len(inner) != 3:
                self.fail(n)
            c = self.expr_as(inner[0], "bool", env)
            (a, ka), (b, kb) = self.expr(inner[1], env), self.expr(inner[2], env)
            if ka != kb or ka not in ("N", "bool"):
                self.fail(n, "branches of kinds %s, %s" % (ka, kb))
            self.check_kind(n, ka)
            return ("if", c, a, b), ka
        if k == "CXXMemberCallExpr":
            inner = n.get("inner", [])
            if not inner or inner[0].get("kind") != "MemberExpr":
                self.fail(n, "callee")
            callee, args = inner[0], inner[1:]
            base = self.only_child(callee)
            name = callee.get("name")
            if base.get("kind") == "CXXThisExpr":
                m = self.method(name, n)
                if m.get("id") != callee.get("referencedMemberDecl"):
                    self.fail(n, "call does not resolve to %s::%s" % (CLASS_NAME, name))
                fn = self.translate(name, at=n)
                if fn.throws:
                    self.fail(n, "call of the throwing member function %s inside an expression" % name)
                if fn.kind not in ("N", "bool"):
                    self.fail(n, "call of %s, which returns kind %s" % (name, fn.kind))
                if len(args) != len(fn.params):
                    self.fail(n, "argument count")
                targs = [self.expr_as(a, pk, env) for a, (_, pk) in zip(args, fn.params)]
                self.check_kind(n, fn.kind)
                return app(fn.gname, atom("gsize"), atom("start"), atom("stop"), *targs), fn.kind
            if (base.get("kind") == "MemberExpr" and base.get("name") == GRID_FIELD
                    and self.fields.get(base.get("referencedMemberDecl")) == GRID_FIELD
                    and self.only_child(base).get("kind") == "CXXThisExpr"
                    and name == "size" and not args):
                self.check_kind(n, "N")
                return atom("gsize"), "N"
            self.fail(n, "member call %r" % name)
        self.fail(n, "expression")

    def optional(self, n, env):
        """an expression of type std::optional<size_t>  ->  Some e | None"""
        k = n.get("kind")
        if k in ("ExprWithCleanups", "CXXBindTemporaryExpr", "MaterializeTemporaryExpr", "ParenExpr",
                 "CXXFunctionalCastExpr") \
                or (k == "ImplicitCastExpr" and n.get("castKind") in ("ConstructorConversion", "NoOp")):
            return self.optional(self.only_child(n), env)
        if k == "ConditionalOperator":
            inner = n.get("inner", [])
            if len(inner) != 3:
                self.fail(n)
            return ("if", self.expr_as(inner[0], "bool", env),
                    self.optional(inner[1], env), self.optional(inner[2], env))
        if k in ("CXXConstructExpr", "CXXTemporaryObjectExpr") and self.kind_of_type(n) == "optN":
            args = n.get("inner", [])
            if not args:
                return atom("None")
            if len(args) != 1:
                self.fail(n, "optional constructed from %d arguments" % len(args))
            a = args[0]
            while a.get("kind") in ("MaterializeTemporaryExpr", "CXXBindTemporaryExpr", "ParenExpr"):
                a = self.only_child(a)
            if self.kind_of_type(a) == "optN":
                return self.optional(a, env)          # copy / move of another optional
            if self.is_nullopt(a):
                return atom("None")
            return app("Some", self.expr_as(a, "N", env))
        self.fail(n, "optional-valued expression")

    def is_nullopt(self, a):
        if self.tyname(a) != "std::nullopt_t":
            return False
        while a.get("kind") in ("CXXConstructExpr", "ImplicitCastExpr", "MaterializeTemporaryExpr"):
            a = self.only_child(a)
        ref = a.get("referencedDecl") or {}
        if a.get("kind") == "DeclRefExpr" and ref.get("name") == "nullopt":
            return True
        self.fail(a, "value of type std::nullopt_t")

    # ---- the two special shapes --------------------------------------------------------
    def translate_valid(self):
        """checkValidity as a predicate: true iff the function returns normally"""
        cname = "checkValidity"
        m = self.method(cname)
        self.active.append(cname)
        try:
            params, body = self.method_parts(m)
            if params:
                self.fail(m, "checkValidity with parameters")
            if not self.contains_kind(body, "CXXThrowExpr"):
                self.fail(m, "checkValidity never throws")
            ctx = {"kind": "unit", "throws": True, "mode": "nothrow"}
            term = self.stmts([body], {}, ctx)
        finally:
            self.active.pop()
        fn = Fn(cname, "valid", [], "bool", False, term, m)
        self.order.append(fn)
        return fn

    def translate_at(self):
        """at(index): [do{}while(false);]* if (GUARD) throw E(CODE); return _grid.at(INDEX);"""
        cname = "at"
        m = self.method(cname)
        self.active.append(cname)
        try:
            params, body = self.method_parts(m)
            env, binders = self.bind_params(params)
            todo = []
            for s in body.get("inner", []):
                if s.get("kind") == "DoStmt" and self.is_empty_do_while_false(s):
                    continue
                if s.get("kind") == "NullStmt":
                    continue
                todo.append(s)
            if len(todo) != 2 or todo[0].get("kind") != "IfStmt" or todo[1].get("kind") != "ReturnStmt":
                self.fail(todo[0] if todo else body,
                          "body of at() is not `if (guard) throw ...; return _grid.at(...);`")
            ifs, ret = todo
            for bad in ("hasInit", "hasVar", "hasElse", "isConstexpr"):
                if ifs.get(bad):
                    self.fail(ifs, bad)
            inner = ifs.get("inner", [])
            if len(inner) != 2:
                self.fail(ifs)
            guard = self.expr_as(inner[0], "bool", env)
            th = inner[1]
            while th.get("kind") == "CompoundStmt":
                th = self.only_child(th)
            code = self.throw_code(th)
            call = self.only_child(ret)
            while call.get("kind") in ("ParenExpr", "ExprWithCleanups"):
                call = self.only_child(call)
            ok = False
            if call.get("kind") == "CXXMemberCallExpr" and len(call.get("inner", [])) == 2:
                callee, a = call["inner"]
                if (callee.get("kind") == "MemberExpr" and callee.get("name") == "at"):
                    base = self.only_child(callee)
                    if (base.get("kind") == "MemberExpr" and base.get("name") == GRID_FIELD
                            and self.fields.get(base.get("referencedMemberDecl")) == GRID_FIELD
                            and self.only_child(base).get("kind") == "CXXThisExpr"):
                        ok = True
            if not ok:
                self.fail(call, "at() does not end in `return _grid.at(<index>)`")
            index = self.expr_as(a, "N", env)
        finally:
            self.active.pop()
        out = [Fn(cname, "at_guard", binders, "bool", False, guard, m),
               Fn(cname, "at_throw", [], "err", False, atom(code), m),
               Fn(cname, "at_index", binders, "N", False, index, m)]
        self.order.extend(out)
        return out

    # ---- output ------------------------------------------------------------------------
    def source_text(self, m):
        r = m.get("range") or {}
        b, e = r.get("begin") or {}, r.get("end") or {}
        for p in (b, e):
            if "offset" not in p or "expansionLoc" in p or "spellingLoc" in p:
                self.fail(m, "source range of the member function")
        lo, hi = b["offset"], e["offset"] + e.get("tokLen", 1)
        f = (m.get("loc") or {}).get("file") or b.get("file")
        if f is not None and os.path.realpath(f) != os.path.realpath(self.hdr_path):
            self.fail(m, "member function defined in %s" % f)
        raw = self.src[lo:hi].decode("utf-8", "replace")
        if (m.get("name", "") + "(") not in raw.replace(" (", "(") or not raw.rstrip().endswith("}"):
            self.fail(m, "source range does not look like the definition of %s" % m.get("name"))
        l0 = self.src.count(b"\n", 0, lo) + 1
        l1 = self.src.count(b"\n", 0, hi) + 1
        col = lo - (self.src.rfind(b"\n", 0, lo) + 1)
        lines = (" " * col + raw).split("\n")
        strip = min((len(x) - len(x.lstrip()) for x in lines if x.strip()), default=0)
        text = "\n".join("    " + x[strip:].rstrip() for x in lines)
        text = text.replace("(*", "( *").replace("*)", "* )").replace('"', "''")
        return l0, l1, text

    def render(self):
        out = []
        out.append("(* SupportGen.v — GENERATED by gen/ast2coq.py from include/%s (clang JSON AST of\n"
                   "   Support<double>) on every run; do not edit.  size_t arithmetic is wadd/wsub (mod 2^64).\n"
                   "   Parameters: gsize = _grid.size(), start = _startIndex, stop = _endIndex. *)"
                   % HEADER_REL.replace(os.sep, "/"))
        out.append("From Coq Require Import NArith Bool.")
        out.append("From BSpl Require Import Outcome Support.")
        out.append("Local Open Scope N_scope.")
        out.append("")
        out.append("Module G.")
        last_src = None
        for fn in self.order:
            l0, l1, text = self.source_text(fn.node)
            out.append("")
            if last_src != fn.node.get("id"):
                out.append("(* %s::%s — %s:%d-%d\n%s\n*)" % (CLASS_NAME, fn.cname,
                                                           os.path.basename(HEADER_REL), l0, l1, text))
            else:
                out.append("(* %s::%s — same source as above *)" % (CLASS_NAME, fn.cname))
            last_src = fn.node.get("id")
            ty = BASE_TY[fn.kind]
            if fn.throws:
                ty = "outcome " + (ty if " " not in ty else "(" + ty + ")")
            names = ["gsize", "start", "stop"] + [g for g, k in fn.params if k == "N"]
            binders = "(%s : N)" % " ".join(names) if all(k == "N" for _, k in fn.params) else \
                "(gsize start stop : N) " + " ".join("(%s : %s)" % (g, BASE_TY[k]) for g, k in fn.params)
            out.append("Definition %s %s : %s :=\n  %s." % (fn.gname, binders, ty, block(fn.body, "  ")))
        out.append("")
        out.append("End G.")
        return "\n".join(out) + "\n"


def generate(repo):
    text, hdr = run_clang(repo)
    spec = find_specialization(parse_objects(text))
    tr = Translator(spec, hdr)
    for cname, gname in PLAIN:
        tr.translate(cname, gname)
    tr.translate_valid()
    tr.translate("checkValidity", "checkValidity")
    tr.translate_at()
    want = [g for _, g in PLAIN] + ["valid", "checkValidity", "at_guard", "at_throw", "at_index"]
    got = [fn.gname for fn in tr.order]
    if sorted(got) != sorted(want) or len(set(got)) != len(got):
        raise Unsupported("generated definitions %s differ from the expected set %s "
                          "(a translated function calls a member function outside the set?)" % (got, want))
    return tr.render()


def main(argv):
    do_print, out_dir = False, DEFAULT_OUT
    i = 0
    while i < len(argv):
        a = argv[i]
        if a == "--print":
            do_print = True
        elif a == "--out":
            i += 1
            if i >= len(argv):
                sys.stderr.write("ast2coq: --out needs a directory\n")
                return 2
            out_dir = argv[i]
        elif a in ("-h", "--help"):
            sys.stdout.write(__doc__)
            return 0
        else:
            sys.stderr.write("ast2coq: unknown argument %r (use --print, --out DIR)\n" % a)
            return 2
        i += 1
    repo = os.environ.get("VERIF_REPO", "/repo")
    try:
        text = generate(repo)
    except Unsupported as e:
        sys.stderr.write("ast2coq: FAILED: %s\n" % e)
        return 1
    os.makedirs(out_dir, exist_ok=True)
    path = os.path.join(out_dir, OUT_NAME)
    old = None
    if os.path.isfile(path):
        with open(path, encoding="utf-8") as f:
            old = f.read()
    if old != text:
        tmp = path + ".tmp"
        with open(tmp, "w", encoding="utf-8") as f:
            f.write(text)
        os.replace(tmp, path)
        status = "written"
    else:
        status = "unchanged"
    if do_print:
        sys.stdout.write(text)
    sys.stderr.write("ast2coq: %s %s (from %s)\n" % (path, status, os.path.join(repo, "include", HEADER_REL)))
    return 0


if __name__ == "__main__":
    sys.exit(main(sys.argv[1:]))

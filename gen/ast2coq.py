#!/usr/bin/env python3
"""ast2coq.py — regenerates coq/gen/SupportGen.v from the C++ source on every run.

A second, independent tie between the headers of /repo and the hand-written Gallina model
(coq/Support.v, coq/Spline.v): clang (not a regular expression) parses the headers, this script walks
the JSON AST of the integer-only (index) logic of `Support<double>`, `Grid<double>::at` and
`Spline<double,2>::checkValidity` and prints, for each function, a Gallina definition with EXACTLY the
C++ semantics of size_t (`+` is `wadd`, `-` is `wsub`, both modulo 2^64).  coq/Proofs_SupportGen.v
then proves that every generated definition coincides with the hand-written model function; an edit
of a header that changes the meaning of one of these functions changes the generated text and breaks
that proof.

    clang++ -std=c++17 -fsyntax-only -I$VERIF_REPO/include -Xclang -ast-dump=json \
            -Xclang -ast-dump-filter=<Support|Grid|Spline> tu.cpp

with tu.cpp = `#include <bspline/Spline.h>` + explicit instantiations of Grid<double>, Support<double>
and Spline<double, 2> (one clang run per class).  With a filter clang prints several top-level JSON
objects; the one used is the ClassTemplateSpecializationDecl (the instantiation: no dependent types,
member calls resolved).

Gallina parameters: `gsize start stop : N` stand for `_grid.size()`, `_startIndex`, `_endIndex` of the
object, followed by the function's own integer parameters; a second operand `const Support &s`
contributes `start2 stop2 : N` (its indices) and `same_grid : bool` (the value of `hasSameGrid(s)`);
a `std::vector` parameter contributes `ncoefs : N` (its `size()`).

Translated:
  Support:  size empty containsIntervals relativeFromAbsolute intervalIndexFromAbsolute
            absoluteFromRelative numberOfIntervals
            checkValidity    -> `valid : bool` (true iff the function does NOT throw) and
                                `checkValidity : outcome unit`
            at               -> `at_guard : bool` (the condition of its `if (...) throw`),
                                `at_throw : err` (the code thrown), `at_index : N` (the argument of
                                the final `_grid.at(...)`)
            operator==       -> `eq : bool`
            createEmpty      -> `createEmpty : gres`
            calcUnion, calcIntersection -> `gres`, the INDEX logic of the result:
                 GThrow e | GEmpty (createEmpty(_grid)) | GThis (return *this) | GOther (return s)
                 | GCtor a b (Support(_grid, a, b), the validating constructor)
  Grid:     at               -> `grid_at_guard : bool`, `grid_at_throw : err`  (`size()` is `gsize`,
                                checked to be `return _data->size();`; the final `return (*_data)[i]`
                                is not integer logic and is only checked to be a return statement)
  Spline:   checkValidity(support, coefficients) -> `spline_valid : bool` and
                                `spline_checkValidity : outcome unit`

Anything the translator does not understand raises Unsupported (AST kind + source line) and the
script exits non-zero; nothing is ever skipped silently, with one exception that is checked for
shape: `do {} while (false)` (the expansion of DURING_TEST_CHECK_VALIDITY*() outside the tests).

Python 3, standard library only.  Deterministic and idempotent; writes the output only if changed.
Options: --print (echo the generated Gallina), --out DIR (write DIR/SupportGen.v instead).
"""
import json
import os
import re
import shutil
import subprocess
import sys
import tempfile

DEFAULT_OUT = os.path.join(os.path.dirname(os.path.dirname(os.path.abspath(__file__))), "coq", "gen")
OUT_NAME = "SupportGen.v"

TU = ("#include <bspline/Spline.h>\n"
      "template class bspline::support::Grid<double>;\n"
      "template class bspline::support::Support<double>;\n"
      "template class bspline::Spline<double, 2>;\n")

# class -> (header relative to include/, expected template arguments)
CLASSES = {
    "Support": (os.path.join("bspline", "support", "Support.h"), ["double"]),
    "Grid": (os.path.join("bspline", "support", "Grid.h"), ["double"]),
    "Spline": (os.path.join("bspline", "Spline.h"), ["double", 2]),
}
SUPPORT_TYPES = ("bspline::support::Support<double>", "Support<double>")
GRID_TYPES = ("bspline::support::Grid<double>", "Grid<double>")

# Support member function -> generated Gallina name, in output order (callees are pulled in earlier).
PLAIN = [
    ("size", "size"),
    ("empty", "empty"),
    ("containsIntervals", "containsIntervals"),
    ("relativeFromAbsolute", "relativeFromAbsolute"),
    ("intervalIndexFromAbsolute", "intervalIndexFromAbsolute"),
    ("absoluteFromRelative", "absoluteFromRelative"),
    ("numberOfIntervals", "numberOfIntervals"),
]
BINARY = [
    ("operator==", "eq"),
    ("createEmpty", "createEmpty"),
    ("calcUnion", "calcUnion"),
    ("calcIntersection", "calcIntersection"),
]
GNAMES = dict(PLAIN + BINARY)
FIELDS = {"_startIndex": ("start", "start2"), "_endIndex": ("stop", "stop2")}
GRID_FIELD = "_grid"
ERR_CODES = ("DIFFERING_GRIDS", "INCONSISTENT_DATA", "MISSING_DATA", "INVALID_ACCESS", "UNDETERMINED")
EXC_TYPE = "bspline::exceptions::BSplineException"
GRES = "Inductive gres := GThrow (e : err) | GEmpty | GThis | GOther | GCtor (a b : N)."

EXPECTED = [g for _, g in PLAIN] + ["valid", "checkValidity", "at_guard", "at_throw", "at_index"] + \
           [g for _, g in BINARY] + ["grid_at_guard", "grid_at_throw", "spline_valid", "spline_checkValidity"]

RESERVED = {
    # Gallina keywords
    "as", "at", "cofix", "else", "end", "exists", "exists2", "fix", "for", "forall", "fun", "if",
    "IF", "in", "let", "match", "mod", "Prop", "return", "Set", "then", "Type", "using", "where",
    "with", "SProp",
    # names the generated text uses
    "gsize", "start", "stop", "start2", "stop2", "same_grid", "ncoefs",
    "wadd", "wsub", "W", "N", "bool", "unit", "option", "outcome", "err",
    "Some", "None", "Ok", "Throw", "UB", "andb", "orb", "negb", "true", "false", "tt", "G",
    "gres", "GThrow", "GEmpty", "GThis", "GOther", "GCtor",
} | set(EXPECTED) | set(ERR_CODES)

SIZE_T = {"unsigned long", "size_t", "std::size_t"}


class Unsupported(Exception):
    pass


# --------------------------------------------------------------------------------------------
# clang
# --------------------------------------------------------------------------------------------
def run_clang(repo):
    """one run per class (same translation unit); returns {class: stdout}"""
    inc = os.path.join(repo, "include")
    for cls, (rel, _) in sorted(CLASSES.items()):
        if not os.path.isfile(os.path.join(inc, rel)):
            raise Unsupported("header not found: %s" % os.path.join(inc, rel))
    os.makedirs("/var/tmp", exist_ok=True)
    tmp = tempfile.mkdtemp(prefix="ast2coq.", dir="/var/tmp")
    try:
        tu = os.path.join(tmp, "tu.cpp")
        with open(tu, "w") as f:
            f.write(TU)
        out = {}
        for cls in sorted(CLASSES):
            cmd = ["clang++", "-std=c++17", "-fsyntax-only", "-I" + inc,
                   "-Xclang", "-ast-dump=json", "-Xclang", "-ast-dump-filter=" + cls, tu]
            try:
                p = subprocess.run(cmd, stdout=subprocess.PIPE, stderr=subprocess.PIPE,
                                   universal_newlines=True, cwd=tmp)
            except OSError as e:
                raise Unsupported("cannot run clang++: %s" % e)
            if p.returncode != 0:
                raise Unsupported("clang++ failed (exit %d):\n%s" % (p.returncode, p.stderr.strip()))
            out[cls] = p.stdout
        return out
    finally:
        shutil.rmtree(tmp, ignore_errors=True)


def parse_objects(text):
    """clang prints several top-level JSON objects one after another."""
    dec = json.JSONDecoder()
    i, n, objs = 0, len(text), []
    while True:
        while i < n and text[i].isspace():
            i += 1
        if i >= n:
            return objs
        try:
            o, i = dec.raw_decode(text, i)
        except ValueError as e:
            raise Unsupported("cannot parse clang's JSON output at byte %d: %s" % (i, e))
        objs.append(o)


def find_specialization(objs, cls, want_args):
    found = []

    def args_of(n):
        r = []
        for c in n.get("inner", []):
            if c.get("kind") == "TemplateArgument":
                if "value" in c:
                    r.append(c["value"])
                else:
                    r.append((c.get("type") or {}).get("qualType"))
        return r

    def walk(n, top):
        if not isinstance(n, dict):
            return
        if n.get("kind") == "ClassTemplateSpecializationDecl" and n.get("name") == cls:
            has_methods = any(c.get("kind") == "CXXMethodDecl" for c in n.get("inner", []))
            if has_methods and args_of(n) == want_args:
                found.append(n)
                return
        if top or n.get("kind") in ("ClassTemplateDecl", "NamespaceDecl"):
            for c in n.get("inner", []):
                walk(c, False)

    for o in objs:
        walk(o, True)
    what = "%s<%s>" % (cls, ", ".join(str(a) for a in want_args))
    if not found:
        raise Unsupported("no ClassTemplateSpecializationDecl %s with member definitions in "
                          "clang's output (%d top-level objects)" % (what, len(objs)))
    if len({n.get("id") for n in found}) != 1:
        raise Unsupported("several distinct %s specializations in clang's output" % what)
    return found[0]


# --------------------------------------------------------------------------------------------
# Gallina terms:  ("atom", s) ("app", f, [args]) ("infix", op, a, b) ("if", c, a, b) ("let", x, e, b)
# --------------------------------------------------------------------------------------------
def atom(s):
    return ("atom", s)


def app(f, *args):
    return ("app", f, list(args))


def inline(e):
    k = e[0]
    if k == "atom":
        return e[1]
    if k == "app":
        return e[1] + " " + " ".join(arg(a) for a in e[2])
    if k == "infix":
        return "(%s %s %s)" % (inline(e[2]), e[1], inline(e[3]))
    if k == "if":
        return "(if %s then %s else %s)" % (inline(e[1]), inline(e[2]), inline(e[3]))
    if k == "let":
        return "(let %s := %s in %s)" % (e[1], inline(e[2]), inline(e[3]))
    raise AssertionError(k)


def arg(e):
    return inline(e) if e[0] in ("atom", "infix", "if", "let") else "(" + inline(e) + ")"


def block(e, ind):
    """multi-line rendering of the statement structure (let / if chains)"""
    k = e[0]
    if k == "let":
        return "let %s := %s in\n%s%s" % (e[1], inline(e[2]), ind, block(e[3], ind))
    if k == "if":
        return "if %s\n%sthen %s\n%selse %s" % (inline(e[1]), ind, branch(e[2], ind + "  "),
                                                 ind, branch(e[3], ind + "  "))
    return inline(e)


def branch(e, ind):
    if e[0] == "let":
        return "(" + block(e, ind + " ") + ")"
    return block(e, ind)


# --------------------------------------------------------------------------------------------
# translation
# --------------------------------------------------------------------------------------------
class ClassCtx:
    def __init__(self, name, spec, hdr_path, rel):
        self.name, self.spec, self.hdr_path, self.rel = name, spec, hdr_path, rel
        with open(hdr_path, "rb") as f:
            self.src = f.read()
        self.methods, self.fields = {}, {}
        for c in spec.get("inner", []):
            if c.get("kind") == "CXXMethodDecl":
                self.methods.setdefault(c.get("name"), []).append(c)
            elif c.get("kind") == "FieldDecl":
                self.fields[c.get("id")] = c.get("name")


class Fn:
    """a translated function"""
    def __init__(self, C, cname, gname, binders, params, kind, throws, body, node,
                 plain=False, uses_gsize=False):
        self.C, self.cname, self.gname, self.binders, self.params = C, cname, gname, binders, params
        self.kind, self.throws, self.body, self.node = kind, throws, body, node
        self.plain, self.uses_gsize = plain, uses_gsize


BASE_TY = {"N": "N", "bool": "bool", "optN": "option N", "unit": "unit", "err": "err", "sup": "gres"}
OBJ3 = [("gsize", "N"), ("start", "N"), ("stop", "N")]


class Translator:
    def __init__(self, ctxs):
        self.ctxs = ctxs
        self.done = {}        # (class, C++ name) -> Fn
        self.order = []       # Fn in definition order (callees first)
        self.active = []      # [(ClassCtx, C++ name)]: cycle detection, diagnostics, current class
        self.gs = []          # stack of flags: does the function being translated read gsize?
        self.checked = set()

    @property
    def C(self):
        if not self.active:
            raise AssertionError("no current class")
        return self.active[-1][0]

    # ---- diagnostics -------------------------------------------------------------------
    def offset_of(self, n):
        b = (n.get("range") or {}).get("begin") or {}
        if "expansionLoc" in b:
            b = b["expansionLoc"]
        return b.get("offset")

    def line_of(self, n):
        off = self.offset_of(n)
        if off is None or not self.active:
            return "?"
        return self.C.src.count(b"\n", 0, off) + 1

    def fail(self, n, what=None):
        kind = n.get("kind", "?") if isinstance(n, dict) else "?"
        msg = "unsupported AST node %s" % kind
        if what:
            msg += " (%s)" % what
        if self.active:
            msg += " at %s:%s in %s::%s" % (self.C.rel, self.line_of(n) if isinstance(n, dict) else "?",
                                            self.C.name, self.active[-1][1])
        raise Unsupported(msg)

    # ---- types -------------------------------------------------------------------------
    @staticmethod
    def tyname(n):
        t = n.get("type") or {}
        q = t.get("desugaredQualType", t.get("qualType", "")).strip()
        while True:
            if q.startswith("const "):
                q = q[6:].strip()
            elif q.endswith(" const"):
                q = q[:-6].strip()
            elif q.endswith("&"):
                q = q[:-1].strip()
            else:
                return q

    def kind_of_type(self, n):
        q = self.tyname(n)
        if q in SIZE_T:
            return "N"
        if q == "bool":
            return "bool"
        if q in ("std::optional<unsigned long>", "optional<unsigned long>"):
            return "optN"
        if q == "void":
            return "unit"
        if q in SUPPORT_TYPES:
            return "sup"
        return None

    # ---- methods -----------------------------------------------------------------------
    def method(self, C, cname, at=None, nparams=None):
        ms = C.methods.get(cname, [])
        if nparams is not None:
            ms = [m for m in ms
                  if sum(1 for c in m.get("inner", []) if c.get("kind") == "ParmVarDecl") == nparams]
        if len(ms) != 1:
            msg = "expected exactly one member function %s::%s%s, found %d" % (
                C.name, cname, "" if nparams is None else " with %d parameters" % nparams, len(ms))
            if at is not None:
                self.fail(at, msg)
            raise Unsupported(msg)
        return ms[0]

    def method_parts(self, m):
        params, body = [], None
        for c in m.get("inner", []):
            k = c.get("kind")
            if k == "ParmVarDecl":
                params.append(c)
            elif k == "CompoundStmt":
                if body is not None:
                    self.fail(c, "second body")
                body = c
            elif k.endswith("Comment") or k.endswith("Attr"):
                continue
            else:
                self.fail(c, "unexpected child of CXXMethodDecl")
        if body is None:
            self.fail(m, "member function without a body")
        return params, body

    def mangle(self, name, taken):
        g = name
        while g in RESERVED or g in taken or not g or g == "_":
            g += "_"
        if not all(ch.isalnum() or ch == "_" for ch in g) or g[0].isdigit():
            raise Unsupported("cannot use C++ identifier %r as a Gallina name" % name)
        return g

    def bind_params(self, m, params):
        """env: decl id -> (Gallina name | None, kind); returns env, own N/bool params, all binders"""
        C = self.C
        static = m.get("storageClass") == "static"
        env, own, extra2, extra_vec = {}, [], [], []
        has_obj = (C.name == "Support" and not static)
        for p in params:
            k = self.kind_of_type(p)
            q = self.tyname(p)
            if k in ("N", "bool"):
                g = self.mangle(p.get("name", ""), {b for b, _ in own})
                env[p["id"]] = (g, k)
                own.append((g, k))
            elif q in SUPPORT_TYPES and C.name == "Support" and not static:
                if extra2:
                    self.fail(p, "more than one Support parameter")
                env[p["id"]] = (None, "sup2")
                extra2 = [("start2", "N"), ("stop2", "N"), ("same_grid", "bool")]
            elif q in SUPPORT_TYPES and C.name == "Spline":
                if has_obj:
                    self.fail(p, "more than one Support parameter")
                env[p["id"]] = (None, "sup1")
                has_obj = True
            elif q in GRID_TYPES and C.name == "Support" and static:
                env[p["id"]] = (None, "grid")
            elif re.match(r"^std::vector<.*>$", q) and C.name == "Spline":
                if extra_vec:
                    self.fail(p, "more than one std::vector parameter")
                env[p["id"]] = (None, "vec")
                extra_vec = [("ncoefs", "N")]
            else:
                self.fail(p, "parameter of type %r" % q)
        binders = []
        if has_obj:
            binders += OBJ3
        elif C.name == "Grid":
            binders += [("gsize", "N")]
        binders += own + extra2 + extra_vec
        return env, own, binders

    @staticmethod
    def contains_kind(n, kind):
        if not isinstance(n, dict):
            return False
        if n.get("kind") == kind:
            return True
        return any(Translator.contains_kind(c, kind) for c in n.get("inner", []))

    def collect_returns(self, n, acc):
        if not isinstance(n, dict):
            return
        if n.get("kind") == "ReturnStmt":
            acc.append(n)
            return
        if n.get("kind") == "LambdaExpr":
            self.fail(n)
        for c in n.get("inner", []):
            self.collect_returns(c, acc)

    def enter(self, C, cname):
        if (C, cname) in self.active:
            raise Unsupported("recursive member functions: %s" %
                              " -> ".join("%s::%s" % (c.name, f) for c, f in self.active + [(C, cname)]))
        self.active.append((C, cname))
        self.gs.append(False)

    def leave(self):
        self.active.pop()
        return self.gs.pop()

    def use_gsize(self):
        self.gs[-1] = True
        return atom("gsize")

    def translate(self, cls, cname, gname=None, at=None, nparams=None):
        """translate member function `cname` of class `cls` in full (memoised; callees first)"""
        C = self.ctxs[cls]
        if (cls, cname) in self.done:
            return self.done[(cls, cname)]
        m = self.method(C, cname, at, nparams)
        self.enter(C, cname)
        try:
            params, body = self.method_parts(m)
            env, own, binders = self.bind_params(m, params)
            rets = []
            self.collect_returns(body, rets)
            kinds = set()
            for r in rets:
                inner = r.get("inner", [])
                if not inner:
                    kinds.add("unit")
                elif len(inner) == 1:
                    k = self.kind_of_type(inner[0])
                    if k is None:
                        self.fail(inner[0], "return value of type %r" % self.tyname(inner[0]))
                    kinds.add(k)
                else:
                    self.fail(r)
            if not kinds:
                kinds.add("unit")
            if len(kinds) != 1:
                self.fail(m, "return statements of different types %s" % sorted(kinds))
            kind = kinds.pop()
            throws = self.contains_kind(body, "CXXThrowExpr")
            ctx = {"kind": kind, "throws": throws, "mode": "fun"}
            term = self.stmts([body], env, ctx)
        except Exception:
            self.leave()
            raise
        used = self.leave()
        plain = (cls == "Support" and binders[:3] == OBJ3 and binders[3:] == own)
        fn = Fn(C, cname, gname or (GNAMES.get(cname) if cls == "Support" else None) or cname,
                binders, own, kind, throws and kind != "sup", term, m, plain=plain, uses_gsize=used)
        self.done[(cls, cname)] = fn
        self.order.append(fn)
        return fn

    # ---- statements --------------------------------------------------------------------
    def wrap_value(self, e, ctx):
        return app("Ok", e) if (ctx["throws"] and ctx["kind"] != "sup") else e

    def fallthrough(self, ctx, where):
        if ctx["mode"] == "nothrow":
            return atom("true")
        if ctx["kind"] != "unit":
            self.fail(where, "control reaches the end of a non-void function")
        return self.wrap_value(atom("tt"), ctx)

    def is_empty_do_while_false(self, s):
        inner = s.get("inner", [])
        if len(inner) != 2:
            return False
        b, c = inner
        return (b.get("kind") == "CompoundStmt" and not b.get("inner")
                and c.get("kind") == "CXXBoolLiteralExpr" and c.get("value") is False)

    def stmts(self, todo, env, ctx, last=None):
        """translate the statement list `todo` (what follows an `if` is appended to both branches)"""
        if not todo:
            return self.fallthrough(ctx, last if last is not None else {})
        s, rest = todo[0], todo[1:]
        if not isinstance(s, dict) or "kind" not in s:
            self.fail(last if last is not None else {}, "empty statement slot")
        k = s["kind"]
        if k == "CompoundStmt":
            return self.stmts(list(s.get("inner", [])) + rest, env, ctx, s)
        if k == "NullStmt":
            return self.stmts(rest, env, ctx, s)
        if k == "DoStmt":
            if not self.is_empty_do_while_false(s):
                self.fail(s, "only `do {} while (false)` is ignored")
            return self.stmts(rest, env, ctx, s)
        if k == "DeclStmt":
            env = dict(env)
            lets = []
            for d in s.get("inner", []):
                if d.get("kind") != "VarDecl":
                    self.fail(d, "declaration in DeclStmt")
                vk = self.kind_of_type(d)
                t = d.get("type", {})
                q = t.get("desugaredQualType", t.get("qualType", ""))
                if vk not in ("N", "bool"):
                    self.fail(d, "local variable of type %r" % q)
                if not (q.startswith("const ") or t.get("qualType", "").startswith("const ")):
                    self.fail(d, "non-const local variable %r" % d.get("name"))
                if d.get("storageClass") or d.get("tls"):
                    self.fail(d, "static/thread_local local variable")
                init = [c for c in d.get("inner", []) if not c.get("kind", "").endswith("Comment")]
                if len(init) != 1 or d.get("init") not in ("c", "call", "list"):
                    self.fail(d, "local variable without a simple initialiser")
                e = self.expr_as(init[0], vk, env)
                g = self.mangle(d.get("name", ""), {v[0] for v in env.values() if v[0]})
                lets.append((g, e))
                env[d["id"]] = (g, vk)
            body = self.stmts(rest, env, ctx, s)
            for g, e in reversed(lets):
                body = ("let", g, e, body)
            return body
        if k == "IfStmt":
            for bad in ("hasInit", "hasVar", "isConstexpr", "isConsteval"):
                if s.get(bad):
                    self.fail(s, bad)
            inner = s.get("inner", [])
            has_else = bool(s.get("hasElse"))
            if len(inner) != (3 if has_else else 2):
                self.fail(s, "if statement with %d children" % len(inner))
            c = self.expr_as(inner[0], "bool", env)
            a = self.stmts([inner[1]] + rest, env, ctx, s)
            b = self.stmts(([inner[2]] if has_else else []) + rest, env, ctx, s)
            return ("if", c, a, b)
        if k == "ReturnStmt":
            # whatever follows a return is dead code: dropping it IS the C++ semantics
            inner = s.get("inner", [])
            if ctx["mode"] == "nothrow":
                if inner:
                    self.fail(s, "return with a value in a validity check")
                return atom("true")
            if not inner:
                if ctx["kind"] != "unit":
                    self.fail(s, "return without a value")
                return self.wrap_value(atom("tt"), ctx)
            if ctx["kind"] == "optN":
                return self.wrap_value(self.optional(inner[0], env), ctx)
            if ctx["kind"] == "sup":
                return self.support_value(inner[0], env)
            if ctx["kind"] == "unit":
                self.fail(s, "return with a value in a void function")
            return self.wrap_value(self.expr_as(inner[0], ctx["kind"], env), ctx)
        if k in ("ExprWithCleanups", "CXXThrowExpr"):
            code = self.throw_code(s)
            if ctx["mode"] == "nothrow":
                return atom("false")
            return app("GThrow" if ctx["kind"] == "sup" else "Throw", atom(code))
        self.fail(s, "statement")

    def throw_code(self, s):
        n = s
        if n.get("kind") == "ExprWithCleanups":
            inner = n.get("inner", [])
            if len(inner) != 1:
                self.fail(n)
            n = inner[0]
        if n.get("kind") != "CXXThrowExpr":
            self.fail(n, "expression statement")
        inner = n.get("inner", [])
        if len(inner) != 1:
            self.fail(n, "rethrow")
        e = inner[0]
        while e.get("kind") in ("CXXFunctionalCastExpr", "CXXBindTemporaryExpr", "MaterializeTemporaryExpr",
                                "ExprWithCleanups", "ParenExpr") \
                or (e.get("kind") == "ImplicitCastExpr"
                    and e.get("castKind") in ("ConstructorConversion", "NoOp")):
            if len(e.get("inner", [])) != 1:
                self.fail(e)
            e = e["inner"][0]
        if e.get("kind") not in ("CXXConstructExpr", "CXXTemporaryObjectExpr") or self.tyname(e) != EXC_TYPE:
            self.fail(e, "thrown object is not a %s" % EXC_TYPE)
        args = e.get("inner", [])
        if len(args) != 1:
            self.fail(e, "exception constructed from %d arguments" % len(args))
        a = args[0]
        ref = a.get("referencedDecl") or {}
        if a.get("kind") != "DeclRefExpr" or ref.get("kind") != "EnumConstantDecl":
            self.fail(a, "error code is not an enumerator")
        code = ref.get("name")
        if code not in ERR_CODES:
            self.fail(a, "unknown error code %r" % code)
        return code

    # ---- objects -----------------------------------------------------------------------
    def object_of(self, n, env):
        """which modelled object does the expression denote?
           sup1 (gsize/start/stop) | sup2 (start2/stop2) | vec (ncoefs) | grid (parameter of a static
           member) | gridfield (this->_grid) | gridthis (this, inside Grid) | None"""
        k = n.get("kind")
        if k == "ParenExpr" or (k == "ImplicitCastExpr" and n.get("castKind") == "NoOp"):
            return self.object_of(self.only_child(n), env)
        if k == "CXXThisExpr":
            return {"Support": "sup1", "Grid": "gridthis"}.get(self.C.name)
        if k == "UnaryOperator" and n.get("opcode") == "*":
            c = self.only_child(n)
            if c.get("kind") == "CXXThisExpr":
                return {"Support": "sup1", "Grid": "gridthis"}.get(self.C.name)
            return None
        if k == "DeclRefExpr":
            ref = n.get("referencedDecl") or {}
            if ref.get("kind") == "ParmVarDecl" and ref.get("id") in env:
                ok = env[ref["id"]][1]
                if ok in ("sup1", "sup2", "vec", "grid"):
                    return ok
            return None
        if k == "MemberExpr" and n.get("name") == GRID_FIELD and self.C.name == "Support":
            base = self.only_child(n)
            if base.get("kind") == "CXXThisExpr" and self.C.fields.get(n.get("referencedMemberDecl")) == GRID_FIELD:
                return "gridfield"
        return None

    def own_grid(self, n, env):
        """is `n` the grid of the object under construction (this->_grid, or the Grid parameter of a
           static member)?"""
        return self.object_of(n, env) in ("gridfield", "grid")

    def check_hasSameGrid(self, at):
        """hasSameGrid(s) must be `return _grid == s._grid;` — it is modelled by the parameter same_grid"""
        if "hasSameGrid" in self.checked:
            return
        C = self.ctxs["Support"]
        m = self.method(C, "hasSameGrid", at)
        self.enter(C, "hasSameGrid")
        try:
            params, body = self.method_parts(m)
            env, _, _ = self.bind_params(m, params)
            todo = [s for s in body.get("inner", [])
                    if not (s.get("kind") == "DoStmt" and self.is_empty_do_while_false(s))
                    and s.get("kind") != "NullStmt"]
            if len(todo) != 1 or todo[0].get("kind") != "ReturnStmt":
                self.fail(todo[0] if todo else body, "hasSameGrid is not a single return statement")
            e = self.only_child(todo[0])
            while e.get("kind") in ("ParenExpr", "ExprWithCleanups"):
                e = self.only_child(e)
            inner = e.get("inner", [])
            ok = (e.get("kind") == "CXXOperatorCallExpr" and len(inner) == 3
                  and self.callee_decl(inner[0]).get("name") == "operator=="
                  and self.object_of(inner[1], env) == "gridfield"
                  and inner[2].get("kind") == "MemberExpr" and inner[2].get("name") == GRID_FIELD
                  and C.fields.get(inner[2].get("referencedMemberDecl")) == GRID_FIELD
                  and self.object_of(self.only_child(inner[2]), env) == "sup2")
            if not ok:
                self.fail(e, "hasSameGrid is not `return _grid == s._grid;`")
        finally:
            self.leave()
        self.checked.add("hasSameGrid")

    def check_grid_size(self, at):
        """Grid::size() must be `return _data->size();` — it is modelled by the parameter gsize"""
        if "Grid::size" in self.checked:
            return
        C = self.ctxs["Grid"]
        m = self.method(C, "size", at)
        self.enter(C, "size")
        try:
            params, body = self.method_parts(m)
            todo = [s for s in body.get("inner", [])
                    if not (s.get("kind") == "DoStmt" and self.is_empty_do_while_false(s))
                    and s.get("kind") != "NullStmt"]
            if params or len(todo) != 1 or todo[0].get("kind") != "ReturnStmt":
                self.fail(todo[0] if todo else body, "Grid::size is not a single return statement")
            e = self.only_child(todo[0])
            while e.get("kind") in ("ParenExpr", "ExprWithCleanups") or \
                    (e.get("kind") == "ImplicitCastExpr" and e.get("castKind") in ("NoOp", "IntegralCast")
                     and self.kind_of_type(e) == "N"):
                e = self.only_child(e)
            ok = False
            if e.get("kind") == "CXXMemberCallExpr" and len(e.get("inner", [])) == 1 \
                    and self.kind_of_type(e) == "N":
                callee = e["inner"][0]
                if callee.get("kind") == "MemberExpr" and callee.get("name") == "size":
                    arrow = self.only_child(callee)
                    ai = arrow.get("inner", [])
                    if arrow.get("kind") == "CXXOperatorCallExpr" and len(ai) == 2 \
                            and self.callee_decl(ai[0]).get("name") == "operator->":
                        d = ai[1]
                        while d.get("kind") == "ImplicitCastExpr":
                            d = self.only_child(d)
                        if d.get("kind") == "MemberExpr" and C.fields.get(d.get("referencedMemberDecl")) == "_data" \
                                and self.only_child(d).get("kind") == "CXXThisExpr" \
                                and "std::vector<double>" in self.tyname(d):
                            ok = True
            if not ok:
                self.fail(e, "Grid::size is not `return _data->size();`")
        finally:
            self.leave()
        self.checked.add("Grid::size")

    def callee_decl(self, n):
        """the declaration a CallExpr / CXXOperatorCallExpr callee refers to"""
        while n.get("kind") == "ImplicitCastExpr" and n.get("castKind") in ("FunctionToPointerDecay", "NoOp"):
            n = self.only_child(n)
        if n.get("kind") != "DeclRefExpr":
            self.fail(n, "callee")
        return n.get("referencedDecl") or {}

    # ---- expressions -------------------------------------------------------------------
    def expr_as(self, n, want, env):
        e, k = self.expr(n, env)
        if k != want:
            self.fail(n, "expected an expression of kind %s, got %s" % (want, k))
        return e

    def only_child(self, n):
        inner = n.get("inner", [])
        if len(inner) != 1:
            self.fail(n, "%d children" % len(inner))
        return inner[0]

    def check_kind(self, n, k):
        """the kind computed bottom-up must agree with the type clang assigned to the node"""
        tk = self.kind_of_type(n)
        if tk != k:
            self.fail(n, "computed kind %s but clang says type %r" % (k, self.tyname(n)))

    def expr(self, n, env):
        """returns (term, kind) with kind in N | bool | intlit"""
        if not isinstance(n, dict) or "kind" not in n:
            raise Unsupported("malformed AST node %r" % (n,))
        k = n["kind"]
        if k == "ParenExpr":
            return self.expr(self.only_child(n), env)
        if k in ("ExprWithCleanups", "ConstantExpr"):
            return self.expr(self.only_child(n), env)
        if k == "ImplicitCastExpr":
            ck = n.get("castKind")
            e, ek = self.expr(self.only_child(n), env)
            if ck in ("LValueToRValue", "NoOp"):
                return e, ek
            if ck == "IntegralCast":
                if self.kind_of_type(n) != "N":
                    self.fail(n, "integral cast to %r" % self.tyname(n))
                if ek in ("N", "intlit"):
                    return e, "N"
                self.fail(n, "integral cast from kind %s" % ek)
            if ck == "IntegralToBoolean":
                if ek != "N":
                    self.fail(n, "conversion to bool from kind %s" % ek)
                return app("negb", ("infix", "=?", e, atom("0"))), "bool"
            self.fail(n, "castKind %s" % ck)
        if k == "IntegerLiteral":
            v = n.get("value")
            if not isinstance(v, str) or not v.isdigit() or int(v) >= 2 ** 64:
                self.fail(n, "literal %r" % (v,))
            if self.kind_of_type(n) == "N":
                return atom(str(int(v))), "N"
            if self.tyname(n) in ("int", "unsigned int", "long", "long long", "unsigned long long"):
                return atom(str(int(v))), "intlit"   # usable only under an IntegralCast to size_t
            self.fail(n, "literal of type %r" % self.tyname(n))
        if k == "CXXBoolLiteralExpr":
            v = n.get("value")
            if v not in (True, False):
                self.fail(n)
            return atom("true" if v else "false"), "bool"
        if k == "DeclRefExpr":
            ref = n.get("referencedDecl") or {}
            if ref.get("kind") in ("ParmVarDecl", "VarDecl") and ref.get("id") in env:
                g, vk = env[ref["id"]]
                if vk in ("N", "bool"):
                    self.check_kind(n, vk)
                    return atom(g), vk
            self.fail(n, "reference to %s %r" % (ref.get("kind"), ref.get("name")))
        if k == "MemberExpr":
            obj = self.object_of(self.only_child(n), env)
            if obj in ("sup1", "sup2") and n.get("name") in FIELDS and self.C.name == "Support" \
                    and self.C.fields.get(n.get("referencedMemberDecl")) == n.get("name"):
                self.check_kind(n, "N")
                return atom(FIELDS[n["name"]][0 if obj == "sup1" else 1]), "N"
            self.fail(n, "member %r" % n.get("name"))
        if k == "UnaryOperator":
            op = n.get("opcode")
            if op == "!":
                e = self.expr_as(self.only_child(n), "bool", env)
                self.check_kind(n, "bool")
                return app("negb", e), "bool"
            self.fail(n, "unary operator %r" % op)
        if k == "BinaryOperator":
            op = n.get("opcode")
            inner = n.get("inner", [])
            if len(inner) != 2:
                self.fail(n)
            (a, ka), (b, kb) = self.expr(inner[0], env), self.expr(inner[1], env)
            if op in ("+", "-"):
                if ka != "N" or kb != "N":
                    self.fail(n, "%r on kinds %s, %s" % (op, ka, kb))
                self.check_kind(n, "N")
                return app("wadd" if op == "+" else "wsub", a, b), "N"
            if op in ("<", "<=", ">", ">=", "==", "!="):
                self.check_kind(n, "bool")
                if ka == "N" and kb == "N":
                    if op == "<":
                        return ("infix", "<?", a, b), "bool"
                    if op == "<=":
                        return ("infix", "<=?", a, b), "bool"
                    if op == ">":
                        return ("infix", "<?", b, a), "bool"
                    if op == ">=":
                        return ("infix", "<=?", b, a), "bool"
                    if op == "==":
                        return ("infix", "=?", a, b), "bool"
                    return app("negb", ("infix", "=?", a, b)), "bool"
                if ka == "bool" and kb == "bool" and op in ("==", "!="):
                    e = app("Bool.eqb", a, b)
                    return (e if op == "==" else app("negb", e)), "bool"
                self.fail(n, "%r on kinds %s, %s" % (op, ka, kb))
            if op in ("&&", "||"):
                if ka != "bool" or kb != "bool":
                    self.fail(n, "%r on kinds %s, %s" % (op, ka, kb))
                self.check_kind(n, "bool")
                return app("andb" if op == "&&" else "orb", a, b), "bool"
            self.fail(n, "binary operator %r" % op)
        if k == "ConditionalOperator":
            inner = n.get("inner", [])
            if len(inner) != 3:
                self.fail(n)
            c = self.expr_as(inner[0], "bool", env)
            (a, ka), (b, kb) = self.expr(inner[1], env), self.expr(inner[2], env)
            if ka != kb or ka not in ("N", "bool"):
                self.fail(n, "branches of kinds %s, %s" % (ka, kb))
            self.check_kind(n, ka)
            return ("if", c, a, b), ka
        if k == "CallExpr":
            return self.min_max(n, env)
        if k == "CXXMemberCallExpr":
            return self.member_call(n, env)
        self.fail(n, "expression")

    def min_max(self, n, env):
        """std::min / std::max on two size_t values"""
        inner = n.get("inner", [])
        if len(inner) != 3:
            self.fail(n, "call with %d arguments" % (len(inner) - 1))
        ref = self.callee_decl(inner[0])
        name = ref.get("name")
        sig = (ref.get("type") or {}).get("qualType")
        off = self.offset_of(inner[0])
        spelled = self.C.src[off:off + len("std::") + 3].decode("utf-8", "replace") if off is not None else ""
        if ref.get("kind") != "FunctionDecl" or name not in ("min", "max") \
                or sig != "const unsigned long &(const unsigned long &, const unsigned long &)" \
                or spelled != "std::" + name:
            self.fail(n, "call of %r (only std::min / std::max on size_t are understood)" % name)
        a = self.expr_as(inner[1], "N", env)
        b = self.expr_as(inner[2], "N", env)
        self.check_kind(n, "N")
        return app("N." + name, a, b), "N"

    def member_call(self, n, env):
        inner = n.get("inner", [])
        if not inner or inner[0].get("kind") != "MemberExpr":
            self.fail(n, "callee")
        callee, args = inner[0], inner[1:]
        base = self.only_child(callee)
        name = callee.get("name")
        obj = self.object_of(base, env)
        if obj in ("sup1", "sup2"):
            S = self.ctxs["Support"]
            if name == "hasSameGrid":
                if obj != "sup1" or len(args) != 1 or self.object_of(args[0], env) != "sup2" \
                        or self.C.name != "Support":
                    self.fail(n, "hasSameGrid is understood only as hasSameGrid(<the other operand>)")
                if self.method(S, name, n).get("id") != callee.get("referencedMemberDecl"):
                    self.fail(n, "call does not resolve to Support::hasSameGrid")
                self.check_hasSameGrid(n)
                self.check_kind(n, "bool")
                return atom("same_grid"), "bool"
            m = self.method(S, name, n)
            if self.C.name == "Support":
                if m.get("id") != callee.get("referencedMemberDecl"):
                    self.fail(n, "call does not resolve to Support::%s" % name)
            elif self.tyname(base) not in SUPPORT_TYPES:
                self.fail(n, "receiver of type %r" % self.tyname(base))
            fn = self.translate("Support", name, at=n)
            if not fn.plain:
                self.fail(n, "call of %s, whose parameters are not plain integers" % name)
            if fn.throws:
                self.fail(n, "call of the throwing member function %s inside an expression" % name)
            if fn.kind not in ("N", "bool"):
                self.fail(n, "call of %s, which returns kind %s" % (name, fn.kind))
            if len(args) != len(fn.params):
                self.fail(n, "argument count")
            targs = [self.expr_as(a, pk, env) for a, (_, pk) in zip(args, fn.params)]
            self.check_kind(n, fn.kind)
            if obj == "sup1":
                if fn.uses_gsize:
                    self.use_gsize()
                return app(fn.gname, atom("gsize"), atom("start"), atom("stop"), *targs), fn.kind
            if fn.uses_gsize:
                self.fail(n, "%s reads the grid size of the other operand, which is not a parameter" % name)
            # fn ignores its first argument (checked just above), so passing gsize is sound
            return app(fn.gname, atom("gsize"), atom("start2"), atom("stop2"), *targs), fn.kind
        if obj == "gridfield" and name == "size" and not args:
            self.check_kind(n, "N")
            return self.use_gsize(), "N"
        if obj == "gridthis" and name == "size" and not args:
            if self.method(self.C, "size", n).get("id") != callee.get("referencedMemberDecl"):
                self.fail(n, "call does not resolve to Grid::size")
            self.check_grid_size(n)
            self.check_kind(n, "N")
            return self.use_gsize(), "N"
        if obj == "vec" and name == "size" and not args:
            self.check_kind(n, "N")
            return atom("ncoefs"), "N"
        self.fail(n, "member call %r" % name)

    def optional(self, n, env):
        """an expression of type std::optional<size_t>  ->  Some e | None"""
        k = n.get("kind")
        if k in ("ExprWithCleanups", "CXXBindTemporaryExpr", "MaterializeTemporaryExpr", "ParenExpr",
                 "CXXFunctionalCastExpr") \
                or (k == "ImplicitCastExpr" and n.get("castKind") in ("ConstructorConversion", "NoOp")):
            return self.optional(self.only_child(n), env)
        if k == "ConditionalOperator":
            inner = n.get("inner", [])
            if len(inner) != 3:
                self.fail(n)
            return ("if", self.expr_as(inner[0], "bool", env),
                    self.optional(inner[1], env), self.optional(inner[2], env))
        if k in ("CXXConstructExpr", "CXXTemporaryObjectExpr") and self.kind_of_type(n) == "optN":
            args = n.get("inner", [])
            if not args:
                return atom("None")
            if len(args) != 1:
                self.fail(n, "optional constructed from %d arguments" % len(args))
            a = args[0]
            while a.get("kind") in ("MaterializeTemporaryExpr", "CXXBindTemporaryExpr", "ParenExpr"):
                a = self.only_child(a)
            if self.kind_of_type(a) == "optN":
                return self.optional(a, env)          # copy / move of another optional
            if self.is_nullopt(a):
                return atom("None")
            return app("Some", self.expr_as(a, "N", env))
        self.fail(n, "optional-valued expression")

    def is_nullopt(self, a):
        if self.tyname(a) != "std::nullopt_t":
            return False
        while a.get("kind") in ("CXXConstructExpr", "ImplicitCastExpr", "MaterializeTemporaryExpr"):
            a = self.only_child(a)
        ref = a.get("referencedDecl") or {}
        if a.get("kind") == "DeclRefExpr" and ref.get("name") == "nullopt":
            return True
        self.fail(a, "value of type std::nullopt_t")

    def support_value(self, n, env):
        """an expression of type Support<double>, by value  ->  gres"""
        k = n.get("kind")
        if k in ("ExprWithCleanups", "CXXBindTemporaryExpr", "MaterializeTemporaryExpr", "ParenExpr",
                 "CXXFunctionalCastExpr") \
                or (k == "ImplicitCastExpr" and n.get("castKind") in ("ConstructorConversion", "NoOp")):
            return self.support_value(self.only_child(n), env)
        if self.kind_of_type(n) != "sup":
            self.fail(n, "expected a Support value, got type %r" % self.tyname(n))
        if k == "ConditionalOperator":
            inner = n.get("inner", [])
            if len(inner) != 3:
                self.fail(n)
            return ("if", self.expr_as(inner[0], "bool", env),
                    self.support_value(inner[1], env), self.support_value(inner[2], env))
        if k == "CallExpr":
            inner = n.get("inner", [])
            ref = self.callee_decl(inner[0]) if inner else {}
            S = self.ctxs["Support"]
            if self.C.name == "Support" and ref.get("kind") == "CXXMethodDecl" and ref.get("name") == "createEmpty" \
                    and ref.get("id") == self.method(S, "createEmpty", n).get("id") \
                    and len(inner) == 2 and self.own_grid(inner[1], env):
                fn = self.translate("Support", "createEmpty", at=n)
                if fn.binders or fn.kind != "sup":
                    self.fail(n, "createEmpty is not a static member returning a Support")
                return atom("GEmpty")
            self.fail(n, "call of %r returning a Support" % ref.get("name"))
        if k in ("CXXConstructExpr", "CXXTemporaryObjectExpr"):
            args = n.get("inner", [])
            if len(args) == 1:        # copy / move construction
                o = self.object_of(args[0], env)
                if o == "sup1" and self.C.name == "Support":
                    return atom("GThis")
                if o == "sup2":
                    return atom("GOther")
                if self.kind_of_type(args[0]) == "sup":
                    return self.support_value(args[0], env)
                self.fail(args[0], "copied Support object")
            if len(args) == 3:        # Support(grid, startIndex, endIndex): the validating constructor
                ct = (n.get("ctorType") or {}).get("qualType", "")
                if not self.own_grid(args[0], env) or not ct.startswith("void (const Grid<double> &, "):
                    self.fail(n, "Support constructed on a grid other than its own (constructor %r)" % ct)
                a = self.expr_as(args[1], "N", env)
                b = self.expr_as(args[2], "N", env)
                return app("GCtor", a, b)
            self.fail(n, "Support constructed from %d arguments" % len(args))
        self.fail(n, "Support-valued expression")

    # ---- the special shapes ------------------------------------------------------------
    def translate_valid(self, cls, cname, gname, nparams):
        """a void checking function as a predicate: true iff the function returns normally"""
        C = self.ctxs[cls]
        m = self.method(C, cname, nparams=nparams)
        self.enter(C, cname)
        try:
            params, body = self.method_parts(m)
            env, own, binders = self.bind_params(m, params)
            if not self.contains_kind(body, "CXXThrowExpr"):
                self.fail(m, "%s never throws" % cname)
            ctx = {"kind": "unit", "throws": True, "mode": "nothrow"}
            term = self.stmts([body], env, ctx)
        finally:
            used = self.leave()
        fn = Fn(C, cname, gname, binders, own, "bool", False, term, m, uses_gsize=used)
        self.order.append(fn)
        return fn

    def guard_shape(self, cls, cname):
        """[do{}while(false);]* if (GUARD) throw E(CODE); return ...;   (inside enter/leave)"""
        C = self.ctxs[cls]
        m = self.method(C, cname)
        params, body = self.method_parts(m)
        env, own, binders = self.bind_params(m, params)
        todo = [s for s in body.get("inner", [])
                if not (s.get("kind") == "DoStmt" and self.is_empty_do_while_false(s))
                and s.get("kind") != "NullStmt"]
        if len(todo) != 2 or todo[0].get("kind") != "IfStmt" or todo[1].get("kind") != "ReturnStmt":
            self.fail(todo[0] if todo else body,
                      "body of %s() is not `if (guard) throw ...; return ...;`" % cname)
        ifs, ret = todo
        for bad in ("hasInit", "hasVar", "hasElse", "isConstexpr"):
            if ifs.get(bad):
                self.fail(ifs, bad)
        inner = ifs.get("inner", [])
        if len(inner) != 2:
            self.fail(ifs)
        guard = self.expr_as(inner[0], "bool", env)
        th = inner[1]
        while th.get("kind") == "CompoundStmt":
            th = self.only_child(th)
        code = self.throw_code(th)
        return m, env, own, binders, guard, code, ret

    def translate_at(self):
        """Support::at(index): ... return _grid.at(INDEX);"""
        C = self.ctxs["Support"]
        self.enter(C, "at")
        try:
            m, env, own, binders, guard, code, ret = self.guard_shape("Support", "at")
            call = self.only_child(ret)
            while call.get("kind") in ("ParenExpr", "ExprWithCleanups"):
                call = self.only_child(call)
            ok = False
            if call.get("kind") == "CXXMemberCallExpr" and len(call.get("inner", [])) == 2:
                callee, a = call["inner"]
                if callee.get("kind") == "MemberExpr" and callee.get("name") == "at" \
                        and self.object_of(self.only_child(callee), env) == "gridfield":
                    ok = True
            if not ok:
                self.fail(call, "at() does not end in `return _grid.at(<index>)`")
            index = self.expr_as(a, "N", env)
        finally:
            self.leave()
        out = [Fn(C, "at", "at_guard", binders, own, "bool", False, guard, m),
               Fn(C, "at", "at_throw", OBJ3, [], "err", False, atom(code), m),
               Fn(C, "at", "at_index", binders, own, "N", False, index, m)]
        self.order.extend(out)
        return out

    def translate_grid_at(self):
        """Grid::at(i): the guard and the code; the final `return (*_data)[i];` is not integer logic"""
        C = self.ctxs["Grid"]
        self.enter(C, "at")
        try:
            m, env, own, binders, guard, code, ret = self.guard_shape("Grid", "at")
        finally:
            self.leave()
        out = [Fn(C, "at", "grid_at_guard", binders, own, "bool", False, guard, m),
               Fn(C, "at", "grid_at_throw", [], [], "err", False, atom(code), m)]
        self.order.extend(out)
        return out

    # ---- output ------------------------------------------------------------------------
    def source_text(self, C, m):
        self.active.append((C, m.get("name", "?")))
        try:
            r = m.get("range") or {}
            b, e = r.get("begin") or {}, r.get("end") or {}
            for p in (b, e):
                if "offset" not in p or "expansionLoc" in p or "spellingLoc" in p:
                    self.fail(m, "source range of the member function")
            lo, hi = b["offset"], e["offset"] + e.get("tokLen", 1)
            f = (m.get("loc") or {}).get("file") or b.get("file")
            if f is not None and os.path.realpath(f) != os.path.realpath(C.hdr_path):
                self.fail(m, "member function defined in %s" % f)
            raw = C.src[lo:hi].decode("utf-8", "replace")
            if (m.get("name", "") + "(") not in raw.replace(" (", "(").replace("(\n", "(") \
                    or not raw.rstrip().endswith("}"):
                self.fail(m, "source range does not look like the definition of %s" % m.get("name"))
        finally:
            self.active.pop()
        l0 = C.src.count(b"\n", 0, lo) + 1
        l1 = C.src.count(b"\n", 0, hi) + 1
        col = lo - (C.src.rfind(b"\n", 0, lo) + 1)
        lines = (" " * col + raw).split("\n")
        strip = min((len(x) - len(x.lstrip()) for x in lines if x.strip()), default=0)
        text = "\n".join("    " + x[strip:].rstrip() for x in lines)
        text = text.replace("(*", "( *").replace("*)", "* )").replace('"', "''")
        return l0, l1, text

    @staticmethod
    def render_binders(binders):
        groups = []
        for g, k in binders:
            if groups and groups[-1][1] == k:
                groups[-1][0].append(g)
            else:
                groups.append(([g], k))
        return " ".join("(%s : %s)" % (" ".join(gs), BASE_TY[k]) for gs, k in groups)

    def render(self):
        out = []
        out.append("(* SupportGen.v — GENERATED by gen/ast2coq.py on every run from the clang JSON AST of\n"
                   "   Support<double> (include/%s), Grid<double>::at (include/%s) and\n"
                   "   Spline<double,2>::checkValidity (include/%s); do not edit.\n"
                   "   size_t arithmetic is wadd/wsub (mod 2^64).  Parameters: gsize = _grid.size(),\n"
                   "   start = _startIndex, stop = _endIndex; start2, stop2 = the indices of a second operand s,\n"
                   "   same_grid = hasSameGrid(s); ncoefs = coefficients.size(). *)"
                   % tuple(CLASSES[c][0].replace(os.sep, "/") for c in ("Support", "Grid", "Spline")))
        out.append("From Coq Require Import NArith Bool.")
        out.append("From BSpl Require Import Outcome Support.")
        out.append("Local Open Scope N_scope.")
        out.append("")
        out.append("Module G.")
        out.append("")
        out.append("(* what a Support-valued member function returns, as far as the indices are concerned:\n"
                   "   throw e | createEmpty(_grid) | *this | the other operand | Support(_grid, a, b) *)")
        out.append(GRES)
        last_src = None
        for fn in self.order:
            l0, l1, text = self.source_text(fn.C, fn.node)
            out.append("")
            if last_src != fn.node.get("id"):
                out.append("(* %s::%s — %s:%d-%d\n%s\n*)" % (fn.C.name, fn.cname,
                                                           os.path.basename(fn.C.rel), l0, l1, text))
            else:
                out.append("(* %s::%s — same source as above *)" % (fn.C.name, fn.cname))
            last_src = fn.node.get("id")
            ty = BASE_TY[fn.kind]
            if fn.throws:
                ty = "outcome " + (ty if " " not in ty else "(" + ty + ")")
            b = self.render_binders(fn.binders)
            out.append("Definition %s%s : %s :=\n  %s." % (fn.gname, " " + b if b else "", ty,
                                                          block(fn.body, "  ")))
        out.append("")
        out.append("End G.")
        return "\n".join(out) + "\n"


def generate(repo):
    texts = run_clang(repo)
    ctxs = {}
    for cls in ("Support", "Grid", "Spline"):
        rel, targs = CLASSES[cls]
        spec = find_specialization(parse_objects(texts[cls]), cls, targs)
        ctxs[cls] = ClassCtx(cls, spec, os.path.join(repo, "include", rel), rel.replace(os.sep, "/"))
    tr = Translator(ctxs)
    for cname, gname in PLAIN:
        tr.translate("Support", cname, gname)
    tr.translate_valid("Support", "checkValidity", "valid", 0)
    tr.translate("Support", "checkValidity", "checkValidity", nparams=0)
    tr.translate_at()
    for cname, gname in BINARY:
        tr.translate("Support", cname, gname)
    tr.translate_grid_at()
    tr.translate_valid("Spline", "checkValidity", "spline_valid", 2)
    tr.translate("Spline", "checkValidity", "spline_checkValidity", nparams=2)
    got = [fn.gname for fn in tr.order]
    if sorted(got) != sorted(EXPECTED) or len(set(got)) != len(got):
        raise Unsupported("generated definitions %s differ from the expected set %s "
                          "(a translated function calls a member function outside the set?)" % (got, EXPECTED))
    return tr.render()


def main(argv):
    do_print, out_dir = False, DEFAULT_OUT
    i = 0
    while i < len(argv):
        a = argv[i]
        if a == "--print":
            do_print = True
        elif a == "--out":
            i += 1
            if i >= len(argv):
                sys.stderr.write("ast2coq: --out needs a directory\n")
                return 2
            out_dir = argv[i]
        elif a in ("-h", "--help"):
            sys.stdout.write(__doc__)
            return 0
        else:
            sys.stderr.write("ast2coq: unknown argument %r (use --print, --out DIR)\n" % a)
            return 2
        i += 1
    repo = os.environ.get("VERIF_REPO", "/repo")
    try:
        text = generate(repo)
    except Unsupported as e:
        sys.stderr.write("ast2coq: FAILED: %s\n" % e)
        return 1
    os.makedirs(out_dir, exist_ok=True)
    path = os.path.join(out_dir, OUT_NAME)
    old = None
    if os.path.isfile(path):
        with open(path, encoding="utf-8") as f:
            old = f.read()
    if old != text:
        tmp = path + ".tmp"
        with open(tmp, "w", encoding="utf-8") as f:
            f.write(text)
        os.replace(tmp, path)
        status = "written"
    else:
        status = "unchanged"
    if do_print:
        sys.stdout.write(text)
    sys.stderr.write("ast2coq: %s %s (from %s)\n" % (path, status, os.path.join(repo, "include")))
    return 0


if __name__ == "__main__":
    sys.exit(main(sys.argv[1:]))

#!/usr/bin/env python3
"""symops2.py — regenerates coq/gen/PathGen_<family>.v from CONCOLIC runs of the real C++ public operations.

cpp/symops2.cpp instantiates the library's templates ($VERIF_REPO/include, default /repo) with the
symbolic scalar type of cpp/symkern_sym.h (wrapped so that every comparison is recorded together with
its outcome; the outcome comes from an exact rational shadow value carried by every variable) and runs
public operations that BRANCH on scalar values: spline evaluation, grid construction / search /
comparison, the predicates isZero, ==, !=, checkOverlap, the assembly of the interpolation system and
the B-spline generator.  This script compiles and runs that program in /verif/.build/symops2 and
writes, per scenario,

    Lemma p_<scenario>_ok {F} {K : Ops F} {L : Laws K} :
      forall vars : F,
        <comparison> = <outcome> -> ... ->            (the PATH CONDITION: every comparison the run made,
                                                        first those of the construction of the operands)
        <model call on the same symbolic operands> = <the result the compiled code returned>.
    Proof. path_tac. Qed.
    Example p_<scenario>_ex : <the same statement at the exact rationals the run used>.   (non-vacuity)

The OPERANDS of every statement are read back from the objects the C++ program constructed (ARG
lines), the model call is taken from the scenario table below (operand shapes are cross-checked
against the ARG lines); the proof script is fixed; `path_tac` lives in the hand-written
coq/Proofs_PathTac.v.  Output is deterministic (no time stamps, fixed scenario order) and a file is
only rewritten when its content changes.

usage: symops2.py [--out DIR] [--print]
    --out DIR   write DIR/PathGen_<family>.v instead of /verif/coq/gen/PathGen_<family>.v
    --print     print the generated files on stdout, write nothing
exit status: 0 ok; 2 the program does not compile; 3 it crashes; 4 a scenario reports
UNINIT / EXCEPTION; 5 the output does not match the expected scenario list / syntax.
"""
import argparse
import hashlib
import importlib.util
import os
import re
import subprocess
import sys

ROOT = os.path.dirname(os.path.dirname(os.path.abspath(__file__)))
REPO = os.environ.get("VERIF_REPO", "/repo")
SRC = os.path.join(ROOT, "cpp", "symops2.cpp")
SYM_HEADER = os.path.join(ROOT, "cpp", "symkern_sym.h")
SYMKERN_PY = os.path.join(ROOT, "gen", "symkern.py")
BUILD = os.path.join(ROOT, ".build", "symops2")
DEFAULT_OUT = os.path.join(ROOT, "coq", "gen")
CXX = os.environ.get("CXX", "g++")
# _GLIBCXX_ASSERTIONS: an out-of-range std::array / std::vector subscript aborts instead of reading garbage
CXXFLAGS = ["-std=c++17", "-O1", "-D_GLIBCXX_ASSERTIONS"]


def die(code, msg):
    sys.stderr.write("symops2.py: " + msg.rstrip() + "\n")
    sys.exit(code)


# the term parser / printer is the one of gen/symkern.py (same term syntax, same Gallina rendering)
_spec = importlib.util.spec_from_file_location("symkern", SYMKERN_PY)
symkern = importlib.util.module_from_spec(_spec)
_spec.loader.exec_module(symkern)
symkern.die = die
Parser, variables, gallina = symkern.Parser, symkern.variables, symkern.gallina

FAMILIES = ["eval", "grid", "pred", "interp", "gen"]
FAMILY_DOC = {
    "eval": "Spline::operator()(x), front(), back() (property C02)",
    "grid": "Grid construction, Support and Spline construction (window / coefficient-count validation), Grid::findElement, Grid::operator== / != (C11 / C13)",
    "pred": "Spline::isZero, operator== / !=, checkOverlap (C15)",
    "interp": "interpolation::interpolate with a recording solver: the assembled system and the returned spline (C12)",
    "gen": "generateBSplines<p>(knots) (C01)",
}
ERROR_CODES = ["DIFFERING_GRIDS", "INCONSISTENT_DATA", "MISSING_DATA", "INVALID_ACCESS", "UNDETERMINED"]
CMP_OPS = {"<": "fltb", "<=": "fleb", ">": "fgtb", ">=": "fgeb", "==": "feqb", "!=": "fneb"}


# ------------------------------------------------------------------------------------------------
# the scenario table: name -> operand shapes, model call, wrap, admissible result kinds, C++ text.
# It mirrors cpp/symops2.cpp (same names, same order); a divergence is reported (exit 5).
# ------------------------------------------------------------------------------------------------
def spl(order, start, end):
    return ("SPLINE", order, start, end)


SCALAR = ("SCALAR",)


def lst(n):
    return ("LIST", n)


def grd(n):
    return ("GRID", n)


def bnds(n):
    return ("BOUNDS", n)


def sup(start, end):
    return ("SUPPORT", start, end)


WIN_WHOLE = ("whole", 0, 4)
WIN_G13 = ("g13", 1, 4)
WIN_ONE = ("one", 1, 3)
WIN_POINT = ("point", 2, 3)
WIN_EMPTY = ("empty", 0, 0)


def positions(n):
    ps = ["lt0"]
    for k in range(n):
        ps.append("at%d" % k)
        if k + 1 < n:
            ps.append("in%d%d" % (k, k + 1))
    ps.append("gt%d" % (n - 1))
    return ps


def scenarios():
    """Ordered list of (name, description dict)."""
    out = []

    def add(name, args, call, wrap, kinds, cxx, extra=None):
        d = dict(args=args, call=call, wrap=wrap, kinds=kinds, cxx=cxx)
        if extra:
            d.update(extra)
        out.append((name, d))

    # ---- eval ----
    for order, wins in ((1, (WIN_WHOLE, WIN_G13, WIN_ONE, WIN_POINT, WIN_EMPTY)), (2, (WIN_WHOLE, WIN_G13, WIN_ONE))):
        for w in wins:
            for p in positions(4):
                add("eval_at_%d_%s_%s" % (order, w[0], p), [("a", spl(order, w[1], w[2])), ("x", SCALAR)],
                    "spl_eval {a} {x}", "ok", ("scalar",), "a(x)")
    for p in ("at0", "in01", "at2"):
        add("eval_reassigned_2_" + p,
            [("a0", spl(2, 0, 4)), ("x1", SCALAR), ("b", spl(1, 0, 3)), ("a", spl(2, 0, 3)), ("x", SCALAR)],
            "spl_eval {a} {x}", "ok", ("scalar",),
            "a(x)   (a: a0 of order 2 on the whole grid, evaluated at x1 in its last interval, then assigned b of order 1 on [g0,g2])")
    for w in (WIN_WHOLE, WIN_G13, WIN_ONE, WIN_POINT, WIN_EMPTY):
        add("eval_front_1_%s" % w[0], [("a", spl(1, w[1], w[2]))], "spl_front {a}", "ok", ("scalar", "throw"), "a.front()")
        add("eval_back_1_%s" % w[0], [("a", spl(1, w[1], w[2]))], "spl_back {a}", "ok", ("scalar", "throw"), "a.back()")

    # ---- grid ----
    def ctor(nm, n, cxx="Grid<T>(l)"):
        add("grid_ctor_" + nm, [("l", lst(n))], "grid_ctor {l}", "ok", ("grid", "throw"), cxx)

    ctor("0", 0)
    ctor("1", 1)
    for n in range(2, 5):
        ctor("%d_inc" % n, n)
        for k in range(n - 1):
            ctor("%d_eq%d" % (n, k), n)
            ctor("%d_desc%d" % (n, k), n)
    ctor("iter_3_inc", 3, "Grid<T>(l.begin(), l.end())")
    ctor("init_3_desc1", 3, "Grid<T>(std::initializer_list<T>{l[0], l[1], l[2]})")
    for s_, e_ in ((0, 4), (1, 3), (2, 3), (0, 0), (2, 2), (3, 1), (0, 5), (4, 5), (3, 4)):
        add("grid_supctor_%d_%d" % (s_, e_), [("g", grd(4))], "sup_ctor {g} %d%%N %d%%N" % (s_, e_), "ok",
            ("support", "throw"), "Support<T>(g, %d, %d)" % (s_, e_))
    for nm, s_, e_, n in (("whole", 0, 4, 3), ("whole", 0, 4, 2), ("whole", 0, 4, 4), ("whole", 0, 4, 0),
                          ("one", 1, 3, 1), ("one", 1, 3, 0), ("one", 1, 3, 2), ("point", 2, 3, 0), ("point", 2, 3, 1),
                          ("empty", 0, 0, 0), ("empty", 0, 0, 1)):
        add("grid_splctor_%s_%d" % (nm, n), [("sup", sup(s_, e_)), ("cs", ("COEFS", n, 2))], "spl_ctor 1 {sup} {cs}",
            "ok", ("spline", "throw"), "Spline<T, 1>(sup, cs)")
    for p in positions(4):
        add("grid_find_" + p, [("g", grd(4)), ("x", SCALAR)], "grid_find {g} {x}", "ok", ("index", "throw"),
            "g.findElement(x)")
    for p in positions(2):
        add("grid_find2_" + p, [("g", grd(2)), ("x", SCALAR)], "grid_find {g} {x}", "ok", ("index", "throw"),
            "g.findElement(x)")
    for nm, nh, neg in (("equal", 4, False), ("diff0", 4, False), ("diff1", 4, False), ("diff2", 4, False),
                        ("diff3", 4, False), ("shorter", 3, False), ("equal", 4, True), ("diff2", 4, True),
                        ("shorter", 3, True)):
        add("grid_%s_%s" % ("ne" if neg else "eq", nm), [("g", grd(4)), ("h", grd(nh))],
            "negb (grid_eqb {g} {h})" if neg else "grid_eqb {g} {h}", "eq", ("bool",),
            "g != h" if neg else "g == h")
    add("grid_eq_self", [("g", grd(4))], "grid_eqb {g} {g}", "eq", ("bool",), "g == g")
    add("grid_eq_copy", [("g", grd(4))], "grid_eqb {g} {g}", "eq", ("bool",), "g == Grid<T>(g)   (a copy: shared data)")

    # ---- pred ----
    W03 = ("g02", 0, 3)

    def iszero(order, w, pat):
        add("pred_iszero_%d_%s%s" % (order, w[0], "_" + pat if pat else ""), [("a", spl(order, w[1], w[2]))],
            "is_zero {a}", "eq", ("bool",), "a.isZero()")

    for pat in ("0000", "a000", "0a00", "00a0", "000a", "abcd"):
        iszero(1, W03, pat)
    iszero(1, WIN_EMPTY, "")
    iszero(1, WIN_POINT, "")
    for pat in ("000000000", "00000000a", "00a000000"):
        iszero(2, WIN_WHOLE, pat)
    iszero(0, WIN_ONE, "0")
    iszero(0, WIN_ONE, "a")

    def equal(order, nm, wa, wb, neg, other=False):
        add("pred_%s_%d_%s" % ("ne" if neg else "eq", order, nm),
            [("a", spl(order, wa[1], wa[2])), ("b", spl(order, wb[1], wb[2]))],
            "negb (spl_eqb {a} {b})" if neg else "spl_eqb {a} {b}", "eq", ("bool",),
            ("a != b" if neg else "a == b") + ("   (b on a separately built Grid)" if other else ""))

    equal(1, "same", W03, W03, False)
    equal(1, "first", W03, W03, False)
    equal(1, "last", W03, W03, False)
    equal(1, "zeros", W03, W03, False)
    equal(1, "window", W03, WIN_G13, False)
    equal(1, "shorter", W03, WIN_ONE, False)
    equal(1, "empty", WIN_EMPTY, WIN_EMPTY, False)
    equal(1, "emptypoint", WIN_EMPTY, WIN_POINT, False)
    equal(1, "eqgrid", W03, W03, False, True)
    equal(1, "eqgridlast", W03, W03, False, True)
    equal(1, "diffgrid", W03, W03, False, True)
    equal(2, "same", WIN_ONE, WIN_ONE, False)
    equal(2, "middle", WIN_ONE, WIN_ONE, False)
    equal(1, "same", W03, W03, True)
    equal(1, "last", W03, W03, True)
    equal(1, "window", W03, WIN_G13, True)
    equal(1, "diffgrid", W03, W03, True, True)

    W02, W13, W24, W14 = ("g01", 0, 2), ("g12", 1, 3), ("g23", 2, 4), ("g13", 1, 4)

    def overlap(oa, ob, nm, wa, wb):
        add("pred_overlap_%d%d_%s" % (oa, ob, nm), [("a", spl(oa, wa[1], wa[2])), ("b", spl(ob, wb[1], wb[2]))],
            "check_overlap {a} {b}", "ok", ("bool",), "a.checkOverlap(b)")

    overlap(1, 1, "ident", W03, W03)
    overlap(1, 1, "ainb", W13, WIN_WHOLE)
    overlap(1, 1, "bina", WIN_WHOLE, W13)
    overlap(1, 1, "stag", W03, W14)
    overlap(1, 1, "stagrev", W14, W03)
    overlap(1, 1, "touch", W02, W13)
    overlap(1, 1, "touchrev", W13, W02)
    overlap(1, 1, "disj", W02, W24)
    overlap(1, 1, "disjrev", W24, W02)
    overlap(1, 1, "aempty", WIN_EMPTY, W14)
    overlap(1, 1, "bempty", W03, WIN_EMPTY)
    overlap(1, 1, "apoint", WIN_POINT, W03)
    overlap(1, 1, "bpoint", W03, WIN_POINT)
    overlap(1, 2, "stag", W03, W14)
    overlap(2, 0, "touch", W02, W13)
    overlap(0, 2, "disjrev", W24, W02)

    # ---- interp ----
    def interp(order, nm, s, e, ny, user):
        args = [("x", sup(s, e)), ("y", lst(ny))] + ([("bs", bnds(order - 1))] if user else [])
        b = "{bs}" if user else "(default_boundaries %d)" % order
        cxx = "interpolate<T, %d, RecSolver>(x, y%s)" % (order, ", bs" if user else "")
        add("interp_%d_%s" % (order, nm), args,
            "interpolate (fun _ _ => {sol}) %d {x} {y} %s" % (order, b), "ok", ("system", "throw"), cxx,
            dict(call_sys="interp_dense %d {x} {y} %s" % (order, b),
                 solution=lambda n: ["s%d" % i for i in range(n)]))

    for nm, s_, e_ in (("w03", 0, 3), ("w04", 0, 4), ("w14", 1, 4), ("w15", 1, 5)):
        interp(1, nm + "_default", s_, e_, e_ - s_, False)
        interp(2, nm + "_default", s_, e_, e_ - s_, False)
        interp(2, nm + "_user", s_, e_, e_ - s_, True)
        interp(3, nm + "_default", s_, e_, e_ - s_, False)
        interp(3, nm + "_user", s_, e_, e_ - s_, True)
    interp(2, "w13_userfirst", 1, 3, 2, True)
    interp(3, "w13_userlast", 1, 3, 2, True)
    interp(1, "w03_short", 0, 3, 2, False)
    interp(2, "w03_long", 0, 3, 4, False)
    interp(1, "point", 2, 3, 1, False)
    interp(2, "empty", 0, 0, 0, False)
    interp(2, "w03_deriv0", 0, 3, 3, True)
    interp(2, "w03_deriv3", 0, 3, 3, True)
    interp(3, "w14_deriv4", 1, 4, 3, True)

    # ---- gen ----
    for order, nm, n in ((0, "simple3", 3), (0, "rep12", 4), (0, "desc", 3),
                         (1, "simple3", 3), (1, "simple4", 4), (1, "rep01", 4), (1, "rep12", 4), (1, "rep23", 4),
                         (1, "few", 1),
                         (2, "simple4", 4), (2, "rep01", 4), (2, "rep12", 5), (2, "rep012", 5),
                         (2, "allequal", 4), (2, "desc", 4)):
        add("gen_%d_%s" % (order, nm), [("knots", lst(n))], "generate_bsplines %d {knots}" % order, "ok",
            ("splines", "throw"), "generateBSplines<%d>(knots)" % order)
    return out


# ------------------------------------------------------------------------------------------------
# objects
# ------------------------------------------------------------------------------------------------
def glist(xs, ty="F"):
    return "[" + "; ".join(xs) + "]" if xs else "(@nil %s)" % ty


def gterm(t):
    s = gallina(t)
    return "(%s)" % s if t[0] == "c" else s


def parse_spline_fields(fields, ts, where):
    order, start, end, ngrid, nint, ncoef = fields
    if len(ts) != ngrid + nint * ncoef:
        die(5, "%s: announces %d grid points and %d x %d coefficients, prints %d terms"
            % (where, ngrid, nint, ncoef, len(ts)))
    if ncoef != order + 1:
        die(5, "%s: %d coefficients per interval for order %d" % (where, ncoef, order))
    grid = ts[:ngrid]
    coefs = [ts[ngrid + i * ncoef: ngrid + (i + 1) * ncoef] for i in range(nint)]
    return dict(kind="spline", order=order, start=start, end=end, grid=grid, coefs=coefs)


def parse_object(text, where):
    m = re.match(r"SCALAR (.*)$", text)
    if m:
        ts = Parser(m.group(1), where).terms()
        if len(ts) != 1:
            die(5, "%s: a scalar object with %d terms" % (where, len(ts)))
        return dict(kind="scalar", term=ts[0])
    m = re.match(r"(LIST|GRID) (\d+) ?(.*)$", text)
    if m:
        ts = Parser(m.group(3), where).terms()
        if len(ts) != int(m.group(2)):
            die(5, "%s: announces %s terms, prints %d" % (where, m.group(2), len(ts)))
        return dict(kind=m.group(1).lower(), terms=ts)
    m = re.match(r"SPLINE (\d+) (\d+) (\d+) (\d+) (\d+) (\d+) ?(.*)$", text)
    if m:
        return parse_spline_fields([int(x) for x in m.groups()[:6]], Parser(m.group(7), where).terms(), where)
    m = re.match(r"SUPPORT (\d+) (\d+) (\d+) ?(.*)$", text)
    if m:
        ts = Parser(m.group(4), where).terms()
        if len(ts) != int(m.group(3)):
            die(5, "%s: announces %s grid points, prints %d" % (where, m.group(3), len(ts)))
        return dict(kind="support", start=int(m.group(1)), end=int(m.group(2)), grid=ts)
    m = re.match(r"COEFS (\d+) (\d+) ?(.*)$", text)
    if m:
        n, k = int(m.group(1)), int(m.group(2))
        ts = Parser(m.group(3), where).terms()
        if len(ts) != n * k:
            die(5, "%s: announces %d x %d coefficients, prints %d" % (where, n, k, len(ts)))
        return dict(kind="coefs", width=k, rows=[ts[i * k:(i + 1) * k] for i in range(n)])
    m = re.match(r"BOUNDS (\d+) ?(.*)$", text)
    if m:
        toks = m.group(2)
        items = []
        for bm in re.finditer(r"([FL]) (\d+) (\([^FL]*\))(?: |$)", toks):
            ts = Parser(bm.group(3), where).terms()
            if len(ts) != 1:
                die(5, "%s: malformed boundary condition" % where)
            items.append((bm.group(1), int(bm.group(2)), ts[0]))
        if len(items) != int(m.group(1)):
            die(5, "%s: announces %s boundary conditions, prints %d" % (where, m.group(1), len(items)))
        return dict(kind="bounds", items=items)
    die(5, "%s: unexpected object %r" % (where, text[:200]))


def parse_result(text, where):
    m = re.match(r"BOOL ([01])$", text)
    if m:
        return dict(kind="bool", value=m.group(1) == "1")
    m = re.match(r"INDEX (\d+)$", text)
    if m:
        return dict(kind="index", value=int(m.group(1)))
    m = re.match(r"THROW (\S+)$", text)
    if m:
        if m.group(1) not in ERROR_CODES:
            die(5, "%s: unknown error code %s" % (where, m.group(1)))
        return dict(kind="throw", code=m.group(1))
    m = re.match(r"SPLINES (\d+) ?(.*)$", text)
    if m:
        parts = [p.strip() for p in m.group(2).split(";") if p.strip()]
        if len(parts) != int(m.group(1)):
            die(5, "%s: announces %s splines, prints %d" % (where, m.group(1), len(parts)))
        return dict(kind="splines", items=[parse_object(p, where) for p in parts])
    m = re.match(r"SYSTEM (\d+) (.*) RESULT (SPLINE .*)$", text)
    if m:
        n = int(m.group(1))
        ts = Parser(m.group(2), where).terms()
        if len(ts) != n * (n + 1):
            die(5, "%s: a system of dimension %d with %d terms" % (where, n, len(ts)))
        rows = [ts[i * (n + 1):(i + 1) * (n + 1)] for i in range(n)]
        return dict(kind="system", n=n, rows=rows, spline=parse_object(m.group(3), where))
    return parse_object(text, where)


def object_terms(o):
    k = o["kind"]
    if k == "scalar":
        return [o["term"]]
    if k in ("list", "grid"):
        return list(o["terms"])
    if k == "spline":
        return list(o["grid"]) + [t for c in o["coefs"] for t in c]
    if k == "bounds":
        return [t for _, _, t in o["items"]]
    if k == "support":
        return list(o["grid"])
    if k == "coefs":
        return [t for r in o["rows"] for t in r]
    if k == "splines":
        return [t for s in o["items"] for t in object_terms(s)]
    if k == "system":
        return [t for r in o["rows"] for t in r] + object_terms(o["spline"])
    return []


def coefs_text(coefs, sep="; "):
    if not coefs:
        return "(@nil (list F))"
    return "[" + sep.join(glist([gterm(t) for t in c]) for c in coefs) + "]"


def spline_text(o, sep="; "):
    return "(mkSpl (mkSup %s %d%%N %d%%N) %d%%nat %s)" % (glist([gterm(t) for t in o["grid"]]), o["start"], o["end"],
                                                         o["order"], coefs_text(o["coefs"], sep))


def operand_text(o):
    """an operand as a term of the model"""
    k = o["kind"]
    if k == "scalar":
        return gterm(o["term"])
    if k in ("list", "grid"):
        return glist([gterm(t) for t in o["terms"]])
    if k == "spline":
        return spline_text(o)
    if k == "support":
        return "(mkSup %s %d%%N %d%%N)" % (glist([gterm(t) for t in o["grid"]]), o["start"], o["end"])
    if k == "coefs":
        return coefs_text(o["rows"])
    if k == "bounds":
        return glist(["(mkBnd %s %d%%nat %s)" % ("FIRST" if n == "F" else "LAST", d, gterm(t)) for n, d, t in o["items"]],
                     "(boundary F)")
    raise AssertionError(k)


def shape_of(o):
    k = o["kind"]
    if k == "scalar":
        return SCALAR
    if k == "list":
        return lst(len(o["terms"]))
    if k == "grid":
        return grd(len(o["terms"]))
    if k == "spline":
        return spl(o["order"], o["start"], o["end"])
    if k == "bounds":
        return bnds(len(o["items"]))
    if k == "support":
        return sup(o["start"], o["end"])
    if k == "coefs":
        return ("COEFS", len(o["rows"]), o["width"])
    raise AssertionError(k)


# ------------------------------------------------------------------------------------------------
def source_key(inc):
    h = hashlib.sha256()
    files = [SRC, SYM_HEADER, SYMKERN_PY, os.path.abspath(__file__)]
    for root, _, fs in os.walk(inc):
        files += [os.path.join(root, f) for f in fs]
    for f in sorted(files):
        h.update(f.encode() + b"\0")
        with open(f, "rb") as fh:
            h.update(fh.read())
    return h.hexdigest()[:24]


def build_and_run():
    """the program is rebuilt and re-run whenever a header, cpp/symops2.cpp, cpp/symkern_sym.h or the scripts
    changed (content hash); otherwise the recorded output of the run on exactly these sources is reused"""
    os.makedirs(BUILD, exist_ok=True)
    inc = os.path.join(REPO, "include")
    if not os.path.isdir(os.path.join(inc, "bspline")):
        die(2, "no library headers under %s (VERIF_REPO=%s)" % (inc, REPO))
    cache = os.path.join(BUILD, "out-" + source_key(inc) + ".txt")
    if os.path.exists(cache) and not os.environ.get("VERIF_NO_CACHE"):
        with open(cache) as f:
            lines = f.read().splitlines()
        if lines and lines[-1] == "END":
            return lines[:-1]
    lines = build_and_run_uncached(inc)
    with open(cache, "w") as f:
        f.write("\n".join(lines + ["END"]) + "\n")
    return lines


def build_and_run_uncached(inc):
    exe = os.path.join(BUILD, "symops2-%d" % os.getpid())
    log = os.path.join(BUILD, "compile.log")
    cmd = [CXX] + CXXFLAGS + ["-I" + inc, SRC, "-o", exe]
    try:
        p = subprocess.run(cmd, stdout=subprocess.PIPE, stderr=subprocess.STDOUT, universal_newlines=True)
        if p.returncode != 0 or not os.path.exists(exe):
            with open(log, "w") as f:
                f.write(p.stdout)
            lines = p.stdout.splitlines()
            errs = []
            for l in lines:
                if re.search(r"\berror\b", l) and l not in errs:
                    errs.append(l)
            shown = errs[:8] + (["... (%d more error lines)" % (len(errs) - 8)] if len(errs) > 8 else [])
            die(2, "cpp/symops2.cpp does NOT COMPILE against %s (full log: %s):\n  %s\n%s"
                % (inc, log, " ".join(cmd), "\n".join(shown or lines[:20])))
        if os.path.exists(log):
            os.remove(log)
        p = subprocess.run([exe], stdout=subprocess.PIPE, stderr=subprocess.PIPE, universal_newlines=True)
    finally:
        if os.path.exists(exe):
            os.remove(exe)
    if p.returncode != 0:
        done = [l.split()[1] for l in p.stdout.splitlines() if l.startswith("OP ")]
        die(3, "the operations program CRASHED (exit status %d) after scenario %s:\n%s"
            % (p.returncode, done[-1] if done else "<none>", p.stderr[-2000:]))
    lines = p.stdout.splitlines()
    if not lines or lines[-1] != "END":
        die(3, "the operations program did not run to completion (no END marker)")
    return lines[:-1]


CMP_RE = re.compile(r"^([01]) (.*?) (==|!=|<=|>=|<|>) (.*)$")


def collect(lines):
    """name -> dict(vals, pre, args, cmps, result); dies on UNINIT / EXCEPTION."""
    sc = {}
    order = []
    bad = []

    def get(name):
        if name not in sc:
            sc[name] = dict(vals=[], pre=[], args=[], cmps=[], result=None)
            order.append(name)
        return sc[name]

    for line in lines:
        m = re.match(r"(VAL|PRE|ARG|CMP|OP) (\S+) (.*)$", line)
        if not m:
            die(5, "unexpected output line: %r" % line[:200])
        kind, name, rest = m.groups()
        s = get(name)
        if s["result"] is not None or any(name == b[0] for b in bad):
            die(5, "scenario %s: output after the result" % name)
        if kind == "VAL":
            vm = re.fullmatch(r"([a-z][a-z0-9]*) (-?\d+) (\d+)", rest)
            if not vm:
                die(5, "scenario %s: malformed VAL line %r" % (name, rest))
            if any(vm.group(1) == v for v, _, _ in s["vals"]):
                die(5, "scenario %s: variable %s declared twice" % (name, vm.group(1)))
            s["vals"].append((vm.group(1), int(vm.group(2)), int(vm.group(3))))
        elif kind in ("PRE", "CMP"):
            cm = CMP_RE.match(rest)
            if not cm:
                die(5, "scenario %s: malformed comparison %r" % (name, rest))
            where = "%s comparison" % name
            a = Parser(cm.group(2), where).terms()
            b = Parser(cm.group(4), where).terms()
            if len(a) != 1 or len(b) != 1:
                die(5, "scenario %s: malformed comparison %r" % (name, rest))
            s["pre" if kind == "PRE" else "cmps"].append((cm.group(3), a[0], b[0], cm.group(1) == "1"))
        elif kind == "ARG":
            am = re.match(r"(\S+) (.*)$", rest)
            if not am or not re.fullmatch(r"[a-z][a-z0-9]*", am.group(1)):
                die(5, "scenario %s: malformed ARG line %r" % (name, rest[:100]))
            if any(am.group(1) == t for t, _ in s["args"]):
                die(5, "scenario %s: operand %s printed twice" % (name, am.group(1)))
            s["args"].append((am.group(1), parse_object(am.group(2), "%s operand %s" % (name, am.group(1)))))
        else:
            tm = re.match(r"(UNINIT|EXCEPTION) ?(.*)$", rest)
            if tm:
                bad.append((name, tm.group(1), tm.group(2)))
                continue
            s["result"] = parse_result(rest, name)
    if bad:
        msg = ["%d scenario(s) did not yield a result:" % len(bad)]
        for name, tag, rest in bad:
            why = {"UNINIT": "the result depends on a default-constructed scalar",
                   "EXCEPTION": "unexpected exception"}[tag]
            msg.append("  %-32s %-9s %s: %s" % (name, tag, why, rest[:160] + (" ..." if len(rest) > 160 else "")))
        die(4, "\n".join(msg))
    for name in order:
        if sc[name]["result"] is None:
            die(5, "scenario %s: no result line" % name)
    return sc


def result_text(r, wrap, name):
    """(kind, Gallina text of the right-hand side)"""
    k = r["kind"]
    if k == "throw":
        if wrap != "ok":
            die(4, "scenario %s: the operation threw %s; its model cannot throw" % (name, r["code"]))
        return "throw", "Throw %s" % r["code"]
    if k == "scalar":
        body = gterm(r["term"])
    elif k == "bool":
        body = "true" if r["value"] else "false"
    elif k == "index":
        body = "%d%%N" % r["value"]
    elif k == "grid":
        body = glist([gterm(t) for t in r["terms"]])
    elif k in ("support", "spline"):
        body = operand_text(r)
    elif k == "splines":
        body = "[" + ";\n       ".join(spline_text(s, ";\n          ") for s in r["items"]) + "]" if r["items"] \
            else "(@nil (spline F))"
    else:
        raise AssertionError(k)
    if wrap == "ok":
        return k, "Ok %s" % (body if k in ("bool", "index") or body.startswith("(") or body.startswith("[") else "(%s)" % body)
    return k, body


def hyp_text(c):
    op, a, b, v = c
    return "%s %s %s = %s" % (CMP_OPS[op], gterm(a), gterm(b), "true" if v else "false")


def qc_text(n, d):
    return "qc %d %d" % (n, d) if n >= 0 else "qc (%d) %d" % (n, d)


def generate(sc):
    scs = scenarios()
    expected = [n for n, _ in scs]
    if len(set(expected)) != len(expected):
        die(5, "internal: duplicate scenario names in the table")
    missing = [n for n in expected if n not in sc]
    extra = [n for n in sc if n not in set(expected)]
    if missing or extra:
        die(5, "scenario list mismatch: missing %s; unexpected %s" % (missing or "-", extra or "-"))

    per = {}  # scenario -> list of (lemma name, comment, statement, example) ; statement without the binder
    for name, d in scs:
        s = sc[name]
        shapes = [(t, shape_of(o)) for t, o in s["args"]]
        if shapes != [(t, sh) for t, sh in d["args"]]:
            die(5, "scenario %s: the program built the operands %s, the table says %s" % (name, shapes, d["args"]))
        vars_ = [v for v, _, _ in s["vals"]]
        declared = set(vars_)
        used = set()
        for _, o in s["args"]:
            for t in object_terms(o):
                variables(t, used)
        for _, a, b, _ in s["pre"] + s["cmps"]:
            variables(a, used)
            variables(b, used)
        for t in object_terms(s["result"]):
            variables(t, used)
        unknown = sorted(used - declared)
        if unknown:
            die(5, "scenario %s: undeclared variable(s) %s (state kept between calls?)" % (name, unknown))
        for _, o in s["args"]:
            if o["kind"] == "spline":
                for t in o["grid"] + [t for c in o["coefs"] for t in c]:
                    if t[0] not in ("v", "c"):  # (c 0): the padding of a cross-order assignment
                        die(5, "scenario %s: an operand's grid point / coefficient is neither a variable nor a literal" % name)

        env = {tag: operand_text(o) for tag, o in s["args"]}
        stmts = []  # (suffix, call, rhs)
        if s["result"]["kind"] == "system":
            r = s["result"]
            if "system" not in d["kinds"]:
                die(5, "scenario %s: unexpected result kind system" % name)
            rows = "[" + ";\n       ".join(glist([gterm(t) for t in row]) for row in r["rows"]) + "]"
            stmts.append(("_sys", d["call_sys"].format(**env), "Ok %s" % rows))
            sol = d["solution"](r["n"])
            missing_sol = [v for v in sol if v not in declared]
            if missing_sol:
                die(5, "scenario %s: the solver's solution variables %s were not declared" % (name, missing_sol))
            stmts.append(("", d["call"].format(sol=glist(sol), **env), "Ok %s" % spline_text(r["spline"], ";\n       ")))
        else:
            kind, rhs = result_text(s["result"], d["wrap"], name)
            if kind not in d["kinds"]:
                die(5, "scenario %s: the result is a %s, the table admits %s" % (name, kind, "/".join(d["kinds"])))
            if "call_sys" in d:  # interpolate threw: so do the assembly and the whole call, whatever the solver
                stmts.append(("_sys", d["call_sys"].format(**env), rhs))
                stmts.append(("", d["call"].format(sol="(@nil F)", **env), rhs))
            else:
                stmts.append(("", d["call"].format(**env), rhs))

        hyps = [hyp_text(c) for c in s["pre"]] + [hyp_text(c) for c in s["cmps"]]
        npre = len(s["pre"])
        items = []
        for suffix, call, rhs in stmts:
            lname = "p_%s%s" % (name, suffix)
            body = "".join(h + " ->\n    " for h in hyps) + "%s =\n    %s" % (call, rhs)
            binder = "forall %s : F,\n    " % " ".join(vars_) if vars_ else ""
            stmt = binder + body
            comment = "(* %s   [%d comparison(s) while the operands were built, %d by the operation] *)" % (
                d["cxx"], npre, len(s["cmps"]))
            lemma = "%s\nLemma %s_ok {F} {K : Ops F} {L : Laws K} :\n  %s.\nProof. path_tac. Qed.\n" % (comment, lname, stmt)
            # the same statement at the shadow values the run used
            lets = "let F := Qc in\n  " + "".join("let %s : F := %s in\n  " % (v, qc_text(n, dd)) for v, n, dd in s["vals"])
            concl = "%s =\n    %s" % (call, rhs)
            intro = " ".join(["F"] + vars_)
            example = ("Example %s_ex :\n  %s%s.\nProof.\n  intros %s.\n  apply (@%s_ok Qc QcOps Qc_laws %s); vm_compute; reflexivity.\nQed.\n"
                       % (lname, lets, concl, intro, lname, " ".join(vars_)))
            items.append((lname, lemma, stmt, example))
        per[name] = items

    head = """(* %s — GENERATED by gen/symops2.py on every run; do not edit.
   %s.
   Each p_<scenario>_ok describes one CONCOLIC run of a real C++ public operation, obtained by compiling
   and running include/bspline over the symbolic scalar type of cpp/symkern_sym.h (driver
   cpp/symops2.cpp): grid points, coefficients and scalar arguments are named variables, windows and
   orders are concrete, and every variable carries an exact rational shadow value that answers the
   comparisons the code makes.  The hypotheses are the PATH CONDITION: every comparison the run
   executed, with its outcome, in order - first those made while the operands were built (Grid's
   monotonicity check, i.e. the class invariant), then those of the operation itself.  The
   conclusion: the hand-written model operation (the one coq/Pool.v's eval_op uses for the same C++
   call), applied to the same symbolic operands - read back from the objects the C++ program
   constructed - returns what the compiled code returned on that path (`static_cast<T>(c)` is
   `fofZ c`, `x op= y` is `x op y`), in every ordered field and for all values of the variables that
   satisfy the path condition.  The model need not make the same comparisons as the code (binary
   search against a linear walk): the fixed proof script path_tac (coq/Proofs_PathTac.v) decides
   every comparison the model makes from the path condition by an order decision procedure, then
   compares the results (scalars by the reflexive field procedure).
   Each p_<scenario>_ex instantiates the lemma at the exact rationals the run used (coq/Instances.v),
   the hypotheses discharged by computation: the path condition is satisfiable.
   paths_%s_agree is the conjunction of the statements.  %d scenarios, %d lemmas. *)
From Coq Require Import List ZArith NArith QArith Qcanon.
From BSpl Require Import Scalar Outcome Support Poly Spline Ops Forms Generator Interp Solver
                         Proofs_KernelTac Proofs_OpsTac Proofs_PathTac Instances.
Import ListNotations.
Local Open Scope F_scope.

"""

    def nest(xs):
        return xs[0] if len(xs) == 1 else "(conj %s %s)" % (xs[0], nest(xs[1:]))

    files = {}
    present = []
    for fam in FAMILIES:
        members = [n for n, _ in scs if n.split("_")[0] == fam]
        if not members:
            continue
        present.append(fam)
        fname = "PathGen_%s.v" % fam
        items = [it for n in members for it in per[n]]
        body = "\n".join(lemma + "\n" + example for _, lemma, _, example in items)
        conj = " /\\\n    ".join("(%s)" % stmt.replace("\n    ", "\n      ") for _, _, stmt, _ in items)
        proof = nest(["(@%s_ok F K L)" % ln for ln, _, _, _ in items])
        summary = ("(* %d scenarios, %d statements *)\nDefinition paths_%s_agree : Prop :=\n  forall (F : Type) (K : Ops F) (L : Laws K),\n    %s.\n"
                   "Lemma paths_%s_agree_ok : paths_%s_agree.\nProof. intros F K L. exact %s. Qed.\n"
                   % (len(members), len(items), fam, conj, fam, fam, proof))
        tail = "\nPrint Assumptions paths_%s_agree_ok.\n" % fam
        files[fname] = head % (fname, FAMILY_DOC[fam], fam, len(members), len(items)) + body + "\n" + summary + tail
    if set(n.split("_")[0] for n, _ in scs) != set(present):
        die(5, "internal: a scenario belongs to no family")
    return files


def main():
    ap = argparse.ArgumentParser(description=__doc__, formatter_class=argparse.RawDescriptionHelpFormatter)
    ap.add_argument("--out", metavar="DIR", default=DEFAULT_OUT, help="directory for PathGen_<family>.v")
    ap.add_argument("--print", dest="print_", action="store_true", help="print to stdout, write nothing")
    args = ap.parse_args()

    files = generate(collect(build_and_run()))
    if args.print_:
        for fname, text in files.items():
            sys.stdout.write(text)
        return
    os.makedirs(args.out, exist_ok=True)
    for fname, text in files.items():
        path = os.path.join(args.out, fname)
        old = None
        if os.path.exists(path):
            with open(path) as f:
                old = f.read()
        if old != text:
            with open(path, "w") as f:
                f.write(text)
            print("symops2.py: wrote %s" % path)
    print("symops2.py: %d scenarios in %d files under %s" % (len(scenarios()), len(files), args.out))


if __name__ == "__main__":
    main()

#!/usr/bin/env python3
"""symroundops.py — regenerates coq/gen/RoundOpsGen_<family>.v: a forward rounding-error bound for every
object the REAL C++ PUBLIC OPERATIONS return (sums, differences, products, scalar forms, linearCombination,
operator applications, bilinear and linear forms on splines with symbolic grid points and coefficients), in the
code's own operation order.

The objects are those of gen/symops.py (same program cpp/symops.cpp, same run, same cache under
/verif/.build/symops; VERIF_REPO selects the tree); the analysis is the one of gen/symround.py
(coq/Proofs_RoundTac.v), extended to divisors that are variables (coq/Proofs_RoundOpsTac.v:  a / c,  a /= c,
(X<1> / c) * a  divide by an exact input; the bound then carries the premise  c <> 0).  Per scenario:

    Definition ro_<scenario> : kexpr | list kexpr      the result, reified: the scalar, or every coefficient of the
                                                       returned spline (interval by interval, flattened)
    Definition omag_<scenario> (vars : R) : R | list R the same expression(s) with every variable and literal
                                                       replaced by its absolute value, - by +, / c by / |c|
    Lemma ro_<scenario>_denote   kdenote [vars] ro_<scenario> = o_<scenario> vars  |
                                 map (kdenote [vars]) ro_<scenario> = concat (r_coefs (o_<scenario> vars))
                                 (every F, K; reflexivity against coq/gen/OpsGen_<family>.v)
    Lemma ro_<scenario>_mag      (map) kmag [vars] ro_<scenario> = omag_<scenario> vars       (reflexivity)
    Lemma ro_<scenario>_need / _wf / _depth / _divs      kwfv <N>, kwfv M64, kdepth(s) = <D>, divisor variables
                                                          (vm_compute)
    Lemma ro_<scenario>_bound    for every u >= 0, rnd with rnd x = x(1+d), |d| <= u, integers up to M >= <N> exact
                                 [, c <> 0]: |o (RndOps rnd) vars - o ExactOps vars| <= gamma u <D> * omag vars
                                 (componentwise, klist_bound, for spline results)
    Lemma ro_<scenario>_bound64  the same at binary64 with tol64 = 2^20 * 2^-52 in place of gamma
and per family  rounding_ops_<family>_bounded / rounding_ops_<family>_binary64  with proofs, plus one
non-vacuity example for bilin and lin.  Output is deterministic; a file is only rewritten when it changes.

usage: symroundops.py [--out DIR] [--print] [--show SCENARIO]
exit status: 0 ok; 2..5 as gen/symops.py; 6 a term is outside the analysed fragment (a divisor that is neither
a non-zero integer constant nor a variable, an integer beyond 2^53 - 1, a depth beyond 2^20).
"""
import argparse
import os
import sys
from fractions import Fraction

sys.path.insert(0, os.path.dirname(os.path.abspath(__file__)))
import symround  # noqa: E402
import symops  # noqa: E402

symround.VAR_DIVISORS = True
DEFAULT_OUT = symops.DEFAULT_OUT
analyse, reify, magtext, magvalue, rlit = (symround.analyse, symround.reify, symround.magtext, symround.magvalue,
                                           symround.rlit)


def die(code, msg):
    sys.stderr.write("symroundops.py: " + msg.rstrip() + "\n")
    sys.exit(code)


symops.die = die            # failures of the shared front end are reported under this script's name
symops.symkern.die = die
symround.die = die

EXAMPLES = {"bilin": "bilin_id_id_11_nest", "lin": "lin_x1_2_whole"}


def divisor_vars(t, acc):
    stack = [t]
    while stack:
        t = stack.pop()
        if t[0] in ("v", "c"):
            continue
        if t[0] == "div" and t[2][0] == "v":
            acc.add(t[2][1])
        stack.extend(t[1:])
    return acc


def scenario_vars(operands):
    """the binder of o_<scenario> (gen/symops.py): the grid points, then the operands' variables in order."""
    vars_ = list(symops.GRID)
    for _tag, o in operands:
        for t in symops.object_terms(o):
            for x in sorted(symops.variables(t, set())):
                if x not in vars_:
                    vars_.append(x)
    return vars_


def example_value(name, j):
    """g0 < g1 < g2 < g3 and coefficients of mixed sign, all dyadic."""
    if name in symops.GRID:
        return [Fraction(-3, 2), Fraction(-1, 4), Fraction(1, 2), Fraction(9, 4)][symops.GRID.index(name)]
    return Fraction((-1) ** j * (2 * j + 1), 2 ** (j % 3 + 1))


def generate(got):
    scs = symops.scenarios()
    per = {}
    for name, d in scs:
        operands, result = got[name]
        vars_ = scenario_vars(operands)
        idx = {v: i for i, v in enumerate(vars_)}
        ts = symops.object_terms(result)
        scalar = result["kind"] == "scalar"
        memo = {}
        infos = [analyse(t, name, memo) for t in ts]
        need = max([i.need for i in infos] + [0])
        depth = max([i.depth for i in infos] + [0])
        if need > symround.M64:
            die(6, "scenario %s: an integer literal or integer-valued sub-result (%d) exceeds 2^53 - 1" % (name, need))
        if depth > symround.MAXDEPTH:
            die(6, "scenario %s: %d accumulated rounding factors exceed 2^20" % (name, depth))
        dv = set()
        for t in ts:
            divisor_vars(t, dv)
        dvars = [v for v in vars_ if v in dv]
        dlist = "[" + "; ".join("%d%%nat" % idx[v] for v in dvars) + "]"
        nzh = "".join("%s <> 0 -> " % v for v in dvars)
        nzi = "".join(" Hnz%d" % i for i in range(len(dvars)))

        rbinder = " (%s : R)" % " ".join(vars_)
        fquant = "forall %s : F, " % " ".join(vars_)
        rquant = "forall %s : R, " % " ".join(vars_)
        args = " " + " ".join(vars_)
        env = "[" + "; ".join(vars_) + "]"
        has_k = any(t[0] != "v" for t in ts)
        inst = lambda ops: "@o_%s R%s%s" % (name, " " + ops if has_k else "", args)     # noqa: E731
        mag = "omag_%s%s" % (name, args)
        if scalar:
            rdef = "Definition ro_%s : kexpr :=\n  %s." % (name, reify(ts[0], idx))
            mdef = "Definition omag_%s%s : R :=\n  %s." % (name, rbinder, magtext(ts[0], name, memo))
            den = "kdenote %s ro_%s = o_%s%s" % (env, name, name, args)
            kmg = "kmag %s ro_%s" % (env, name)
            wf = lambda m: "kwfv %s ro_%s = true" % (m, name)              # noqa: E731
            dep = "kdepth ro_%s = %d%%nat" % (name, depth)
            divs = "kdivin %s (kdivvars ro_%s) = true" % (dlist, name)
            body = lambda r, b: "Rabs (%s - %s) <= %s * %s" % (inst("(RndOps %s)" % r), inst("ExactOps"), b, mag)   # noqa: E731
            gam = "gamma u %d" % depth
            lem, lem64 = "kbound_instance_v", "kbound64_instance_v"
        else:
            rdef = "Definition ro_%s : list kexpr :=\n  [%s]." % (name, ";\n   ".join(reify(t, idx) for t in ts))
            mdef = "Definition omag_%s%s : list R :=\n  [%s]." % (name, rbinder,
                                                                  ";\n   ".join(magtext(t, name, memo) for t in ts))
            den = "map (kdenote %s) ro_%s = concat (r_coefs (o_%s%s))" % (env, name, name, args)
            kmg = "map (kmag %s) ro_%s" % (env, name)
            wf = lambda m: "forallb (kwfv %s) ro_%s = true" % (m, name)    # noqa: E731
            dep = "kdepths ro_%s = %d%%nat" % (name, depth)
            divs = "kdivin %s (flat_map kdivvars ro_%s) = true" % (dlist, name)
            body = lambda r, b: ("klist_bound %s (concat (r_coefs (%s))) (concat (r_coefs (%s))) (%s)"      # noqa: E731
                                 % (b, inst("(RndOps %s)" % r), inst("ExactOps"), mag))
            gam = "(gamma u %d)" % depth
            lem, lem64 = "kbound_list_instance_v", "kbound64_list_instance_v"
        rew = ("rewrite <- !ro_%s_denote, <- ro_%s_mag." % (name, name)) if has_k else "rewrite <- ro_%s_mag." % name
        stmt = "(%d <= M)%%Z -> %s%s%s" % (need, rquant, nzh, body("rnd", gam))
        stmt64 = "%s%s%s" % (rquant, nzh, body("rnd64", "tol64"))
        intro = "intros%s%s. " % (args, nzi)
        what = "%d coefficient(s)" % len(ts) if not scalar else "scalar"
        text = "\n".join([
            "(* %s: %s, %d rounding factor(s), integers up to %d%s *)"
            % (d["cxx"], what, depth, need, ", divides by %s" % ", ".join(dvars) if dvars else ""),
            rdef, mdef,
            "Lemma ro_%s_denote {F : Type} {K : Ops F} : %s%s.\nProof. intros. reflexivity. Qed." % (name, fquant, den),
            "Lemma ro_%s_mag : %s%s = %s.\nProof. intros. reflexivity. Qed." % (name, rquant, kmg, mag),
            "Lemma ro_%s_need : %s.\nProof. vm_compute. reflexivity. Qed." % (name, wf("%d" % need)),
            "Lemma ro_%s_wf : %s.\nProof. vm_compute. reflexivity. Qed." % (name, wf("M64")),
            "Lemma ro_%s_depth : %s.\nProof. vm_compute. reflexivity. Qed." % (name, dep),
            "Lemma ro_%s_divs : %s.\nProof. vm_compute. reflexivity. Qed." % (name, divs),
            "Lemma ro_%s_bound : forall (u : R) (rnd : R -> R) (M : Z), 0 <= u -> std_model u rnd -> int_model rnd M ->\n  %s."
            % (name, stmt),
            "Proof.\n  intros u rnd M Hu Hs Hi HM. %s%s\n"
            "  exact (%s u rnd M ro_%s %d %d %s Hu Hs Hi ro_%s_need HM ro_%s_depth ro_%s_divs %s ltac:(knz_tac)).\nQed."
            % (intro, rew, lem, name, need, depth, dlist, name, name, name, env),
            "Lemma ro_%s_bound64 :\n  %s." % (name, stmt64),
            "Proof.\n  %s%s\n"
            "  exact (%s ro_%s %d %d %s ro_%s_need ltac:(kzle_tac) ro_%s_depth ltac:(kzle_tac) ro_%s_divs %s ltac:(knz_tac)).\nQed."
            % (intro, rew, lem64, name, need, depth, dlist, name, name, name, env),
        ]) + "\n"
        per[name] = dict(text=text, stmt=stmt, stmt64=stmt64, depth=depth, need=need, ts=ts, vars=vars_, memo=memo,
                         scalar=scalar, dvars=dvars, ncoef=len(ts), has_k=has_k)

    def nest(xs):
        return xs[0] if len(xs) == 1 else "(conj %s %s)" % (xs[0], nest(xs[1:]))

    files = {}
    for fam in symops.FAMILIES:
        fname = "RoundOpsGen_%s.v" % fam
        members = [n for n, _ in scs if n.split("_")[0] == fam]
        dmax = max(per[n]["depth"] for n in members)
        nmax = max(per[n]["need"] for n in members)
        withdiv = [n for n in members if per[n]["dvars"]]
        conj = " /\\\n    ".join("(%s)" % per[n]["stmt"] for n in members)
        conj64 = " /\\\n  ".join("(%s)" % per[n]["stmt64"] for n in members)
        summary = (
            "(* %d scenarios; at most %d rounding factor(s); integers up to %d; %s *)\n"
            "Definition rounding_ops_%s_bounded : Prop :=\n"
            "  forall (u : R) (rnd : R -> R) (M : Z), 0 <= u -> std_model u rnd -> int_model rnd M ->\n    %s.\n"
            "Lemma rounding_ops_%s_bounded_ok : rounding_ops_%s_bounded.\n"
            "Proof. intros u rnd M Hu Hs Hi. exact %s. Qed.\n\n"
            "Definition rounding_ops_%s_binary64 : Prop :=\n  %s.\n"
            "Lemma rounding_ops_%s_binary64_ok : rounding_ops_%s_binary64.\nProof. exact %s. Qed.\n"
            % (len(members), dmax, nmax,
               "division by a symbolic scalar (premise c <> 0) in: %s" % " ".join(withdiv) if withdiv
               else "no division by a symbolic scalar",
               fam, conj, fam, fam, nest(["(ro_%s_bound u rnd M Hu Hs Hi)" % n for n in members]),
               fam, conj64, fam, fam, nest(["ro_%s_bound64" % n for n in members])))
        if fam in EXAMPLES:
            n = EXAMPLES[fam]
            p = per[n]
            if not p["scalar"] or p["dvars"]:
                die(5, "internal: the example scenario %s is not a scalar without symbolic divisor" % n)
            vals = [example_value(v, j) for j, v in enumerate(p["vars"])]
            mv = magvalue(p["ts"][0], dict(zip(p["vars"], vals)), n, p["memo"])
            argt = "".join(" " + rlit(v) for v in vals)
            ops = (" (RndOps rnd64)", " ExactOps") if p["has_k"] else ("", "")
            summary += (
                "\n(* non-vacuity: the binary64 bound of %s at concrete dyadic arguments (g0 < g1 < g2 < g3); the "
                "magnitude evaluates to %s *)\n"
                "Definition rounding_ops_%s_example : Prop :=\n"
                "  Rabs (@o_%s R%s%s - @o_%s R%s%s) <= tol64 * %s.\n"
                "Lemma rounding_ops_%s_example_ok : rounding_ops_%s_example.\n"
                "Proof.\n  unfold rounding_ops_%s_example. replace %s with (omag_%s%s); [apply ro_%s_bound64|].\n"
                "  unfold omag_%s. kabs_norm. field.\nQed.\n"
                % (n, mv, fam, n, ops[0], argt, n, ops[1], argt, rlit(mv), fam, fam, fam, rlit(mv), n, argt, n, n))
        head = ("(* %s — GENERATED by gen/symroundops.py on every run; do not edit.\n"
                "   %s.\n"
                "   Forward rounding-error bounds for the objects o_<scenario> of OpsGen_%s.v, i.e. for the arithmetic the\n"
                "   real C++ public operations perform, in their own operation order (cpp/symops.cpp, gen/symops.py):\n"
                "   grid points g0..g3 and every operand coefficient are variables, windows and orders are concrete.\n"
                "   ro_<scenario> is the result reified into the syntax of coq/Proofs_RoundTac.v - the scalar, or every\n"
                "   coefficient of the returned spline, interval by interval (ro_<scenario>_denote: its denotation IS\n"
                "   o_<scenario> resp. concat (r_coefs o_<scenario>), by reflexivity, for every scalar structure; the\n"
                "   order and window of a spline result are literals of o_<scenario>, the same for every structure);\n"
                "   omag_<scenario> is the same expression with every variable and literal replaced by its absolute\n"
                "   value, subtraction by addition and division by |divisor|; ro_<scenario>_bound instantiates the\n"
                "   generic theorem kround_bound_v (coq/Proofs_RoundOpsTac.v): in the standard model rnd x = x (1 + d),\n"
                "   |d| <= u, with the integers the term involves exact (and the symbolic divisor, where there is one,\n"
                "   non-zero),  |computed - exact| <= gamma u <depth> * omag,  componentwise (klist_bound) for spline\n"
                "   results; ro_<scenario>_bound64 is the same at binary64 round-to-nearest-even with\n"
                "   tol64 = 2^20 * 2^-52 in place of gamma.  Depths, integer ranges and divisor variables are computed\n"
                "   by the generator and checked here by vm_compute; the proof scripts are fixed.  %d scenarios. *)\n"
                "From Coq Require Import List ZArith NArith Reals Lra.\n"
                "From BSpl Require Import Scalar Proofs_OpsTac Proofs_Rounded Proofs_RoundTac Proofs_RoundOpsTac.\n"
                "From BSpl.gen Require Import OpsGen_%s.\n"
                "Import ListNotations.\nLocal Open Scope R_scope.\n\n"
                % (fname, symops.FAMILY_DOC[fam], fam, len(members), fam))
        tail = "\nPrint Assumptions rounding_ops_%s_bounded_ok.\nPrint Assumptions rounding_ops_%s_binary64_ok.\n" % (fam, fam)
        files[fname] = head + "\n".join(per[n]["text"] for n in members) + "\n" + summary + tail
    return files, per


def show(per, name):
    if name not in per:
        die(5, "no scenario %r" % name)
    p = per[name]
    idx = {v: i for i, v in enumerate(p["vars"])}
    print("scenario %s (%s): depth %d, integers up to %d%s"
          % (name, " ".join(p["vars"]), p["depth"], p["need"],
             ", divides by %s" % ", ".join(p["dvars"]) if p["dvars"] else ""))
    for i, t in enumerate(p["ts"]):
        tag = "" if p["scalar"] else "[%d] " % i
        print("  %sterm: %s" % (tag, symops.gallina(t)))
        print("  %sro  : %s" % (tag, reify(t, idx)))
        print("  %somag: %s" % (tag, magtext(t, name, p["memo"])))


def main():
    ap = argparse.ArgumentParser(description=__doc__, formatter_class=argparse.RawDescriptionHelpFormatter)
    ap.add_argument("--out", metavar="DIR", default=DEFAULT_OUT, help="directory for RoundOpsGen_<family>.v")
    ap.add_argument("--print", dest="print_", action="store_true", help="print to stdout, write nothing")
    ap.add_argument("--show", metavar="SCENARIO", help="print one scenario's terms, depth and omag; write nothing")
    args = ap.parse_args()

    got = symops.collect(symops.build_and_run())
    symops.generate(got)       # the scenario-list / operand / undeclared-variable checks of symops.py (status 5)
    files, per = generate(got)
    if args.show:
        show(per, args.show)
        return
    if args.print_:
        for fname, text in files.items():
            sys.stdout.write(text)
        return
    os.makedirs(args.out, exist_ok=True)
    for fname, text in files.items():
        path = os.path.join(args.out, fname)
        old = None
        if os.path.exists(path):
            with open(path) as f:
                old = f.read()
        if old != text:
            with open(path, "w") as f:
                f.write(text)
            print("symroundops.py: wrote %s" % path)
    fams = {}
    for n, p in per.items():
        f = fams.setdefault(n.split("_")[0], [0, 0])
        f[0] += 1
        f[1] = max(f[1], p["depth"])
    print("symroundops.py: %d scenarios in %d files under %s; largest depth per family: %s"
          % (len(per), len(files), args.out, ", ".join("%s %d (%d)" % (k, v[1], v[0]) for k, v in fams.items())))


if __name__ == "__main__":
    main()

#!/usr/bin/env python3
"""trymutant.py — development tool: applies a patch to a scratch copy of /repo (outside /repo and
/verif), runs the given checks against it (VERIF_REPO=<copy>), prints which fire, removes the copy.
Usage: trymutant.py <patch> <id> [<id> ...] [--tier quick]"""
import os
import shutil
import subprocess
import sys
import tempfile

VERIF = os.path.dirname(os.path.dirname(os.path.abspath(__file__)))


def main():
    args = [a for a in sys.argv[1:] if not a.startswith("--")]
    tier = "quick"
    if "--tier" in sys.argv:
        tier = sys.argv[sys.argv.index("--tier") + 1]
        args = [a for a in args if a != tier]
    patch, ids = os.path.abspath(args[0]), args[1:]
    d = tempfile.mkdtemp(prefix="mutrepo_", dir="/var/tmp")
    # evidence written by runs against a scratch copy must never stay in /verif/evidence: keep the current files aside
    keep = tempfile.mkdtemp(prefix="mutevid_", dir="/var/tmp")
    ev = os.path.join(VERIF, "evidence")
    before = set()
    for root, _, fs in os.walk(ev):
        for f in fs:
            rel = os.path.relpath(os.path.join(root, f), ev)
            before.add(rel)
            os.makedirs(os.path.dirname(os.path.join(keep, rel)), exist_ok=True)
            shutil.copy2(os.path.join(root, f), os.path.join(keep, rel))
    try:
        subprocess.run(f"git -C /repo archive HEAD | tar -x -C {d}", shell=True, check=True)
        r = subprocess.run(["patch", "-p1", "-d", d, "-i", patch], capture_output=True, text=True)
        if r.returncode != 0:
            print("PATCH FAILED", r.stdout, r.stderr)
            return 2
        env = dict(os.environ, VERIF_REPO=d)
        for pid in ids:
            p = subprocess.run([os.path.join(VERIF, "check"), pid, "--tier", tier], capture_output=True, text=True, env=env, cwd=VERIF)
            lines = [l for l in p.stdout.splitlines() if l.startswith(("VIOLATION", "KNOWN-FINDING", "["))]
            print(f"== {os.path.basename(patch)} on {pid}: exit {p.returncode}")
            for l in lines[:4] + lines[-1:]:
                print("   ", l)
    finally:
        shutil.rmtree(d, ignore_errors=True)
        for root, _, fs in os.walk(ev):
            for f in fs:
                rel = os.path.relpath(os.path.join(root, f), ev)
                if rel not in before:
                    os.remove(os.path.join(root, f))
        for rel in before:
            os.makedirs(os.path.dirname(os.path.join(ev, rel)), exist_ok=True)
            shutil.copy2(os.path.join(keep, rel), os.path.join(ev, rel))
        shutil.rmtree(keep, ignore_errors=True)
        # restore the generated tables and evidence from /repo itself
        subprocess.run([sys.executable, os.path.join(VERIF, "gen", "scan_sites.py")], capture_output=True)
        subprocess.run([sys.executable, os.path.join(VERIF, "gen", "ast2coq.py")], capture_output=True)
        subprocess.run([sys.executable, os.path.join(VERIF, "gen", "symkern.py")], capture_output=True)
        subprocess.run([sys.executable, os.path.join(VERIF, "gen", "symops.py")], capture_output=True)
        subprocess.run([sys.executable, os.path.join(VERIF, "gen", "symops2.py")], capture_output=True)
        subprocess.run([sys.executable, os.path.join(VERIF, "gen", "symround.py")], capture_output=True)
        subprocess.run([sys.executable, os.path.join(VERIF, "gen", "symroundops.py")], capture_output=True)
        # compiled files of the generated tables must again be those of /repo's own tables
        subprocess.run("make -k -j16 >/dev/null 2>&1", shell=True, cwd=os.path.join(VERIF, "coq"))
    return 0


if __name__ == "__main__":
    sys.exit(main())

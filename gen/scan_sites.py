#!/usr/bin/env python3
"""scan_sites.py — regenerates, from /repo's current headers, two tables the kernel re-checks:

  coq/gen/Sites.v  (C09): every UNCHECKED access in include/ — `x[...]` on vectors, arrays, grids,
                   supports, and iterator arithmetic `begin() + k` — as (file, expression text).
  coq/gen/Shared.v (C18): every construct that can introduce state shared between threads —
                   static / thread_local / mutable / const_cast / volatile / atomic / shared_ptr /
                   pointer or reference members — as (file, normalised line).

A regular-expression scanner, not a C++ front end (stated in the trusted base): it is tuned to
over-approximate; attributes, lambda captures and template argument lists are filtered out.
"""
import os
import re
import sys

REPO = os.environ.get("VERIF_REPO", "/repo")
OUT = os.path.join(os.path.dirname(os.path.dirname(os.path.abspath(__file__))), "coq", "gen")


def strip_comments(src):
    src = re.sub(r"/\*.*?\*/", lambda m: "\n" * m.group(0).count("\n"), src, flags=re.S)
    src = re.sub(r"//[^\n]*", "", src)
    src = re.sub(r'"(?:[^"\\\n]|\\.)*"', '""', src)
    return src


def headers():
    root = os.path.join(REPO, "include")
    for d, _, fs in sorted(os.walk(root)):
        for f in sorted(fs):
            if f.endswith(".h"):
                p = os.path.join(d, f)
                yield os.path.relpath(p, root), strip_comments(open(p).read())


SUB = re.compile(r"([A-Za-z_][\w]*(?:\(\))?(?:\.\w+\(\))*|\)|\])\s*\[([^\[\]]+)\]")


KEEP = {"size_t", "int", "static_cast", "const", "this", "std", "true", "false", "sizeof", "T", "S"}


def normalise(expr):
    """local variable and parameter names do not matter for what a site IS: every identifier that is not a data
    member (_x), a called function/method (followed by '('), a member selected with . -> :: or a literal/keyword is
    replaced by v1, v2, ... in order of first appearance, so that a pure renaming leaves the inventory unchanged
    while a different container, index shape, dereference or offset does not"""
    names = {}

    def repl(m):
        name, start, end = m.group(0), m.start(), m.end()
        before = expr[:start].rstrip()
        after = expr[end:].lstrip()
        if name.startswith("_") or name in KEEP or name[0].isdigit():
            return name
        if after.startswith("(") or before.endswith((".", "->", "::")):
            return name
        if name not in names:
            names[name] = "v%d" % (len(names) + 1)
        return names[name]
    return re.sub(r"[A-Za-z_]\w*", repl, expr)


def subscript_sites():
    sites = []
    for rel, src in headers():
        for line in src.splitlines():
            if line.lstrip().startswith("#"):
                continue
            for m in SUB.finditer(line):
                head, idx = m.group(1), m.group(2).strip()
                after = line[m.end():].lstrip()
                before = line[:m.start()]
                if head in ("operator",) or before.rstrip().endswith("operator"):
                    continue
                if after.startswith("(") and re.match(r"^[&=\w\s,]*$", idx) and head in (")", "]"):
                    continue        # lambda introducer
                if re.search(r"\[\[\s*$", before) or idx.startswith("["):
                    continue        # attribute
                # what is subscripted: take the full postfix expression text before '['
                j = m.start(1)
                k = j
                while k > 0 and (line[k - 1].isalnum() or line[k - 1] in "_.>-():*"):
                    k -= 1
                expr = (line[k:m.end()]).strip()
                expr = re.sub(r"\s+", " ", expr)
                sites.append((rel, expr))
            for m in re.finditer(r"\bbegin\(\)\s*\+\s*([\w\.\(\)_]+)", line):
                sites.append((rel, re.sub(r"\s+", " ", m.group(0))))
            for m in re.finditer(r"\b(rbegin|rend)\(\)(\s*\+\s*\w+)?", line):
                sites.append((rel, re.sub(r"\s+", " ", m.group(0))))
            for m in re.finditer(r"([\w\)\]]+)\s*(\.|->)\s*(front|back)\(\)", line):
                sites.append((rel, re.sub(r"\s+", "", m.group(0))))
    return sorted(set((rel, normalise(e)) for rel, e in sites))


SHARED = re.compile(r"\b(static|thread_local|mutable|const_cast|volatile|atomic|shared_ptr|weak_ptr|extern|reinterpret_cast)\b")


def shared_key(t):
    """a static member FUNCTION is identified by everything up to its parameter list (parameter names and the rest
    of the line do not matter); every other construct by the whole normalised line"""
    par, eq = t.find("("), t.find("=")
    if re.match(r"^(static|inline|constexpr|\[\[nodiscard\]\]|\s)+", t) and par > 0 and (eq < 0 or par < eq) and "operator" not in t[:par]:
        return t[:par + 1]
    return t


def shared_sites():
    sites = []
    for rel, src in headers():
        for line in src.splitlines():
            t = re.sub(r"\s+", " ", line.strip())
            if not t or t.startswith("#"):
                continue
            t2 = re.sub(r"\bstatic_(cast|assert)\b", "", t)
            if SHARED.search(t2):
                sites.append((rel, shared_key(t)))
            elif re.search(r"^[\w:<>, ]+[\*&]\s*_\w+\s*;", t):       # pointer / reference data member
                sites.append((rel, t))
    return sorted(set(sites))


def coq_string(s):
    return '"' + s.replace('"', '""') + '"'


def write_table(name, ident, rows, doc):
    os.makedirs(OUT, exist_ok=True)
    lines = [f"(* {name}.v — GENERATED by gen/scan_sites.py from {REPO}/include on every run; do not edit.",
             f"   {doc} *)",
             "From Coq Require Import List String.", "Import ListNotations.", "Local Open Scope string_scope.", "",
             f"Definition {ident} : list (string * string) :=", "  ["]
    lines += [f"    ({coq_string(a)}, {coq_string(b)})" + (";" if i + 1 < len(rows) else "") for i, (a, b) in enumerate(rows)]
    lines += ["  ].", ""]
    path = os.path.join(OUT, name + ".v")
    text = "\n".join(lines)
    if not os.path.exists(path) or open(path).read() != text:      # keep timestamps when nothing changed
        with open(path, "w") as f:
            f.write(text)


def main():
    subs = subscript_sites()
    sh = shared_sites()
    write_table("Sites", "unchecked_sites", subs, "Every unchecked access (subscript, iterator arithmetic) in the library headers.")
    write_table("Shared", "shared_sites", sh, "Every construct that can introduce state shared between threads.")
    if "--print" in sys.argv:
        for r in subs:
            print("SITE", r)
        for r in sh:
            print("SHARED", r)
    return subs, sh


if __name__ == "__main__":
    main()

"""coqeval.py — cross-check of the extracted OCaml model against evaluation inside Coq.

Translates case-file lines into Gallina terms of type `op Qc`, lets `coqc` evaluate
`EvalCheck.run_enc` on them with vm_compute, and compares the integer encoding of every outcome
with the encoding printed by the OCaml driver (`driver --zenc`) for the same case.  A difference
means that extraction, the OCaml compiler or the driver's parser/printer do not agree with the
kernel's own evaluation of the model.
"""
import os
import re
import subprocess
from fractions import Fraction

import pipeline
from pipeline import VERIF, BUILD, COQ


class T:
    def __init__(self, toks):
        self.t, self.i = toks, 0

    def next(self):
        v = self.t[self.i]
        self.i += 1
        return v


def nat(tk):
    return f"{int(tk.next())}%nat"


def nn(tk):
    return f"{int(tk.next())}%N"


def q(tk):
    f = Fraction(tk.next())
    return f"(qc ({f.numerator})%Z {f.denominator}%positive)"


def lst(tk, f):
    n = int(tk.next())
    return "[" + "; ".join(f(tk) for _ in range(n)) + "]"


def scalar(tk):
    k = tk.next()
    return f"(ScF {q(tk)})" if k == 'F' else f"(ScI ({int(tk.next())})%Z)"      # I U Z L H: C++ integer types, all ScI


def expr(tk):
    h = tk.next()
    if h == 'Id':
        return "PId"
    if h in ('Pos', 'Der', 'Spl'):
        return f"(P{h} {nat(tk)})"
    if h in ('Mul', 'Add', 'Sub'):
        a = expr(tk)
        b = expr(tk)
        return f"(P{h} {a} {b})"
    if h in ('SMulL', 'SAdd', 'SSub'):
        s = scalar(tk)
        a = expr(tk)
        return f"(P{h} {s} {a})"
    if h in ('SMulR', 'DivS', 'AddS', 'SubS'):
        a = expr(tk)
        s = scalar(tk)
        return f"(P{h} {a} {s})"
    if h == 'Neg':
        return f"(PNeg {expr(tk)})"
    raise ValueError(h)


SIMPLE = {
    'GridCopy': 'nn', 'GridAt': 'nN', 'GridSub': 'nN', 'GridFind': 'nq', 'GridEq': 'nn', 'GridSize': 'n', 'GridFront': 'n',
    'GridBack': 'n', 'SupNew': 'nnNN', 'SupEmpty': 'nn', 'SupWhole': 'nn', 'SupCopy': 'nn', 'SupMove': 'nn', 'SupMoveAssign': 'nn',
    'SupUnion': 'nnn', 'SupInter': 'nnn', 'SupRel': 'nN', 'SupIvl': 'nN', 'SupAbs': 'nN', 'SupAt': 'nN', 'SupSub': 'nN',
    'SupFront': 'n', 'SupBack': 'n', 'SupIter': 'n', 'SupEq': 'nn', 'SupSameGrid': 'nn', 'SupIsEmpty': 'n', 'SupContains': 'n',
    'SupGrid': 'nn', 'SplEmpty': 'nnn', 'SplCopy': 'nn', 'SplMove': 'nn', 'SplMoveAssign': 'nn', 'SplAssignUp': 'nn',
    'SplScale': 'nnq', 'SplScaleL': 'nqn', 'SplDiv': 'nnq', 'SplNeg': 'nn', 'SplIMul': 'nq', 'SplIDiv': 'nq', 'SplAdd': 'nnn',
    'SplSub': 'nnn', 'SplMul': 'nnn', 'SplIAdd': 'nn', 'SplISub': 'nn', 'SplEval': 'nq', 'SplFront': 'n', 'SplBack': 'n',
    'SplIsZero': 'n', 'SplOverlap': 'nn', 'SplEq': 'nn', 'SplSupport': 'nn', 'Show': 'n',
}


def gallina(text):
    tk = T(text.split())
    op = tk.next()
    if op in SIMPLE:
        args = [nat(tk) if k == 'n' else nn(tk) if k == 'N' else q(tk) for k in SIMPLE[op]]
        return f"({op} {' '.join(args)})"
    if op == 'GridNew':
        d = nat(tk)
        return f"(GridNew {d} {lst(tk, q)})"
    if op == 'SplNew':
        d = nat(tk)
        o = int(tk.next())
        s = nat(tk)
        m = int(tk.next())
        arrs = "[" + "; ".join("[" + "; ".join(q(tk) for _ in range(o + 1)) + "]" for _ in range(m)) + "]"
        return f"(SplNew {d} {o}%nat {s} {arrs})"
    if op == 'SplLinComb':
        d = nat(tk)
        cs = lst(tk, q)
        ss = lst(tk, nat)
        return f"(SplLinComb {d} {cs} {ss})"
    if op == 'Apply':
        d, a = nat(tk), nat(tk)
        return f"(Apply {d} {expr(tk)} {a})"
    if op == 'Transform':
        g, k = nat(tk), nn(tk)
        c = lst(tk, q)
        return f"(Transform {expr(tk)} {c} {g} {k})"
    if op == 'Bilin':
        a, b = nat(tk), nat(tk)
        e1 = expr(tk)
        e2 = expr(tk)
        return f"(Bilin {e1} {e2} {a} {b})"
    if op == 'Lin':
        a = nat(tk)
        return f"(Lin {expr(tk)} {a})"
    if op == 'Gen1':
        d0, o = nat(tk), nat(tk)
        return f"(Gen1 {d0} {o} {lst(tk, q)})"
    if op == 'Gen2':
        d0, o, g = nat(tk), nat(tk), nat(tk)
        return f"(Gen2 {d0} {o} {lst(tk, q)} {g})"
    if op == 'InterpDefault':
        d, o, x = nat(tk), nat(tk), nat(tk)
        return f"(InterpDefault {d} {o} {x} {lst(tk, q)})"
    if op == 'Interp':
        d, o, x = nat(tk), nat(tk), nat(tk)
        y = lst(tk, q)
        n = int(tk.next())
        bs = []
        for _ in range(n):
            node = tk.next()
            dd = nat(tk)
            v = q(tk)
            bs.append(f"(mkBnd {node} {dd} {v})")
        return f"(Interp {d} {o} {x} {y} [{'; '.join(bs)}])"
    raise ValueError(op)


def coq_eval(cases, workdir, timeout=1500):
    """returns {case id: list of integer lists} as evaluated by vm_compute inside Coq"""
    os.makedirs(workdir, exist_ok=True)
    src = ["From Coq Require Import List NArith ZArith QArith Qcanon.",
           "From BSpl Require Import Scalar Outcome Support Poly Spline Ops Forms Generator Interp Solver Pool Instances EvalCheck.",
           "Import ListNotations.", "Set Printing Width 1000000.", "Set Printing Depth 10000000."]
    for i, c in enumerate(cases):
        ops = ";\n  ".join(gallina(t) for t in c.lines)
        src.append(f"Definition ops_{i} : list (op Qc) :=\n  [{ops}].")
        src.append(f'Goal True. idtac "=====CASE {c.cid}". Abort.')
        src.append(f"Eval vm_compute in (run_enc ops_{i}).")
    path = os.path.join(workdir, "evalcases.v")
    with open(path, "w") as f:
        f.write("\n".join(src) + "\n")
    ok, log = pipeline.build_coq("EvalCheck.vo")
    if not ok:
        return None, log
    rc, out, _ = pipeline.sh(f"timeout {timeout} coqc -Q {COQ} BSpl {path}", cwd=workdir, timeout=timeout + 60)
    if rc != 0:
        return None, out[-3000:]
    res = {}
    for blk in out.split("=====CASE ")[1:]:
        cid, _, body = blk.partition("\n")
        body = body.split(": list (list Z)")[0]
        rows = re.findall(r"\[([^\[\]]*)\]", body)
        res[cid.strip()] = [[int(x) for x in re.findall(r"-?\d+", r)] for r in rows]
    return res, ""


TAG = {"GRID": 1, "SUP": 2, "SPL": 3, "NONE": 4, "SOME": 5, "true": 6, "false": 7, "VOID": 8, "ROW": 9, "LIST": 10}
ERR = {"DIFFERING_GRIDS": 1, "INCONSISTENT_DATA": 2, "MISSING_DATA": 3, "INVALID_ACCESS": 4, "UNDETERMINED": 5,
       "BadOptionalAccess": 6, "StdOutOfRange": 7}
UBK = {"OOBRead": 1, "OOBWrite": 2, "DivByZero": 3, "ErasePastEnd": 4, "SignedOverflow": 5, "IllTyped": 6}


def encode_driver_line(op_text, out_text):
    """integer encoding of a canonical output line of the OCaml driver.  The textual form does not
    distinguish TN from TF tokens, so the encoding is recovered per token with the help of the
    Coq-side shape: this function returns a token list; `same` compares modulo that ambiguity."""
    t = out_text.split()
    if t[0] == "THROW":
        return [1, ERR[t[1]]]
    if t[0] == "UB":
        return [2, UBK[t[1]]]
    return t[1:]


def same(coq_row, drv_tokens):
    """compares the Coq encoding with the driver's textual tokens"""
    if isinstance(drv_tokens, list) and drv_tokens and isinstance(drv_tokens[0], int):
        return coq_row == drv_tokens
    if not coq_row or coq_row[0] != 0:
        return False
    i = 1
    for tok in drv_tokens:
        if i >= len(coq_row):
            return False
        kind = coq_row[i]
        if kind == 0:
            if TAG.get(tok) != coq_row[i + 1]:
                return False
            i += 2
        elif kind == 1:
            if not re.fullmatch(r"\d+", tok) or int(tok) != coq_row[i + 1]:
                return False
            i += 2
        elif kind == 2:
            try:
                f = Fraction(tok)
            except Exception:
                return False
            if f != Fraction(coq_row[i + 1], coq_row[i + 2]) or Fraction(coq_row[i + 1], coq_row[i + 2]).denominator != coq_row[i + 2]:
                return False
            i += 3
        else:
            return False
    return i == len(coq_row)


def stage_coq_eval(pid, seed, tier, workdir, cases=None, model_lines=None, sample=6):
    """thorough tier: a sample of the check's own cases evaluated inside Coq and compared with the extracted run"""
    import random
    res = {"diffs": [], "infra": [], "evaluations": 0, "samples": [], "nontrivial": [], "notes": {}}
    if not cases:
        return res
    rng = random.Random(seed)
    small = [c for c in cases if len(c.lines) <= 400]
    pick = rng.sample(small, min(sample, len(small)))
    if not pick:
        return res
    ev, log = coq_eval(pick, os.path.join(workdir, "coqeval"))
    if ev is None:
        res["infra"].append(("evaluation of the sampled cases inside Coq failed", log))
        return res
    for c in pick:
        rows = ev.get(c.cid, [])
        for i, text in enumerate(c.lines, 1):
            res["evaluations"] += 1
            drv = model_lines.get(f"{c.cid}.{i}")
            if drv is None or i > len(rows) or not same(rows[i - 1], encode_driver_line(text, drv)):
                res["diffs"].append({"variant": "coq-vs-extraction", "case": c.cid, "line": i, "op": text,
                                     "model": f"vm_compute: {rows[i - 1] if i <= len(rows) else None}", "impl": f"extracted: {drv}",
                                     "history": c.lines[:i], "oracle": "unknown",
                                     "explanation": "the extracted OCaml model and evaluation inside Coq disagree (extraction / driver problem, not a property of /repo)"})
    res["notes"] = {"cases_evaluated_in_coq": [c.cid for c in pick]}
    return res

#!/usr/bin/env python3
"""adopt_seed.py — development tool: verifies a seeded change delivered by a sub-agent in /tmp/seed_<id>_out
(patch.diff, demo.cpp, notes.md) and, if everything is confirmed, stores it as /verif/seeded/<name>/.
Confirmed here, in a scratch copy of /repo outside /repo and /verif: the patch applies to HEAD; the library
still compiles warning-free and the existing 28-case suite passes WITH the change; the demonstration
passes WITHOUT the change and fails WITH it.  Usage: adopt_seed.py <id> [name] [--checks C03,C09]"""
import json, os, shutil, subprocess, sys, tempfile, time
VERIF = os.path.dirname(os.path.dirname(os.path.abspath(__file__)))

def sh(cmd, **kw):
    return subprocess.run(cmd, shell=True, capture_output=True, text=True, **kw)

def main():
    pid = sys.argv[1]
    args = [a for a in sys.argv[2:] if not a.startswith("--")]
    name = args[0] if args else pid
    checks = [pid]
    extra, srcs, incs = "", [], []
    for a in sys.argv[2:]:
        if a.startswith("--checks"):
            checks = a.split("=", 1)[1].split(",")
        if a.startswith("--extra="):
            extra = a.split("=", 1)[1]
        if a.startswith("--srcs="):
            srcs = a.split("=", 1)[1].split(",")
        if a.startswith("--inc="):
            incs = a.split("=", 1)[1].split(",")
    src = f"/tmp/seed_{pid}_out"
    for a in sys.argv[2:]:
        if a.startswith("--from="):
            src = a.split("=", 1)[1]
    for f in ("patch.diff", "demo.cpp", "notes.md"):
        if not os.path.exists(os.path.join(src, f)):
            print("missing", f); return 2
    d = tempfile.mkdtemp(prefix="seedchk_", dir="/var/tmp")
    ran = []
    try:
        sh(f"git -C /repo archive HEAD | tar -x -C {d}")
        # demo without the change
        comp = lambda out: (f"g++ -std=c++17 {extra} -I{d}/include " + " ".join(f"-I{d}/{i}" for i in incs) + f" {src}/demo.cpp " +
                            " ".join(f"{d}/{x}" for x in srcs) + f" -o {d}/{out} && {d}/{out}")
        r = sh(comp("demo0"), timeout=1800)
        ran.append(f"demo on unchanged tree: exit {r.returncode}")
        if r.returncode != 0:
            print("demo fails on the unchanged tree", r.stdout[-500:], r.stderr[-500:]); return 3
        r = sh(f"patch -p1 -d {d} -i {src}/patch.diff")
        if r.returncode != 0:
            print("patch does not apply", r.stdout, r.stderr); return 4
        r = sh(comp("demo1"), timeout=1800)
        ran.append(f"demo with the change: exit {r.returncode}")
        if r.returncode == 0:
            print("demo passes with the change"); return 5
        t = time.time()
        r = sh(f"cmake -G Ninja -S {d} -B {d}/_build -DCMAKE_BUILD_TYPE=RelWithDebInfo -DCMAKE_CXX_FLAGS=-Wno-error >/dev/null && cmake --build {d}/_build 2>&1 | tail -3 && {d}/_build/tests/test 2>&1 | tail -3", timeout=3000)
        ok = "No errors detected" in r.stdout
        ran.append(f"existing suite with the change: {'28 cases pass' if ok else 'FAILS'} ({time.time()-t:.0f}s)")
        if not ok:
            print("the existing suite does not pass with the change:", r.stdout[-800:]); return 6
    finally:
        shutil.rmtree(d, ignore_errors=True)
    dst = os.path.join(VERIF, "seeded", name)
    os.makedirs(dst, exist_ok=True)
    for f in ("patch.diff", "demo.cpp", "notes.md"):
        shutil.copy(os.path.join(src, f), dst)
    prop = json.loads([l for l in open(os.path.join(VERIF, "properties.jsonl")) if json.loads(l)["id"] == pid][0])
    meta = {"property": pid, "title": prop["title"], "origin": "independent sub-agent given only the property text and its own scratch worktree",
            "needs_to_manifest": "see notes.md", "confirmed": ran, "checks": checks,
            "demo_compile": f"g++ -std=c++17 {extra} -I<tree>/include " + " ".join(f"-I<tree>/{i}" for i in incs) + " demo.cpp " + " ".join(f"<tree>/{x}" for x in srcs)}
    json.dump(meta, open(os.path.join(dst, "meta.json"), "w"), indent=1)
    print("adopted", dst, ran)
    return 0

if __name__ == "__main__":
    sys.exit(main())

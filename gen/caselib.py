"""caselib.py — builder for correspondence cases.

A Case records one history of public operations over a pool of numbered slots
and emits it twice: as lines of the case-file language that ocaml/driver.ml
feeds to the extracted Coq model (Pool.op), and as a C++ function that performs
the same calls on the real library (cpp/harness.h).  Slot kinds and spline
orders are tracked statically here, exactly as the C++ static types are, so the
generated program is well-typed by construction.
"""
from fractions import Fraction


def fr(x):
    """canonical text of a rational"""
    x = Fraction(x)
    return str(x.numerator) if x.denominator == 1 else f"{x.numerator}/{x.denominator}"


def cq(x):
    """C++ expression of type S for a rational"""
    x = Fraction(x)
    if x.denominator == 1:
        return f'Q("{x.numerator}")'
    return f'Q("{x.numerator}","{x.denominator}")'


# ---------------------------------------------------------------------------
# operator expressions (surface syntax = overload set)
# ---------------------------------------------------------------------------
BIND = None     # list of (name, C++ type, initialiser, clobber value) while an expression is printed in binding mode


def bound_exprs(exprs, on):
    """C++ for building the operators of `exprs`: returns (declarations, [operator variable names], clobber statements).
    on=False: the operators are built from temporaries inside the declaration of the operator variables."""
    global BIND
    BIND = [] if on else None
    try:
        texts = [e.cpp() for e in exprs]
        binds = BIND or []
    finally:
        BIND = None
    decl = " ".join(f"{ty} {n} = {init};" for n, ty, init, _ in binds)
    decl += " " + " ".join(f"auto op{i} = {t};" for i, t in enumerate(texts))
    clob = " ".join(f"{n} = {c};" for n, _, _, c in binds)
    return decl.strip(), [f"op{i}" for i in range(len(texts))], clob


class Sc:
    """scalar inside an expression: kind 'F' (the spline's scalar type) or an integer of C++ type int ('I'),
    unsigned ('U'), size_t ('Z'), long ('L') or short ('H'); the model sees every integer kind as ScI"""
    INT_KINDS = {'I': None, 'U': "{}u", 'Z': "static_cast<size_t>({})", 'L': "{}L", 'H': "static_cast<short>({})"}

    def __init__(self, kind, val):
        self.kind = kind
        self.val = Fraction(val) if kind == 'F' else int(val)
        assert kind == 'F' or kind in self.INT_KINDS
        assert kind not in ('U', 'Z') or self.val >= 0

    def text(self):
        return f"F {fr(self.val)}" if self.kind == 'F' else f"{self.kind} {self.val}"

    CTYPE = {'F': 'S', 'I': 'int', 'U': 'unsigned', 'Z': 'size_t', 'L': 'long', 'H': 'short'}

    def literal(self):
        if self.kind == 'F':
            return cq(self.val)
        if self.kind != 'I':
            return "(" + self.INT_KINDS[self.kind].format(self.val) + ")"
        return f"({self.val})" if self.val < 0 else str(self.val)

    def cpp(self):
        if BIND is not None:
            # the scalar is a NAMED variable that is overwritten after the operator has been built and before it is
            # used (see bound_exprs): an operator that keeps a reference to its scalar instead of a copy shows
            name = f"sc{len(BIND)}"
            BIND.append((name, self.CTYPE[self.kind], self.literal(), cq(Fraction(12345, 7)) if self.kind == 'F' else "77"))
            return name
        return self.literal()

    def is_zero(self):
        return self.val == 0


class E:
    """expression node: head in Id Pos Der Spl Mul Add Sub SMulL SMulR DivS AddS SAdd SubS SSub Neg"""

    def __init__(self, head, *args):
        self.head = head
        self.args = args

    def text(self):
        h, a = self.head, self.args
        if h == 'Id':
            return 'Id'
        if h in ('Pos', 'Der', 'Spl'):
            return f"{h} {a[0]}"
        if h in ('Mul', 'Add', 'Sub'):
            return f"{h} {a[0].text()} {a[1].text()}"
        if h in ('SMulL', 'SAdd', 'SSub'):
            return f"{h} {a[0].text()} {a[1].text()}"
        if h in ('SMulR', 'DivS', 'AddS', 'SubS'):
            return f"{h} {a[0].text()} {a[1].text()}"
        if h == 'Neg':
            return f"Neg {a[0].text()}"
        raise ValueError(h)

    def cpp(self):
        h, a = self.head, self.args
        if h == 'Id':
            return 'IdentityOperator{}'
        if h == 'Pos':
            return f"X<{a[0]}>{{}}"
        if h == 'Der':
            return f"Dx<{a[0]}>{{}}"
        if h == 'Spl':
            return f"SplineOperator(req(s{a[0]}))"
        if h == 'Mul':
            return f"({a[0].cpp()} * {a[1].cpp()})"
        if h == 'Add':
            return f"({a[0].cpp()} + {a[1].cpp()})"
        if h == 'Sub':
            return f"({a[0].cpp()} - {a[1].cpp()})"
        if h == 'SMulL':
            return f"({a[0].cpp()} * {a[1].cpp()})"
        if h == 'SMulR':
            return f"({a[0].cpp()} * {a[1].cpp()})"
        if h == 'DivS':
            return f"({a[0].cpp()} / {a[1].cpp()})"
        if h == 'AddS':
            return f"({a[0].cpp()} + {a[1].cpp()})"
        if h == 'SAdd':
            return f"({a[0].cpp()} + {a[1].cpp()})"
        if h == 'SubS':
            return f"({a[0].cpp()} - {a[1].cpp()})"
        if h == 'SSub':
            return f"({a[0].cpp()} - {a[1].cpp()})"
        if h == 'Neg':
            return f"(-{a[0].cpp()})"
        raise ValueError(h)

    def out_ord(self, n, slot_order):
        """O::outputOrder(n); slot_order maps a spline slot to its static order"""
        h, a = self.head, self.args
        if h == 'Id':
            return n
        if h == 'Pos':
            return n + a[0]
        if h == 'Der':
            return max(a[0], n) - a[0]
        if h == 'Spl':
            return n + slot_order(a[0])
        if h == 'Mul':
            return a[0].out_ord(a[1].out_ord(n, slot_order), slot_order)
        if h in ('Add', 'Sub'):
            return max(a[0].out_ord(n, slot_order), a[1].out_ord(n, slot_order))
        if h in ('SMulL', 'SAdd', 'SSub'):
            o = a[1].out_ord(n, slot_order)
            return o if h == 'SMulL' else max(o, n)
        if h in ('SMulR', 'DivS', 'AddS', 'SubS'):
            o = a[0].out_ord(n, slot_order)
            return o if h in ('SMulR', 'DivS') else max(o, n)
        if h == 'Neg':
            return a[0].out_ord(n, slot_order)
        raise ValueError(h)

    def slots(self):
        if self.head == 'Spl':
            return [self.args[0]]
        r = []
        for x in self.args:
            if isinstance(x, E):
                r += x.slots()
        return r

    def size(self):
        return 1 + sum(x.size() for x in self.args if isinstance(x, E))


# ---------------------------------------------------------------------------
# cases
# ---------------------------------------------------------------------------
MAXORD = 12  # highest spline order a case may produce (static types)


class Case:
    def __init__(self, cid):
        self.cid = cid
        self.lines = []      # case-file lines
        self.body = []       # C++ statements, one per line
        self.kind = {}       # slot -> 'grid' | 'sup' | ('spl', order)
        self.meta = {}       # free-form, for evidence

    # -- bookkeeping --
    def _decl(self, slot, kind):
        if slot in self.kind:
            if self.kind[slot] != kind:
                raise TypeError(f"slot {slot} redeclared {self.kind[slot]} -> {kind}")
        else:
            self.kind[slot] = kind

    def order(self, slot):
        k = self.kind[slot]
        assert isinstance(k, tuple), (slot, k)
        return k[1]

    def _emit(self, text, code):
        self.lines.append(text)
        idx = len(self.lines)
        self.body.append(f'  line(CID, {idx}, [&](Out &out) {{ (void)out; {code} }});')

    def _set(self, slot, value_expr):
        # copy/move-assign when engaged, construct otherwise (same observable effect)
        return f"if (s{slot}) *s{slot} = {value_expr}; else s{slot}.emplace({value_expr});"

    # -- grids --
    def grid_new(self, d, pts):
        self._decl(d, 'grid')
        pts = list(pts)
        self._emit(f"GridNew {d} {len(pts)} " + " ".join(fr(p) for p in pts),
                   f"Grid<S> r(std::vector<S>{{{', '.join(cq(p) for p in pts)}}}); {self._set(d, 'r')} out.tag(\"VOID\");")

    def grid_copy(self, d, a):
        self._decl(d, 'grid')
        self._emit(f"GridCopy {d} {a}", f"auto &x = req(s{a}); {self._set(d, 'x')} out.tag(\"VOID\");")

    def grid_at(self, a, i):
        self._emit(f"GridAt {a} {i}", f"out.f(req(s{a}).at({i}ull));")

    def grid_find(self, a, x):
        self._emit(f"GridFind {a} {fr(x)}", f"out.n(req(s{a}).findElement({cq(x)}));")

    def grid_eq(self, a, b):
        self._emit(f"GridEq {a} {b}", f"out.b(req(s{a}) == req(s{b}));")

    def grid_eq_fresh(self, a, b):
        """g == h where g is a FRESH grid object with the points of slot a and no other owner of its data; a reference
        and an iterator into g taken before the comparison are used after it (a read-only comparison must not
        invalidate them).  The model sees GridEq a b."""
        self._emit(f"GridEq {a} {b}",
                   f"auto &ga = req(s{a}); std::vector<S> pts; for (size_t i = 0; i < ga.size(); i++) pts.push_back(ga[i]); "
                   f"const Grid<S> g(std::move(pts)); bool ok = true; "
                   f"if (!g.empty()) {{ const S &first = g.front(); auto it = g.begin(); const auto data = g.getData().get(); "
                   f"const bool e = (g == req(s{b})); ok = (first == g[0]) && (*it == g[0]) && (g.getData().get() == data); "
                   f"out.b(e && ok); }} else {{ out.b(g == req(s{b})); }}")

    def grid_size(self, a):
        self._emit(f"GridSize {a}", f"out.n(req(s{a}).size());")

    def grid_front(self, a):
        self._emit(f"GridFront {a}", f"out.f(req(s{a}).front());")

    def grid_back(self, a):
        self._emit(f"GridBack {a}", f"out.f(req(s{a}).back());")

    # -- supports --
    def sup_new(self, d, g, i, j):
        self._decl(d, 'sup')
        self._emit(f"SupNew {d} {g} {i} {j}",
                   f"Support<S> r(req(s{g}), {i}ull, {j}ull); {self._set(d, 'r')} out.tag(\"VOID\");")

    def sup_empty(self, d, g):
        self._decl(d, 'sup')
        self._emit(f"SupEmpty {d} {g}",
                   f"auto r = Support<S>::createEmpty(req(s{g})); {self._set(d, 'r')} out.tag(\"VOID\");")

    def sup_whole(self, d, g):
        self._decl(d, 'sup')
        self._emit(f"SupWhole {d} {g}",
                   f"auto r = Support<S>::createWholeGrid(req(s{g})); {self._set(d, 'r')} out.tag(\"VOID\");")

    def sup_copy(self, d, a):
        self._decl(d, 'sup')
        self._emit(f"SupCopy {d} {a}", f"auto &x = req(s{a}); {self._set(d, 'x')} out.tag(\"VOID\");")

    def sup_move(self, d, a):
        """move construction of a fresh object d from a"""
        self._decl(d, 'sup')
        self._emit(f"SupMove {d} {a}",
                   f"auto &x = req(s{a}); s{d}.reset(); s{d}.emplace(std::move(x)); out.tag(\"VOID\");")

    def sup_move_assign(self, d, a):
        self._emit(f"SupMoveAssign {d} {a}",
                   f"auto &t = req(s{d}); auto &x = req(s{a}); t = std::move(x); out.tag(\"VOID\");")

    def sup_union(self, d, a, b):
        self._decl(d, 'sup')
        self._emit(f"SupUnion {d} {a} {b}",
                   f"auto r = req(s{a}).calcUnion(req(s{b})); {self._set(d, 'r')} out.tag(\"VOID\");")

    def sup_inter(self, d, a, b):
        self._decl(d, 'sup')
        self._emit(f"SupInter {d} {a} {b}",
                   f"auto r = req(s{a}).calcIntersection(req(s{b})); {self._set(d, 'r')} out.tag(\"VOID\");")

    def sup_rel(self, a, i):
        self._emit(f"SupRel {a} {i}", f"out.opt(req(s{a}).relativeFromAbsolute({i}ull));")

    def sup_ivl(self, a, i):
        self._emit(f"SupIvl {a} {i}", f"out.opt(req(s{a}).intervalIndexFromAbsolute({i}ull));")

    def sup_abs(self, a, i):
        self._emit(f"SupAbs {a} {i}", f"out.n(req(s{a}).absoluteFromRelative({i}ull));")

    def sup_at(self, a, i):
        self._emit(f"SupAt {a} {i}", f"out.f(req(s{a}).at({i}ull));")

    def sup_sub(self, a, i):
        self._emit(f"SupSub {a} {i}", f"out.f(req(s{a})[{i}ull]);")

    def sup_front(self, a):
        self._emit(f"SupFront {a}", f"out.f(req(s{a}).front());")

    def sup_back(self, a):
        self._emit(f"SupBack {a}", f"out.f(req(s{a}).back());")

    def sup_iter(self, a):
        self._emit(f"SupIter {a}",
                   f"auto &x = req(s{a}); std::vector<S> v(x.begin(), x.end()); out.tag(\"LIST\"); out.n(v.size()); for (auto &e : v) out.f(e);")

    def sup_eq(self, a, b):
        self._emit(f"SupEq {a} {b}", f"auto &x = req(s{a}); auto &y = req(s{b}); out.b(x == y); out.b(x != y);")

    def sup_same_grid(self, a, b):
        self._emit(f"SupSameGrid {a} {b}", f"out.b(req(s{a}).hasSameGrid(req(s{b})));")

    def sup_is_empty(self, a):
        self._emit(f"SupIsEmpty {a}", f"out.b(req(s{a}).empty());")

    def sup_contains(self, a):
        self._emit(f"SupContains {a}", f"out.b(req(s{a}).containsIntervals());")

    def sup_grid(self, d, a):
        self._decl(d, 'grid')
        self._emit(f"SupGrid {d} {a}", f"Grid<S> r = req(s{a}).getGrid(); {self._set(d, 'r')} out.tag(\"VOID\");")

    # -- splines --
    def spl_new(self, d, order, sup, coefs):
        self._decl(d, ('spl', order))
        flat = " ".join(fr(c) for arr in coefs for c in arr)
        arrs = ", ".join("{" + ", ".join(cq(c) for c in arr) + "}" for arr in coefs)
        for arr in coefs:
            assert len(arr) == order + 1
        self._emit(f"SplNew {d} {order} {sup} {len(coefs)} {flat}".rstrip(),
                   f"std::vector<std::array<S, {order + 1}>> cs{{{('{' + arrs + '}') if coefs else ''}}}; "
                   f"Spline<S, {order}> r(req(s{sup}), std::move(cs)); {self._set(d, 'std::move(r)')} out.tag(\"VOID\");")

    def spl_empty(self, d, order, g):
        self._decl(d, ('spl', order))
        self._emit(f"SplEmpty {d} {order} {g}",
                   f"Spline<S, {order}> r(req(s{g})); {self._set(d, 'std::move(r)')} out.tag(\"VOID\");")

    def spl_copy(self, d, a):
        self._decl(d, ('spl', self.order(a)))
        self._emit(f"SplCopy {d} {a}", f"auto &x = req(s{a}); {self._set(d, 'x')} out.tag(\"VOID\");")

    def spl_move(self, d, a):
        self._decl(d, ('spl', self.order(a)))
        self._emit(f"SplMove {d} {a}",
                   f"auto &x = req(s{a}); s{d}.reset(); s{d}.emplace(std::move(x)); out.tag(\"VOID\");")

    def spl_move_assign(self, d, a):
        assert self.order(d) == self.order(a)
        self._emit(f"SplMoveAssign {d} {a}",
                   f"auto &t = req(s{d}); auto &x = req(s{a}); t = std::move(x); out.tag(\"VOID\");")

    def spl_assign_up(self, d, a):
        assert self.order(a) < self.order(d)
        self._emit(f"SplAssignUp {d} {a}",
                   f"auto &t = req(s{d}); auto &x = req(s{a}); t = x; out.tag(\"VOID\");")

    def spl_scale(self, d, a, c):
        self._decl(d, ('spl', self.order(a)))
        self._emit(f"SplScale {d} {a} {fr(c)}",
                   f"auto r = req(s{a}) * {cq(c)}; {self._set(d, 'std::move(r)')} out.tag(\"VOID\");")

    def spl_scale_l(self, d, c, a):
        self._decl(d, ('spl', self.order(a)))
        self._emit(f"SplScaleL {d} {fr(c)} {a}",
                   f"auto r = {cq(c)} * req(s{a}); {self._set(d, 'std::move(r)')} out.tag(\"VOID\");")

    def spl_div(self, d, a, c):
        self._decl(d, ('spl', self.order(a)))
        self._emit(f"SplDiv {d} {a} {fr(c)}",
                   f"auto r = req(s{a}) / {cq(c)}; {self._set(d, 'std::move(r)')} out.tag(\"VOID\");")

    def spl_neg(self, d, a):
        self._decl(d, ('spl', self.order(a)))
        self._emit(f"SplNeg {d} {a}",
                   f"auto r = -req(s{a}); {self._set(d, 'std::move(r)')} out.tag(\"VOID\");")

    def spl_imul(self, a, c):
        self._emit(f"SplIMul {a} {fr(c)}", f"req(s{a}) *= {cq(c)}; out.tag(\"VOID\");")

    def spl_idiv(self, a, c):
        self._emit(f"SplIDiv {a} {fr(c)}", f"req(s{a}) /= {cq(c)}; out.tag(\"VOID\");")

    def _bin(self, name, op, d, a, b, order):
        self._decl(d, ('spl', order))
        self._emit(f"{name} {d} {a} {b}",
                   f"auto r = req(s{a}) {op} req(s{b}); {self._set(d, 'std::move(r)')} out.tag(\"VOID\");")

    def spl_add(self, d, a, b):
        self._bin("SplAdd", "+", d, a, b, max(self.order(a), self.order(b)))

    def spl_sub(self, d, a, b):
        self._bin("SplSub", "-", d, a, b, max(self.order(a), self.order(b)))

    def spl_mul(self, d, a, b):
        self._bin("SplMul", "*", d, a, b, self.order(a) + self.order(b))

    def spl_iadd(self, a, b):
        assert self.order(b) <= self.order(a)
        self._emit(f"SplIAdd {a} {b}", f"auto &t = req(s{a}); auto &x = req(s{b}); t += x; out.tag(\"VOID\");")

    def spl_isub(self, a, b):
        assert self.order(b) <= self.order(a)
        self._emit(f"SplISub {a} {b}", f"auto &t = req(s{a}); auto &x = req(s{b}); t -= x; out.tag(\"VOID\");")

    def spl_lincomb(self, d, cs, ss, order=None):
        """ss: spline slots (all one order unless empty, then `order` must be given)"""
        if ss:
            order = self.order(ss[0])
            for s in ss:
                assert self.order(s) == order
        self._decl(d, ('spl', order))
        # the operands are handed over in a NON-const vector and written back to their slots afterwards (also when the
        # call throws), so that a call that modifies or moves from its operands is visible in the slots; odd d + len:
        # iterator overload with non-const iterators, else the collection overload
        call = "bspline::linearCombination(cv.begin(), cv.end(), sv.begin(), sv.end())" if (d + len(ss)) % 2 else "bspline::linearCombination(cv, sv)"
        wb = " ".join(f"req(s{s}) = sv[{k}];" for k, s in enumerate(ss))
        self._emit(f"SplLinComb {d} {len(cs)} {' '.join(fr(c) for c in cs)} {len(ss)} {' '.join(str(s) for s in ss)}".replace("  ", " ").rstrip(),
                   f"std::vector<S> cv{{{', '.join(cq(c) for c in cs)}}}; std::vector<Spline<S, {order}>> sv; "
                   + " ".join(f"sv.push_back(req(s{s}));" for s in ss)
                   + f" auto wb = [&] {{ {wb} }}; std::optional<Spline<S, {order}>> r; "
                   + f"try {{ r.emplace({call}); }} catch (...) {{ wb(); throw; }} wb(); {self._set(d, 'std::move(*r)')} out.tag(\"VOID\");")

    def spl_eval(self, a, x):
        self._emit(f"SplEval {a} {fr(x)}", f"out.f(req(s{a})({cq(x)}));")

    def spl_front(self, a):
        self._emit(f"SplFront {a}", f"out.f(req(s{a}).front());")

    def spl_back(self, a):
        self._emit(f"SplBack {a}", f"out.f(req(s{a}).back());")

    def spl_is_zero(self, a):
        self._emit(f"SplIsZero {a}", f"out.b(req(s{a}).isZero());")

    def spl_overlap(self, a, b):
        self._emit(f"SplOverlap {a} {b}", f"out.b(req(s{a}).checkOverlap(req(s{b})));")

    def spl_eq(self, a, b):
        assert self.order(a) == self.order(b)
        self._emit(f"SplEq {a} {b}", f"auto &x = req(s{a}); auto &y = req(s{b}); out.b(x == y); out.b(x != y);")

    def spl_support(self, d, a):
        self._decl(d, 'sup')
        self._emit(f"SplSupport {d} {a}", f"Support<S> r = req(s{a}).getSupport(); {self._set(d, 'r')} out.tag(\"VOID\");")

    # -- operators and forms --
    def apply(self, d, e, a):
        o = e.out_ord(self.order(a), self.order)
        self._decl(d, ('spl', o))
        decl, (op,), clob = bound_exprs([e], len(self.lines) % 2 == 0)
        self._emit(f"Apply {d} {a} {e.text()}",
                   f"{decl} {clob} auto r = {op} * req(s{a}); {self._set(d, 'std::move(r)')} out.tag(\"VOID\");")

    def transform(self, e, coeffs, g, k):
        n = len(coeffs)
        self._emit(f"Transform {g} {k} {n} {' '.join(fr(c) for c in coeffs)} {e.text()}",
                   f"std::array<S, {n}> in{{{', '.join(cq(c) for c in coeffs)}}}; auto r = {e.cpp()}.transform(in, req(s{g}), {k}ull); out.arr(r);")

    def bilin(self, e1, e2, a, b):
        # every constructor of BilinearForm is exercised: (O1, O2), (O2) with the identity on the left,
        # the default constructor and the ScalarProduct alias; alternately operator() and evaluate()
        alt = len(self.lines) % 2 == 0
        if e1.head == 'Id' and e2.head == 'Id' and alt:
            ctor = "bspline::integration::ScalarProduct bf{};"
        elif e1.head == 'Id' and e2.head == 'Id':
            ctor = "BilinearForm bf{};"
        elif e1.head == 'Id' and alt:
            decl, (o2,), clob = bound_exprs([e2], len(self.lines) % 4 == 0)
            ctor = f"{decl} BilinearForm bf({o2}); {clob}"
        else:
            decl, (o1, o2), clob = bound_exprs([e1, e2], len(self.lines) % 4 == 1)
            ctor = f"{decl} BilinearForm bf({o1}, {o2}); {clob}"
        call = f"bf(req(s{a}), req(s{b}))" if alt else f"bf.evaluate(req(s{a}), req(s{b}))"
        self._emit(f"Bilin {a} {b} {e1.text()} {e2.text()}", f"{ctor} out.f({call});")

    def lin(self, e, a):
        alt = len(self.lines) % 2 == 0
        if e.head == 'Id' and alt:
            ctor = "LinearForm lf{};"
        else:
            decl, (o1,), clob = bound_exprs([e], len(self.lines) % 4 >= 2)
            ctor = f"{decl} LinearForm lf({o1}); {clob}"
        call = f"lf(req(s{a}))" if alt else f"lf.evaluate(req(s{a}))"
        self._emit(f"Lin {a} {e.text()}", f"{ctor} out.f({call});")

    # -- numerical quadrature (floating-point tiers only; the model line is the analytic form) --
    def quad(self, n, w, a, b):
        """integrate<n>(x -> sum_j w_j x^j, a, b); model: bilinear form with the weight as operator"""
        we = E('SMulL', Sc('F', 0), E('Id'))
        for j in reversed(range(len(w))):
            we = E('Add', E('SMulL', Sc('F', w[j]), E('Pos', j)), we)
        horner = "S(0)"
        for c in reversed(w):
            horner = f"({cq(c)} + x * {horner})"
        self._emit(f"Bilin {a} {b} Id {we.text()}",
                   "\n#ifdef VERIF_QUAD\n"
                   f"std::vector<S> xs; auto wf = [&](const S &x) {{ xs.push_back(x); return {horner}; }}; "
                   f"S r = bspline::integration::integrate<{n}>(wf, req(s{a}), req(s{b})); out.f(r); "
                   "std::sort(xs.begin(), xs.end()); out.tag(\"ABSC\"); out.n(xs.size()); for (auto &x : xs) out.f(x); "
                   # the library's own analytic route: the bilinear form with the weight as operator
                   f"out.tag(\"ANALYTIC\"); BilinearForm bf({we.cpp()}); out.f(bf.evaluate(req(s{a}), req(s{b})));"
                   "\n#else\nout.tag(\"SKIP\");\n#endif\n")
        self.meta.setdefault('quad', {})[len(self.lines)] = (n, list(w), a, b)

    # -- generator --
    def _store_vec(self, d0, count):
        return " ".join(f"if (v.size() > {i}) {{ {self._set(d0 + i, f'v[{i}]')} }}" for i in range(count))

    def gen1(self, d0, order, knots):
        count = max(0, len(knots) - order - 1)
        for i in range(count):
            self._decl(d0 + i, ('spl', order))
        self._emit(f"Gen1 {d0} {order} {len(knots)} {' '.join(fr(k) for k in knots)}".rstrip(),
                   f"auto v = bspline::generateBSplines<{order}>(std::vector<S>{{{', '.join(cq(k) for k in knots)}}}); "
                   f"{self._store_vec(d0, count)} out.n(v.size());")

    def gen2(self, d0, order, knots, g):
        count = max(0, len(knots) - order - 1)
        for i in range(count):
            self._decl(d0 + i, ('spl', order))
        self._emit(f"Gen2 {d0} {order} {g} {len(knots)} {' '.join(fr(k) for k in knots)}".rstrip(),
                   f"bspline::BSplineGenerator<S> gen(std::vector<S>{{{', '.join(cq(k) for k in knots)}}}, req(s{g})); "
                   f"auto v = gen.template generateBSplines<{order}>(); {self._store_vec(d0, count)} out.n(v.size());")

    # -- interpolation --
    def interp(self, d, order, x, y, bs=None):
        """bs: list of (node 'FIRST'|'LAST', derivative, value) of length order-1, or None for the default"""
        self._decl(d, ('spl', order))
        yv = f"std::vector<S>{{{', '.join(cq(v) for v in y)}}}"
        call = f"bspline::interpolation::interpolate<S, {order}, RecSolver>"
        if bs is None:
            self._emit(f"InterpDefault {d} {order} {x} {len(y)} {' '.join(fr(v) for v in y)}".rstrip(),
                       f"auto r = {call}(req(s{x}), {yv}); {self._set(d, 'std::move(r)')} printSystem(out);")
        else:
            assert len(bs) == order - 1
            btxt = " ".join(f"{n} {dd} {fr(v)}" for (n, dd, v) in bs)
            barr = ", ".join(
                f"bspline::interpolation::Boundary<S>{{bspline::interpolation::Node::{n}, {dd}, {cq(v)}}}"
                for (n, dd, v) in bs)
            self._emit(f"Interp {d} {order} {x} {len(y)} {' '.join(fr(v) for v in y)} {len(bs)} {btxt}".replace("  ", " ").rstrip(),
                       f"std::array<bspline::interpolation::Boundary<S>, {order - 1}> ba{{{('{' + barr + '}') if bs else ''}}}; "
                       f"auto r = {call}(req(s{x}), {yv}, ba); {self._set(d, 'std::move(r)')} printSystem(out);")

    def interp_eigen(self, d, order, x, y, bs=None):
        """interpolateUsingEigen<double, order> (floating-point tier only); the model line is the generic
        interpolate with the exact solver, whose observation is the assembled system"""
        self._decl(d, ('spl', order))
        yv = f"std::vector<S>{{{', '.join(cq(v) for v in y)}}}"
        if bs is None:
            text = f"InterpDefault {d} {order} {x} {len(y)} {' '.join(fr(v) for v in y)}".rstrip()
            call = f"bspline::interpolation::interpolateUsingEigen<S, {order}>(req(s{x}), {yv})"
            pre = ""
        else:
            btxt = " ".join(f"{n} {dd} {fr(v)}" for (n, dd, v) in bs)
            barr = ", ".join(f"bspline::interpolation::Boundary<S>{{bspline::interpolation::Node::{n}, {dd}, {cq(v)}}}" for (n, dd, v) in bs)
            text = f"Interp {d} {order} {x} {len(y)} {' '.join(fr(v) for v in y)} {len(bs)} {btxt}".replace("  ", " ").rstrip()
            pre = f"std::array<bspline::interpolation::Boundary<S>, {order - 1}> ba{{{('{' + barr + '}') if bs else ''}}}; "
            call = f"bspline::interpolation::interpolateUsingEigen<S, {order}>(req(s{x}), {yv}, ba)"
        self._emit(text, "\n#ifdef VERIF_EIGEN\n" + pre + f"auto r = {call}; out.spl(r);" + "\n#else\nout.tag(\"SKIP\");\n#endif\n")
        self.meta.setdefault('eigen', []).append(len(self.lines))

    def show(self, a):
        if a in self.kind:
            self._emit(f"Show {a}", f"if (s{a}) out.show(*s{a}); else out.tag(\"NONE\");")

    def show_all(self):
        for a in sorted(self.kind):
            self.show(a)

    # -- emission --
    def text(self):
        return "\n".join([f"CASE {self.cid}"] + self.lines + ["END"]) + "\n"

    def cpp_type(self, k):
        if k == 'grid':
            return "Grid<S>"
        if k == 'sup':
            return "Support<S>"
        return f"Spline<S, {k[1]}>"

    def cpp(self):
        fn = "case_" + "".join(ch if ch.isalnum() else "_" for ch in self.cid)
        decls = [f"  std::optional<{self.cpp_type(k)}> s{s};" for s, k in sorted(self.kind.items())]
        return fn, "\n".join([f"void {fn}() {{", f'  const char *CID = "{self.cid}";'] + decls + self.body + ["}"]) + "\n"


# ---------------------------------------------------------------------------
# text -> Case (used to replay recorded histories)
# ---------------------------------------------------------------------------
class _Toks:
    def __init__(self, toks):
        self.t = toks
        self.i = 0

    def next(self):
        v = self.t[self.i]
        self.i += 1
        return v

    def int(self):
        return int(self.next())

    def fr(self):
        return Fraction(self.next())

    def list(self, f):
        n = self.int()
        return [f() for _ in range(n)]


def parse_scalar(tk):
    k = tk.next()
    return Sc('F', tk.fr()) if k == 'F' else Sc(k, tk.int())


def parse_expr(tk):
    h = tk.next()
    if h == 'Id':
        return E('Id')
    if h in ('Pos', 'Der', 'Spl'):
        return E(h, tk.int())
    if h in ('Mul', 'Add', 'Sub'):
        a = parse_expr(tk)
        b = parse_expr(tk)
        return E(h, a, b)
    if h in ('SMulL', 'SAdd', 'SSub'):
        s = parse_scalar(tk)
        a = parse_expr(tk)
        return E(h, s, a)
    if h in ('SMulR', 'DivS', 'AddS', 'SubS'):
        a = parse_expr(tk)
        s = parse_scalar(tk)
        return E(h, a, s)
    if h == 'Neg':
        return E('Neg', parse_expr(tk))
    raise ValueError(h)


def replay_line(c, text):
    """appends the operation written in `text` to case c (inverse of Case._emit's text)"""
    tk = _Toks(text.split())
    op = tk.next()
    I, Fq = tk.int, tk.fr
    simple = {
        'GridCopy': (c.grid_copy, 'ii'), 'GridAt': (c.grid_at, 'ii'), 'GridFind': (c.grid_find, 'if'),
        'GridEq': (c.grid_eq, 'ii'), 'GridSize': (c.grid_size, 'i'), 'GridFront': (c.grid_front, 'i'),
        'GridBack': (c.grid_back, 'i'),
        'SupNew': (c.sup_new, 'iiii'), 'SupEmpty': (c.sup_empty, 'ii'), 'SupWhole': (c.sup_whole, 'ii'),
        'SupCopy': (c.sup_copy, 'ii'), 'SupMove': (c.sup_move, 'ii'), 'SupMoveAssign': (c.sup_move_assign, 'ii'),
        'SupUnion': (c.sup_union, 'iii'), 'SupInter': (c.sup_inter, 'iii'), 'SupRel': (c.sup_rel, 'ii'),
        'SupIvl': (c.sup_ivl, 'ii'), 'SupAbs': (c.sup_abs, 'ii'), 'SupAt': (c.sup_at, 'ii'), 'SupSub': (c.sup_sub, 'ii'),
        'SupFront': (c.sup_front, 'i'), 'SupBack': (c.sup_back, 'i'), 'SupIter': (c.sup_iter, 'i'),
        'SupEq': (c.sup_eq, 'ii'), 'SupSameGrid': (c.sup_same_grid, 'ii'), 'SupIsEmpty': (c.sup_is_empty, 'i'),
        'SupContains': (c.sup_contains, 'i'), 'SupGrid': (c.sup_grid, 'ii'),
        'SplEmpty': (c.spl_empty, 'iii'), 'SplCopy': (c.spl_copy, 'ii'), 'SplMove': (c.spl_move, 'ii'),
        'SplMoveAssign': (c.spl_move_assign, 'ii'), 'SplAssignUp': (c.spl_assign_up, 'ii'),
        'SplScale': (c.spl_scale, 'iif'), 'SplScaleL': (c.spl_scale_l, 'ifi'), 'SplDiv': (c.spl_div, 'iif'),
        'SplNeg': (c.spl_neg, 'ii'), 'SplIMul': (c.spl_imul, 'if'), 'SplIDiv': (c.spl_idiv, 'if'),
        'SplAdd': (c.spl_add, 'iii'), 'SplSub': (c.spl_sub, 'iii'), 'SplMul': (c.spl_mul, 'iii'),
        'SplIAdd': (c.spl_iadd, 'ii'), 'SplISub': (c.spl_isub, 'ii'), 'SplEval': (c.spl_eval, 'if'),
        'SplFront': (c.spl_front, 'i'), 'SplBack': (c.spl_back, 'i'), 'SplIsZero': (c.spl_is_zero, 'i'),
        'SplOverlap': (c.spl_overlap, 'ii'), 'SplEq': (c.spl_eq, 'ii'), 'SplSupport': (c.spl_support, 'ii'),
        'Show': (c.show, 'i'),
    }
    if op in simple:
        fn, sig = simple[op]
        fn(*[(I() if k == 'i' else Fq()) for k in sig])
    elif op == 'GridNew':
        d = I()
        c.grid_new(d, tk.list(Fq))
    elif op == 'SplNew':
        d, o, s, m = I(), I(), I(), I()
        c.spl_new(d, o, s, [[Fq() for _ in range(o + 1)] for _ in range(m)])
    elif op == 'SplLinComb':
        d = I()
        cs = tk.list(Fq)
        ss = tk.list(I)
        c.spl_lincomb(d, cs, ss, order=0)
    elif op == 'Apply':
        d, a = I(), I()
        c.apply(d, parse_expr(tk), a)
    elif op == 'Transform':
        g, k = I(), I()
        co = tk.list(Fq)
        c.transform(parse_expr(tk), co, g, k)
    elif op == 'Bilin':
        a, b = I(), I()
        e1 = parse_expr(tk)
        e2 = parse_expr(tk)
        c.bilin(e1, e2, a, b)
    elif op == 'Lin':
        a = I()
        c.lin(parse_expr(tk), a)
    elif op == 'Gen1':
        d0, o = I(), I()
        c.gen1(d0, o, tk.list(Fq))
    elif op == 'Gen2':
        d0, o, g = I(), I(), I()
        c.gen2(d0, o, tk.list(Fq), g)
    elif op == 'InterpDefault':
        d, o, x = I(), I(), I()
        c.interp(d, o, x, tk.list(Fq), None)
    elif op == 'Interp':
        d, o, x = I(), I(), I()
        y = tk.list(Fq)
        n = I()
        bs = []
        for _ in range(n):
            node = tk.next()
            dd = I()
            v = Fq()
            bs.append((node, dd, v))
        c.interp(d, o, x, y, bs)
    else:
        raise ValueError("unknown op " + op)

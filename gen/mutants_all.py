#!/usr/bin/env python3
"""mutants_all.py — development tool: runs every patch in mutants/ (and seeded/*/patch.diff) against the
checks named in its file name / meta.json and prints a table: which check fires on which mutant."""
import glob, json, os, re, subprocess, sys
VERIF = os.path.dirname(os.path.dirname(os.path.abspath(__file__)))
rows = []
items = []
for p in sorted(glob.glob(os.path.join(VERIF, "mutants", "*.patch"))):
    items.append((p, re.findall(r"C\d\d", os.path.basename(p))))
for d in sorted(glob.glob(os.path.join(VERIF, "seeded", "*"))):
    p = os.path.join(d, "patch.diff")
    if os.path.exists(p):
        meta = json.load(open(os.path.join(d, "meta.json"))) if os.path.exists(os.path.join(d, "meta.json")) else {}
        items.append((p, meta.get("checks", [meta.get("property", os.path.basename(d)[:3])])))
only = sys.argv[1:]
for p, ids in items:
    if only and not any(o in p for o in only):
        continue
    r = subprocess.run([sys.executable, os.path.join(VERIF, "gen", "trymutant.py"), p] + ids, capture_output=True, text=True)
    for m in re.finditer(r"== (\S+) on (C\d\d): exit (\d+)", r.stdout):
        name = m.group(1) if "seeded" not in p else os.path.basename(os.path.dirname(p))
        rows.append((name, m.group(2), "FIRES" if m.group(3) == "1" else "silent"))
        print(rows[-1], flush=True)
    if "PATCH FAILED" in r.stdout:
        print("PATCH FAILED", p, flush=True)

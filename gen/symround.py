#!/usr/bin/env python3
"""symround.py — regenerates coq/gen/RoundGen_<family>.v: a forward rounding-error bound for every
expression the REAL C++ numeric kernels compute, in the code's own operation order.

The terms are those of gen/symkern.py (same program cpp/symkern.cpp, same run, same cache under
/verif/.build/symkern; VERIF_REPO selects the tree).  Per instance this script writes

    Definition r_<instance> : kexpr | list kexpr      the term, reified (coq/Proofs_RoundTac.v)
    Definition mag_<instance> (vars : R) : R | list R the same expression with every variable and literal
                                                      replaced by its absolute value, - by +, / c by / |c|
    Lemma r_<instance>_denote   kdenote [vars] r_<instance> = k_<instance> vars      (every F, K; reflexivity)
    Lemma r_<instance>_mag      kmag [vars] r_<instance> = mag_<instance> vars       (reflexivity)
    Lemma r_<instance>_need     kwf <N> r_<instance> = true                          (vm_compute)
    Lemma r_<instance>_wf       kwf M64 r_<instance> = true                          (vm_compute)
    Lemma r_<instance>_depth    kdepth r_<instance> = <D>                            (vm_compute)
    Lemma r_<instance>_bound    for every u >= 0, rnd with rnd x = x(1+d), |d| <= u, integers up to M >= <N> exact:
                                |k_<instance> (RndOps rnd) vars - k_<instance> ExactOps vars| <= gamma u <D> * mag_<instance> vars
    Lemma r_<instance>_bound64  the same at binary64 with 2^20 eps in place of gamma
and per family  rounding_<family>_bounded / rounding_<family>_binary64  (the conjunctions) with proofs.
For lin, bi and eval additionally, LAST in the file,
    Lemma r_<instance>_terms          mag_<instance> vars = the magnitude of the model-side theorem of
                                      coq/Proofs_Rounded.v (lin: 2 |h| eh_abs 0 (evens a) (h h); bi: bi_abs a b h;
                                      eval: pabs c (|x| + |xm|)), by a fixed script ending in field / ring
    Lemma r_<instance>_bound_terms, r_<instance>_bound64_terms   (lin, bi) the bounds relative to that magnitude
and the summaries rounding_<family>_terms_are_the_exact_terms[_at_abs_sum], rounding_<family>_bounded_exact_terms,
rounding_<family>_binary64_exact_terms.  A kernel that lets other terms take part (seeded/C16c) fails here.
<N> (largest integer literal or integer-valued sub-result) and <D> (accumulated rounding factors) are
computed here and CHECKED by Coq; the proof scripts are fixed.  Output is deterministic and a file is
only rewritten when its content changes.

usage: symround.py [--out DIR] [--print] [--show INSTANCE]
    --out DIR        write DIR/RoundGen_<family>.v instead of /verif/coq/gen/RoundGen_<family>.v
    --print          print the generated files on stdout, write nothing
    --show INSTANCE  print term, depth, largest integer and mag of one instance, write nothing
exit status: 0 ok; 2..5 as gen/symkern.py (does not compile / crashes / BRANCH, UNINIT, EXCEPTION /
instance list or syntax); 6 a term is outside the analysed fragment (a divisor that is not a non-zero
integer constant, an integer beyond 2^53 - 1, a depth beyond 2^20).
"""
import argparse
import os
import sys
from fractions import Fraction

sys.path.insert(0, os.path.dirname(os.path.abspath(__file__)))
import symkern  # noqa: E402

DEFAULT_OUT = symkern.DEFAULT_OUT
M64 = 2 ** 53 - 1
MAXDEPTH = 2 ** 20
VAR_DIVISORS = False     # gen/symroundops.py: a divisor may also be a variable (whole operations divide by a scalar)


def die(code, msg):
    sys.stderr.write("symround.py: " + msg.rstrip() + "\n")
    sys.exit(code)


symkern.die = die      # failures of the shared front end (compile, run, parse) are reported under this script's name


# ------------------------------------------------------------------------------------------------
# the analysis of Proofs_RoundTac.v, mirrored (Coq re-checks every number printed here)
# ------------------------------------------------------------------------------------------------
class Info:
    """per term: kint (exact integer value or None), depth, need (largest |integer| met)."""
    __slots__ = ("kint", "depth", "need")

    def __init__(self, kint, depth, need):
        self.kint, self.depth, self.need = kint, depth, need


def analyse(t, where, memo):
    key = id(t)
    if key in memo:
        return memo[key]
    k = t[0]
    if k == "v":
        r = Info(None, 0, 0)
    elif k == "c":
        r = Info(t[1], 0, abs(t[1]))
    elif k == "neg":
        a = analyse(t[1], where, memo)
        r = Info(None if a.kint is None else -a.kint, a.depth, a.need)
    elif k in ("add", "sub", "mul", "div"):
        a = analyse(t[1], where, memo)
        b = analyse(t[2], where, memo)
        need = max(a.need, b.need)
        val = None
        if k == "div" and VAR_DIVISORS and t[2][0] == "v":
            pass        # an exact input as divisor (coq/Proofs_RoundOpsTac.v): the caller supplies that it is non-zero
        elif k == "div":
            if b.kint is None or b.kint == 0:
                die(6, "instance %s: a divisor is not a non-zero integer constant (%s); the generic bound of "
                       "coq/Proofs_RoundTac.v covers divisions by exact integer constants only"
                    % (where, symkern.gallina(t[2])[:200]))
            if a.kint is not None and a.kint % b.kint == 0:
                val = a.kint // b.kint
        elif a.kint is not None and b.kint is not None:
            val = {"add": a.kint + b.kint, "sub": a.kint - b.kint, "mul": a.kint * b.kint}[k]
        if val is not None:
            r = Info(val, 0, max(need, abs(val)))
        else:
            d = {"add": max(a.depth, b.depth), "sub": max(a.depth, b.depth),
                 "mul": a.depth + b.depth, "div": a.depth}[k] + 1
            r = Info(None, d, need)
    else:
        raise AssertionError(k)
    memo[key] = r
    return r


CTOR = {"add": "KAdd", "sub": "KSub", "mul": "KMul", "div": "KDiv"}


def reify(t, idx):
    k = t[0]
    if k == "v":
        return "KVar %d" % idx[t[1]]
    if k == "c":
        return "KConst %d" % t[1] if t[1] >= 0 else "KConst (%d)" % t[1]
    if k == "neg":
        return "KNeg (%s)" % reify(t[1], idx)
    return "%s (%s) (%s)" % (CTOR[k], reify(t[1], idx), reify(t[2], idx))


def magtext(t, where, memo):
    """kmag, written out in R_scope."""
    k = t[0]
    if k == "v":
        return "Rabs %s" % t[1]
    if k == "c":
        return "%d" % abs(t[1])
    if k == "neg":
        return magtext(t[1], where, memo)
    a = magtext(t[1], where, memo)
    if k == "div" and VAR_DIVISORS and t[2][0] == "v":
        return "(%s / Rabs %s)" % (a, t[2][1])
    if k == "div":
        return "(%s / %d)" % (a, abs(analyse(t[2], where, memo).kint))
    return "(%s %s %s)" % (a, "*" if k == "mul" else "+", magtext(t[2], where, memo))


def magvalue(t, env, where, memo):
    k = t[0]
    if k == "v":
        return abs(env[t[1]])
    if k == "c":
        return Fraction(abs(t[1]))
    if k == "neg":
        return magvalue(t[1], env, where, memo)
    a = magvalue(t[1], env, where, memo)
    if k == "div" and VAR_DIVISORS and t[2][0] == "v":
        return a / abs(env[t[2][1]])
    if k == "div":
        return a / abs(analyse(t[2], where, memo).kint)
    b = magvalue(t[2], env, where, memo)
    return a * b if k == "mul" else a + b


def rlit(q):
    """a rational as a term of R_scope."""
    s = "%d" % abs(q.numerator) if q.denominator == 1 else "(%d / %d)" % (abs(q.numerator), q.denominator)
    return s if q >= 0 else "(- %s)" % s


def example_value(j, last):
    """concrete dyadic arguments of mixed sign; the last variable (the half width h) is 1/8."""
    if last:
        return Fraction(1, 8)
    return Fraction((-1) ** j * (2 * j + 1), 2 ** (j % 3 + 1))


# ------------------------------------------------------------------------------------------------
# model-side magnitudes (the right-hand sides of the theorems of coq/Proofs_Rounded.v), per family:
# instance -> (fixed tactic of coq/Proofs_RoundTac.v, magnitude in R_scope) or None
COMBINED = ("lin", "bi")      # families whose code magnitude EQUALS the model theorem's: combined corollaries


def model_magnitude(name, vars_):
    fam = name.split("_")[0]
    grp = lambda c: "[" + "; ".join(v for v in vars_ if v[0] == c and v[1:].isdigit()) + "]"   # noqa: E731
    if fam == "lin":       # lin_kernel_rounded_bound
        return "kterms_lin_tac", "2 * Rabs h * eh_abs 0 (evens %s) (h * h)" % grp("a")
    if fam == "bi":        # bi_kernel_rounded_bound
        return "kterms_bi_tac", "bi_abs %s %s h" % (grp("a"), grp("b"))
    if fam == "eval":      # horner_rounded_bound has pabs c (x - xm); the code-order bound charges x - xm to |x| + |xm|
        return "kterms_eval_tac", "pabs %s (Rabs x + Rabs xm)" % grp("c")
    return None


EXAMPLES = {"lin": "lin_4", "bi": "bi_3_3"}       # family -> instance of the non-vacuity example


def generate(got):
    fams = symkern.families()
    per = {}
    stats = {}
    for name, d in fams:
        if name.startswith("big"):
            continue        # exact tie only (KernelGen_big.v)
        ts = got[name]
        vars_ = d["vars"]
        idx = {v: i for i, v in enumerate(vars_)}
        memo = {}
        infos = [analyse(t, name, memo) for t in ts]
        need = max([i.need for i in infos] + [0])
        depth = max([i.depth for i in infos] + [0])
        if need > M64:
            die(6, "instance %s: an integer literal or integer-valued sub-result (%d) exceeds 2^53 - 1" % (name, need))
        if depth > MAXDEPTH:
            die(6, "instance %s: %d accumulated rounding factors exceed 2^20" % (name, depth))
        scalar = d["shape"] == "scalar"
        rbinder = " (%s : R)" % " ".join(vars_) if vars_ else ""
        fquant = "forall %s : F, " % " ".join(vars_) if vars_ else ""
        rquant = "forall %s : R, " % " ".join(vars_) if vars_ else ""
        intro = "intros %s. " % " ".join(vars_) if vars_ else ""
        args = "".join(" " + v for v in vars_)
        env = "[" + "; ".join(vars_) + "]"
        kf = "k_%s%s" % (name, args)
        # a term that is a bare variable uses no operation: the section mechanism then does not abstract
        # k_<instance> over the Ops instance
        has_k = any(t[0] != "v" for t in ts)
        krnd = lambda r: "@k_%s R%s%s" % (name, " (RndOps %s)" % r if has_k else "", args)   # noqa: E731
        kex = "@k_%s R%s%s" % (name, " ExactOps" if has_k else "", args)
        mag = "mag_%s%s" % (name, args)
        if scalar:
            rdef = "Definition r_%s : kexpr :=\n  %s." % (name, reify(ts[0], idx))
            mdef = "Definition mag_%s%s : R :=\n  %s." % (name, rbinder, magtext(ts[0], name, memo))
            den = "kdenote %s r_%s" % (env, name)
            kmg = "kmag %s r_%s" % (env, name)
            wf = lambda m: "kwf %s r_%s = true" % (m, name)             # noqa: E731
            dep = "kdepth r_%s = %d%%nat" % (name, depth)
            body = lambda r, b: "Rabs (%s - %s) <= %s * %s" % (krnd(r), kex, b, mag)   # noqa: E731
            inst, inst64 = "kbound_instance", "kbound64_instance"
        else:
            rdef = "Definition r_%s : list kexpr :=\n  [%s]." % (name, ";\n   ".join(reify(t, idx) for t in ts))
            mdef = "Definition mag_%s%s : list R :=\n  [%s]." % (name, rbinder,
                                                                 ";\n   ".join(magtext(t, name, memo) for t in ts))
            den = "map (kdenote %s) r_%s" % (env, name)
            kmg = "map (kmag %s) r_%s" % (env, name)
            wf = lambda m: "forallb (kwf %s) r_%s = true" % (m, name)   # noqa: E731
            dep = "kdepths r_%s = %d%%nat" % (name, depth)
            body = lambda r, b: "klist_bound %s (%s) (%s) (%s)" % (b, krnd(r), kex, mag)   # noqa: E731
            inst, inst64 = "kbound_list_instance", "kbound64_list_instance"
        # (a kernel that performs no operation does not mention the Ops instance: nothing to rewrite, the
        # statement is convertible with the instance of the generic theorem)
        rew = ("rewrite <- !r_%s_denote, <- r_%s_mag." % (name, name)) if has_k else "rewrite <- r_%s_mag." % name
        stmt = "(%d <= M)%%Z -> %s%s" % (need, rquant,
                                         body("rnd", ("gamma u %d" if scalar else "(gamma u %d)") % depth))
        stmt64 = "%s%s" % (rquant, body("rnd64", "tol64"))
        text = "\n".join([
            "(* %s: %d rounding factor(s), integers up to %d *)" % (d["cxx"], depth, need),
            rdef, mdef,
            "Lemma r_%s_denote {F : Type} {K : Ops F} : %s%s = %s.\nProof. intros. reflexivity. Qed."
            % (name, fquant, den, kf),
            "Lemma r_%s_mag : %s%s = %s.\nProof. intros. reflexivity. Qed." % (name, rquant, kmg, mag),
            "Lemma r_%s_need : %s.\nProof. vm_compute. reflexivity. Qed." % (name, wf("%d" % need)),
            "Lemma r_%s_wf : %s.\nProof. vm_compute. reflexivity. Qed." % (name, wf("M64")),
            "Lemma r_%s_depth : %s.\nProof. vm_compute. reflexivity. Qed." % (name, dep),
            "Lemma r_%s_bound : forall (u : R) (rnd : R -> R) (M : Z), 0 <= u -> std_model u rnd -> int_model rnd M ->\n  %s."
            % (name, stmt),
            "Proof.\n  intros u rnd M Hu Hs Hi HM. %s%s\n"
            "  exact (%s u rnd M r_%s %d %d Hu Hs Hi r_%s_need HM r_%s_depth %s).\nQed."
            % (intro, rew, inst, name, need, depth, name, name, env),
            "Lemma r_%s_bound64 :\n  %s." % (name, stmt64),
            "Proof.\n  %s%s\n"
            "  exact (%s r_%s %d %d r_%s_need ltac:(kzle_tac) r_%s_depth ltac:(kzle_tac) %s).\nQed."
            % (intro, rew, inst64, name, need, depth, name, name, env),
        ]) + "\n"
        per[name] = dict(text=text, stmt=stmt, stmt64=stmt64, depth=depth, need=need, ts=ts, vars=vars_, memo=memo,
                         scalar=scalar, rquant=rquant, mag=mag, args=args, intro=intro,
                         diff="Rabs (%s - %s)" % (krnd("rnd"), kex), diff64="Rabs (%s - %s)" % (krnd("rnd64"), kex))
        ref = model_magnitude(name, vars_)
        if ref is not None:
            tac, rhs = ref
            p = per[name]
            p["terms_stmt"] = "%s%s = %s" % (rquant, mag, rhs)
            p["bterms_stmt"] = "(%d <= M)%%Z -> %s%s <= gamma u %d * (%s)" % (need, rquant, p["diff"], depth, rhs)
            p["b64terms_stmt"] = "%s%s <= tol64 * (%s)" % (rquant, p["diff64"], rhs)
            p["terms_text"] = (
                "Lemma r_%s_terms :\n  %s.\nProof. %s mag_%s. Qed.\n" % (name, p["terms_stmt"], tac, name))
            if name.split("_")[0] in COMBINED:
                p["terms_text"] += (
                    "Lemma r_%s_bound_terms : forall (u : R) (rnd : R -> R) (M : Z), 0 <= u -> std_model u rnd -> "
                    "int_model rnd M ->\n  %s.\n"
                    "Proof.\n  intros u rnd M Hu Hs Hi HM. %srewrite <- r_%s_terms. "
                    "exact (r_%s_bound u rnd M Hu Hs Hi HM%s).\nQed.\n"
                    "Lemma r_%s_bound64_terms :\n  %s.\n"
                    "Proof. %srewrite <- r_%s_terms. apply r_%s_bound64. Qed.\n"
                    % (name, p["bterms_stmt"], intro, name, name, args, name, p["b64terms_stmt"], intro, name, name))
        stats[name] = (depth, need)

    def nest(xs):
        return xs[0] if len(xs) == 1 else "(conj %s %s)" % (xs[0], nest(xs[1:]))

    files = {}
    for kfile, famlist in symkern.FILES:
        if kfile == "KernelGen_big.v":
            continue        # results beyond 2^53 are not exactly representable: no rounding bound is claimed for them
        fname = kfile.replace("KernelGen_", "RoundGen_")
        members = [n for n, _ in fams if n.split("_")[0] in famlist]
        summaries = []
        late = []       # the magnitude ties come last: when one fails, everything above it has been checked
        for fam in famlist:
            mem = [n for n in members if n.split("_")[0] == fam]
            dmax = max(per[n]["depth"] for n in mem)
            nmax = max(per[n]["need"] for n in mem)
            conj = " /\\\n    ".join("(%s)" % per[n]["stmt"] for n in mem)
            conj64 = " /\\\n  ".join("(%s)" % per[n]["stmt64"] for n in mem)
            summaries.append(
                "(* %d instances; at most %d rounding factor(s); integers up to %d *)\n"
                "Definition rounding_%s_bounded : Prop :=\n"
                "  forall (u : R) (rnd : R -> R) (M : Z), 0 <= u -> std_model u rnd -> int_model rnd M ->\n    %s.\n"
                "Lemma rounding_%s_bounded_ok : rounding_%s_bounded.\n"
                "Proof. intros u rnd M Hu Hs Hi. exact %s. Qed.\n\n"
                "Definition rounding_%s_binary64 : Prop :=\n  %s.\n"
                "Lemma rounding_%s_binary64_ok : rounding_%s_binary64.\nProof. exact %s. Qed.\n"
                % (len(mem), dmax, nmax, fam, conj, fam, fam,
                   nest(["(r_%s_bound u rnd M Hu Hs Hi)" % n for n in mem]),
                   fam, conj64, fam, fam, nest(["r_%s_bound64" % n for n in mem])))
            if "terms_text" in per[mem[0]]:
                what = ("the magnitude of the code-order bound IS the magnitude of Proofs_Rounded.%s: only the terms "
                        "of the exact result take part"
                        % {"lin": "lin_kernel_rounded_bound", "bi": "bi_kernel_rounded_bound"}[fam]
                        if fam in COMBINED else
                        "the magnitude of the code-order bound is the Horner magnitude pabs of "
                        "Proofs_Rounded.horner_rounded_bound with |x| + |xm| in place of |x - xm| (the subtraction "
                        "is charged to both operands; Proofs_RoundTac.pabs_le_code: pabs c (x - xm) is below it)")
                late.append("(* ---- %s: %s ---- *)\n" % (fam, what)
                            + "\n".join(per[n]["terms_text"] for n in mem))
                sname = "rounding_%s_terms_are_the_exact_terms%s" % (fam, "" if fam in COMBINED else "_at_abs_sum")
                late.append("Definition %s : Prop :=\n  %s.\nLemma %s_ok : %s.\nProof. exact %s. Qed.\n"
                            % (sname, " /\\\n  ".join("(%s)" % per[n]["terms_stmt"] for n in mem), sname, sname,
                               nest(["r_%s_terms" % n for n in mem])))
                if fam in COMBINED:
                    late.append(
                        "Definition rounding_%s_bounded_exact_terms : Prop :=\n"
                        "  forall (u : R) (rnd : R -> R) (M : Z), 0 <= u -> std_model u rnd -> int_model rnd M ->\n    %s.\n"
                        "Lemma rounding_%s_bounded_exact_terms_ok : rounding_%s_bounded_exact_terms.\n"
                        "Proof. intros u rnd M Hu Hs Hi. exact %s. Qed.\n\n"
                        "Definition rounding_%s_binary64_exact_terms : Prop :=\n  %s.\n"
                        "Lemma rounding_%s_binary64_exact_terms_ok : rounding_%s_binary64_exact_terms.\nProof. exact %s. Qed.\n"
                        % (fam, " /\\\n    ".join("(%s)" % per[n]["bterms_stmt"] for n in mem), fam, fam,
                           nest(["(r_%s_bound_terms u rnd M Hu Hs Hi)" % n for n in mem]),
                           fam, " /\\\n  ".join("(%s)" % per[n]["b64terms_stmt"] for n in mem), fam, fam,
                           nest(["r_%s_bound64_terms" % n for n in mem])))
            if fam in EXAMPLES:
                n = EXAMPLES[fam]
                p = per[n]
                vals = [example_value(j, j == len(p["vars"]) - 1) for j in range(len(p["vars"]))]
                envv = dict(zip(p["vars"], vals))
                mv = magvalue(p["ts"][0], envv, n, p["memo"])
                argt = "".join(" " + rlit(v) for v in vals)
                summaries.append(
                    "(* non-vacuity: the binary64 bound of %s at concrete dyadic arguments; the magnitude evaluates to %s *)\n"
                    "Definition rounding_%s_example : Prop :=\n"
                    "  Rabs (@k_%s R (RndOps rnd64)%s - @k_%s R ExactOps%s) <= tol64 * %s.\n"
                    "Lemma rounding_%s_example_ok : rounding_%s_example.\n"
                    "Proof.\n  unfold rounding_%s_example. replace %s with (mag_%s%s); [apply r_%s_bound64|].\n"
                    "  unfold mag_%s. kabs_norm. field.\nQed.\n"
                    % (n, mv, fam, n, argt, n, argt, rlit(mv), fam, fam, fam, rlit(mv), n, argt, n, n))
        head = ("(* %s — GENERATED by gen/symround.py on every run; do not edit.\n"
                "   Forward rounding-error bounds for the expressions k_<instance> of %s, i.e. for the arithmetic the\n"
                "   real C++ templates perform, in their own operation order (cpp/symkern.cpp, gen/symkern.py).\n"
                "   r_<instance> is the term reified into the syntax of coq/Proofs_RoundTac.v (r_<instance>_denote: its\n"
                "   denotation IS k_<instance>, by reflexivity, for every scalar structure); mag_<instance> is the same\n"
                "   expression with every variable and literal replaced by its absolute value, subtraction by addition\n"
                "   and division by |divisor| (r_<instance>_mag, by reflexivity); r_<instance>_bound instantiates the\n"
                "   generic theorem kround_bound: in the standard model rnd x = x (1 + d), |d| <= u, with the integers the\n"
                "   term involves exact,  |computed - exact| <= gamma u <depth> * mag;  r_<instance>_bound64 is the same at\n"
                "   binary64 round-to-nearest-even with tol64 = 2^20 * 2^-52 in place of gamma.  Depths and integer\n"
                "   ranges are computed by the generator and checked here by vm_compute; the proof scripts are fixed.\n"
                "   Families in this file: %s; %d instances. *)\n"
                "From Coq Require Import List ZArith Reals Lra.\n"
                "From BSpl Require Import Scalar Outcome Poly Forms Proofs_Rounded Proofs_RoundTac.\n"
                "From BSpl.gen Require Import %s.\n"
                "Import ListNotations.\nLocal Open Scope R_scope.\n\n"
                % (fname, kfile, " ".join(famlist), len(members), kfile[:-2]))
        tail = "\nPrint Assumptions r_%s_bound.\nPrint Assumptions r_%s_bound64.\n" % (members[-1], members[-1])
        files[fname] = (head + "\n".join(per[n]["text"] for n in members) + "\n" + "\n".join(summaries)
                        + ("\n" + "\n".join(late) if late else "") + tail)
    return files, per


def show(per, name):
    if name not in per:
        die(5, "no instance %r" % name)
    p = per[name]
    idx = {v: i for i, v in enumerate(p["vars"])}
    print("instance %s (%s): depth %d, integers up to %d" % (name, " ".join(p["vars"]), p["depth"], p["need"]))
    for i, t in enumerate(p["ts"]):
        tag = "" if p["scalar"] else "[%d] " % i
        print("  %sterm: %s" % (tag, symkern.gallina(t)))
        print("  %sr   : %s" % (tag, reify(t, idx)))
        print("  %smag : %s" % (tag, magtext(t, name, p["memo"])))


def main():
    ap = argparse.ArgumentParser(description=__doc__, formatter_class=argparse.RawDescriptionHelpFormatter)
    ap.add_argument("--out", metavar="DIR", default=DEFAULT_OUT, help="directory for RoundGen_<family>.v")
    ap.add_argument("--print", dest="print_", action="store_true", help="print to stdout, write nothing")
    ap.add_argument("--show", metavar="INSTANCE", help="print one instance's term, depth and mag; write nothing")
    args = ap.parse_args()

    got = symkern.collect(symkern.build_and_run())
    symkern.generate(got)      # the instance-list / undeclared-variable checks of symkern.py (dies with status 5)
    files, per = generate(got)
    if args.show:
        show(per, args.show)
        return
    if args.print_:
        for fname, text in files.items():
            sys.stdout.write(text)
        return
    os.makedirs(args.out, exist_ok=True)
    for fname, text in files.items():
        path = os.path.join(args.out, fname)
        old = None
        if os.path.exists(path):
            with open(path) as f:
                old = f.read()
        if old != text:
            with open(path, "w") as f:
                f.write(text)
            print("symround.py: wrote %s" % path)
    print("symround.py: %d instances in %d files under %s; at most %d rounding factors, integers up to %d"
          % (len(per), len(files), args.out, max(p["depth"] for p in per.values()),
             max(p["need"] for p in per.values())))


if __name__ == "__main__":
    main()

#!/usr/bin/env python3
"""symkern.py — regenerates coq/gen/KernelGen_<family>.v from the terms the REAL C++ numeric kernels compute.

cpp/symkern.cpp instantiates the library's templates ($VERIF_REPO/include, default /repo) with a
symbolic scalar type (the free term algebra over named variables and integer literals), runs every
kernel instance and prints the resulting expressions.  This script compiles and runs that program in
/verif/.build/symkern and writes, per instance,

    Definition k_<instance> (vars : F) : F | list F := <the printed term>.
    Lemma k_<instance>_ok {F} {K : Ops F} {L : Laws K} : forall vars, <model call> = [Ok] (k_<instance> vars).
    Proof. kern_tac. Qed.

The lemma STATEMENTS are generated here (family table below), the proof script is fixed; `kern_tac`
lives in the hand-written coq/Proofs_KernelTac.v.  Output is deterministic (no time stamps, fixed
instance order) and the file is only rewritten when its content changes.

usage: symkern.py [--out DIR] [--print]
    --out DIR   write DIR/KernelGen.v instead of /verif/coq/gen/KernelGen.v
    --print     print the generated file on stdout, write nothing
exit status: 0 ok; 2 the program does not compile; 3 it crashes; 4 an instance reports
BRANCH / UNINIT / EXCEPTION; 5 the output does not match the expected instance list / syntax.
"""
import argparse
import os
import re
import subprocess
import sys

ROOT = os.path.dirname(os.path.dirname(os.path.abspath(__file__)))
REPO = os.environ.get("VERIF_REPO", "/repo")
SRC = os.path.join(ROOT, "cpp", "symkern.cpp")
BUILD = os.path.join(ROOT, ".build", "symkern")
DEFAULT_OUT = os.path.join(ROOT, "coq", "gen")
CXX = os.environ.get("CXX", "g++")
# _GLIBCXX_ASSERTIONS: an out-of-range std::array / std::vector subscript aborts instead of reading garbage
CXXFLAGS = ["-std=c++17", "-O1", "-D_GLIBCXX_ASSERTIONS"]


def die(code, msg):
    sys.stderr.write("symkern.py: " + msg.rstrip() + "\n")
    sys.exit(code)


# ------------------------------------------------------------------------------------------------
# the instance families: name -> (variables, model call, "ok" | "eq", "scalar" | "list")
# ------------------------------------------------------------------------------------------------
def names(prefix, n):
    return ["%s%d" % (prefix, i) for i in range(n)]


def glist(xs):
    return "[" + "; ".join(xs) + "]"


def families():
    """Ordered list of (instance name, description dict)."""
    out = []

    def add(name, vars_, call, wrap, shape, cxx):
        out.append((name, dict(vars=vars_, call=call, wrap=wrap, shape=shape, cxx=cxx)))

    for n in range(1, 9):
        c = names("c", n)
        add("eval_%d" % n, ["x"] + c + ["xm"], "eval_interval x %s xm" % glist(c), "ok", "scalar",
            "internal::evaluateInterval<Sym,%d>(x, c, xm)" % n)
    for n in range(0, 13):
        add("faculty_%d" % n, [], "faculty %d" % n, "eq", "scalar", "internal::faculty<Sym>(%d)" % n)
    for c in range(0, 9):
        for d in range(0, 9):
            add("facratio_%d_%d" % (c, d), [], "faculty_ratio %d %d" % (c, d), "eq", "scalar",
                "internal::facultyRatio<Sym>(%d, %d)" % (c, d))
    # large arguments: results beyond 2^64 and 2^53 (exact tie only; gen/symround.py skips these families)
    for n in (13, 18, 20, 21, 22, 25, 30):
        add("bigfaculty_%d" % n, [], "faculty %d" % n, "eq", "scalar", "internal::faculty<Sym>(%d)" % n)
    for c, d in ((21, 0), (22, 2), (25, 5), (30, 12), (0, 21), (3, 25), (40, 20)):
        add("bigfacratio_%d_%d" % (c, d), [], "faculty_ratio %d %d" % (c, d), "eq", "scalar",
            "internal::facultyRatio<Sym>(%d, %d)" % (c, d))
    for n, k in ((22, 11), (25, 10), (30, 15), (40, 20), (40, 3), (34, 17)):
        add("bigbinom_%d_%d" % (n, k), [], "binomial %d %d" % (n, k), "eq", "scalar",
            "internal::binomialCoefficient<Sym>(%d, %d)" % (n, k))
    for n in range(0, 9):
        for k in range(0, 9):
            add("binom_%d_%d" % (n, k), [], "binomial %d %d" % (n, k), "eq", "scalar",
                "internal::binomialCoefficient<Sym>(%d, %d)" % (n, k))
    for na in range(1, 6):
        for nb in range(1, 6):
            a, b = names("a", na), names("b", nb)
            add("add_%d_%d" % (na, nb), a + b, "arr_add %s %s" % (glist(a), glist(b)), "eq", "list",
                "internal::add<Sym,%d,%d>(a, b)" % (na, nb))
    for nin in range(1, 6):
        for nout in range(nin, 6):
            a = names("a", nin)
            add("chsize_%d_%d" % (nin, nout), a, "change_size %d %s" % (nout, glist(a)), "eq", "list",
                "internal::changearraysize<Sym,%d,%d>(a)" % (nin, nout))
    for n in range(1, 9):
        a = names("a", n)
        add("lin_%d" % n, a + ["h"], "lin_kernel %s h" % glist(a), "ok", "scalar",
            "integration::LinearForm<IdentityOperator>::evaluateInterval<Sym,%d>(a, h)" % n)
    for na in range(1, 8):
        for nb in range(1, 8):
            a, b = names("a", na), names("b", nb)
            add("bi_%d_%d" % (na, nb), a + b + ["h"], "bi_kernel %s %s h" % (glist(a), glist(b)),
                "ok", "scalar",
                "integration::BilinearForm<IdentityOperator,IdentityOperator>::evaluateInterval<Sym,%d,%d>(a, b, h)"
                % (na, nb))
    for k in range(0, 5):
        for n in range(1, 8):
            c = names("c", n)
            add("der_%d_%d" % (k, n), c + ["g0", "g1"],
                "transform (ODer %d) %s [g0; g1] 0%%N" % (k, glist(c)), "ok", "list",
                "operators::Derivative<%d>::transform<Sym,%d>(c, Grid{g0, g1}, 0)" % (k, n))
    for k in range(0, 5):
        for n in range(1, 7):
            c = names("c", n)
            add("pos_%d_%d" % (k, n), c + ["g0", "g1"],
                "transform (OPos %d) %s [g0; g1] 0%%N" % (k, glist(c)), "ok", "list",
                "operators::Position<%d>::transform<Sym,%d>(c, Grid{g0, g1}, 0)" % (k, n))
    return out


# ------------------------------------------------------------------------------------------------
# term syntax:  (v NAME) | (c INT) | (u) | (add t t) | (sub t t) | (mul t t) | (div t t) | (neg t)
# ------------------------------------------------------------------------------------------------
TOKEN = re.compile(r"\(|\)|[^\s()]+")
BINOPS = {"add": "+", "sub": "-", "mul": "*", "div": "/"}


class Parser:
    def __init__(self, text, where):
        self.toks = TOKEN.findall(text)
        self.i = 0
        self.where = where

    def fail(self, msg):
        die(5, "%s: malformed term (%s) near token %d" % (self.where, msg, self.i))

    def next(self):
        if self.i >= len(self.toks):
            self.fail("unexpected end")
        t = self.toks[self.i]
        self.i += 1
        return t

    def expect(self, t):
        if self.next() != t:
            self.fail("expected %r" % t)

    def term(self):
        self.expect("(")
        head = self.next()
        if head == "v":
            name = self.next()
            if not re.fullmatch(r"[a-z][a-z0-9]*", name):
                self.fail("bad variable name %r" % name)
            r = ("v", name)
        elif head == "c":
            lit = self.next()
            if not re.fullmatch(r"-?[0-9]+", lit):
                self.fail("bad integer literal %r" % lit)
            r = ("c", int(lit))
        elif head == "u":
            r = ("u",)
        elif head == "neg":
            r = ("neg", self.term())
        elif head in BINOPS:
            a = self.term()
            b = self.term()
            r = (head, a, b)
        else:
            self.fail("unknown operator %r" % head)
        self.expect(")")
        return r

    def terms(self):
        out = []
        while self.i < len(self.toks):
            out.append(self.term())
        return out


def variables(t, acc):
    stack = [t]
    while stack:
        t = stack.pop()
        if t[0] == "v":
            acc.add(t[1])
        elif t[0] in ("c", "u"):
            pass
        else:
            stack.extend(t[1:])
    return acc


def gallina(t):
    """The term in the notations of Scalar.v (F_scope); fully parenthesised."""
    k = t[0]
    if k == "v":
        return t[1]
    if k == "c":
        return "fofZ %d%%Z" % t[1] if t[1] >= 0 else "fofZ (%d)%%Z" % t[1]
    if k == "neg":
        return "(- %s)" % gallina_arg(t[1])
    if k in BINOPS:
        return "(%s %s %s)" % (gallina_arg(t[1]), BINOPS[k], gallina_arg(t[2]))
    raise AssertionError(k)


def gallina_arg(t):
    s = gallina(t)
    return "(%s)" % s if t[0] == "c" else s


# ------------------------------------------------------------------------------------------------
def source_key(inc):
    import hashlib
    h = hashlib.sha256()
    files = [SRC, os.path.join(os.path.dirname(SRC), "symkern_sym.h"), os.path.abspath(__file__)]
    for root, _, fs in os.walk(inc):
        files += [os.path.join(root, f) for f in fs]
    for f in sorted(files):
        h.update(f.encode() + b"\0")
        with open(f, "rb") as fh:
            h.update(fh.read())
    return h.hexdigest()[:24]


def build_and_run():
    """the program is rebuilt and re-run whenever a header, cpp/symkern.cpp or this script changed (content hash);
    otherwise the recorded output of the run on exactly these sources is reused"""
    os.makedirs(BUILD, exist_ok=True)
    inc = os.path.join(REPO, "include")
    if not os.path.isdir(os.path.join(inc, "bspline")):
        die(2, "no library headers under %s (VERIF_REPO=%s)" % (inc, REPO))
    cache = os.path.join(BUILD, "out-" + source_key(inc) + ".txt")
    if os.path.exists(cache) and not os.environ.get("VERIF_NO_CACHE"):
        with open(cache) as f:
            lines = f.read().splitlines()
        if lines and lines[-1] == "END":
            return lines[:-1]
    lines = build_and_run_uncached(inc)
    with open(cache, "w") as f:
        f.write("\n".join(lines + ["END"]) + "\n")
    return lines


def build_and_run_uncached(inc):
    exe = os.path.join(BUILD, "symkern")
    if os.path.exists(exe):
        os.remove(exe)
    cmd = [CXX] + CXXFLAGS + ["-I" + inc, SRC, "-o", exe]
    p = subprocess.run(cmd, stdout=subprocess.PIPE, stderr=subprocess.STDOUT, universal_newlines=True)
    if p.returncode != 0 or not os.path.exists(exe):
        log = os.path.join(BUILD, "compile.log")
        with open(log, "w") as f:
            f.write(p.stdout)
        lines = p.stdout.splitlines()
        errs = []
        for l in lines:
            if re.search(r"\berror\b", l) and l not in errs:
                errs.append(l)
        shown = errs[:8] + (["... (%d more error lines)" % (len(errs) - 8)] if len(errs) > 8 else [])
        die(2, "cpp/symkern.cpp does NOT COMPILE against %s (full log: %s):\n  %s\n%s"
            % (inc, log, " ".join(cmd), "\n".join(shown or lines[:20])))
    if os.path.exists(os.path.join(BUILD, "compile.log")):
        os.remove(os.path.join(BUILD, "compile.log"))
    p = subprocess.run([exe], stdout=subprocess.PIPE, stderr=subprocess.PIPE, universal_newlines=True)
    if p.returncode != 0:
        done = [l.split()[1] for l in p.stdout.splitlines() if l.startswith("KERNEL ")]
        die(3, "the kernel program CRASHED (exit status %d) after instance %s:\n%s"
            % (p.returncode, done[-1] if done else "<none>", p.stderr[-2000:]))
    lines = p.stdout.splitlines()
    if not lines or lines[-1] != "END":
        die(3, "the kernel program did not run to completion (no END marker)")
    return lines[:-1]


def collect(lines):
    """name -> list of parsed terms; dies on BRANCH / UNINIT / EXCEPTION."""
    got = {}
    order = []
    bad = []
    for line in lines:
        m = re.match(r"KERNEL (\S+) (\S+) ?(.*)$", line)
        if not m:
            die(5, "unexpected output line: %r" % line[:200])
        name, tag, rest = m.groups()
        if name in got or any(name == b[0] for b in bad):
            die(5, "instance %s reported twice" % name)
        if tag in ("BRANCH", "UNINIT", "EXCEPTION"):
            bad.append((name, tag, rest))
            continue
        if not re.fullmatch(r"[0-9]+", tag):
            die(5, "instance %s: bad result count %r" % (name, tag))
        ts = Parser(rest, name).terms()
        if len(ts) != int(tag):
            die(5, "instance %s: announces %s results, prints %d" % (name, tag, len(ts)))
        got[name] = ts
        order.append(name)
    if bad:
        msg = ["%d instance(s) did not yield a term:" % len(bad)]
        for name, tag, rest in bad:
            why = {"BRANCH": "the kernel compared scalar values (the term would not describe every run)",
                   "UNINIT": "a result depends on a default-constructed scalar",
                   "EXCEPTION": "the kernel threw"}[tag]
            msg.append("  %-14s %-9s %s: %s" % (name, tag, why, rest[:160] + (" ..." if len(rest) > 160 else "")))
        die(4, "\n".join(msg))
    return got


def generate(got):
    fams = families()
    expected = [n for n, _ in fams]
    missing = [n for n in expected if n not in got]
    extra = [n for n in got if n not in set(expected)]
    if missing or extra:
        die(5, "instance list mismatch: missing %s; unexpected %s" % (missing or "-", extra or "-"))

    per = {}        # instance -> (definition text, lemma text, statement)
    for name, d in fams:
        ts = got[name]
        used = set()
        for t in ts:
            variables(t, used)
        unknown = sorted(used - set(d["vars"]))
        if unknown:
            die(5, "instance %s: the term mentions undeclared variable(s) %s" % (name, unknown))
        if d["shape"] == "scalar":
            if len(ts) != 1:
                die(5, "instance %s: expected one result, got %d" % (name, len(ts)))
            body, ty = gallina(ts[0]), "F"
            if ts[0][0] == "c":
                body = "(%s)" % body
        else:
            body, ty = "[" + ";\n     ".join(gallina(t) for t in ts) + "]", "list F"
        binder = " (%s : F)" % " ".join(d["vars"]) if d["vars"] else ""
        deftext = "  (* %s *)\n  Definition k_%s%s : %s :=\n    %s.\n" % (d["cxx"], name, binder, ty, body)

        app = "k_%s" % name + "".join(" " + v for v in d["vars"])
        if d["vars"]:
            app = "(%s)" % app
        rhs = "Ok %s" % app if d["wrap"] == "ok" else app
        quant = "forall %s : F, " % " ".join(d["vars"]) if d["vars"] else ""
        annot = "" if d["vars"] or d["wrap"] == "ok" else " :> F"
        stmt = "%s%s = %s%s" % (quant, d["call"], rhs, annot)
        lemma = ("Lemma k_%s_ok {F} {K : Ops F} {L : Laws K} :\n  %s.\nProof. kern_tac. Qed.\n" % (name, stmt))
        per[name] = (deftext, lemma, stmt)

    head = """(* %s — GENERATED by gen/symkern.py on every run; do not edit.
   Each k_<instance> is the arithmetic expression the real C++ template computes, obtained by
   compiling and running include/bspline (internal/misc.h, integration/LinearForm.h,
   integration/BilinearForm.h, operators/Derivative.h, operators/Position.h) over the symbolic
   scalar type of cpp/symkern.cpp: variables are named, `static_cast<T>(c)` is `fofZ c`, a
   compound assignment `x op= y` is `x op y`.  No kernel compared scalar values and no result
   depends on a default-constructed scalar (the generator refuses to write this file otherwise),
   so each term describes the computation for every scalar type.
   Each k_<instance>_ok states that the hand-written model function, applied to the same symbolic
   arguments, yields that expression's value in every ordered field; the proof script is fixed
   (kern_tac, coq/Proofs_KernelTac.v).  kernels_<family>_agree is the conjunction of a family's
   statements.  Families in this file: %s; %d instances. *)
From Coq Require Import List ZArith NArith.
From BSpl Require Import Scalar Outcome Support Poly Spline Ops Forms Proofs_KernelTac.
Import ListNotations.

Section KernelGen.
  Context {F : Type} {K : Ops F}.
  Local Open Scope F_scope.

"""
    mid = """End KernelGen.

"""

    def nest(xs):
        return xs[0] if len(xs) == 1 else "(conj %s %s)" % (xs[0], nest(xs[1:]))

    files = {}
    for fname, famlist in FILES:
        members = [n for n, _ in fams if n.split("_")[0] in famlist]
        defs = [per[n][0] for n in members]
        lemmas = [per[n][1] for n in members]
        summaries = []
        for fam in famlist:
            mem = [n for n in members if n.split("_")[0] == fam]
            conj = " /\\\n    ".join("(%s)" % per[n][2] for n in mem)
            proof = nest(["(@k_%s_ok F K L)" % n for n in mem])
            summaries.append("(* %d instances *)\nDefinition kernels_%s_agree : Prop :=\n  forall (F : Type) (K : Ops F) (L : Laws K),\n    %s.\n"
                             "Lemma kernels_%s_agree_ok : kernels_%s_agree.\nProof. intros F K L. exact %s. Qed.\n"
                             % (len(mem), fam, conj, fam, fam, proof))
        tail = "\nPrint Assumptions k_%s_ok.\n" % members[-1]
        files[fname] = (head % (fname, " ".join(famlist), len(members)) + "\n".join(defs) + mid + "\n".join(lemmas)
                        + "\n" + "\n".join(summaries) + tail)
    return files


# generated file -> families (a broken kernel only breaks the file, and the property, it belongs to)
FILES = [("KernelGen_eval.v", ["eval"]), ("KernelGen_arr.v", ["add", "chsize"]),
         ("KernelGen_misc.v", ["faculty", "facratio", "binom"]), ("KernelGen_big.v", ["bigfaculty", "bigfacratio", "bigbinom"]), ("KernelGen_der.v", ["der"]),
         ("KernelGen_pos.v", ["pos"]), ("KernelGen_lin.v", ["lin"]), ("KernelGen_bi.v", ["bi"])]


def main():
    ap = argparse.ArgumentParser(description=__doc__, formatter_class=argparse.RawDescriptionHelpFormatter)
    ap.add_argument("--out", metavar="DIR", default=DEFAULT_OUT, help="directory for KernelGen.v")
    ap.add_argument("--print", dest="print_", action="store_true", help="print to stdout, write nothing")
    args = ap.parse_args()

    files = generate(collect(build_and_run()))
    if args.print_:
        for fname, text in files.items():
            sys.stdout.write(text)
        return
    os.makedirs(args.out, exist_ok=True)
    for fname, text in files.items():
        path = os.path.join(args.out, fname)
        old = None
        if os.path.exists(path):
            with open(path) as f:
                old = f.read()
        if old != text:
            with open(path, "w") as f:
                f.write(text)
            print("symkern.py: wrote %s" % path)
    print("symkern.py: %d instances in %d files under %s" % (len(families()), len(files), args.out))


if __name__ == "__main__":
    main()
